"""C08 — runtime values survive serialization unchanged (spec/ckpt/JsonSem.tla +
JsonVectors.tla; real port / engine / component checkpoints of every library message,
event and State type)."""
import collections, os, re
from vlib import core

LEVEL = "exploration"
TECHNIQUE = ("TLC enumerates value-class vectors over the field kinds the library's message, event and State types are "
             "made of (int, uint, string, bytes, slice, map, bool, embedded Buffer/Pipeline/LRU set — the containers also in "
             "interrupted states: Buffer after pops/UpdateFront, Pipeline with items mid-flight and dwell counts, LRU set after "
             "evictions without a following visit, and drained): all vectors with up to "
             "2 (quick) / 3 (thorough) coordinates away from the base classes, and checks on the model of an encoding/json "
             "round trip (JsonSem!RT) that the only kinds that do not come back equal are invalid-UTF-8 strings and "
             "empty-but-not-nil omitempty collections. A reflection-driven instantiator builds, for every message type of "
             "every DefineProtocol protocol (from Protocol.Messages()), every RegisterEvent event type and every library "
             "component State, a concrete value per vector (plus seeded per-position class choices), and round-trips it "
             "through the real path: messages inside a real port (SaveCheckpoint/LoadCheckpoint into a rebuilt port), events "
             "in a real SerialEngine queue (loaded into a rebuilt engine and run), State inside a real modeling.Component "
             "built by the real builder with the package's own Spec/State/Resources (and, for four State types, a real "
             "modeling.EventDrivenComponent). Every checkpoint is restored three ways: into a rebuilt object, into an object of "
             "the same type that already holds a different value W (other map keys, longer slices, non-empty omitempty fields, "
             "other container content, other buffered messages, another clock), and back into the saved live object after it "
             "was changed to W; the result must equal the saved value each time — nothing of W may survive. A source scan fails the check as broken "
             "when a DefineProtocol/RegisterMsg/RegisterEvent/NewBuilder call site is not covered by the lists.")
LEVEL_TEXT = "bounded exploration of boundary value classes on every listed type; real checkpoint paths"
LEVEL_NOTE = ("Input-space property at the edge of the technique: the model only organises the space of values and predicts "
              "which classes cannot survive; values are synthetic (class vectors, not states reached by workloads), strings "
              "and byte slices are sampled by class, not enumerated.")

# call sites the lists in harness/internal/drivers/jsonmodel/lib.go cover (path -> number of calls)
EXPECT = {
    "DefineProtocol": {"noc/packetization/flit.go": 1, "noc/acceptance/test.go": 1, "mem/datamoverprotocol/protocol.go": 1,
                       "mem/memprotocol/protocol.go": 1, "mem/vm/vmprotocol/protocol.go": 1, "mem/memcontrolprotocol/protocol.go": 1},
    "RegisterMsg": {},
    "RegisterEvent": {"timing/eventcodec.go": 1, "modeling/eventcodec.go": 2},
}
# component builder instantiations outside modeling/ and examples/; value = why it is not round-tripped (None = covered)
BUILDERS = {
    "noc/networking/switching/endpoint/builder.go": None, "noc/networking/switching/switches/builder.go": None,
    "noc/directconnection/builder.go": None, "mem/acceptancetests/memaccessagent/builder.go": None,
    "mem/cache/writeback/builder.go": None, "mem/cache/writethroughcache/builder.go": None, "mem/rob/builder.go": None,
    "mem/idealmemcontroller/builder.go": None, "mem/vm/tlb/builder.go": None, "mem/vm/gmmu/builder.go": None,
    "mem/vm/addresstranslator/builder.go": None, "mem/vm/mmu/builder.go": None, "mem/vm/mmuCache/builder.go": None,
    "mem/simplebankedmemory/builder.go": None, "mem/dram/builder.go": None, "mem/datamover/builder.go": None,
    "mem/acceptancetests/pagemigration/migrationcontroller.go":
        "acceptance-test program with unexported Spec/State types (migSpec/migState): cannot be named outside its package",
}


def scan_sources(repo):
    """Call sites of the registration functions in non-test Go files."""
    found = {k: collections.Counter() for k in EXPECT}
    builders = collections.Counter()
    for root, dirs, files in os.walk(repo):
        dirs[:] = [d for d in dirs if not d.startswith(".") and d not in ("node_modules", "vendor")]
        for fn in files:
            if not fn.endswith(".go") or fn.endswith("_test.go"):
                continue
            path = os.path.join(root, fn)
            rel = os.path.relpath(path, repo)
            try:
                with open(path, errors="replace") as f:
                    lines = f.readlines()
            except OSError:
                continue
            for line in lines:
                code = line.split("//")[0]
                for name in EXPECT:
                    for m in re.finditer(r"(?<![\w.\"])(?:\w+\.)?%s\(" % name, code):
                        if re.search(r"func\s+%s\(" % name, code):
                            continue
                        found[name][rel] += 1
                if re.search(r"\bNew(EventDriven)?Builder\[", code) and not rel.startswith(("modeling/", "examples/")):
                    builders[rel] += 1
    return found, builders


def run(ck):
    quick = ck.tier == "quick"
    found, builders = scan_sources(core.REPO)
    stale = []
    for name, exp in EXPECT.items():
        if dict(found[name]) != exp:
            stale.append("%s call sites %s, lists cover %s" % (name, dict(found[name]), exp))
    if set(builders) != set(BUILDERS):
        stale.append("component builder instantiations %s, lists cover %s" % (sorted(builders), sorted(BUILDERS)))
    if stale:
        raise core.Broken("the type lists of the C08 driver are stale (update harness/internal/drivers/jsonmodel/lib.go and "
                          "checks/c08.py): " + "; ".join(stale))

    cfg = "JsonVectors_q.cfg" if quick else "JsonVectors_t.cfg"
    r = ck.run_tlc(["ckpt"], "JsonVectors", cfg, workers=4, timeout=120 if quick else 300)
    if not r.ok:
        raise core.Broken("JsonVectors.tla: the model's own lemma fails (%s %s)\n%s" % (r.violated, r.error, "\n".join(r.lines[-20:])))
    cases = r.tagged["CASE"]
    vectors = [c["vec"] for c in cases]
    if len(vectors) < 100:
        raise core.Broken("JsonVectors emitted only %d vectors" % len(vectors))
    predicted = {core.canon(c["vec"]): set(c["loss"]) for c in cases}
    devs = {core.canon(c["vec"]): c["dev"] for c in cases}

    binary = ck.binary("jsonmodel")
    n_seeded = 20 if quick else 650
    out = core.harness(binary, "library", {"vectors": vectors, "seeded": n_seeded, "seed": ck.seed}, timeout=480)
    types = {t["name"]: t for t in out["types"]}
    covered = {t["where"] for t in out["types"]}
    want_where = set(EXPECT["DefineProtocol"]) | set(EXPECT["RegisterEvent"]) | {k for k, v in BUILDERS.items() if v is None}
    if covered != want_where:
        raise core.Broken("driver covers call sites %s, scan expects %s" % (sorted(covered ^ want_where), "the same set"))
    if out["containers_without_maker"]:
        raise core.Broken("State types embed encapsulated containers the driver cannot build: %s" % out["containers_without_maker"])
    if not out.get("container_probes"):
        raise core.Broken("no behavioural probe of an embedded container was run")
    ck.cov["container_probes"] = out["container_probes"]
    if out["failure_count"] != len(out["failures"]):
        raise core.Broken("failure list truncated (%d of %d)" % (len(out["failures"]), out["failure_count"]))

    ck.cov["rule"] = ("one case = one concrete value of one library type (message / event / State) taken through its real "
                      "checkpoint path and compared with the original by type and reflect.DeepEqual semantics (nil vs empty "
                      "and unexported fields count; inside Buffer/Pipeline/lruset.Set a nil and an empty internal collection "
                      "are the same value; equal containers are additionally probed behaviourally on deep copies: drain order of a Set "
                      "and of a Buffer, tick-by-tick output of a Pipeline, original vs restored), after each of the three restores (fresh / dirty_target / same_live). Non-trivial = the value "
                      "differs from the all-base vector.")
    ck.assumptions += [
        "values are synthetic: one class per field kind (TLC vectors) or per position (seeded); states reached by workloads are not replayed",
        "fields documented as not checkpointed are left zero: %s" % ", ".join(out["not_checkpointed_fields"]),
        "not covered: %s" % "; ".join("%s (%s)" % (k, v) for k, v in BUILDERS.items() if v),
        "examples/ and _test.go files define their own components/messages and are not library types",
        "events are compared after the rebuilt engine dispatched them (same concrete type, same fields); queue order is C01/C02's subject",
    ]
    n_types = len(types)
    ck.cov["types"] = {k: sum(1 for t in types.values() if t["kind"] == k) for k in ("msg", "event", "state")}
    ck.cov["vectors"] = len(vectors)
    ck.cov["seeded_values_per_type"] = n_seeded
    ck.cov["container_types"] = out["container_types"]
    ck.cov["tolerated_nil_vs_empty_inside_containers"] = out["tolerated_nil_vs_empty_inside_containers"]
    ck.cov["traces_validated_against_impl"] += out["evaluations"]
    ck.cov["evaluations"] += out["evaluations"]
    ck.cov["distinct_nontrivial"] += out["evaluations"] - 2 * n_types   # minus the zero and the all-base value of each type

    # real outcome vs the model's prediction, per (type, vector)
    failing = collections.defaultdict(set)
    unpredicted = []
    for f in out["failures"]:
        if f.get("vector") and "all" not in f["vector"]:
            k = core.canon(f["vector"])
            failing[f["type"]].add(k)
            loss = predicted[k]
            explained = (f["feature"] == "nonutf8_string" and "string" in loss) or \
                        (f["feature"] == "omitempty_collection" and loss & {"bytes_omitempty", "slice_omitempty"})
            if not explained:
                unpredicted.append(f)
    for name, t in types.items():
        feats = set(t["features"])
        # the single-deviation vectors the model says must lose data do lose it on types that have such fields
        # (an omitempty slice nested in another slice is only reached by the seeded per-position values: a vector gives
        # every slice the same class, so an empty inner slice comes with an empty outer one)
        for coord, cls, need in (("string", "nonutf8", {"string"}), ("bytes", "empty", {"omitempty_bytes"})):
            single = [v for v in vectors if v[coord] == cls and devs[core.canon(v)] == 1]
            for v in single:
                if feats & need and core.canon(v) not in failing[name]:
                    raise core.Broken("model predicts a loss for %s on vector %s but the real round trip of it is clean: the "
                                      "instantiator does not reach such a field" % (name, v))
    ck.cov["failures_not_predicted_by_the_model"] = len(unpredicted)

    by_feature = collections.Counter()
    for f in out["failures"]:
        if f["feature"] == "harness":
            raise core.Broken("driver failure on %s: %s" % (f["type"], f["detail"]))
        gotype = types[f["type"]]["go_type"]
        key = {"feature": f["feature"], "type": gotype, "path": f["path"], "variant": f["variant"]}
        by_feature[(f["feature"], f["path"] + ":" + f["variant"])] += 1
        desc = "%s (%s checkpoint, restore variant %s): value built from %s does not come back equal: %s" % (
            f["type"], f["path"], f["variant"], f.get("vector") or f.get("seeded"), f["detail"])
        ck.report(key, desc, {"driver": "library", "type": f["type"], "variant": f["variant"], "vector": f.get("vector"), "seeded": f.get("seeded"),
                              "seed": ck.seed, "detail": f["detail"]})
    ck.cov["failures_by_feature_and_path"] = {"%s/%s" % k: v for k, v in by_feature.items()}
    for name in list(types)[:: max(1, n_types // 5)][:5]:
        t = types[name]
        ck.sample({"type": name, "go_type": t["go_type"], "path": t["path"], "values": t["values"], "loss_relevant_fields": t["features"]})
    ck.note("%d types (%s), %d vectors + %d seeded values each = %d round trips; failures %s; %d not predicted by the model" % (
        n_types, ck.cov["types"], len(vectors), n_seeded, out["evaluations"], dict(ck.cov["failures_by_feature_and_path"]), len(unpredicted)))
