"""C15 — pipelines conserve items, respect lanes and never strand an item
(spec/container/Pipeline.tla, drivers ports/pipeline and ports/tlb)."""
import json
from vlib import core, ndfollow

LEVEL = "model_checking"
TECHNIQUE = ("TLA+ specification of the intended pipeline (lanes x stages, per-item delay, sink with room for k items per "
             "tick; non-deterministic where the statement leaves a choice) model-checked by TLC for Conservation, "
             "LaneExclusive, LatencyExact, OneLaneFifo and, under weak fairness of full-room ticks, NeverStranded; the complete "
             "bounded state graph is then followed on the real queueing.Pipeline (every observed result and Stages() snapshot must "
             "match an allowed specification edge), and the real TLB (mem/vm/tlb builder, latencies 1..5) is driven end to end "
             "with translation requests, by hand-ticking and under the serial engine with a direct connection")
LEVEL_TEXT = ("exhaustive within bounds: all reachable states of Pipeline.tla for width 1..2 x stages 1..3 x delay 0..2 x 3 items "
              "(quick) / width 1..3, 4 items (thorough), every sink-room value 0..width per tick; every specification state the "
              "real pipeline can reach is expanded with every enabled operation (specification edges of alternatives the real code "
              "never takes, e.g. another free lane, cannot be exercised), plus seeded online random walks")
LEVEL_NOTE = ("behaviour when Accept is called although CanAccept() is false is outside the statement and not exercised; "
              "CycleLeft (the dwell counter) and Tick's boolean result are not compared; once a single-stage pipeline holds an "
              "item with a positive delay (known finding W2) the rest of that history is not explored")


def pipe_key(m):
    ctx = m.get("ctx") or {}
    diag = m.get("diag") or {}
    op = (m.get("op") or {}).get("op")
    k = {"route": "pipeline", "op": op, "stages": ctx.get("s"), "width": ctx.get("w"), "class": m.get("kind")}
    if op == "tick" and diag.get("under_emission") and diag.get("withheld"):
        if diag.get("never_emitted"):
            k["class"] = "never_emitted"
            ds = diag.get("never_emitted_delays") or []
        else:
            k["class"] = "late_emission"
            ds = diag.get("withheld_delays") or []
        k["dwell"] = "positive" if ds and all(d > 0 for d in ds) else "zero"
    elif op == "tick" and diag.get("unexpected"):
        k["class"] = "unexpected_emission"
    return k


def tlb_cases(ck):
    rng = ck.rng
    lats = [1, 2, 3, 4] if ck.tier == "quick" else [1, 2, 3, 4, 5]
    widths = [1, 2, 4]
    cases = []
    for lat in lats:
        for w in widths:
            pats = [[1], [1, 2, 1, 3]]
            n_rand = 2 if ck.tier == "quick" else 8
            for _ in range(n_rand):
                pats.append([rng.randint(1, 6) for _ in range(rng.randint(2, 10))])
            for p in pats:
                cases.append({"mode": "manual", "latency": lat, "width": w, "requests": p,
                              "low_delay": rng.randint(0, 3), "budget": 60 + 30 * len(p)})
                cases.append({"mode": "engine", "latency": lat, "width": w, "requests": p, "low_delay": 0, "budget": 0})
    return cases


def run(ck):
    q = ck.tier == "quick"
    # 1. safety properties of the specification + the state graph
    g, r = ndfollow.graph_from_tlc(ck, ["container"], "Pipeline", "Pipeline_q.cfg" if q else "Pipeline_t.cfg",
                                   workers=8, timeout=240 if q else 900)
    if not q:
        # thorough: Pipeline_t.cfg only emits the graph (VIEW on the behaviour-relevant part of the state); the statement's
        # properties are checked on the full state space, history variables included, by a second run
        pr = ck.run_tlc(["container"], "Pipeline", "Pipeline_prop_t.cfg", workers=8, timeout=900)
        if not pr.ok:
            raise core.Broken("Pipeline.tla violates its own properties: %s %s" % (pr.violated, pr.error))
    # 2. liveness of the specification (no VIEW, no state constraint)
    lr = ck.run_tlc(["container"], "Pipeline", "Pipeline_live_q.cfg" if q else "Pipeline_live_t.cfg",
                    workers=4 if q else 8, timeout=240 if q else 900)
    if not lr.ok:
        raise core.Broken("Pipeline.tla does not satisfy NeverStranded under fair full-room ticks: %s %s" % (lr.violated, lr.error))
    ck.cov["exhaustive"] = True
    ck.cov["rule"] = ("TLC checks TypeOK, Conservation, LaneExclusive, LatencyInv/LatencyExact (= stages + delay ticks after acceptance "
                      "while the sink always had room), OneLaneFifo on the complete graph of Pipeline.tla and NeverStranded (liveness, "
                      "weak fairness of ticks with full room) on a second configuration. The part of that graph the real queueing.Pipeline[int] can "
                      "reach is explored breadth first - every state reached is expanded with every enabled operation (canaccept / accept "
                      "/ acceptd(d) / tick(k = sink room)), each on a fresh pipeline replaying the first-found path, with a sink that has "
                      "room for exactly k items in that tick - followed by seeded online random walks; after every step the items that reached the sink in this tick and "
                      "the Stages() snapshot (item, lane, stage) must equal one of the alternatives the specification allows (free lane "
                      "choice; which ready items leave under partial room). A withheld item is probed with 64 further full-room ticks to "
                      "tell 'late' from 'never'. TLB route: every (latency, width, request pattern, lower-level delay) case must have all "
                      "requests answered with the right page; an unanswered request counts against C15 only if it is still inside the "
                      "TLB's pipeline or its sink buffer. Non-trivial = distinct specification edge exercised on the real pipeline that is a delayed "
                      "accept, a tick that sends something to the sink, or a tick whose sink has no room.")
    ck.assumptions += ["items are ints numbered in acceptance order; one goroutine",
                       "Accept/AcceptWithDelay are only called when the specification has a free first-stage lane",
                       "the first tick after an acceptance counts as tick 1 of the item's latency (acceptance happens between ticks)",
                       "under a blocked sink the specification requires lock-step movement: an item advances exactly when the slot ahead "
                       "in its lane is free after the items ahead have moved in that tick (TLC shows the same-tick move is forced by "
                       "LatencyExact for back-to-back items)"]
    walks, wl = (300, 40) if q else (2000, 60)
    out, edges = ndfollow.follow(ck, g, "ports", "pipeline", config={}, walks=walks, walk_len=wl, timeout=600 if q else 1800)
    ck.cov["spec_edges"] = len(edges)
    ck.cov["spec_edges_exercised_on_real_pipeline"] = len(out["covered_edges"])
    ck.cov["real_reachable_states_explored"] = out.get("explored_states", 0)
    ck.cov["real_reachable_transitions_explored"] = out.get("explored_transitions", 0)
    # non-trivial count: distinct covered edges that are ticks with something in flight or delayed accepts
    nt = 0
    for ei in out["covered_edges"]:
        e = edges[ei]
        a = e["a"]
        if (a["op"] == "acceptd" and a["arg"] > 0) or (a["op"] == "tick" and (a["res"] or a["arg"] == 0)):
            nt += 1
    ck.cov["distinct_nontrivial"] += nt
    classes = {}
    for m in out["mismatches"]:
        key = pipe_key(m)
        ck.report(key, ndfollow.describe(m), {"driver": "pipeline", "init": m.get("init"), "steps": m.get("prefix"),
                                               "allowed": m.get("want"), "got": m.get("got"), "diag": m.get("diag"), "ctx": m.get("ctx")})
        ck2 = json.dumps({k: key[k] for k in ("stages", "class", "dwell") if k in key}, sort_keys=True)
        classes[ck2] = classes.get(ck2, 0) + 1
    ck.cov["pipeline_mismatch_classes"] = classes
    if classes:
        ck.note("pipeline mismatch classes: %s" % json.dumps(classes))

    # 3. the TLB route
    cases = tlb_cases(ck)
    res = []
    for mode in ("manual", "engine"):
        try:
            res += core.harness(ck.binary("ports"), "tlb", {"cases": [c for c in cases if c["mode"] == mode]}, timeout=240)["results"]
        except core.Broken as e:
            # a pipeline that duplicates or loses items can keep the TLB busy forever; if the pipeline replay already
            # produced contradictions, report those instead of calling the check broken
            if ck.violations and "timed out" in str(e):
                ck.note("TLB route (%s mode) did not terminate: %s" % (mode, e))
                continue
            raise
    ck.cov["tlb_cases"] = len(res)
    ck.cov["traces_validated_against_impl"] += len(res)
    bad_by_lat = {}
    inconclusive = 0
    for rr in res:
        c = rr["case"]
        if rr.get("panic"):
            ck.report({"route": "tlb", "latency": c["latency"], "class": "panic"},
                      "TLB (latency %d, width %d) panicked: %s" % (c["latency"], c["width"], rr["panic"]), {"driver": "tlb", "case": c, "result": rr})
            continue
        if rr.get("wrong_page"):
            ck.report({"route": "tlb", "latency": c["latency"], "class": "wrong_page"},
                      "TLB answered with a wrong page: %s" % json.dumps(rr), {"driver": "tlb", "case": c, "result": rr})
            continue
        if rr.get("unanswered"):
            if rr.get("in_pipeline") or rr.get("in_pipeline_sink_buffer"):
                bad_by_lat[c["latency"]] = bad_by_lat.get(c["latency"], 0) + 1
                ck.report({"route": "tlb", "latency": c["latency"], "class": "request_stuck_in_pipeline"},
                          "TLB with latency %d width %d (%s mode): requests %s never answered; still inside the TLB pipeline: %s" % (
                              c["latency"], c["width"], c["mode"], rr["unanswered"], json.dumps(rr.get("in_pipeline"))),
                          {"driver": "tlb", "case": c, "result": rr})
            else:
                inconclusive += 1   # stuck outside the pipeline: not a matter of this property
        elif len(ck.cov["samples"]) < 6 and c["latency"] in (2, 3) and len(c["requests"]) > 1:
            ck.sample({"tlb_case": c, "answered_at": rr["answered"]})
    ck.cov["tlb_unanswered_by_latency"] = bad_by_lat
    ck.cov["tlb_unanswered_outside_pipeline"] = inconclusive
    ck.note("TLB route: %d cases, unanswered-in-pipeline by latency %s, unanswered outside the pipeline %d" % (
        len(res), json.dumps(bad_by_lat), inconclusive))
