"""C38 — outbound LLM connections never reach internal addresses (spec/daisen/SSRF.tla)."""
import ipaddress, re, socket
from vlib import core, daisen

LEVEL = "model_checking"
TECHNIQUE = ("TLA+ model of an outbound request as a chain of hops (configured endpoint, redirects), each presented as an address "
             "literal in one of its spellings or as a name whose answers change from lookup to lookup, vetted and dialled (or handed "
             "to a proxy); TLC checks NeverConnectInternal on the model (a naive variant is the negative control) and enumerates every "
             "case; each case is played against the real guardLLMURL, guardedDialContext, CheckRedirect and the real /api/models and "
             "/api/gpt handlers with a scripted DNS server behind net.DefaultResolver and a listener on every local address")
LEVEL_TEXT = ("Exhaustive over the enumerated grammar: address table (internal classes, just-outside neighbours, translation "
              "prefixes) x spellings x URL shapes x answer sequences (static, mixed, rebinding at dial time / at the redirect check) "
              "x redirects x AllowPrivate x direct/proxy. The verdict is what the listener, the dialer and the proxy saw.")
LEVEL_NOTE = ("Finite table of addresses and spellings, not all of IPv4/IPv6; the Go resolver is used (PreferGo) so forms only a libc "
              "resolver reads as addresses (2130706433, 0x7f.1) are exercised as names that do not resolve. Internal addresses that are "
              "not configured on the machine (10/8, 169.254/16, ...) cannot accept: for those the evidence is the dial attempt "
              "(net.OpError) instead of an accepted connection. Only refusal is judged; TLS endpoints are not exercised.")

INTERNAL = {"loopback", "private", "linklocal", "unspecified"}


def free_port():
    s = socket.socket()
    s.bind(("127.0.0.1", 0))
    p = s.getsockname()[1]
    s.close()
    return p


def norm(ip):
    try:
        a = ipaddress.ip_address(ip.split("%")[0])
    except ValueError:
        return ip
    if a.version == 6 and a.ipv4_mapped is not None:
        return str(a.ipv4_mapped)
    return str(a)


def run(ck):
    binary = daisen.binary(ck)
    quick = ck.tier == "quick"
    disc = core.harness(binary, "ssrf", {"port": 0})
    sub = {"@PUB@": disc["pub"], "@ULA@": disc["ula"], "@LL6@": disc["ll6"], "@LLZ@": disc["ll_zone"]}
    if not disc["v6"]:
        sub["@ULA@"] = sub["@LL6@"] = ""
    sub["@CIRCLED127@"] = "\u2460\u2461\u2466"      # circled digits one, two, seven
    sub["@IDEODOT@"] = "\u3002"                      # ideographic full stop
    ck.cov["local_addresses"] = dict(sub, v6=disc["v6"])

    r = ck.run_tlc(["daisen"], "SSRF", "SSRF_q.cfg" if quick else "SSRF_t.cfg", workers=8, timeout=400)
    if not r.ok:
        raise core.Broken("SSRF.tla fails its own invariants: %s %s" % (r.violated, r.error))
    neg = ck.run_tlc(["daisen"], "SSRF", "SSRF_neg.cfg", workers=4, timeout=300)
    if neg.violated != "NeverConnectInternal":
        raise core.Broken("negative control lost: the naive (vet once, dial by name) model must violate NeverConnectInternal, got %s" % neg.violated)

    # class table of the specification, re-read from the cases (ip -> class travels with every hop)
    cls_of = {}

    def fill(text):
        for k, v in sub.items():
            if k in text:
                if not v:
                    return None
                text = text.replace(k, v)
        return text

    cases = {}
    for c in r.tagged["CASE"]:
        cases[core.canon(c)] = c
    cases = [cases[k] for k in sorted(cases)]
    # the spec's class table is exported by a tiny second TLC-free route: classes come with the module constants below
    table = spec_table()
    for ip, cl in table.items():
        f = fill(ip)
        if f:
            cls_of[norm(f)] = cl

    port = disc["port"]
    bound, skipped, unjudgeable = [], 0, 0
    for i, c in enumerate(cases):
        hops = []
        ok = True
        for k, h in enumerate(c["hops"]):
            if h["kind"] == "literal":
                host = fill(h["text"])
                name, answers = "", []
            else:
                host = "c%dh%d.test" % (i, k + 1)
                name = host
                answers = [[fill(x) for x in s] for s in h["answers"]]
                if any(x is None for s in answers for x in s):
                    ok = False
            if host is None or fill(h["ip"]) is None:
                ok = False
                break
            path = "/hop%d/v1/chat/completions" % (k + 1)
            shape = h.get("shape", "plain")
            hp = "%s:%d" % (host, port)
            tok = "?c=%d" % i      # marks the traffic of this case: only requests carrying it are attributed to the server
            u = {"plain": "http://%s%s%s" % (hp, path, tok),
                 "userinfo": "http://user@%s%s%s" % (hp, path, tok),
                 "userinfo_colon": "http://user:pw@%s%s%s" % (hp, path, tok),
                 "userinfo_at_public": "http://8.8.8.8:80@%s%s%s" % (hp, path, tok),
                 "fragment_at": "http://%s%s%s#@8.8.8.8/" % (hp, path, tok),
                 "query_at": "http://%s%s%s&next=@8.8.8.8/" % (hp, path, tok),
                 "upper_scheme": "HTTP://%s%s%s" % (hp, path, tok),
                 "path_at": "http://%s/hop%d/@8.8.8.8/v1/chat/completions%s" % (hp, k + 1, tok),
                 "no_path": "http://%s%s" % (hp, tok)}[shape]
            hops.append({"url": u, "name": name, "answers": answers})
        if not ok:
            skipped += 1
            continue
        # cases that cannot produce a judged observation are not played: with AllowPrivate on nothing is judged, so only chains
        # the listener can actually see are kept (positive control); a public address that is not ours can only time out
        targets = set()
        for h in c["hops"]:
            targets |= {fill(h["ip"])} | {fill(x) for s_ in h.get("answers", []) for x in s_}
        reachable = {"127.0.0.1", "127.8.9.10", "::1", "0.0.0.0", "::", sub["@PUB@"], sub["@ULA@"]}
        far_public = {t for t in targets if table_cls(table, sub, t) == "public" and t != sub["@PUB@"]}
        far_other = {t for t in targets if table_cls(table, sub, t) == "other" and t not in ("::127.0.0.1", "64:ff9b::7f00:1")}
        if (c["allow"] and not targets <= reachable) or (far_public and (quick or c["allow"])) or (quick and far_other):
            unjudgeable += 1
            continue
        bound.append({"id": i, "allow": c["allow"], "mode": c["mode"], "hops": hops, "spec": c})
    ck.cov["cases"] = len(cases)
    ck.cov["cases_skipped_no_local_address"] = skipped
    ck.cov["cases_not_played_nothing_to_judge"] = unjudgeable

    results = {}
    dns = 0
    for mode in ("direct", "proxy"):
        cs = [b for b in bound if b["mode"] == mode]
        if not cs:
            continue
        for attempt in range(3):
            pp = free_port()
            env = {}
            if mode == "proxy":
                env = {"HTTP_PROXY": "http://127.0.0.1:%d" % pp, "http_proxy": "http://127.0.0.1:%d" % pp, "NO_PROXY": "", "no_proxy": ""}
            else:
                env = {k: "" for k in ("HTTP_PROXY", "http_proxy", "HTTPS_PROXY", "https_proxy", "ALL_PROXY", "all_proxy", "NO_PROXY", "no_proxy")}
            try:
                out = core.harness(binary, "ssrf", {"mode": mode, "proxy_port": pp, "port": port, "timeout_ms": 60,
                                                    "cases": [{"id": b["id"], "allow": b["allow"], "hops": b["hops"]} for b in cs]},
                                   timeout=1500, env=env)
                break
            except core.Crashed as e:
                if "listener" in str(e) and attempt < 2:
                    port = core.harness(binary, "ssrf", {"port": 0})["port"]
                    for b in bound:
                        for h in b["hops"]:
                            h["url"] = h["url"].replace(":%d" % disc["port"], ":%d" % port)
                    disc["port"] = port
                    continue
                raise
        dns += out["dns_queries"]
        for res in out["results"]:
            results[res["id"]] = res

    ck.cov["rule"] = ("Every TLC case (AllowPrivate x direct/proxy x chain of 1-2 hops; a hop is an address literal in one spelling and URL "
                      "shape, or a name with a scripted answer sequence) is played against the real server: guardLLMURL / CheckRedirect and "
                      "guardedDialContext one by one, then POST /api/models and POST /api/gpt through the real handlers and guarded client. "
                      "With AllowPrivate off: no connection may be accepted on an address outside the public class, the dialer may not "
                      "attempt an internal address, and the proxy may not be handed a target that was internal when it was last vetted. "
                      "Non-trivial = case with AllowPrivate off whose chain contains an internal or unclassified address.")
    ck.assumptions += ["addresses: the finite table in SSRF.tla (Addrs/Spellings); @PUB@/@ULA@/@LL6@ are addresses of the machine running the check",
                       "DNS answers come from a scripted server behind net.DefaultResolver (pure Go resolver); /etc/hosts names (localhost) resolve as configured",
                       "proxy mode: HTTP_PROXY points at a recording proxy; what the proxy itself would resolve later is outside the server's control and not judged",
                       "refusing a public address is never an alarm"]

    by_id = {b["id"]: b for b in bound}
    nontriv = 0
    blind_ok = pub_ok = False
    n_contacts = n_dials = stray = 0
    for cid, res in sorted(results.items()):
        b = by_id[cid]
        spec = b["spec"]
        chain_cls = [cls_of.get(norm(fill(h["ip"])), "?") for h in spec["hops"]]
        last = spec["hops"][-1]
        if not b["allow"] and any(c != "public" for c in chain_cls):
            nontriv += 1
        contacts = res.get("contacts") or []
        dials = res.get("dials") or []
        handed = res.get("handed") or []
        n_contacts += len(contacts)
        n_dials += len(dials)
        if b["allow"] and last["kind"] == "literal" and last["ip"] == "127.0.0.1" and any(c["ip"] == "127.0.0.1" for c in contacts):
            blind_ok = True
        if not b["allow"] and len(spec["hops"]) == 1 and last["kind"] == "literal" and last["ip"] == "@PUB@" and b["mode"] == "direct" \
                and any(c["ip"] == sub["@PUB@"] for c in contacts):
            pub_ok = True
        if len(ck.cov["samples"]) < 6 and not b["allow"] and chain_cls[-1] in INTERNAL and (cid % 7 == 0):
            ck.sample({"allow": False, "mode": b["mode"], "urls": [h["url"] for h in b["hops"]], "answers": [h["answers"] for h in b["hops"]],
                       "layers": res.get("layers"), "contacts": contacts, "models_status": res["models_status"], "chat_status": res["chat_status"]})
        if b["allow"]:
            continue

        def key(what, cl, flow):
            h = last
            return {"prop": "NeverConnectInternal", "what": what, "cls": cl, "mode": b["mode"], "hops": len(spec["hops"]), "flow": flow,
                    "presentation": h["kind"], "spelling": h.get("tk", ""), "shape": h.get("shape", ""),
                    "answers": "/".join("+".join(sorted(cls_of.get(norm(fill(x)), "?") for x in s)) for s in h.get("answers", []))}

        for c in contacts:
            if not re.search(r"[?&]c=%d(&|$)" % cid, c.get("path") or ""):
                stray += 1      # a bare connection (the layer flow's own dial, judged below) or somebody else's traffic
                continue
            cl = cls_of.get(norm(c["ip"]), "unknown")
            if cl != "public":
                ck.report(key("accepted", cl, c["flow"]),
                          "with private endpoints not allowed, a connection reached %s (%s) — urls %s, DNS %s" % (
                              c["ip"], cl, [h["url"] for h in b["hops"]], [h["answers"] for h in b["hops"]]), replay_of(b, res))
        for d in dials:
            cl = cls_of.get(norm(d["ip"]), "unknown")
            if cl in INTERNAL:
                ck.report(key("dial_" + d["outcome"], cl, d["flow"]),
                          "with private endpoints not allowed, the dialer tried %s (%s) — urls %s, DNS %s" % (
                              d["addr"], cl, [h["url"] for h in b["hops"]], [h["answers"] for h in b["hops"]]), replay_of(b, res))
        for hd in handed:
            # which hop was it, and what did its host resolve to when the server last vetted it?
            for hop, sh in zip(b["hops"], spec["hops"]):
                if sh["kind"] == "name" and hop["name"] == hd["host"]:
                    k = max(1, min(hd["lookups"], len(hop["answers"])))
                    resolved = hop["answers"][k - 1]
                elif sh["kind"] == "literal" and norm(fill(sh["ip"])) == norm(hd["host"]):
                    resolved = [fill(sh["ip"])]
                else:
                    continue
                bad = [x for x in resolved if cls_of.get(norm(x), "unknown") in INTERNAL]
                if bad:
                    ck.report(key("handed_to_proxy", cls_of.get(norm(bad[0])), hd["flow"]),
                              "with private endpoints not allowed, the proxy was asked for %s which resolved to %s when vetted" % (hd["target"], resolved),
                              replay_of(b, res))
    if not blind_ok:
        raise core.Broken("positive control failed: with private endpoints allowed no connection to 127.0.0.1 was observed (listener blind?)")
    if sub["@PUB@"] and not pub_ok:
        ck.note("note: the public-class local address %s was not served with AllowPrivate off (refusing a public address is not judged)" % sub["@PUB@"])
    ck.cov["public_endpoint_served"] = pub_ok
    ck.cov["traces_validated_against_impl"] += len(results)
    ck.cov["evaluations"] += 3 * len(results)
    ck.cov["distinct_nontrivial"] += nontriv
    ck.cov["connections_observed"] = n_contacts
    ck.cov["bare_connections_not_attributed"] = stray
    ck.cov["dial_attempts_observed"] = n_dials
    ck.cov["dns_queries_answered"] = dns
    ck.cov["exhaustive"] = True
    ck.note("%d cases (%d skipped, %d with nothing to judge), %d played; %d accepted connections / requests, %d dial attempts, %d DNS queries" % (
        len(cases), skipped, unjudgeable, len(results), n_contacts, n_dials, dns))


def table_cls(table, sub, ip):
    for k, v in table.items():
        for ph, val in sub.items():
            k = k.replace(ph, val) if val else k
        if k == ip:
            return v
    return "?"


def replay_of(b, res):
    return {"driver": "ssrf", "mode": b["mode"], "case": {"id": b["id"], "allow": b["allow"], "hops": b["hops"]}, "spec_case": b["spec"], "observed": res}


def spec_table():
    """ip -> class as written in SSRF.tla (Addrs); parsed from the module text so that the table has one home."""
    import os, re
    txt = open(os.path.join(core.SPEC, "daisen", "SSRF.tla")).read()
    seg = txt[txt.index("Addrs == {"):txt.index("Cls(ip) ==")]
    t = dict(re.findall(r'\[ip \|-> "([^"]+)", cls \|-> "([a-z]+)"\]', seg))
    if len(t) < 30:
        raise core.Broken("could not read the address table of SSRF.tla")
    return t
