"""C02 — RunUntil boundaries do not change what runs or in what order (spec/engine/Engine.tla)."""
from checks import c01

LEVEL = "model_checking"
TECHNIQUE = c01.TECHNIQUE
LEVEL_TEXT = ("TLC enumerates every handler program x every non-decreasing sequence of RunUntil boundaries (between, at, beyond "
              "event times, repeated) within the bounds and checks RunUntilExact; each behaviour is replayed on the real engine "
              "comparing, after every RunUntil, the handled prefix, CurrentTime and the queued remainder, and the same program is run "
              "under a single Run and must handle the same events in the same order. Random programs with random boundaries are "
              "validated as traces by TLC.")
LEVEL_NOTE = c01.LEVEL_NOTE


def run(ck):
    ck.cov["rule"] = ("every complete behaviour of EngineGen.tla with up to MaxCalls RunUntil(b) calls, b in Bounds, before the final Run, "
                      "replayed on timing.SerialEngine (return time, queue lengths, handled order per call) and cross-checked against a "
                      "single Run of the same program; plus seeded random programs with random boundary sequences validated by EngineTrace.tla. "
                      "Non-trivial = at least 3 handled events.")
    ck.assumptions += ["boundary sequences are non-decreasing", "no events are scheduled from outside between calls"]
    if ck.tier == "quick":
        c01.replay(ck, "EngineGen_c02_q.cfg", 8, "C02")
        c01.traces(ck, 30, 200, True)
    else:
        c01.replay(ck, "EngineGen_c02_t.cfg", 16, "C02")
        c01.traces(ck, 300, 600, True)
    ck.cov["exhaustive"] = True
