"""C34 — aggregate tracers compute exact statistics (spec/tracing/TracerStats.tla)."""
import json, os
from vlib import core, tracecheck

LEVEL = "model_checking"
TECHNIQUE = ("TLA+ specification of the four statistics as functions of SETS of tasks (sum of durations, floor of "
             "sum/count, number of unit cells covered by the union of the intervals, bag of tag events), model-checked "
             "by TLC over every time-ordered start/end/tag stream within the bounds; every complete stream is replayed "
             "on the real TotalTimeTracer / AverageTimeTracer / BusyTimeTracer / TagCountTracer (through the tracing "
             "API with hooks and by direct method calls) and every getter is compared after every event; concurrent histories: "
             "seeded histories whose events of one instant are issued on ONE TotalTimeTracer / AverageTimeTracer / TagCountTracer by "
             "4-8 goroutines owning disjoint tasks (lined up by a spin barrier, a reader goroutine polling the getters meanwhile), "
             "every getter compared after every join with the set-based values, and the recorded rounds (a sample plus every "
             "mismatching one) judged by TLC with the trace specification TracerStatsTrace.tla, which loads the recorded set of tasks "
             "into TracerStats.tla and evaluates its own operators")
LEVEL_TEXT = ("Exhaustive within bounds: all streams of <=3 tasks (quick; any one task filtered out) or <=3 tasks with any "
              "filter pattern and 4 tracked tasks (thorough) with event times 0..5, every order of same-instant events; "
              "tag streams of <=3 tasks with <=3 tag events over two names. The verdict is the real tracers' getters. "
              "Concurrent histories are a lined-up stress (not exhaustive): tens of thousands of rounds per run, timing-free verdict.")
LEVEL_NOTE = ("Bounded: more than 4 tasks, times beyond 5 and very long durations (overflow) are not explored. The busy "
              "time is compared only when no tracked task is running, the task count only at such points, the average "
              "only once a tracked task has completed (the statement is silent elsewhere). Concurrent use is explored for the three "
              "tracers that guard their state with a mutex, by free-running lined-up goroutines (no gate can be placed inside the tracers: "
              "they call nothing the harness controls but the filter, before taking the lock), so an interleaving is reached with "
              "some probability only; BusyTimeTracer has no lock and is driven by one goroutine only. TLC and Go are trusted.")

OPS = {0: "start", 1: "end", 2: "tag"}
NAMES = ["a", "b", "c"]


def pretty(stream, upto=None):
    out = []
    for e in stream[:upto]:
        if e[0] == 0:
            out.append("start(T%d,t=%d,%s)" % (e[1], e[2], "tracked" if e[3] == 1 else "filtered-out"))
        elif e[0] == 1:
            out.append("end(T%d,t=%d)" % (e[1], e[2]))
        else:
            out.append("tag(T%d,t=%d,%s)" % (e[1], e[2], NAMES[e[3] - 1]))
    return out


def completed(stream, upto):
    """Tracked tasks completed within stream[:upto], in completion order: [(start, end)]."""
    start, tracked, done = {}, {}, []
    for e in stream[:upto]:
        if e[0] == 0:
            start[e[1]] = e[2]
            tracked[e[1]] = e[3] == 1
        elif e[0] == 1 and tracked.get(e[1]):
            done.append((start[e[1]], e[2]))
    return done


def closed_overlap(a, b):
    return a[0] <= b[1] and b[0] <= a[1]


def has_chain(ivs):
    """Some group of intervals is connected through overlaps although two of its members do not
    overlap each other (A-B and B-C overlap, A-C do not)."""
    n = len(ivs)
    comp = list(range(n))

    def find(i):
        while comp[i] != i:
            i = comp[i]
        return i
    for i in range(n):
        for j in range(i + 1, n):
            if closed_overlap(ivs[i], ivs[j]):
                comp[find(i)] = find(j)
    return any(find(i) == find(j) and not closed_overlap(ivs[i], ivs[j]) for i in range(n) for j in range(i + 1, n))


def classify(stream, m):
    """Features of a failing case (matched against the recorded findings)."""
    g = m["getter"]
    ivs = completed(stream, m["step"] + 1)
    cls = "other"
    if g == "average" and isinstance(m["got"], (int, float)) and len(ivs) >= 3:
        run = 0
        for k, (s, e) in enumerate(ivs):        # signature of W7: a mean that is floored after every task
            run = (run * k + (e - s)) // (k + 1)
        if m["got"] == run and m["got"] < m["want"]:
            cls = "running_mean_floor"
    if g == "busy" and isinstance(m["got"], (int, float)) and m["got"] > m["want"] and has_chain(ivs):
        cls = "chained_overlap"                   # signature of W8: transitive overlaps counted twice
    return {"tracer": g, "class": cls}


def nontrivial(stream):
    ivs = completed(stream, len(stream))
    if any(e[0] == 2 or (e[0] == 0 and e[3] != 1) for e in stream):
        return True
    return any(closed_overlap(ivs[i], ivs[j]) for i in range(len(ivs)) for j in range(i + 1, len(ivs)))


def replay(ck, binary, streams, direct, label, batch=20000):
    steps = comps = 0
    mism = []
    for i in range(0, len(streams), batch):
        out = core.harness(binary, "stats", {"direct": direct, "streams": streams[i:i + batch]})
        steps += out["steps"]
        comps += out["comparisons"]
        for m in out["mismatches"] or []:
            m["stream"] += i
            mism.append(m)
    ck.cov["traces_validated_against_impl"] += len(streams)
    ck.cov["evaluations"] += comps
    new = 0
    for m in mism:
        st = streams[m["stream"]]
        key = classify(st, m)
        desc = "%s getter%s after %s: specification %s, tracer %s (%s path)" % (
            m["getter"], (" [" + m["tag"] + "]") if m.get("tag") else "", " ".join(pretty(st, m["step"] + 1)),
            m["want"], m["got"], "direct" if direct else "api")
        rep = {"driver": "stats", "direct": direct, "streams": [st[:m["step"] + 1]], "getter": m["getter"],
               "tag": m.get("tag"), "want": m["want"], "got": m["got"], "events": pretty(st, m["step"] + 1)}
        if ck.report(key, desc, rep) == "new":
            new += 1
    ck.note("%s: %d streams replayed (%s), %d events, %d getter comparisons, %d mismatches (%d not a recorded finding)" % (
        label, len(streams), "direct calls" if direct else "tracing API + hooks", steps, comps, len(mism), new))
    return mism


# ----------------------------------------------------------------------------- concurrent histories

READER_GETTERS = ("total_during_round", "tagcount_during_round")


def judge_records(ck, recs, label):
    """TLC judges the recorded rounds (TracerStatsTrace.tla); returns the rejected records."""
    rejected, rest, runs, judged = [], list(recs), 0, 0
    d = core.scratch("c34conc-")
    states = 0
    wall = 0.0
    while rest:
        runs += 1
        path = os.path.join(d, "rounds-%s-%d.ndjson" % (label, runs))
        with open(path, "w") as f:
            for r in rest:
                f.write(json.dumps({k: r[k] for k in ("now", "tasks", "tags", "obs")}) + "\n")
        v = tracecheck.validate(ck, ["tracing", "common"], "TracerStatsTrace", "TracerStatsTrace.cfg", path, timeout=300)
        states += v.tlc.distinct
        wall += v.tlc.wall
        if v.accepted:
            judged += len(rest)
            rest = []
            break
        if v.matched is None:
            raise core.Broken("TracerStatsTrace: a recorded round is not a state of the statement (invariant %s): harness defect" % v.invariant)
        rejected.append(rest[v.matched])
        judged += v.matched + 1
        rest = rest[v.matched + 1:]
    return rejected, judged, runs, states, wall


def concurrent(ck, binary, label, goroutines, epochs, rounds, api, budget_ms, race=False):
    payload = {"seed": ck.seed + (7 if api else 0) + goroutines, "goroutines": goroutines, "epochs": epochs, "rounds": rounds,
               "scripts": 256, "sample_every": max(1, epochs // 40), "api": api, "budget_ms": budget_ms, "max_mismatch": 3}
    try:
        out = core.harness(binary, "statsconc", payload, timeout=300)
    except core.Crashed as c:
        where = c.akita_panic()
        if where and "/tracing." in where:
            # a Go panic / fatal error (e.g. concurrent map writes) raised inside a tracer that guards its state with a mutex
            ck.report({"mode": "concurrent", "tracer": "any", "class": "crash"},
                      "concurrent history (%s, %d goroutines): the tracers crashed the process: %s" % (label, goroutines, where),
                      {"driver": "statsconc", "input": payload, "stderr": c.stderr[-3000:]})
            return
        if race and "WARNING: DATA RACE" in c.stderr:
            rep = c.stderr[c.stderr.index("WARNING: DATA RACE"):][:4000]
            tops = [l.strip() for prev, l in zip(rep.splitlines(), rep.splitlines()[1:])
                    if prev.startswith(("Read at", "Write at", "Previous read", "Previous write", "Atomic", "Previous atomic"))]
            if tops and all("akita/v5/tracing." in t for t in tops):
                ck.report({"mode": "concurrent", "tracer": "any", "class": "data_race_report"},
                          "race detector: DATA RACE between two tracer methods called from two goroutines (%s): %s" % (label, " / ".join(tops)),
                          {"driver": "statsconc", "input": payload, "report": rep})
                return
        raise
    if out.get("panic"):
        if "akita" in out["panic"] or "tracing" in out["panic"] or "runtime error" in out["panic"]:
            ck.report({"mode": "concurrent", "tracer": "any", "class": "panic"},
                      "concurrent history (%s): panic %s" % (label, out["panic"]), {"driver": "statsconc", "input": payload})
            return
        raise core.Broken("statsconc driver failed: %s" % out["panic"])
    if out["rounds"] < 200 and not out["mismatch_rounds"]:
        raise core.Broken("concurrent histories (%s): only %d rounds in %d ms: inconclusive (overloaded machine?)" % (label, out["rounds"], out["wall_ms"]))
    recs = out["samples"]
    by_id = {r["id"]: r for r in recs}
    go_bad = {}
    for m in out["mismatches"]:
        go_bad.setdefault(m["record"], []).append(m)
    set_bad = {i for i, ms in go_bad.items() if any(m["getter"] not in READER_GETTERS for m in ms)}
    rejected, judged, runs, states, wall = judge_records(ck, recs, label)
    rej_ids = {r["id"] for r in rejected}
    for r in rejected:
        if r["id"] not in set_bad:
            raise core.Broken("TLC rejects the recorded round %s that the driver's own comparison accepted: the two judges disagree" % json.dumps(r))
    for i in set_bad:
        if i not in rej_ids:
            raise core.Broken("the driver rejected round %s that TLC accepted: the two judges disagree" % json.dumps(by_id[i]))
    for r in rejected:
        ms = [m for m in go_bad[r["id"]] if m["getter"] not in READER_GETTERS]
        g = ms[0]["getter"]
        cls = "wrong_after_join"
        if g == "average" and r["obs"]["cnt"] > 0 and all(m["getter"] == "average" for m in ms):
            cls = "stale_average_after_join"      # total and count of the same tracer are right, the published average is not
        ck.report({"mode": "concurrent", "tracer": g, "class": cls},
                  "concurrent history (%s, %d goroutines, seed %d, epoch %d = script %d, round %d at t=%d): after every call of the round had "
                  "returned (%d tracked tasks ended in it, by %d goroutines) the getters gave %s; TLC (TracerStatsTrace) finds that the "
                  "set of tasks issued so far demands %s" % (
                      label, goroutines, payload["seed"], r["epoch"], r["script"], r["round"], r["now"], r["ends_now"], r["owners"],
                      json.dumps(r["obs"]), ", ".join("%s%s=%s (got %s)" % (m["getter"], "[%s]" % m["tag"] if m.get("tag") else "", m["want"], m["got"]) for m in ms)),
                  {"driver": "statsconc", "input": payload, "spec": "spec/tracing/TracerStatsTrace.tla", "record": r,
                   "note": "lined-up stress: the interleaving is reached with some probability; rerun the input (it stops at the first mismatching rounds)"})
    # the reader: values polled while a round runs lie between the values of the two surrounding joins (PROPERTY Monotone)
    for i, ms in go_bad.items():
        for m in ms:
            if m["getter"] in READER_GETTERS:
                r = by_id[i]
                ck.report({"mode": "concurrent", "tracer": m["getter"].split("_")[0], "class": "reader_outside_surrounding_joins"},
                          "concurrent history (%s): a getter polled by the reader goroutine during epoch %d round %d returned %s, outside %s "
                          "(the values for the sets of events issued before and after the round)" % (label, r["epoch"], r["round"], m["got"], m["want"]),
                          {"driver": "statsconc", "input": payload, "record": r})
    ck.cov["traces_validated_against_impl"] += out["epochs"]
    ck.cov["evaluations"] += out["comparisons"]
    for k, v in (("concurrent_histories", out["epochs"]), ("concurrent_rounds", out["rounds"]), ("concurrent_events", out["events"]),
                 ("concurrent_rounds_with_racing_ends", out["concurrent_end_rounds"]), ("concurrent_reader_polls", out["reader_reads"]),
                 ("concurrent_rounds_judged_by_tlc", judged), ("concurrent_rounds_rejected_by_tlc", len(rejected))):
        ck.cov[k] = ck.cov.get(k, 0) + v
    ck.note("%s: %d concurrent histories (%d distinct scripts, <=%d tasks) = %d rounds of %d goroutines + reader in %.1fs (%s%s), %d events, "
            "%d rounds in which >=2 goroutines end tracked tasks, %d getter comparisons, %d reader polls, %d mismatching rounds; "
            "TLC judged %d recorded rounds in %d run(s) (%d states, %.1fs): %d rejected" % (
                label, out["epochs"], out["scripts"], out["max_tasks"], out["rounds"], goroutines, out["wall_ms"] / 1000.0,
                "tracing API, one hooked domain per goroutine" if api else "direct calls", ", race detector" if race else "",
                out["events"], out["concurrent_end_rounds"], out["comparisons"], out["reader_reads"], out["mismatch_rounds"],
                judged, runs, states, wall, len(rejected)))
    if recs and not rejected:
        r = recs[len(recs) // 2]
        ck.sample({"concurrent_round": {"goroutines": goroutines, "epoch": r["epoch"], "round": r["round"], "tasks_started": len(r["tasks"]),
                                        "tag_events": len(r["tags"]), "ended_in_round": r["ends_now"], "observed": r["obs"], "tlc": "accepted"}}, cap=8)


def run(ck):
    quick = ck.tier == "quick"
    cfgs = [("times", "TracerStats_q.cfg"), ("tags", "TracerStats_tags_q.cfg")] if quick else \
           [("times3", "TracerStats_t3.cfg"), ("times4", "TracerStats_t.cfg"), ("tags", "TracerStats_tags_t.cfg")]
    binary = ck.binary("tracers")
    seen_nt = 0
    for label, cfg in cfgs:
        r = ck.run_tlc(["tracing"], "TracerStats", cfg, workers=6 if quick else 10, timeout=240 if quick else 900,
                       tags=("BEHAVIOUR",))
        if not r.ok:
            raise core.Broken("TracerStats/%s fails its own properties: %s %s\n%s" % (cfg, r.violated, r.error, "\n".join(r.lines[-30:])))
        streams = [b["h"] for b in r.tagged["BEHAVIOUR"]]
        r.tagged.clear()
        if not streams:
            raise core.Broken("no behaviours emitted by TracerStats/%s" % cfg)
        ck.note("%s: TLC %d states, %d complete streams, %.1fs" % (label, r.distinct, len(streams), r.wall))
        replay(ck, binary, streams, False, label)
        # the same streams by direct calls of the tracer methods (all in thorough, a seeded sample in quick)
        sub = streams if not quick else ck.rng.sample(streams, min(3000, len(streams)))
        replay(ck, binary, sub, True, label)
        seen_nt += sum(1 for s in streams if nontrivial(s))
        for s in ck.rng.sample(streams, 2):
            ck.sample({"events": pretty(s), "expected_after_last_event": dict(total=s[-1][4], count=s[-1][5], average=s[-1][6], busy=s[-1][7],
                                                                                tags=s[-1][8:])})
    # concurrent histories on the tracers that are built for it (mutex-guarded state)
    if quick:
        concurrent(ck, binary, "conc6", 6, 12000, 5, False, 5000)
        concurrent(ck, binary, "conc4-api", 4, 12000, 5, True, 3000)
    else:
        concurrent(ck, binary, "conc6", 6, 120000, 5, False, 25000)
        concurrent(ck, binary, "conc8", 8, 40000, 6, False, 15000)
        concurrent(ck, binary, "conc4", 4, 60000, 4, False, 10000)
        concurrent(ck, binary, "conc6-api", 6, 40000, 5, True, 15000)
        rb = ck.binary("tracers", race=True)
        concurrent(ck, rb, "conc6-race", 6, 20000, 5, False, 15000, race=True)
        concurrent(ck, rb, "conc4-api-race", 4, 10000, 5, True, 10000, race=True)
    ck.cov["distinct_nontrivial"] = seen_nt
    ck.cov["exhaustive"] = True
    ck.cov["rule"] = ("TLC enumerates every time-ordered stream of start/end/tag events within the bounds of the cfg files "
                      "(tasks started in ID order; every duration 0..5, every overlap pattern, every order of same-instant "
                      "events, tracked and filtered-out tasks); each complete stream is one behaviour (all distinct). After "
                      "every event the getters are compared with the set-based values (total, average = floor(sum/count) "
                      "once a task completed, count and busy = union length when no tracked task is running, tags recorded "
                      "and distinct tracked tasks per name). Non-trivial = a stream with two overlapping/touching tracked "
                      "tasks, a filtered-out task or a tag event. Concurrent histories: one case = one seeded history of 4-6 instants whose "
                      "events are issued by 4-8 goroutines (disjoint tasks, widely spread durations 0..1.5e6) on shared tracers; after every "
                      "instant (all goroutines joined) total, count, average and tag/task counts are compared with the values for the set of "
                      "events issued so far; sampled and mismatching rounds are judged by TLC (TracerStatsTrace.tla).")
    ck.assumptions += [
        "times are small integers (0..5): overflow of the picosecond counters is out of scope",
        "a tag is only attached to a task that is currently running; tag events on filtered-out tasks count as recorded tags but not as tracked tasks",
        "concurrent callers deliver the events of one simulated instant (as the components of a parallel engine do) and each task is "
        "started, tagged and ended by one goroutine; BusyTimeTracer (no lock) is not called concurrently",
        "task IDs are distinct; BusyTimeTracer.TerminateAllTasks is not exercised (the statement speaks of start/end events)",
    ]
