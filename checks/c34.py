"""C34 — aggregate tracers compute exact statistics (spec/tracing/TracerStats.tla)."""
from vlib import core

LEVEL = "model_checking"
TECHNIQUE = ("TLA+ specification of the four statistics as functions of SETS of tasks (sum of durations, floor of "
             "sum/count, number of unit cells covered by the union of the intervals, bag of tag events), model-checked "
             "by TLC over every time-ordered start/end/tag stream within the bounds; every complete stream is replayed "
             "on the real TotalTimeTracer / AverageTimeTracer / BusyTimeTracer / TagCountTracer (through the tracing "
             "API with hooks and by direct method calls) and every getter is compared after every event")
LEVEL_TEXT = ("Exhaustive within bounds: all streams of <=3 tasks (quick; any one task filtered out) or <=3 tasks with any "
              "filter pattern and 4 tracked tasks (thorough) with event times 0..5, every order of same-instant events; "
              "tag streams of <=3 tasks with <=3 tag events over two names. The verdict is the real tracers' getters.")
LEVEL_NOTE = ("Bounded: more than 4 tasks, times beyond 5 and very long durations (overflow) are not explored. The busy "
              "time is compared only when no tracked task is running, the task count only at such points, the average "
              "only once a tracked task has completed (the statement is silent elsewhere). TLC and Go are trusted.")

OPS = {0: "start", 1: "end", 2: "tag"}
NAMES = ["a", "b", "c"]


def pretty(stream, upto=None):
    out = []
    for e in stream[:upto]:
        if e[0] == 0:
            out.append("start(T%d,t=%d,%s)" % (e[1], e[2], "tracked" if e[3] == 1 else "filtered-out"))
        elif e[0] == 1:
            out.append("end(T%d,t=%d)" % (e[1], e[2]))
        else:
            out.append("tag(T%d,t=%d,%s)" % (e[1], e[2], NAMES[e[3] - 1]))
    return out


def completed(stream, upto):
    """Tracked tasks completed within stream[:upto], in completion order: [(start, end)]."""
    start, tracked, done = {}, {}, []
    for e in stream[:upto]:
        if e[0] == 0:
            start[e[1]] = e[2]
            tracked[e[1]] = e[3] == 1
        elif e[0] == 1 and tracked.get(e[1]):
            done.append((start[e[1]], e[2]))
    return done


def closed_overlap(a, b):
    return a[0] <= b[1] and b[0] <= a[1]


def has_chain(ivs):
    """Some group of intervals is connected through overlaps although two of its members do not
    overlap each other (A-B and B-C overlap, A-C do not)."""
    n = len(ivs)
    comp = list(range(n))

    def find(i):
        while comp[i] != i:
            i = comp[i]
        return i
    for i in range(n):
        for j in range(i + 1, n):
            if closed_overlap(ivs[i], ivs[j]):
                comp[find(i)] = find(j)
    return any(find(i) == find(j) and not closed_overlap(ivs[i], ivs[j]) for i in range(n) for j in range(i + 1, n))


def classify(stream, m):
    """Features of a failing case (matched against the recorded findings)."""
    g = m["getter"]
    ivs = completed(stream, m["step"] + 1)
    cls = "other"
    if g == "average" and isinstance(m["got"], (int, float)) and len(ivs) >= 3:
        run = 0
        for k, (s, e) in enumerate(ivs):        # signature of W7: a mean that is floored after every task
            run = (run * k + (e - s)) // (k + 1)
        if m["got"] == run and m["got"] < m["want"]:
            cls = "running_mean_floor"
    if g == "busy" and isinstance(m["got"], (int, float)) and m["got"] > m["want"] and has_chain(ivs):
        cls = "chained_overlap"                   # signature of W8: transitive overlaps counted twice
    return {"tracer": g, "class": cls}


def nontrivial(stream):
    ivs = completed(stream, len(stream))
    if any(e[0] == 2 or (e[0] == 0 and e[3] != 1) for e in stream):
        return True
    return any(closed_overlap(ivs[i], ivs[j]) for i in range(len(ivs)) for j in range(i + 1, len(ivs)))


def replay(ck, binary, streams, direct, label, batch=20000):
    steps = comps = 0
    mism = []
    for i in range(0, len(streams), batch):
        out = core.harness(binary, "stats", {"direct": direct, "streams": streams[i:i + batch]})
        steps += out["steps"]
        comps += out["comparisons"]
        for m in out["mismatches"] or []:
            m["stream"] += i
            mism.append(m)
    ck.cov["traces_validated_against_impl"] += len(streams)
    ck.cov["evaluations"] += comps
    new = 0
    for m in mism:
        st = streams[m["stream"]]
        key = classify(st, m)
        desc = "%s getter%s after %s: specification %s, tracer %s (%s path)" % (
            m["getter"], (" [" + m["tag"] + "]") if m.get("tag") else "", " ".join(pretty(st, m["step"] + 1)),
            m["want"], m["got"], "direct" if direct else "api")
        rep = {"driver": "stats", "direct": direct, "streams": [st[:m["step"] + 1]], "getter": m["getter"],
               "tag": m.get("tag"), "want": m["want"], "got": m["got"], "events": pretty(st, m["step"] + 1)}
        if ck.report(key, desc, rep) == "new":
            new += 1
    ck.note("%s: %d streams replayed (%s), %d events, %d getter comparisons, %d mismatches (%d not a recorded finding)" % (
        label, len(streams), "direct calls" if direct else "tracing API + hooks", steps, comps, len(mism), new))
    return mism


def run(ck):
    quick = ck.tier == "quick"
    cfgs = [("times", "TracerStats_q.cfg"), ("tags", "TracerStats_tags_q.cfg")] if quick else \
           [("times3", "TracerStats_t3.cfg"), ("times4", "TracerStats_t.cfg"), ("tags", "TracerStats_tags_t.cfg")]
    binary = ck.binary("tracers")
    seen_nt = 0
    for label, cfg in cfgs:
        r = ck.run_tlc(["tracing"], "TracerStats", cfg, workers=6 if quick else 10, timeout=240 if quick else 900,
                       tags=("BEHAVIOUR",))
        if not r.ok:
            raise core.Broken("TracerStats/%s fails its own properties: %s %s\n%s" % (cfg, r.violated, r.error, "\n".join(r.lines[-30:])))
        streams = [b["h"] for b in r.tagged["BEHAVIOUR"]]
        r.tagged.clear()
        if not streams:
            raise core.Broken("no behaviours emitted by TracerStats/%s" % cfg)
        ck.note("%s: TLC %d states, %d complete streams, %.1fs" % (label, r.distinct, len(streams), r.wall))
        replay(ck, binary, streams, False, label)
        # the same streams by direct calls of the tracer methods (all in thorough, a seeded sample in quick)
        sub = streams if not quick else ck.rng.sample(streams, min(3000, len(streams)))
        replay(ck, binary, sub, True, label)
        seen_nt += sum(1 for s in streams if nontrivial(s))
        for s in ck.rng.sample(streams, 2):
            ck.sample({"events": pretty(s), "expected_after_last_event": dict(total=s[-1][4], count=s[-1][5], average=s[-1][6], busy=s[-1][7],
                                                                                tags=s[-1][8:])})
    ck.cov["distinct_nontrivial"] = seen_nt
    ck.cov["exhaustive"] = True
    ck.cov["rule"] = ("TLC enumerates every time-ordered stream of start/end/tag events within the bounds of the cfg files "
                      "(tasks started in ID order; every duration 0..5, every overlap pattern, every order of same-instant "
                      "events, tracked and filtered-out tasks); each complete stream is one behaviour (all distinct). After "
                      "every event the getters are compared with the set-based values (total, average = floor(sum/count) "
                      "once a task completed, count and busy = union length when no tracked task is running, tags recorded "
                      "and distinct tracked tasks per name). Non-trivial = a stream with two overlapping/touching tracked "
                      "tasks, a filtered-out task or a tag event.")
    ck.assumptions += [
        "times are small integers (0..5): overflow of the picosecond counters is out of scope",
        "a tag is only attached to a task that is currently running; tag events on filtered-out tasks count as recorded tags but not as tracked tasks",
        "task IDs are distinct; BusyTimeTracer.TerminateAllTasks is not exercised (the statement speaks of start/end events)",
    ]
