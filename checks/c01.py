"""C01 — serial engine: every event once, in time/phase/FIFO order (spec/engine/Engine.tla)."""
import os
from vlib import core, tracecheck

LEVEL = "model_checking"
TECHNIQUE = "TLA+ spec of the dispatch rule model-checked with TLC; every bounded behaviour replayed on timing.SerialEngine; traces of random programs validated by TLC against the spec"
LEVEL_TEXT = ("TLC enumerates every handler program within the bounds (events scheduled lazily by running handlers, "
              "same-instant primary/secondary chains) and checks the statement's order properties plus equivalence of the "
              "two-heap head-compare rule with the statement's order; every complete behaviour is replayed on the real engine "
              "and compared step by step; seeded random programs (hundreds of events, tie-heavy) are recorded at the engine hooks "
              "and validated by TLC against Engine.tla.")
LEVEL_NOTE = "Exhaustive only within MaxEvents/MaxDelay/MaxKids; larger programs are sampled. Scheduling from foreign goroutines is out of scope (documented single-threaded)."


def replay(ck, cfg, workers, label):
    r = ck.run_tlc(["engine"], "EngineGen", cfg, workers=workers, timeout=1500)
    if not r.ok:
        raise core.Broken("Engine specification fails its own properties: %s %s" % (r.violated, r.error))
    bs = r.tagged["BEHAVIOUR"]
    if not bs:
        raise core.Broken("no behaviours emitted")
    binary = ck.binary("engine")
    mism, steps, multi = [], 0, 0
    for i in range(0, len(bs), 20000):
        out = core.harness(binary, "engine_replay", {"behaviours": bs[i:i + 20000], "handlers": 3})
        steps += out["steps"]
        multi += out.get("with_boundaries", 0)
        for m in out["mismatches"] or []:
            m["index"] += i
            mism.append(m)
    ck.cov["traces_validated_against_impl"] += len(bs)
    ck.cov["evaluations"] += steps
    nt = sum(1 for b in bs if sum(1 for x in b if x["e"] == "start") >= 3)
    ck.cov["distinct_nontrivial"] += nt
    ck.sample({"behaviour": bs[len(bs) // 2]})
    for m in mism:
        key = {"kind": m["kind"]}
        desc = "%s: behaviour %d diverges at step %d: spec %r, engine %r %s" % (label, m["index"], m["at"], m["want"], m["got"], m.get("problems") or "")
        ck.report(key, desc, {"driver": "engine_replay", "behaviour": m["hist"]})
    ck.note("%s: %d behaviours (%d with boundaries) replayed, %d steps, %d mismatches" % (label, len(bs), multi, steps, len(mism)))
    return len(bs)


def traces(ck, programs, max_events, boundaries):
    binary = ck.binary("engine")
    d = core.scratch("etrace-")
    path = os.path.join(d, "trace.ndjson")
    out = core.harness(binary, "engine_trace", {"seed": ck.seed, "programs": programs, "max_events": max_events,
                                                "boundaries": boundaries, "out": path})
    for p in out.get("problems") or []:
        ck.report({"kind": "problem"}, "random program run: " + p, {"driver": "engine_trace", "seed": ck.seed})
    v = tracecheck.validate(ck, ["engine", "common"], "EngineTrace", "EngineTrace.cfg", path, timeout=1500)
    ck.cov["traces_validated_against_impl"] += out["programs"]
    ck.cov["evaluations"] += out["events"]
    ck.cov["distinct_nontrivial"] += out["programs"]
    ck.sample({"trace_excerpt": out["sample"]})
    if not v.accepted:
        keep = os.path.join(core.VERIF, "replays", "%s-trace-seed%d.ndjson" % (ck.pid, ck.seed))
        os.makedirs(os.path.dirname(keep), exist_ok=True)
        os.replace(path, keep)
        kind = "invariant:" + v.invariant if v.invariant else "order"
        ck.report({"kind": kind}, "trace of random programs rejected by EngineTrace: matched %s events, next %s, invariant %s" % (
            v.matched, v.next, v.invariant), {"trace": keep, "seed": ck.seed})
    ck.note("trace validation: %d programs, %d events, accepted=%s" % (out["programs"], out["events"], v.accepted))


def run(ck):
    ck.cov["rule"] = ("(1) every complete behaviour of EngineGen.tla within the cfg bounds (roots + lazily chosen children per handled event) "
                      "replayed on timing.SerialEngine with 3 handlers: schedule/start/end/return sequence, CurrentTime and queue lengths "
                      "(from SaveCheckpoint) compared; non-trivial = at least 3 handled events. (2) seeded random programs recorded via "
                      "engine hooks and validated by TLC (EngineTrace.tla); each program counts once.")
    ck.assumptions += ["handlers schedule only from the engine goroutine", "event identity = EventBase.ID assigned by the driver"]
    if ck.tier == "quick":
        replay(ck, "EngineGen_q.cfg", 8, "C01")
        traces(ck, 30, 200, False)
    else:
        replay(ck, "EngineGen_t.cfg", 16, "C01")
        traces(ck, 300, 600, False)
    ck.cov["exhaustive"] = True
