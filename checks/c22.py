"""C22 — DRAM issues commands in protocol-legal order and timing (spec/mem/DRAMRules.tla, DRAMBank.tla, DRAMTrace.tla).

Needs hook H1 (mem/dram/verifhook_on.go: dram.VerifCmdObserver, build tag verif; hooks/H1-dram-cmd-observer.diff)."""
import concurrent.futures, json, os, shutil
from vlib import core

LEVEL = "exploration"
TECHNIQUE = ("TLA+ oracle of the DRAM bank state machine and of the minimum command separations computed from the Spec numbers "
             "(DRAMRules.tla), model-checked with TLC on a toy (DRAMBank.tla); command streams of real controllers recorded "
             "through hook H1 and judged by TLC with the same oracle (DRAMTrace.tla, trace validation)")
LEVEL_TEXT = ("Real mem/dram controllers for every preset of presets.go, the builder default and two variants (additive latency, "
              "two ranks), both page policies and several queue configurations run on the real serial engine under a seeded, "
              "contended request stream (row hits and conflicts, same / other bank and bank group, masked and unit-crossing "
              "accesses, idle gaps); every command issued to a bank is recorded at the single issue point (hook H1) and TLC judges "
              "the stream: per-bank state machine, every minimum separation derived in TLA+ from the reported Spec numbers, "
              "the four-activate window, completion of every request and read data against a flat byte memory. The oracle itself is "
              "model-checked: on a toy timing TLC shows that the incremental judgement equals the declarative reading of the "
              "statement over whole histories, that every rule is the sole reason of some rejection and that legal schedules exist.")
LEVEL_NOTE = ("Sampling of workloads, not exhaustive. Refresh and self-refresh commands are only checked against the state machine "
              "(the controller models refresh as an issue stall and issues none). Left free: read-to-write turnaround, rank-to-rank "
              "switching, data-bus occupancy, one command per cycle. Requests that overlap an in-flight write are not generated. "
              "The toy equivalence is exhaustive only within its bounds (full histories to MaxT=3/4, one representative history per "
              "monitor state beyond).")

SPEC_DIRS = ["mem", "common"]
ALL_RULES = ["tRCD_activate_to_read", "tRCD_activate_to_write", "tRAS_activate_to_precharge", "tRP_precharge_to_activate",
             "tRC_activate_to_activate", "tRTP_read_to_precharge", "tWR_write_to_precharge",
             "tRTP_tRP_autoprecharge_read_to_activate", "tWR_tRP_autoprecharge_write_to_activate",
             "tRRD_L_activate_to_activate", "tRRD_S_activate_to_activate", "tCCD_L_read_to_read", "tCCD_S_read_to_read",
             "tCCD_L_write_to_write", "tCCD_S_write_to_write", "tWTR_L_write_to_read", "tWTR_S_write_to_read",
             "tPPD_precharge_to_precharge", "tFAW_four_activate_window", "column_command_to_closed_bank",
             "column_command_to_other_row", "activate_without_precharge", "refresh_of_open_bank"]
STATE_RULES = {"column_command_to_closed_bank", "column_command_to_other_row", "activate_without_precharge", "refresh_of_open_bank",
               "command_in_self_refresh", "self_refresh_exit_without_entry"}
DATA_RULES = {"masked_write_changed_unmasked_bytes", "read_data_mismatch", "read_data_length_mismatch", "response_kind_mismatch",
              "response_without_request", "request_never_completed", "duplicate_request_id"}
PRESETS = ["DDR4", "DDR5", "HBM2", "HBM3", "GDDR6", "DDR3-default"]
VARIANTS = ["DDR4-AL", "DDR4-2rank"]
TAGS = ("CASE", "REJECTED", "STAT", "SOLE")


def pool(jobs, fn, n):
    with concurrent.futures.ThreadPoolExecutor(max_workers=n) as ex:
        return list(ex.map(fn, jobs))


def account(ck, r, module, cfg):
    ck.cov["states"] += r.distinct
    ck.cov["transitions"] += r.generated
    ck.tlc_runs.append(dict(module=module, cfg=cfg, **r.summary()))


# ------------------------------------------------------------------ the oracle, model-checked

def check_oracle(ck):
    thorough = ck.tier == "thorough"
    # (cfg, expected violated invariant or None)
    runs = [("DRAMBank_q1.cfg", None), ("DRAMBank_q2.cfg", None), ("DRAMBank_q3.cfg", None), ("DRAMBank_q4.cfg", None),
            ("DRAMBank_w1.cfg", "NoWitness"), ("DRAMBank_w2.cfg", "NoFawWitness")]
    if thorough:
        runs += [("DRAMBank_t1.cfg", None), ("DRAMBank_t2.cfg", None), ("DRAMBank_t3.cfg", None)]

    def one(job):
        cfg, _ = job
        return core.tlc(["mem"], "DRAMBank", cfg, workers=2, timeout=2400, tags=TAGS)
    results = pool(runs, one, 5)
    sole = {}
    for (cfg, expect), r in zip(runs, results):
        account(ck, r, "DRAMBank", cfg)
        if expect is None:
            if not r.ok:
                raise core.Broken("the oracle fails its own check: DRAMBank/%s violates %s %s" % (cfg, r.violated, r.error))
        elif r.violated != expect:
            raise core.Broken("DRAMBank/%s: expected a witness (violation of %s), got ok=%s violated=%s — the rules are not "
                              "shown satisfiable" % (cfg, expect, r.ok, r.violated))
        for s in r.tagged.get("SOLE", []):
            sole.setdefault(s["rule"], s)
    missing = [n for n in ALL_RULES if n not in sole]
    if missing:
        raise core.Broken("rules never the sole reason of a rejection in the toy (vacuous or subsumed): %s" % missing)
    ck.cov["oracle_rules_sole_reason"] = len(sole)
    ck.sample({"oracle_sole_rejection": sole["tRAS_activate_to_precharge"]}, cap=8)
    ck.note("oracle: %d TLC runs, %d states; every one of %d rules is the sole reason of a rejection; witnesses found" % (
        len(runs), sum(r.distinct for r in results), len(ALL_RULES)))


# ------------------------------------------------------------------ real controllers

def systems_for(ck):
    rng = ck.rng
    out = []
    queues = ["default", "small", "split"]
    if ck.tier == "quick":
        plan = [(p, 70) for p in PRESETS] + [(p, 40) for p in VARIANTS]
    else:
        plan = [(p, 3000) for p in PRESETS] + [(p, 1000) for p in VARIANTS]
    for preset, n in plan:
        for policy in ("open", "close"):
            for qi, q in enumerate(queues):
                out.append(dict(preset=preset, policy=policy, queue=q, requests=n,
                                top_buf=rng.choice([1, 2, 4, 8]), inflight=rng.choice([4, 12, 24, 32]), width=rng.choice([1, 2, 3]),
                                banks=rng.choice([3, 4, 6, 8]), rows=rng.choice([2, 3]), cols=rng.choice([2, 4]),
                                write_p=rng.choice([25, 45, 60]), mask_p=15, idle_p=rng.choice([0, 3, 8]),
                                seed=rng.randrange(1 << 40)))
    if ck.tier == "thorough":
        # the fourth queue configuration on a third of the systems
        for preset in PRESETS:
            out.append(dict(preset=preset, policy=rng.choice(["open", "close"]), queue="split-small", requests=1000,
                            top_buf=2, inflight=16, width=2, banks=6, rows=3, cols=4, write_p=50, mask_p=15, idle_p=3,
                            seed=rng.randrange(1 << 40)))
    # spread evenly over the trace files (long systems first)
    groups = 4 if ck.tier == "quick" else 14
    order = sorted(range(len(out)), key=lambda i: -out[i]["requests"])
    for k, i in enumerate(order):
        out[i]["group"] = k % groups
    return out, groups


def build(ck):
    try:
        return ck.binary("dramchk")
    except core.Broken as e:
        if "VerifCmdObserver" in str(e):
            raise core.Broken("hook H1 not applied: %s has no dram.VerifCmdObserver (apply hooks/H1-dram-cmd-observer.diff; "
                              "the dramchk harness does not compile without it)" % core.REPO)
        raise


def validate_files(ck, files):
    def one(path):
        return core.tlc(SPEC_DIRS, "DRAMTrace", "DRAMTrace.cfg", workers=1, timeout=3000, env={"TRACE_FILE": path}, tags=TAGS)
    results = pool(files, one, 7)
    for path, r in zip(files, results):
        account(ck, r, "DRAMTrace", "DRAMTrace.cfg")
        if not r.ok:
            keep = os.path.join(core.VERIF, "replays", "%s-%s-seed%d-%s" % (ck.pid, ck.tier, ck.seed, os.path.basename(path)))
            os.makedirs(os.path.dirname(keep), exist_ok=True)
            shutil.copyfile(path, keep)
            rej = (r.tagged.get("REJECTED") or [None])[0]
            raise core.Broken("trace %s does not fit the structure of DRAMTrace (rejected at %s, invariant %s, %s); kept at %s" % (
                path, rej and rej.get("matched"), r.violated, r.error, keep))
    return results


def run_systems(ck, binary, systems, groups, label):
    d = core.scratch("dramtr-")
    out = core.harness(binary, "dram_trace", dict(dir=d, systems=systems, groups=groups), timeout=1500)
    for s in out["systems"]:
        if s.get("panic"):
            where = s["panic"][:200]
            ck.report({"class": "panic", "rule": "panic", "preset": s["cfg"]["preset"], "policy": s["cfg"]["policy"]},
                      "%s: system %d (%s) panicked: %s" % (label, s["index"], s["cfg"], where), {"driver": "dram_trace", "system": s["cfg"]})
        if s["sent"] and not sum(s["cmds"].values()):
            raise core.Broken("no command observed through hook H1 although %d requests were sent (system %s)" % (s["sent"], s["cfg"]))
    results = validate_files(ck, out["files"])
    return out, results, d


def window(path, line, sysrec, k=40):
    """the records of the system up to the failing line: last k commands + the config record"""
    recs = []
    with open(path) as f:
        for i, ln in enumerate(f, 1):
            if i < sysrec["first_line"]:
                continue
            if i > line:
                break
            recs.append(json.loads(ln))
    last_req = max([r["id"] for r in recs if r["e"] == "req"] or [0])
    cmds = [r for r in recs if r["e"] == "cmd"]
    return recs[0], cmds[-k:], last_req


def report_cases(ck, out, results, label):
    by_group = {}
    for s in out["systems"]:
        by_group.setdefault(s["group"], []).append(s)
    n_cases = 0
    stats = []
    for g, (path, r) in enumerate(zip(out["files"], results)):
        stats += r.tagged.get("STAT", [])
        seen = set()
        for c in r.tagged.get("CASE", []):
            n_cases += 1
            srec = next((s for s in by_group.get(g, []) if s["first_line"] <= c["l"] <= s["last_line"]), None)
            cfg = srec["cfg"] if srec else {}
            cls, d = c["class"], c.get("d") or {}
            if cls in DATA_RULES:
                key = {"class": "data", "rule": cls, "preset": cfg.get("preset"), "policy": cfg.get("policy"), "queue": cfg.get("queue")}
                desc = "%s: %s on %s/%s/%s: request %s at %s: want %s got %s" % (
                    label, cls, cfg.get("preset"), cfg.get("policy"), cfg.get("queue"), d.get("id"), d.get("a"),
                    str(d.get("want"))[:120], str(d.get("got"))[:120])
                replay = {"driver": "dram_trace", "system": cfg, "case": c}
            else:
                kind = "state_machine" if cls in STATE_RULES else "timing"
                cmd, prev = d.get("cmd") or {}, d.get("prev") or {}
                key = {"class": kind, "rule": cls, "preset": cfg.get("preset"), "policy": cfg.get("policy"), "queue": cfg.get("queue"),
                       "cmd": cmd.get("k"), "prev": prev.get("k")}
                sig = json.dumps(key, sort_keys=True)
                replay = {"driver": "dram_trace", "system": cfg, "case": c}
                if sig not in seen and srec:
                    seen.add(sig)
                    # minimised reproduction: the same seeded system cut after the last request sent before the violation
                    conf, cmds, last_req = window(path, c["l"], srec)
                    small = dict(cfg, requests=last_req, group=0)
                    replay = {"driver": "dram_trace", "system": small, "spec_numbers": conf.get("sp"), "case": c,
                              "last_commands": cmds}
                desc = "%s: %s broken by %s/%s/%s: %s at cycle %s (bank %s.%s.%s row %s) %s" % (
                    label, cls, cfg.get("preset"), cfg.get("policy"), cfg.get("queue"), cmd.get("k"), cmd.get("t"),
                    cmd.get("r"), cmd.get("g"), cmd.get("b"), cmd.get("row"),
                    ("only %s cycles after %s at %s (bank %s.%s.%s), minimum %s" % (d.get("gap"), prev.get("k"), prev.get("t"), prev.get("r"),
                                                                                    prev.get("g"), prev.get("b"), d.get("min"))) if prev
                    else "while the bank is %s" % json.dumps(d.get("bank")))
            ck.report(key, desc, replay)
    return n_cases, stats


# ------------------------------------------------------------------ the monitor must see planted errors

def monitor_selftest(ck, out):
    """Negative controls on a recorded trace (one file, three copies of the first system): (1) an activate moved to one
    cycle before a column command of its bank, (2) an activate removed, (3) one byte of a read response flipped and one
    response removed. DRAMTrace must flag those classes in the respective copy."""
    path = out["files"][0]
    first = next(s for s in out["systems"] if s["group"] == 0)
    with open(path) as f:
        recs = [json.loads(x) for x in f][first["first_line"] - 1:first["last_line"]]

    def copy(n):
        rs = json.loads(json.dumps(recs))
        rs[0]["sys"] = 9000 + n
        return rs
    # 1
    r1 = copy(1)
    last_act = {}
    for r in r1:
        if r["e"] != "cmd":
            continue
        k = (r["r"], r["g"], r["b"])
        if r["k"] == "ACT":
            last_act[k] = r
        elif r["k"] in ("RD", "RDA", "WR", "WRA") and k in last_act:
            last_act[k]["t"] = r["t"] - 1
            break
    # 2
    r2 = copy(2)
    del r2[next(i for i, r in enumerate(r2) if r["e"] == "cmd" and r["k"] == "ACT")]
    # 3
    r3 = copy(3)
    i = next(i for i, r in enumerate(r3) if r["e"] == "rsp" and r["op"] == "read" and r["d"])
    r3[i]["d"][0] ^= 0x5A
    del r3[next(j for j, r in enumerate(r3) if r["e"] == "rsp" and j > i)]
    d = core.scratch("dramneg-")
    p = os.path.join(d, "negative.ndjson")
    with open(p, "w") as f:
        for r in r1 + r2 + r3:
            f.write(json.dumps(r) + "\n")
    res = validate_files(ck, [p])[0]
    got = {}
    for c in res.tagged.get("CASE", []):
        got.setdefault(c["sys"], set()).add(c["class"])
    wants = {9001: [{"tRCD_activate_to_read", "tRCD_activate_to_write"}], 9002: [{"column_command_to_closed_bank"}],
             9003: [{"read_data_mismatch", "masked_write_changed_unmasked_bytes"}, {"request_never_completed"}]}
    for sysid, alts in wants.items():
        for classes in alts:
            if not (got.get(sysid, set()) & classes):
                raise core.Broken("monitor self-test: planted error %d not flagged (wanted one of %s, got %s)" % (
                    sysid - 9000, sorted(classes), sorted(got.get(sysid, set()))))
    ck.cov["monitor_negative_controls"] = 4


def run(ck):
    ck.cov["rule"] = ("(1) DRAMBank.tla: TLC checks on a toy that the monitor's incremental judgement equals the declarative reading "
                      "of the statement, that each of the 23 rules is the sole reason of some rejection and that legal schedules exist. "
                      "(2) every preset x page policy x queue configuration: a real controller under a seeded contended stream; every "
                      "command issued (hook H1), request and response is one trace record judged by DRAMTrace.tla. evaluations = "
                      "trace records judged; traces_validated = systems; non-trivial = systems whose stream contains row hits or "
                      "conflicts on several banks (at least 3 banks, precharges or auto-precharges and more commands than requests).")
    ck.assumptions += ["hook H1 reports every command at the single issue point (bankTickMW.issue) with the controller's own decode",
                       "issue cycle = engine time / controller period (not the controller's internal tick counter)",
                       "protocol family (ddr / gddr / hbm) is taken from the preset's name",
                       "the requester never overlaps a write in flight with another request on the same byte",
                       "a write with a DirtyMask writes the masked bytes only (memprotocol contract as implemented by idealmemcontroller)"]
    binary = build(ck)
    if os.environ.get("C22_DEV_SKIP_ORACLE") and core.REPO != "/repo":
        ck.note("development aid: oracle model checking skipped (mutation testing against %s)" % core.REPO)
    else:
        check_oracle(ck)
    systems, groups = systems_for(ck)
    out, results, d = run_systems(ck, binary, systems, groups, "C22")
    n_cases, stats = report_cases(ck, out, results, "C22")
    monitor_selftest(ck, out)
    events = sum(out["lines"])
    ck.cov["traces_validated_against_impl"] += len(out["systems"])
    ck.cov["evaluations"] += events
    ck.cov["requests"] = sum(s["sent"] for s in out["systems"])
    ck.cov["completed"] = sum(s["completed"] for s in out["systems"])
    ck.cov["commands_observed"] = sum(sum(s["cmds"].values()) for s in out["systems"])
    kinds = {}
    for s in out["systems"]:
        for k, v in s["cmds"].items():
            kinds[k] = kinds.get(k, 0) + v
    ck.cov["commands_by_kind"] = kinds
    ck.cov["column_commands_vs_access_units"] = [sum(v for k, v in kinds.items() if k in ("RD", "RDA", "WR", "WRA")),
                                                 sum(s["units"] for s in out["systems"])]
    ck.cov["row_hits_seen_by_monitor"] = sum(s.get("col_after_col", 0) for s in stats)
    ck.cov["distinct_nontrivial"] += sum(1 for s in out["systems"] if s["banks_touched"] >= 3 and sum(s["cmds"].values()) > s["sent"]
                                         and (s["cmds"].get("PRE", 0) + s["cmds"].get("RDA", 0) + s["cmds"].get("WRA", 0)) > 0)
    ck.cov["configurations"] = sorted({"%s/%s/%s" % (s["cfg"]["preset"], s["cfg"]["policy"], s["cfg"]["queue"]) for s in out["systems"]})
    ck.sample({"trace_excerpt": out["sample"][:16]})
    s0 = out["systems"][0]
    ck.sample({"system": s0["cfg"], "spec_numbers": s0["spec"], "commands": s0["cmds"], "cycles": s0["cycles"]})
    ck.note("%d systems, %d requests (%d completed), %d commands, %d trace records judged, %d rule failures" % (
        len(out["systems"]), ck.cov["requests"], ck.cov["completed"], ck.cov["commands_observed"], events, n_cases))
