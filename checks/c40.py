"""C40 — monitor requests never race with a running simulation (spec/monitor/Monitor.tla, MonTrace.tla)."""
import concurrent.futures, glob, json, os, re, shutil
from vlib import core, tracecheck

LEVEL = "model_checking"
TECHNIQUE = ("TLA+ model of the serial run loop composed with the HTTP handlers of monitoring2 (one access pattern per endpoint class) model-checked "
             "with TLC; TLC-emitted request/gate schedules replayed on a real Monitor serving HTTP on loopback next to a real SerialEngine, the "
             "mutex-ordered log judged by TLC against the abstract conflict rule (access timing, and content: a response must show a state version that was "
             "current at a pause point inside the request); every variant of /api/field (plain, slice_offset, slice_limit, both, through a map, through an "
             "interface, missing path, malformed paging) issued while a handler is parked mid-event after a transient write; Go race detector as a second oracle")
LEVEL_TEXT = ("Monitor.tla composes the run loop of timing/serialengine.go (chk, flag load, wait, dispatch lock, handler start, handler end) with HTTP "
              "handler processes following monitor.go (pause/continue/state under engineControlMu, component/field through pauseForInspection which keeps "
              "the mutex until it has continued -- field in three classes: plain, paged (slice_offset/slice_limit: the monitor's own walk and page), missing path "
              "(the 404 is the result of a walk over component state) --, now/buffers/progress/tick without any pause); TLC explores every interleaving of 2-3 overlapping clients for "
              "the design's own invariants (mutex, enginePaused mirrors the engine flag, the engine stays held and no handler runs until the LAST "
              "overlapping inspection finished, termination once left running) and classifies every endpoint class against the conflict rule. Three negative "
              "controls must be refuted by TLC: the old flag-only Pause, a pauseForInspection that does not keep the mutex across the inspection, and a "
              "/api/field that walks the component before pausing (EarlyWalk). TLC also "
              "emits every schedule a sequential client can realise (requests x gate passages); each is replayed on a real monitoring2.Monitor (HTTP, loopback) "
              "whose simulation handlers are gates. Overlapping requests are driven too: an inspection of a multi-megabyte field whose client stops reading "
              "(the handler stays inside the inspection, blocked on the socket) while further requests are issued; no handler may start in that window. The "
              "log (handler start/end, request/response, engine Pause/Continue, observed calls into simulation state, windows) is validated by TLC against "
              "MonTrace.tla; the inspected state of the driver's component is versioned (event K writes a transient version, parks, writes its final version; "
              "a slice behind a map and a slice behind an interface, both replaced as a whole) and every /api/field variant is issued at the mid gate, so "
              "MonTrace also judges content: the version a response shows must have been current at a pause point inside the request. The final results are compared with an unmonitored run. A -race build runs each endpoint while the parked handler keeps "
              "rewriting the inspected state, with no harness-made ordering between requester and run loop; DATA RACE reports are attributed by stack frame.")
LEVEL_NOTE = ("Interleavings are exhaustive in the model only (<=3 clients, <=3 events); on the real code a request is atomic for the controller "
              "(no gate inside monitor.go) except for the stalled large inspection, so only schedules with requests placed at the loop's gates, overlap "
              "scenarios and free-running runs are executed. component/field inspection is race-free since SerialEngine.Pause waits for the dispatch in "
              "flight (any conflict there is a new violation); now/tick/buffers/progress still take no pause: known findings keyed by (endpoint, class, symptom). "
              "/api/field answers are judged per class: field, field_paged and field_missing (a 404 found by walking component state) must neither arrive while "
              "the handler they started under is still executing nor show a transient / older / mixed version; malformed paging parameters (400) and an "
              "unknown component name follow from the request text and the registration list alone, no simulation state, and may be answered at any time "
              "(the unchanged code happens to pause first). Content is decoded only for the versioned map / interface paths. Paged variants are not in the "
              "free-running and race parts (a map walk racing a map write is a Go fatal error, which would end the driver without a verdict). "
              "/api/tick is an intervention by design: results are compared up to the timing of the kicked component.")

ENDPOINTS = ["pause", "continue", "state", "now", "tick", "component", "field", "buffers", "progress"]
FRAME_TO_ENDPOINT = {"now": "now", "tick": "tick", "listComponentDetails": "component", "listFieldValue": "field",
                     "hangDetectorBuffers": "buffers", "sortAndSelectBuffers": "buffers", "listProgressBars": "progress",
                     "pauseEngine": "pause", "continueEngine": "continue", "apiEngineState": "state", "listComponents": "list"}


# ----------------------------------------------------------------------------- helpers

def loose(o):
    """Results up to the timing of a component the user kicked with /api/tick."""
    return dict(counter=o["counter"], vals=o["vals"], queue=o["queue"], level=o["level"], tk_left=o["tk_left"], tk_done=o["tk_done"],
                finished=o["finished"], in_progress=o["in_progress"], kinds=sorted(x.split("@")[0] for x in (o["order"] or [])))


def predicted(beh):
    return sorted({(st[1], "relies_on_nonblocking_pause" if st[3] else "no_pause_at_all") for st in beh if st[0] == "acc" and st[2]})


def directed():
    """Requests at every label of the first events, alone and under a user-level pause."""
    out = []
    g = ["go"]
    for ep in ENDPOINTS:
        for k in range(0, 8):          # 0 = before Run; 1 pre, 2 mid, 3 post of event 1; 4.. event 2
            out.append([g] * k + [["req", ep]] + [g] * 3)
        for k in (1, 2, 3, 5):         # user pause raised at that label, endpoint one label later and again two later, then continue
            out.append([g] * k + [["req", "pause"], g, ["req", ep], g, ["req", ep], ["req", "state"], ["req", "continue"], g, ["req", ep]])
            out.append([g] * k + [["req", "pause"], ["req", ep], ["req", "pause"], ["req", "continue"], ["req", "continue"], g, g])
    return out


# /api/field in all its variants (class of Monitor.tla, concrete request of the driver).  field_badparams is not an
# endpoint class of the model: its 400 follows from the parameter syntax alone (it may be answered at any time).
FIELD_VARIANTS = [("field", "map_plain"), ("field", "iface_plain"),
                  ("field_paged", "map_offset"), ("field_paged", "map_limit"), ("field_paged", "map_both"), ("field_paged", "iface_both"),
                  ("field_paged", "key_absent_midevent"), ("field_paged", "direct"),
                  ("field_missing", "map_key_paged"), ("field_missing", "index_paged"), ("field_missing", "plain"), ("field_missing", "map_key_plain"),
                  ("field_badparams", "offset_syntax"), ("field_badparams", "limit_zero"), ("field_badparams", "offset_negative")]


def directed_variants(q):
    """Every variant of /api/field issued while a handler is parked mid-event after having written a TRANSIENT version of the
    inspected state (label 2 = mid of event 1, 5 = mid of event 2), and at the other labels; alone, twice, and under a user pause."""
    out = []
    g = ["go"]
    for ep, var in FIELD_VARIANTS:
        r = ["req", ep, var]
        for k in ((2, 5, 1) if q else range(0, 9)):
            out.append([g] * k + [r] + [g] * 3)
        out.append([g] * 2 + [["req", "pause"], r, g, g, r, ["req", "continue"], g, r, g])
        if not q:
            out.append([g] * 5 + [r, g, r, g, g, r])
            out.append([g] * 4 + [["req", "pause"], g, r, g, r, ["req", "state"], ["req", "continue"], g, r])
    return out


def overlaps(q):
    if q:
        return [dict(event=1, position="post", user_paused=False, b=["field"]),
                dict(event=2, position="mid", user_paused=False, b=["component"]),
                dict(event=1, position="pre", user_paused=True, b=["continue"]),
                dict(event=0, position="", user_paused=False, b=["now", "component", "state"]),
                dict(event=1, position="mid", user_paused=False, b=["pause", "continue"]),
                dict(event=5, position="post", user_paused=True, b=["field", "continue"]),
                dict(event=3, position="post", user_paused=False, b=["buffers", "tick", "progress", "field"]),
                dict(event=0, position="", user_paused=True, b=["state", "continue"])]
    out = []
    for ev, pos in ((0, ""), (1, "pre"), (1, "mid"), (1, "post"), (2, "mid"), (5, "post")):
        for up in (False, True):
            for b in (["field"], ["component"], ["continue"], ["pause", "continue"], ["now", "buffers", "field"]):
                out.append(dict(event=ev, position=pos, user_paused=up, b=b))
    return out


def judge_overlaps(ck, out):
    infos = out.get("overlap") or []
    sure = [x for x in infos if x.get("window_certain")]
    ck.cov["overlap_windows_certain"] = len(sure)
    if infos and not sure:
        raise core.Broken("no overlap scenario kept the large inspection blocked on the socket (response smaller than the kernel buffers?): %s" % infos[:2])
    for x in sure:
        if x["handled_before_drain"] > x["handled_before_b"]:
            key = {"endpoint": "field", "class": "pause_released_under_inspection", "symptom": "handler_started_during_access"}
            ck.report(key, "overlap: while a /api/field inspection of a large field was still serializing (its client not reading), the requests %s completed "
                           "and the engine handled %d event(s) (handled count %d -> %d before the inspection was drained): the engine was not kept held "
                           "until the last overlapping inspection finished" % (x.get("b_completed_in_window"), x["handled_before_drain"] - x["handled_before_b"],
                                                                                x["handled_before_b"], x["handled_before_drain"]), {"mode": "overlap", "scenario": x})
    ck.sample({"overlap": {k: infos[0][k] for k in ("b", "b_completed_in_window", "handled_before_b", "handled_before_drain", "a_bytes", "window_certain")}} if infos else {})
    ck.note("overlap: %d scenarios, %d with a certain window; requests completed inside a window: %s" % (
        len(infos), len(sure), sorted({e for x in sure for e in (x.get("b_completed_in_window") or [])})))


def judge_outcomes(ck, out, label):
    for d in out.get("outcome_differs") or []:
        eps = d["endpoints"]
        if "tick" in eps and loose(d["got"]) == loose(d["want"]):
            ck.cov["tick_timing_shifts"] = ck.cov.get("tick_timing_shifts", 0) + 1
            continue
        key = {"endpoint": eps[0] if len(set(eps)) == 1 else "sequence", "class": "any", "symptom": "outcome_differs"}
        ck.report(key, "%s: after the requests %s the simulation, left running, finished with results different from an unmonitored run: got %s, want %s"
                  % (label, eps, json.dumps(d["got"]), json.dumps(d["want"])), {"mode": label, "scenario": d})
    for h in out.get("hangs") or []:
        eps = h["endpoints"]
        key = {"endpoint": eps[0] if len(set(eps)) == 1 else "sequence", "class": "any", "symptom": "simulation_does_not_finish"}
        ck.report(key, "%s: after the requests %s: %s" % (label, eps, h["what"]), {"mode": label, "scenario": h})
    if out.get("bad"):
        raise core.Broken("%s: monitor requests failed (not a verdict): %s" % (label, out["bad"][:5]))


def run_logged(ck, parts):
    """parts: [(label, payload, behaviours or None)]. Runs every part on the real monitor, concatenates the logs (scenario numbers
    offset per part) and has TLC judge them in one MonTrace run."""
    binary = ck.binary("monitor")
    d = core.scratch("mon-")
    path = os.path.join(d, "trace.ndjson")
    outs, offs, off = [], [], 0
    with open(path, "w") as allf:
        for label, payload, behaviours in parts:
            pp = os.path.join(d, "part-%s.ndjson" % label)
            out = core.harness(binary, "mon_run", dict(payload, seed=ck.seed, out=pp), timeout=1500)
            with open(pp) as f:
                for line in f:
                    rec = json.loads(line)
                    if rec.get("e") == "reset":
                        rec["scn"] += off
                    allf.write(json.dumps(rec) + "\n")
            outs.append(out)
            offs.append(off)
            off += out["scenarios"]
    v = tracecheck.validate(ck, ["monitor", "common"], "MonTrace", "MonTrace.cfg", path, timeout=900)
    if not v.accepted:
        keep = os.path.join(core.VERIF, "replays", "C40-log-seed%d.ndjson" % ck.seed)
        os.makedirs(os.path.dirname(keep), exist_ok=True)
        shutil.copyfile(path, keep)
        raise core.Broken("the log of the real run is not well-formed for MonTrace (matched %s, next %s, invariant %s); kept %s"
                          % (v.matched, v.next, v.invariant, keep))
    cases = v.tlc.tagged.get("CASE", [])
    res = []
    for i, (label, payload, behaviours) in enumerate(parts):
        out = outs[i]
        ck.cov["traces_validated_against_impl"] += out["scenarios"]
        ck.cov["distinct_nontrivial"] += out["scenarios"]
        ck.cov["evaluations"] += out["events"]
        ck.cov["requests"] = ck.cov.get("requests", 0) + out["requests"]
        seen = {}
        for c in cases:
            scn = c["scn"] - offs[i]
            if not (0 <= scn < out["scenarios"]):
                continue
            k = (c["endpoint"], c["class"], scn)
            if k in seen:
                continue
            seen[k] = c
            key = {"endpoint": c["endpoint"], "class": c["class"], "symptom": c["symptom"]}
            beh = behaviours[scn] if behaviours and scn < len(behaviours) else None
            if c["how"] == "response_content":
                desc = ("%s: the response of a /api/%s request shows simulation state that was current at no pause point inside the request (a transient "
                        "value written in the middle of an event, a value older than the request, or a mixture): the state was read, or a reference into it "
                        "was captured, while an event handler was executing (%s); scenario %d, log line %d, schedule %s"
                        % (label, c["endpoint"], c["class"], scn, c["line"], json.dumps(beh)))
            elif c["how"] == "window_of_stalled_request":
                desc = ("%s: an event handler %s while an overlapping /api/%s inspection was still serializing component state (%s): the engine was not "
                        "kept held until the last inspection finished; scenario %d, log line %d"
                        % (label, "started" if c["symptom"] == "handler_started_during_access" else "was running", c["endpoint"], c["class"], scn, c["line"]))
            else:
                desc = ("%s: endpoint class %s accessed simulation state (%s, %s) while an event handler was executing (%s); scenario %d, log line %d"
                        % (label, c["endpoint"], c["what"], c["how"], c["class"], scn, c["line"]))
            ck.report(key, desc,
                      {"mode": label, "case": c, "schedule": beh, "payload": {k2: v2 for k2, v2 in payload.items() if k2 not in ("behaviours", "run_until")},
                       "driven_by": "RunUntil" if scn in (payload.get("run_until") or []) else "Run"})
        judge_outcomes(ck, out, label)
        if out.get("sample"):
            ck.sample({label: out["sample"][:16]})
        ck.note("%s: %d scenarios, %d requests, %d log records; %d conflict case(s) in %d scenario(s); blocked requests %d; outcome differences %d"
                % (label, out["scenarios"], out["requests"], out["events"], len(seen), len({k[2] for k in seen}), out.get("blocked_requests", 0),
                   len(out.get("outcome_differs") or [])))
        res.append((out, seen))
    return res


_FN = re.compile(r"^  (\S+)\(\)\s*$")


def parse_race_log(text):
    reps = []
    for block in text.split("=================="):
        if "WARNING: DATA RACE" not in block:
            continue
        fns = [m.group(1) for m in map(_FN.match, block.splitlines()) if m]
        mon = [f.split("(*Monitor).")[1].split(".")[0].replace("-fm", "") for f in fns if "monitoring2.(*Monitor)." in f]
        reps.append(dict(fns=fns, monitor_frames=mon, unrestored="failed to restore the stack" in block,
                         sim_side=any("(*SerialEngine)." in f or "drivers/monitor.(*Core)" in f or "drivers/monitor.(*Tk)" in f for f in fns),
                         text=block.strip()[:3000]))
    return reps


def race_one(binary, sc, seed):
    d = core.scratch("race-")
    env = {"GORACE": "halt_on_error=0 exitcode=0 log_path=%s" % os.path.join(d, "race")}
    out = core.harness(binary, "mon_run", dict(sc, mode="race", seed=seed), timeout=300, env=env)
    text = ""
    for fn in glob.glob(os.path.join(d, "race.*")):
        with open(fn, errors="replace") as f:
            text += f.read()
    shutil.rmtree(d, ignore_errors=True)
    return sc, out, parse_race_log(text)


def run_race(ck, scenarios, workers=3):
    binary = ck.binary("monitor", race=True)
    nrep = 0
    hit = set()
    with concurrent.futures.ThreadPoolExecutor(max_workers=workers) as ex:
        results = list(ex.map(lambda sc: race_one(binary, sc, ck.seed), scenarios))
    for sc, out, reps in results:
        ck.cov["traces_validated_against_impl"] += 1
        info = out["race"]
        for r in reps:
            eps = [FRAME_TO_ENDPOINT.get(f) for f in r["monitor_frames"] if FRAME_TO_ENDPOINT.get(f)]
            if eps:
                ep = eps[0]
            elif r["unrestored"] or any("monitoring2." in f for f in r["fns"]):
                ep = sc["endpoint"]
            else:
                raise core.Broken("race report without a monitoring2 frame while %s was in flight (harness or unrelated race):\n%s" % (sc, r["text"]))
            paused = sc.get("user_paused") or (ep == sc["endpoint"] and info.get("own_pause"))
            key = {"endpoint": ep, "class": "relies_on_nonblocking_pause" if paused else "no_pause_at_all", "symptom": "data_race_report"}
            nrep += 1
            hit.add((ep, key["class"]))
            ck.report(key, "race detector: DATA RACE between the %s handler of the monitor and the simulation (%s; request issued at the %s gate of event %d%s)"
                      % (ep, key["class"], sc["position"], sc.get("event", 1), ", under a user pause" if sc.get("user_paused") else ""),
                      {"scenario": sc, "report": r["text"]})
        judge_outcomes(ck, out, "race:%s" % sc["endpoint"])
    ck.cov["race_scenarios"] = ck.cov.get("race_scenarios", 0) + len(scenarios)
    ck.cov["race_reports"] = ck.cov.get("race_reports", 0) + nrep
    ck.note("race build: %d scenarios, %d DATA RACE reports, attributed to %s" % (len(scenarios), nrep, sorted(hit)))
    ck.sample({"race_reports_by_endpoint_class": sorted(hit)})


# ----------------------------------------------------------------------------- the check

def run(ck):
    q = ck.tier == "quick"
    ck.cov["rule"] = ("TLC: all interleavings of Monitor.tla within the cfg bounds. Real code: one case = one schedule (>=1 HTTP request placed at a gate of the run "
                      "loop, or a free-running program with a request stream, or one race-build run of one endpoint); all involve a live monitor and a running engine.")
    ck.assumptions += [
        "a request is atomic for the controller: requests are placed at the run loop's gates (before Run, before the handler, inside the handler, after it), not inside monitor.go; the one exception is the large inspection whose client stops reading",
        "a stalled inspection is known to be still inside its inspection when more bytes than the kernel's socket buffers can hold (tcp_wmem max + 2 MiB, receive buffer fixed at 32 KiB) arrive after the client resumes reading",
        "an access is known to overlap a handler only when it is observed at a call made by the monitor (engine time, TickLater, buffer level) or when the whole request lies inside one handler execution",
        "the race detector's happens-before tracking is sound; the harness adds no ordering between the requester and the run loop in race mode",
        "progress bars carry their own mutex (the simulation updates them under it): an overlap of /api/progress with a handler is judged by the race detector only",
        "/api/tick deliberately schedules a tick: results of schedules containing it are compared up to the timing of the kicked component",
        "net/http, sync.Mutex, sync.Cond behave as documented",
    ]
    # 1. the model of the design as it is (repaired engine, inspections keep the control mutex), overlapping clients
    r = ck.run_tlc(["monitor"], "Monitor", "Monitor_q.cfg" if q else "Monitor_t.cfg", workers=4 if q else 8, timeout=1200)
    if not r.ok:
        raise core.Broken("Monitor.tla violates its own invariant %s %s" % (r.violated, r.error))
    if not q:
        r3 = ck.run_tlc(["monitor"], "Monitor", "Monitor_t3.cfg", workers=8, timeout=1800)
        if not r3.ok:
            raise core.Broken("Monitor.tla (3 clients) violates its own invariant %s %s" % (r3.violated, r3.error))
    # negative controls: TLC must refute both
    h = ck.run_tlc(["monitor"], "Monitor", "Monitor_hyp.cfg", workers=2, timeout=600)
    if h.ok or h.violated != "NoConcurrentAccessUnderPause":
        raise core.Broken("negative control lost: the flag-only Pause of the old engine is not refuted by TLC (%s)" % h.summary())
    n = ck.run_tlc(["monitor"], "Monitor", "Monitor_negoverlap.cfg", workers=2, timeout=600)
    if n.ok or n.violated != "InspectionHeld":
        raise core.Broken("negative control lost: a pauseForInspection that drops the control mutex during the inspection is not refuted by TLC (%s)" % n.summary())
    wk = ck.run_tlc(["monitor"], "Monitor", "Monitor_negwalk.cfg", workers=2, timeout=600)
    if wk.ok or wk.violated != "NoConcurrentAccess":
        raise core.Broken("negative control lost: a /api/field that walks the component before pauseForInspection is not refuted by TLC (%s)" % wk.summary())
    ck.note("negative controls refuted by TLC: flag-only Pause (%s), control mutex not kept across overlapping inspections (%s), "
            "field walk before the pause (%s)" % (h.violated, n.violated, wk.violated))
    c = ck.run_tlc(["monitor"], "Monitor", "Monitor_cases.cfg", workers=1, timeout=600)
    if not c.ok:
        raise core.Broken("Monitor_cases: %s %s" % (c.violated, c.error))
    model_cases = sorted({(x["endpoint"], x["class"], x["symptom"]) for x in c.tagged["CASE"]})
    ck.cov["model_conflict_classes"] = ["%s/%s/%s" % x for x in model_cases]
    ck.note("model: conflicting (endpoint, class): %s" % sorted({x[:2] for x in model_cases}))
    if any(x[0] in ("component", "field", "field_paged", "field_missing", "pause", "continue", "state") for x in model_cases):
        raise core.Broken("the model of the current design has a conflict for an endpoint class that pauses: %s" % model_cases)
    # 2. realisable schedules from TLC, replayed on the real monitor
    s = ck.run_tlc(["monitor"], "Monitor", "Monitor_sched_q.cfg" if q else "Monitor_sched_t.cfg", workers=4 if q else 8, timeout=1500)
    if not s.ok:
        raise core.Broken("schedule emission failed: %s %s" % (s.violated, s.error))
    behs = s.tagged["BEHAVIOUR"]
    ck.cov["schedules_emitted"] = len(behs)
    racy = [b for b in behs if predicted(b)]
    calm = [b for b in behs if not predicted(b)]
    ck.rng.shuffle(racy)
    ck.rng.shuffle(calm)
    chosen = racy[:100 if q else 1500] + calm[:50 if q else 800] + directed()
    n0 = len(chosen)
    chosen += directed_variants(q)
    run_until = list(range(1, n0, 7)) + list(range(n0, len(chosen), 2))   # the same loop entered through RunUntil (time-boundary flow)
    ck.cov["schedules_driven_by_RunUntil"] = len(run_until)
    ck.cov["field_variant_schedules"] = len(directed_variants(q))
    free_eps = [e for e in ENDPOINTS if e != "tick"]   # tick's unsynchronised queue write is exercised only at gates
    (out, seen), (out2, _), (out3, _) = run_logged(ck, [
        ("gated", dict(mode="gated", nwork=3, gap=4, run_until=run_until, behaviours=[[st[:3] for st in b if st[0] != "acc"] for b in chosen]), chosen),
        # 3. free-running engine with a request stream
        ("free", dict(mode="free", nwork=60 if q else 200, gap=3, programs=6 if q else 60, requests=25 if q else 60, spin=300, endpoints=free_eps), None),
        # 3b. overlapping requests: a stalled multi-megabyte inspection A, requests B inside its window
        ("overlap", dict(mode="overlap", nwork=3, gap=4, overlaps=overlaps(q)), None)])
    judge_overlaps(ck, out3)
    # the model's prediction per schedule vs what the real monitor did
    pred = sum(len(predicted(b)) for b in chosen)
    got = len(seen)
    unpredicted = [k for k in seen if k[2] < len(chosen) and chosen[k[2]] and any(st[0] == "acc" for st in chosen[k[2]])
                   and (k[0], k[1]) not in predicted(chosen[k[2]])]
    ck.cov["predicted_conflicts"] = pred
    ck.cov["observed_conflicts"] = got
    ck.note("model predicted %d conflicts on the TLC schedules; the real monitor showed %d (incl. directed schedules); observed but not predicted: %d"
            % (pred, got, len(unpredicted)))
    not_in_model = sorted({(k[0], k[1]) for k in seen} - {x[:2] for x in model_cases})
    if not_in_model:
        ck.note("real conflicts of a class the model does not have (still reported): %s" % not_in_model)
    # 4. race detector
    scs = []
    for ep in ENDPOINTS:
        scs.append(dict(endpoint=ep, event=1, position="mid", user_paused=False, delay_ms=120))
    scs += [dict(endpoint="tick", event=5, position="mid", user_paused=False, delay_ms=120),
            dict(endpoint="tick", event=5, position="post", user_paused=False, delay_ms=120),
            dict(endpoint="now", event=1, position="post", user_paused=False, delay_ms=120),
            dict(endpoint="field", event=1, position="pre", user_paused=False, delay_ms=120),
            dict(endpoint="field", event=1, position="post", user_paused=False, delay_ms=120),
            dict(endpoint="component", event=2, position="mid", user_paused=True, delay_ms=120),
            dict(endpoint="buffers", event=5, position="mid", user_paused=True, delay_ms=120)]
    if not q:
        for ep in ENDPOINTS:
            for ev in (1, 2, 5):
                for pos in ("pre", "mid", "post"):
                    for up in (False, True):
                        sc = dict(endpoint=ep, event=ev, position=pos, user_paused=up, delay_ms=150)
                        if sc not in scs:
                            scs.append(sc)
    run_race(ck, scs, workers=3 if q else 6)
    ck.cov["distinct_nontrivial"] += len(scs)
