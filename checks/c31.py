"""C31 — endpoints packetize and reassemble losslessly (spec/noc/Endpoint.tla)."""
import math
from vlib import core

LEVEL = "model_checking"
TECHNIQUE = ("Endpoint.tla defines the flit count as the least n>=1 with n*flitSize >= bytes*(1+overhead) (integer arithmetic "
             "in quarters, no rounding formula of the code) and the reassembly as a state machine in which the flits of 2-3 "
             "messages arrive in any order and a message is delivered once, only when complete; TLC checks soundness of the "
             "count, delivered-only-complete, no-merge and eventual delivery, and emits the count table and the complete "
             "state graph. A real sending endpoint packetizes every table entry (count per message ID, carried metadata, "
             "round trip through a real receiving endpoint); every arrival order of the graph is put flit by flit into a "
             "real endpoint's network port and the observed interleaving of arrivals and device-port deliveries (port hook) "
             "is validated step by step against the graph.")
LEVEL_TEXT = ("Exhaustive within bounds: byte counts 0..K*F+1 (K=4 quick, 16 thorough) plus large values, overheads {0,1/4,1/2,1}, "
              "flit sizes {1,4,16,64}; every arrival order of 2-3 messages x 1-3 flits with <=6 (quick) / <=8 (thorough) flits "
              "in total, seeded orders for the larger configurations; seeded channel counts, buffer sizes, arrival gaps, "
              "drain rates, manual ticks and the real serial engine.")
LEVEL_NOTE = ("Overheads restricted to exactly representable fractions; flits are produced by a real sending endpoint and "
              "reordered by the harness (no switch in between); TLC 1.8 and the Go toolchain are trusted.")


def orders_of(g, init_key, limit, rng, samples):
    """Arrival orders of one configuration = maximal paths over `arrive` edges (no delivery taken).
    All of them when there are at most `limit`, otherwise `samples` seeded ones."""
    shape = g.nodes[init_key]["shape"]
    total = sum(shape)
    arr = {}

    def arrive_edges(k):
        if k not in arr:
            arr[k] = [(a, t) for a, t in g.out.get(k, []) if a["op"] == "arrive"]
        return arr[k]

    if math.factorial(total) <= limit:
        out = []
        stack = [(init_key, [])]
        while stack:
            k, path = stack.pop()
            es = arrive_edges(k)
            if not es:
                out.append(path)
                continue
            for a, t in es:
                stack.append((t, path + [[a["m"], a["i"]]]))
        return out, True
    out = []
    for _ in range(samples):
        k, path = init_key, []
        while True:
            es = arrive_edges(k)
            if not es:
                break
            a, t = rng.choice(es)
            path.append([a["m"], a["i"]])
            k = t
        out.append(path)
    return out, False


def nontrivial_order(order):
    """Some message's flits are interleaved with another's or arrive out of sequence."""
    nxt = {}
    for m, i in order:
        if nxt.get(m, 1) != i:
            return True          # reordered within the message
        nxt[m] = i + 1
    blocks = [m for k, (m, _) in enumerate(order) if k == 0 or order[k - 1][0] != m]
    return len(blocks) != len(set(blocks))   # a message resumed after another one started


def run(ck):
    quick = ck.tier == "quick"
    cfg = "Endpoint_q.cfg" if quick else "Endpoint_t.cfg"
    r = ck.run_tlc(["noc"], "Endpoint", cfg, workers=8, timeout=300 if quick else 600)
    if not r.ok:
        raise core.Broken("Endpoint.tla itself fails: %s %s\n%s" % (r.violated, r.error, "\n".join(r.lines[-20:])))
    table = {(c["bytes"], c["o4"], c["flit"]): c for c in r.tagged["CASE"]}
    g = core.Graph(r.tagged["INIT"], r.tagged["EDGE"])
    if not table or not g.edges:
        raise core.Broken("Endpoint.tla emitted no cases / no graph")
    binary = ck.binary("noc1")

    # ------------------------------------------------------------ flit counts
    cases = [dict(c, id=i) for i, (_, c) in enumerate(sorted(table.items()))]
    small = [c for c in cases if c["flits"] <= 5000]
    confs = [dict(outch=1, inch=1, burst=1, cases=cases),
             dict(outch=2, inch=3, burst=3, cases=small),
             dict(outch=ck.rng.choice([3, 4, 8]), inch=ck.rng.choice([2, 4]), burst=ck.rng.choice([2, 4, 5]),
                  cases=ck.rng.sample(small, len(small)))]
    n_count = n_flits = 0
    for conf in confs:
        out = core.harness(binary, "epcount", conf, timeout=900)
        n_count += out["cases"]
        n_flits += out["flits"]
        for s in (out.get("samples") or [])[:2]:
            ck.sample(dict(s, part="count"))
        for f in out["failures"] or []:
            key = {"part": "count", "kind": f["kind"]}
            desc = "%s: %s (bytes=%d overhead=%d/4 flit=%d specified=%d got=%d; outch=%d inch=%d burst=%d)" % (
                f["kind"], f.get("detail", ""), f["bytes"], f["o4"], f["flit"], f["want"], f["got"],
                conf["outch"], conf["inch"], conf["burst"])
            one = [c for c in conf["cases"] if c["id"] == f["case"]]
            ck.report(key, desc, {"driver": "epcount", "family": "noc1",
                                  "input": dict(conf, cases=one), "failure": f})
        if out["nfailures"] > len(out["failures"] or []):
            ck.note("%d further count failures not itemised" % (out["nfailures"] - len(out["failures"] or [])))

    # ------------------------------------------------------------ reassembly
    limit, samples = (720, 150) if quick else (40320, 3000)
    runs, n_exh, n_samp = [], 0, 0
    for k in g.inits:
        orders, exhaustive = orders_of(g, k, limit, ck.rng, samples)
        shape = g.nodes[k]["shape"]
        for o in orders:
            runs.append(dict(id=len(runs), shape=shape, order=o, init=k,
                             inch=ck.rng.choice([1, 1, 2, 3]), netbuf=ck.rng.choice([1, 2, 4, 8]),
                             devbuf=ck.rng.choice([1, 2]), ndev=ck.rng.choice([1, 2]),
                             gaps=[ck.rng.choice([0, 0, 0, 1, 2]) for _ in o], drain=ck.rng.choice([1, 1, 2, 3]),
                             mode=ck.rng.choice(["tick", "tick", "tick", "engine"]), twin=ck.rng.random() < 0.5))
        if exhaustive:
            n_exh += len(orders)
        else:
            n_samp += len(orders)
    step = {}
    for s, a, t in g.edges:
        step[(s, core.canon(a))] = t
    n_events = bad = 0
    seen_orders = set()
    nontriv = 0
    batch = 20000
    for i in range(0, len(runs), batch):
        chunk = runs[i:i + batch]
        payload = {"runs": [{k: v for k, v in x.items() if k != "init"} for x in chunk]}
        out = core.harness(binary, "epasm", payload, timeout=900)
        if len(out["runs"]) != len(chunk):
            raise core.Broken("epasm returned %d results for %d runs" % (len(out["runs"]), len(chunk)))
        for x, res in zip(chunk, out["runs"]):
            ok = tuple(map(tuple, x["order"])) + (tuple(x["shape"]),)
            if ok not in seen_orders:
                seen_orders.add(ok)
                if nontrivial_order(x["order"]):
                    nontriv += 1
            events = res.get("events") or []
            problem = None
            if res.get("error"):
                kind = "panic" if res["error"].startswith("panic") else ("sender" if res["error"].startswith("sender") else "stuck")
                problem = (kind, res["error"])
            cur = x["init"]
            if problem is None:
                for ev in events:
                    n_events += 1
                    if ev[0] == "x":
                        problem = ("corrupt_delivery", str(ev[2]))
                        break
                    a = {"op": "arrive", "m": ev[1], "i": ev[2]} if ev[0] == "a" else {"op": "deliver", "m": ev[1]}
                    nxt = step.get((cur, core.canon(a)))
                    if nxt is None:
                        st = g.nodes[cur]
                        if ev[0] == "d":
                            m = ev[1]
                            if st["delivered"][m - 1] == 1:
                                problem = ("duplicate_delivery", "message %d delivered a second time" % m)
                            else:
                                problem = ("early_delivery", "message %d delivered with flits %s of %d arrived" % (
                                    m, st["arrived"][m - 1], st["shape"][m - 1]))
                        else:
                            raise core.Broken("driver reported an arrival the specification does not enable: %s in %s" % (ev, st))
                        break
                    cur = nxt
            if problem is None and not all(d == 1 for d in g.nodes[cur]["delivered"]):
                st = g.nodes[cur]
                problem = ("missing_delivery", "at quiescence delivered=%s (all flits arrived: %s)" % (st["delivered"], st["arrived"]))
            if problem:
                bad += 1
                key = {"part": "asm", "kind": problem[0]}
                desc = "%s: %s; shape=%s order=%s mode=%s inch=%d netbuf=%d devbuf=%d ndev=%d observed=%s" % (
                    problem[0], problem[1], x["shape"], x["order"], x["mode"], x["inch"], x["netbuf"], x["devbuf"], x["ndev"], events)
                ck.report(key, desc, {"driver": "epasm", "family": "noc1",
                                      "input": {"runs": [{k: v for k, v in x.items() if k != "init"}]}, "observed": events})
            elif len(ck.cov["samples"]) < 6 and nontrivial_order(x["order"]) and len(x["shape"]) == 3:
                ck.sample({"part": "asm", "shape": x["shape"], "mode": x["mode"], "inch": x["inch"], "observed": events})

    ck.cov["exhaustive"] = True
    ck.cov["traces_validated_against_impl"] = len(runs) + n_count
    ck.cov["evaluations"] = n_events + n_flits
    ck.cov["count_cases"] = len(cases)
    ck.cov["count_messages_sent"] = n_count
    ck.cov["flits_emitted"] = n_flits
    ck.cov["arrival_orders_exhaustive"] = n_exh
    ck.cov["arrival_orders_sampled"] = n_samp
    ck.cov["events_validated"] = n_events
    ck.cov["distinct_nontrivial"] = nontriv + sum(1 for c in cases if c["flits"] > 1)
    ck.cov["rule"] = ("Count: every (bytes, overhead, flit size) of the TLC table is sent through a real endpoint in three "
                      "channel/burst configurations; flits are counted per carried message ID, must carry the message's "
                      "metadata, and the emitted flits fed to a real receiving endpoint must yield the message exactly once, "
                      "not before its last flit. Reassembly: for every configuration of 2-3 messages x 1-3 flits every arrival "
                      "order (all permutations up to the tier's bound, seeded beyond) is replayed with seeded channels/buffers/"
                      "gaps/drain/engine mode; each observed arrival/delivery must be an edge of the TLC state graph and the "
                      "run must end in the all-delivered state. Non-trivial = order with interleaved or out-of-sequence "
                      "flits, or a count case with more than one flit.")
    ck.assumptions += ["overheads 0, 1/4, 1/2, 1 (exact in binary floating point)",
                       "a flit has 'arrived' when it is in the endpoint's network port",
                       "delivery is observed by a hook on the device port at the moment the endpoint delivers",
                       "messages have distinct IDs; half of the runs make messages 1 and 2 identical except for the ID"]
    ck.note("count: %d messages / %d flits over %d table entries; reassembly: %d orders (%d exhaustive, %d sampled), %d events, %d bad runs" % (
        n_count, n_flits, len(cases), len(runs), n_exh, n_samp, n_events, bad))
