"""C43 — Spec/State validation admits only losslessly serializable types
(spec/ckpt/JsonSem.tla + JsonModel.tla, Go source generated per emitted type)."""
import collections
from vlib import core, jsonmodel as jm

LEVEL = "exploration"
TECHNIQUE = ("TLC enumerates Go type trees (primitive kinds, slice, array, map with key kind, pointer, interface, "
             "custom-JSON types with both/one half/pointer receivers, structs with exported / unexported / json:\"-\" / "
             "omitempty / embedded / duplicate-name fields) to nesting depth 3 (quick) / 4 (thorough, bounded breadth; the real binding takes all types of depth <= 2 and a seeded 8 000 of the deeper ones), "
             "checks on every type the lemmas relating a semantic model of an encoding/json round trip over boundary value "
             "classes (Lossless), a syntactic list of data-losing features (Reasons) and the statement's acceptance rule "
             "(Accepts => lossless for well-formed values, tight, residual only value-level), and prints each struct type "
             "with the model's verdict. Each type is generated as Go source, compiled against the repository and given to "
             "the real modeling.ValidateState/ValidateSpec; boundary values of it (zero, empty-non-nil at every nesting level, max/min, unicode, "
             "non-UTF-8, NaN/Inf, nested) are round-tripped through the checkpoint encoding; a sample also goes through "
             "the real generic Builder.Build and Component.SaveCheckpoint/LoadCheckpoint.")
LEVEL_TEXT = "bounded exploration of the type grammar and of boundary value classes; real validator and real round trip per type"
LEVEL_NOTE = ("Input-space property at the edge of the technique: the TLA+ model structures the space of types and states the "
              "expected verdict per type (and TLC proves the lemmas on the model itself), but Go types and values beyond the "
              "grammar/bounds (recursive types, channels/funcs, text marshalers, wider structs, deeper nesting) are not covered.")

VALUE_CLASS = {"nonutf8": "nonutf8_string", "nan": "float_nonfinite", "inf": "float_nonfinite"}
VALUE_LEVEL = set(VALUE_CLASS.values())


def features(spec_reasons, fails):
    """Which data-losing features explain the failing value classes of an accepted type."""
    fails = set(fails)
    wf_fail = fails - set(VALUE_CLASS)
    structural = set(spec_reasons) - VALUE_LEVEL
    out = set()
    if wf_fail:
        out |= structural if structural else {"unexplained"}
    for cls, reason in VALUE_CLASS.items():
        if cls in fails:
            if reason in spec_reasons:
                out.add(reason)
            elif not wf_fail:
                out.add("unexplained")
    return sorted(out)


def pick_probes(ck, cases, cap):
    groups = collections.defaultdict(list)
    for c in cases:
        groups[(c["acc"], c["ll"], c["sl"], tuple(sorted(c["rs"])))].append(c)
    for g in groups.values():
        g.sort(key=lambda c: (len(core.canon(c["t"])), c["id"]))
    keys = sorted(groups)
    must = [k for k in keys if len(k[3]) <= 1]
    rest = [k for k in keys if len(k[3]) > 1]
    ck.rng.shuffle(rest)
    chosen = []
    # several accepted-and-lossless types (the real component must round-trip every class of them), spread over the group
    for k in keys:
        if k[0] and k[1]:
            g = sorted(groups[k], key=lambda c: c["id"])
            chosen += [g[i]["id"] for i in range(0, len(g), max(1, len(g) // 6))][:6]
    for k in must + rest:
        if len(chosen) >= cap:
            break
        g = groups[k]
        pid = g[0]["id"] if k in must else ck.rng.choice(g[:8])["id"]
        if pid not in chosen:
            chosen.append(pid)
    return chosen


def run(ck):
    quick = ck.tier == "quick"
    cfg = "JsonModel_q.cfg" if quick else "JsonModel_t.cfg"
    r = ck.run_tlc(["ckpt"], "JsonModel", cfg, workers=8, timeout=110 if quick else 480, heap="6g")
    if not r.ok:
        raise core.Broken("JsonModel.tla: a lemma of the model fails (%s %s)\n%s" % (r.violated, r.error, "\n".join(r.lines[-25:])))
    if not quick:
        neg = core.tlc(["ckpt"], "JsonModel", "JsonModel_neg.cfg", workers=2, timeout=120)
        if neg.violated != "NegUnsound":
            raise core.Broken("negative control: TLC did not refute the lax acceptance rule (got %s)" % neg.violated)
        ck.tlc_runs.append(dict(module="JsonModel", cfg="JsonModel_neg.cfg", expected="NegUnsound violated", **neg.summary()))
    cases = jm.assign_ids(r.tagged["CASE"])
    if len(cases) < 1000:
        raise core.Broken("JsonModel emitted only %d types" % len(cases))
    ck.cov["types_in_model"] = len(cases)
    if not quick:
        # TLC checked the lemmas on every type; the real binding takes every type of nesting depth <= 2 and a seeded
        # sample of the deeper ones (compiling ~30 000 types does not fit the budget)
        deep = [c for c in cases if c["d"] >= 3]
        keep = set(c["id"] for c in ck.rng.sample(deep, min(len(deep), 8000)))
        cases = [c for c in cases if c["d"] < 3 or c["id"] in keep]
        ck.cov["deeper_levels_sampled"] = "%d of %d" % (len(keep), len(deep))
    by_id = {c["id"]: c for c in cases}
    probe_ids = pick_probes(ck, cases, 20 if quick else 48)
    d, npk = jm.write_module(cases, probe_ids)
    binary, bt = jm.build(d, timeout=600 if quick else 900)
    ck.note("TLC: %d types (%d states, %.0fs); compiled %d packages in %.0fs; %d probes through the real builder/component" % (
        len(cases), r.distinct, r.wall, npk, bt, len(probe_ids)))
    out = core.harness(binary, "types", {}, timeout=300)
    res = {x["id"]: x for x in out["types"]}
    probes = {x["id"]: x for x in out["probes"] or []}
    if set(res) != set(by_id):
        raise core.Broken("driver returned %d types, %d were generated" % (len(res), len(by_id)))
    if set(probes) != set(probe_ids):
        raise core.Broken("driver returned %d probes, %d were generated" % (len(probes), len(probe_ids)))

    ck.cov["rule"] = ("one case = one generated Go struct type: verdict of the real validator (ValidateState / ValidateSpec; for "
                      "probes: Builder.Build) and the outcome of the real round trip of each boundary value class. Violation = "
                      "accepted and some value does not come back equal (reflect.DeepEqual incl. unexported fields, same type). "
                      "'Rejected although lossless' is never an alarm. Non-trivial = type accepted by the real validator.")
    ck.assumptions += [
        "a custom MarshalJSON/UnmarshalJSON pair is assumed faithful (the generated one is); the validator cannot inspect code",
        "types outside the grammar are not generated: recursive types, chan/func, TextMarshaler keys, >2 fields per struct, "
        "float32/small ints (same code paths as float64/int64 in encoding/json and in the validator's kind switch)",
        "non-probe types take the round trip through encoding/json exactly as Component.SaveCheckpoint/LoadCheckpoint use it "
        "(marshal State by value, unmarshal into a fresh value); probes go through the real component and must agree",
        "every nested struct type is declared with a name, as hand-written State types are",
    ]
    ck.cov["exhaustive"] = False
    ck.cov["traces_validated_against_impl"] += len(cases)
    ck.cov["evaluations"] += out["evaluations"]
    ck.cov["value_classes"] = out["classes"]
    ck.cov["probes"] = len(probe_ids)

    model_mismatch = []
    stats = collections.Counter()
    reported = collections.Counter()

    def judge(c, accepted_as, fails, via):
        feats = features(c["rs"], fails)
        for f in feats:
            key = {"feature": f.split("/")[0], "variant": f.split("/")[1] if "/" in f else ""}
            desc = ("type %s = %s is accepted as %s (%s) but value class(es) %s do not survive the checkpoint round trip: %s" % (
                c["id"], jm.show(c["t"]), "/".join(accepted_as), via, sorted(fails), next(iter(fails.values()))))
            reported[f] += 1
            ck.report(key, desc, {"type": jm.show(c["t"]), "go": jm.go_decl(c["id"], c["t"]), "failing_classes": fails,
                                  "accepted_as": accepted_as, "model": {k: c[k] for k in ("ll", "sl", "acc", "rs")}})

    for tid, c in by_id.items():
        x = res[tid]
        fails = x["fail"]
        real_ll = not fails
        real_sl = not (set(fails) - set(VALUE_CLASS))
        accepted_as = [n for n, v in (("State", x["validate_state"]), ("Spec", x["validate_spec"])) if v == ""]
        via = "ValidateState/ValidateSpec"
        p = probes.get(tid)
        if p is not None:
            via = "Builder.Build"
            accepted_as = [n for n, v in (("State", p["build_state"]), ("Spec", p["build_spec"])) if v == ""]
            stats["probe_build_accepts" if accepted_as else "probe_build_refuses"] += 1
            for role, b, v in (("State", p["build_state"], x["validate_state"]), ("Spec", p["build_spec"], x["validate_spec"])):
                if (b == "") != (v == ""):
                    stats["builder_and_validator_disagree_" + role] += 1
            pess = [k for k, v in (p["disagree"] or {}).items() if v.startswith("component:  |")]
            if pess:
                raise core.Broken("the real component round-trips %s of %s where plain encoding/json does not (%s): the "
                                  "non-probe round trip no longer represents component_checkpoint.go" % (pess, jm.show(c["t"]), p["disagree"]))
            if p["build_state"] == "":
                fails = dict(fails, **p["fail"]) if p["fail"] else fails
        stats["accepted" if accepted_as else "rejected"] += 1
        stats["spec_accepts" if c["acc"] else "spec_rejects"] += 1
        if accepted_as and c["ll"] and real_ll:
            stats["accepted_and_lossless"] += 1
        if not accepted_as and real_ll:
            stats["rejected_although_lossless(no alarm)"] += 1
        if accepted_as and not c["acc"]:
            stats["accepted_but_refused_by_the_statement_rule"] += 1
        if accepted_as:
            ck.cov["distinct_nontrivial"] += 1
        violating = bool(accepted_as and fails)
        if violating:
            judge(c, accepted_as, fails, via)
        if (real_ll != c["ll"] or real_sl != c["sl"]) and not violating:
            model_mismatch.append((jm.show(c["t"]), dict(model_ll=c["ll"], model_sl=c["sl"], real_fail=x["fail"])))
        elif (real_ll != c["ll"] or real_sl != c["sl"]):
            stats["model_mismatch_on_a_violating_type"] += 1
    ck.cov["verdicts"] = dict(stats)
    ck.cov["violating_features"] = dict(reported)
    for tid in list(by_id)[:: max(1, len(by_id) // 5)][:5]:
        c, x = by_id[tid], res[tid]
        ck.sample({"type": jm.show(c["t"]), "model": {"lossless": c["ll"], "wf_lossless": c["sl"], "accepts": c["acc"], "reasons": c["rs"]},
                   "real": {"validate_state": x["validate_state"][:80], "failing_classes": sorted(x["fail"])}})
    ck.note("verdicts: %s" % dict(stats))
    ck.note("accepted-but-lossy by feature: %s" % dict(reported))
    if model_mismatch:
        raise core.Broken("the model of encoding/json disagrees with the real round trip on %d type(s) that are not "
                          "violations, e.g. %s" % (len(model_mismatch), model_mismatch[:3]))
