"""C29 — networks deliver every message exactly once with metadata intact
(spec/noc/Net.tla, spec/noc/NetTrace.tla; harness family nettrace, driver net_trace)."""
import copy, json, os
from vlib import core, tracepar, switchint

LEVEL = "exploration"
TECHNIQUE = ("TLA+ specification of a network as a multiset of in-flight messages (Net.tla) model-checked with TLC, fault-injection "
             "controls of its properties; device-port send/delivery traces of real mesh / PCIe / NVLink / generic-connector networks "
             "under seeded traffic validated by TLC against the specification (NetTrace.tla)")
LEVEL_TEXT = ("Net.tla states the statement on a multiset of in-flight messages with full metadata: Send, and Deliver enabled only for a "
              "message in flight and only at the port its Dst names; TLC checks conservation, at-most-once, no foreign delivery, metadata "
              "intact, exactly-once at rest and (under fair delivery) eventual delivery on a tiny instance, and four control configurations "
              "(drop, duplicate, misroute, corrupt) must each violate the matching property. Real networks are then built with the mesh "
              "(2D/3D, holes), PCIe (random switch trees), NVLink/PCIe hybrid and generic connectors (rings, stars, lines, trees, random "
              "connected graphs; both routers) with seeded frequency, bandwidth, flit size, switch latency, buffer sizes, device drain "
              "rates/stalls and traffic pattern; every send at a sender's device port and every delivery to a device port (port hooks) is "
              "one trace record; TLC steps Net's Send/Deliver over the trace and reports every delivery Net does not admit (foreign, "
              "metadata changed, duplicate, phantom) and, in mesh and tree topologies at quiescence with drained devices, every message "
              "still in flight.")
LEVEL_NOTE = ("The model-checked part is the oracle only (tiny instance); the networks are explored by seeded runs, not exhaustively. "
              "Only connector-built topologies; ideal (direct-connection) links only — the NVLink connector's Ethernet links are not "
              "implemented in the repository (IsIdeal=false panics) and are not used. Payloads are not part of the statement (the network "
              "model carries metadata only). " + switchint.NOTE)

CLASSES = {"foreign_delivery", "metadata_changed", "duplicate_delivery", "phantom_delivery", "undelivered_at_quiescence",
           "not_quiescent_within_bound"}


def model(ck):
    quick = ck.tier == "quick"
    jobs = [dict(cfg="Net_q.cfg" if quick else "Net_t.cfg", workers=4 if quick else 8),
            dict(cfg="Net_live.cfg", workers=1),
            dict(cfg="Net_drop.cfg", expect="Conservation"), dict(cfg="Net_dup.cfg", expect="AtMostOnce"),
            dict(cfg="Net_misroute.cfg", expect="NoForeignDelivery"), dict(cfg="Net_corrupt.cfg", expect="MetadataIntact")]
    res = tracepar.model_runs(ck, ["noc"], "Net", jobs, parallel=3 if quick else 6, timeout=1500)
    ck.cov["model"] = {c: dict(distinct=r.distinct, generated=r.generated, wall_s=round(r.wall, 1)) for c, r in res.items()}
    ck.note("Net.tla: %s" % ", ".join("%s %d states" % (c, r.distinct) for c, r in res.items()))


def selftest(ck, trace_path=None):
    """Negative controls of the binding (R6): a recorded trace with one field corrupted, one delivery repeated,
    one delivery removed and one delivery redirected must each raise the matching rule."""
    # a small hand-made run (independent of the tree under test): two devices, six messages, all delivered
    ports = ["A.Port0", "B.Port0"]
    net = [{"e": "net", "id": 0, "kind": "mesh", "class": "mesh", "shape": "mesh2d", "ports": ports, "must": True}]
    msgs = []
    for k in range(6):
        src, dst = ports[k % 2], ports[(k + 1) % 2]
        msgs.append({"id": 10 + k, "src": src, "dst": dst, "rspto": k % 3, "class": "c%d" % (k % 2), "bytes": 16 * k})
    for m in msgs[:3]:
        net.append({"e": "send", "p": m["src"], "m": dict(m), "t": "1000"})
    for m in msgs[:2]:
        net.append({"e": "recv", "p": m["dst"], "m": dict(m), "t": "5000"})
    for m in msgs[3:]:
        net.append({"e": "send", "p": m["src"], "m": dict(m), "t": "6000"})
    for m in msgs[2:]:
        net.append({"e": "recv", "p": m["dst"], "m": dict(m), "t": "9000"})
    net.append({"e": "quiesce", "t": "9000", "quiescent": True, "unsent": 0, "held": 0, "drained": True})
    idx = [i for i, r in enumerate(net) if r["e"] == "recv"]
    d = core.scratch("c29self-")
    want = {}
    combined = []

    def variant(k, f, cls):
        v = copy.deepcopy(net)
        f(v)
        v[0]["id"] = 9000 + k
        want[9000 + k] = cls
        combined.extend(v)
    variant(1, lambda v: v[idx[1]]["m"].__setitem__("bytes", v[idx[1]]["m"]["bytes"] + 1), "metadata_changed")
    variant(2, lambda v: v.insert(idx[2] + 1, copy.deepcopy(v[idx[2]])), "duplicate_delivery")
    variant(3, lambda v: v.pop(idx[0]), "undelivered_at_quiescence")

    def redirect(v):
        r = v[idx[3]]
        r["p"] = next(p for p in v[0]["ports"] if p != r["p"])
    variant(4, redirect, "foreign_delivery")
    variant(5, lambda v: None, None)   # the sound run itself: nothing may be reported
    p = os.path.join(d, "controls.ndjson")
    tracepar.write_ndjson(p, combined)
    v = tracepar.validate_many(ck, ["noc", "common"], "NetTrace", "NetTrace.cfg", [p], parallel=1, timeout=600)[0]
    got = {}
    for c in v.cases:
        got.setdefault(c["net"], set()).add(c["class"])
    for nid, cls in want.items():
        if cls is None:
            if got.get(nid):
                raise core.Broken("negative controls: the sound hand-made run raises %s" % sorted(got[nid]))
            continue
        if cls not in got.get(nid, set()):
            raise core.Broken("negative control %s: NetTrace did not raise it (raised %s, accepted=%s)" % (cls, sorted(got.get(nid, set())), v.accepted))
    ck.cov["negative_controls"] = sorted(x for x in set(want.values()) if x)


def run(ck):
    quick = ck.tier == "quick"
    ck.cov["rule"] = ("(1) Net.tla model-checked (safety instance, liveness instance, four fault controls that must violate their property). "
                      "(2) seeded real networks (kinds rotate: mesh2d, mesh3d, pcie tree, nvlink hybrid, mesh2d, ring, generic tree/star/line, "
                      "random graph) run to quiescence on the serial engine; one record per device-port send / delivery; TLC validates each "
                      "chunk with NetTrace.tla. Counted per network; non-trivial = a network with at least two devices whose traffic "
                      "contains messages of more than two flits and in which messages were delivered. (3) internals (beyond the statement): the State "
                      "of every switch and endpoint of the same runs, sampled every N-th handled event (capped) and at rest, judged by the rules of "
                      "SwitchInternals.tla; negative controls: every rule must reject exactly its hand-corrupted sample.")
    ck.assumptions += ["message IDs are unique per sender (timing ID generator)", "devices keep draining: a stalled device resumes; checked by the driver (held=0 at quiescence)",
                       "run bound = 1000x the serial transfer time of the traffic; a mesh/tree network still busy then is reported as not quiescent"]
    if not os.environ.get("VERIF_SKIP_MODEL"):   # development aid (sensitivity runs): the model part does not depend on /repo
        model(ck)
    networks, msgs, chunk = (8, 200, 8) if quick else (100, 2000, 10)
    binary = ck.binary("nettrace")
    d = core.scratch("c29-")
    traces, outs, int_jobs = [], [], []
    for first in range(0, networks, chunk):
        n = min(chunk, networks - first)
        path = os.path.join(d, "net_%03d.ndjson" % first)
        inp = dict(seed=ck.seed, networks=n, msgs=msgs, first=first, out=path,
                   **switchint.payload(os.path.join(d, "int_%03d.ndjson" % first), 400 if quick else 4000, 8 if quick else 5))
        out = core.harness(binary, "net_trace", inp, timeout=1500)
        traces.append(path)
        outs.append(out)
        int_jobs.append((inp, out))
    verdicts = tracepar.validate_many(ck, ["noc", "common"], "NetTrace", "NetTrace.cfg", traces, parallel=3 if quick else 8, timeout=1500)
    selftest(ck, traces[0])
    total_events = nontrivial = other_undelivered = 0
    shapes = {}
    for out, v in zip(outs, verdicts):
        total_events += out["events"]
        specs = {s["id"]: s for s in out["specs"]}
        infos = {i["id"]: i for i in out["infos"]}
        if not v.accepted:
            keep = tracepar.keep_trace(ck, v.trace, "nettrace")
            raise core.Broken("trace does not fit the structure of NetTrace (matched %s, next %s, invariant %s); kept at %s" % (
                v.matched, v.next, v.invariant, keep))
        for i in out["infos"]:
            shapes[i["shape"]] = shapes.get(i["shape"], 0) + 1
            s = specs[i["id"]]
            if i["delivered"] > 0 and i["devices"] >= 2 and any(m["bytes"] > 2 * max(s.get("flit_size") or 16, 16) for m in s["msgs"]):
                nontrivial += 1
            if i["class"] == "other" and (i["sent"] != i["delivered"] or not i["quiescent"]):
                other_undelivered += 1
        for c in v.cases:
            if c["class"] not in CLASSES:
                raise core.Broken("driver-level anomaly reported by NetTrace: %s" % json.dumps(c)[:600])
            s, i = specs.get(c["net"]), infos.get(c["net"])
            key = {"class": c["class"], "kind": s["kind"], "shape": s["shape"], "topology": s["class"]}
            desc = "network %d (%s %s, %d devices, %d msgs, pattern %s): %s: %s" % (
                s["id"], s["kind"], s["shape"], len(s["devices"]), len(s["msgs"]), s["pattern"], c["class"], json.dumps(c["d"])[:500])
            ck.report(key, desc, {"driver": "net_trace", "input": {"specs": [s]}, "case": c, "info": i})
    ck.cov["traces_validated_against_impl"] += networks
    ck.cov["evaluations"] += total_events
    ck.cov["distinct_nontrivial"] += nontrivial
    ck.cov["shapes"] = shapes
    ck.cov["cyclic_networks_with_undelivered_messages"] = other_undelivered   # allowed by the statement; informational
    if outs and outs[0].get("sample"):
        ck.sample({"trace_excerpt": outs[0]["sample"][:8]})
        ck.sample({"network": {k: outs[0]["specs"][0][k] for k in ("kind", "shape", "dims", "flit_size", "bandwidth", "sw_latency", "pattern") if k in outs[0]["specs"][0]},
                   "result": outs[0]["infos"][0]})
    # beyond the statement: consistency of the switches' and endpoints' own State on the same runs (SwitchInternals.tla)
    switchint.evaluate(ck, int_jobs, parallel=3 if quick else 8)
    ck.note("%d networks, %d events validated, shapes %s, %d cyclic networks left messages undelivered (allowed)" % (
        networks, total_events, shapes, other_undelivered))
