"""C17 — flushing write-back caches makes backing memory current (spec/mem/Flush.tla, FlushRules.tla, FlushTrace.tla)."""
import os
from vlib import core, memcheck

LEVEL = "exploration"
TECHNIQUE = ("TLA+ model of a hierarchy of write-back caches (drain+flush top-down makes backing current; filtered-flush rule) model-checked "
             "with TLC; real stacks drained and flushed through their control ports after random workloads, traces validated by TLC")
LEVEL_TEXT = ("Exploration with a model-checked oracle. Flush.tla is an abstract chain of write-back caches over a backing memory: TLC "
              "checks that a requester always sees the flat memory, that flushing every cache top-down leaves backing = flat memory at every "
              "written line (a control model flushing bottom-up is refuted), and that the constructive filtered flush satisfies the declarative "
              "rule of FlushRules.tla (exactly the matching dirty lines written back and clean afterwards, every line still valid, the other "
              "dirty lines still dirty). The real caches are NOT transcribed: after a C16 workload on a generated stack (at least one write-back "
              "cache in three stacks out of four; every third (quick) / fifth stack a tiny write-back cache over a slow or back-pressured lower "
              "level, swept with full-line write misses so that write-backs are still queued when the drain arrives) the requester drains every cache and ROB top-down through the Control ports, flushes each cache "
              "with several filters drawn from its directory (address lists with dirty, clean and absent lines, process ids, both) and finally "
              "with the empty filter; the directory before/after every flush, the lines written through the cache's Bottom port, and the "
              "controllers' storages after the last flush are validated by TLC (FlushTrace.tla) against the flat memory of MemHier. In half of the "
              "runs the drain starts while requests are still in flight. Afterwards everything is enabled again and the rest of the workload runs.")
LEVEL_NOTE = ("Coverage of the caches' interleavings is what the seeds reach (quick 8 stacks x 3 filtered flushes per cache, thorough 80 x 8). "
              "Bytes that an unanswered write is touching when the storage is read are excluded from the comparison. Serial engine only.")


def spec_side(ck):
    """Starts TLC on Flush (and the bottom-up control model) in the background."""
    cfg = "Flush_q.cfg" if ck.tier == "quick" else "Flush_t.cfg"
    return memcheck.SpecSide([
        ("Flush", cfg, 6, None),
        # control: flushing bottom-up does not make the backing memory current
        ("Flush", "Flush_control.cfg", 2, "Current"),
    ])


def run(ck):
    ck.cov["rule"] = ("TLC explores Flush.tla within its cfg (plus the bottom-up control). Then every generated stack runs a C16 workload, the "
                      "requester drains and flushes every cache top-down through the control ports and the trace is validated by TLC with "
                      "FlushTrace.tla: every control command acknowledged with success, FlushRules!FlushFilteredOK on every flush (directory "
                      "before/after + lines written downwards), backing storage = flat memory at every written address after the last flush. "
                      "The in-driver oracle must agree with TLC on every run. Non-trivial = a run whose flushes wrote back at least one dirty "
                      "line; evaluations = trace records validated.")
    ck.assumptions += ["serial engine, direct connections", "same workload assumptions as C16", "flush order top-down (Drain, then Flush) as the "
                       "control protocol document prescribes; lower modules stay enabled while upper ones flush",
                       "bytes touched by a write that is still unanswered when the storage is read are not compared"]
    # development aid: mutation runs may skip the specification-side TLC (VERIF_MEMHIER_SKIP_SPEC=1)
    side = None if os.environ.get("VERIF_MEMHIER_SKIP_SPEC") else spec_side(ck)
    if ck.tier == "quick":
        stacks, requests, shards, filters = 8, 300, 4, 3
    else:
        stacks, requests, shards, filters = 80, 2000, 10, 8
    import checks.c16 as c16
    # every k-th stack is of the family "slow lower level": a sweep of full-line write misses at high concurrency over tiny
    # write-back caches whose write-backs queue up behind a slow lower level; the programme starts right after the sweep, so
    # a victim whose write-back was lost is not touched again before the backing storage is inspected
    extra = dict(leaves=c16.leaves(ck, stacks), no_mask_every=2, filters=filters, slow_every=3 if ck.tier == "quick" else 5)
    summary, results = memcheck.campaign(ck, "C17", flush=True, stacks=stacks, requests=requests, shards=shards,
                                         module="FlushTrace", cfg="FlushTrace.cfg", relevant=memcheck.is_c17, extra=extra)
    if side:
        side.join(ck)
    nontrivial = 0
    for p, out, r in results:
        for info in out["runs"]:
            if not info.get("err") and info.get("dirty_flushed", 0) > 0 and not any(memcheck.is_c17(s["class"]) for s in info.get("symptoms") or []):
                nontrivial += 1
    ck.cov["distinct_nontrivial"] += nontrivial
    ck.cov["stacks"] = summary["runs"]
    ck.cov["flushes"] = summary["flushes"]
    ck.cov["filtered_flushes"] = summary["filtered"]
    ck.cov["dirty_lines_written_back"] = summary["dirty_flushed"]
    ck.cov["component_kinds"] = summary["kinds"]
    for d in summary["descs"][:5]:
        ck.sample({"stack": d})
    if summary["dirty_flushed"] == 0:
        raise core.Broken("no flush ever wrote a dirty line back: the campaign exercised nothing")
    ck.note("C17: %d stacks, %d flushes (%d filtered), %d dirty lines written back, %d stacks with a C17 failure" % (
        summary["runs"], summary["flushes"], summary["filtered"], summary["dirty_flushed"], summary["failing"]))
