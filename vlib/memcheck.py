"""Shared machinery of C16 / C17: random stacks of real caches, ROBs and memory controllers
(harness family `memhier`) -> requester-side traces -> MemTrace.tla / FlushTrace.tla monitors ->
CASE records -> minimised failing cases -> reports keyed by features of the minimal case."""
import concurrent.futures as cf
import json, os, shutil
from . import core

C16_CLASSES = {"wrong_data", "wrong_kind", "wrong_destination", "wrong_length", "duplicate_response",
               "response_to_unknown_request", "never_answered", "never_answered_livelock", "panic"}


def is_c17(cls):
    return cls.startswith(("control_", "flush_", "backing_"))


def coarse(cls):
    """The Go oracle and the trace specification name the C17 classes at different granularity."""
    for p in ("control_", "flush_", "backing_"):
        if cls.startswith(p):
            return p[:-1]
    return cls


def record(ck, module, cfg, r):
    """Accounts one TLC run in the evidence (main thread only)."""
    ck.cov["states"] += r.distinct
    ck.cov["transitions"] += r.generated
    ck.tlc_runs.append(dict(module=module, cfg=cfg, **r.summary()))


class SpecSide:
    """TLC on the specifications themselves, started in the background so that it overlaps with the
    campaign on the real code. specs: list of (module, cfg, workers, expect_violation | None).
    join(ck) accounts the runs and raises core.Broken when a model fails its own properties or a
    control model is not refuted."""

    def __init__(self, specs, timeout=3000):
        self.specs = specs
        self.ex = cf.ThreadPoolExecutor(max_workers=len(specs))
        self.futs = [self.ex.submit(core.tlc, ["mem", "common"], m, c, workers=w, timeout=timeout, tags=("CASE",))
                     for m, c, w, _ in specs]

    def join(self, ck):
        out = {}
        for (m, c, w, expect), f in zip(self.specs, self.futs):
            r = f.result()
            record(ck, m, c, r)
            if expect is None:
                if not r.ok:
                    raise core.Broken("%s/%s fails its own properties: %s %s" % (m, c, r.violated, r.error))
            elif r.violated != expect:
                raise core.Broken("%s/%s: control model should refute %s, TLC says ok=%s violated=%s %s" % (
                    m, c, expect, r.ok, r.violated, r.error))
            out[c] = r
            ck.note("%s/%s: %d distinct states, %d transitions, %.1fs%s" % (
                m, c, r.distinct, r.generated, r.wall, "" if expect is None else " (control: %s refuted)" % expect))
        self.ex.shutdown()
        return out


def _validate(module, cfg, trace, timeout):
    """Trace validation without touching the Check object (runs in worker threads)."""
    r = core.tlc(["mem", "common"], module, cfg, workers=1, timeout=timeout, env={"TRACE_FILE": trace},
                 tags=("REJECTED", "CASE"))
    return r


def _shard(binary, payload, module, cfg, timeout):
    out = core.harness(binary, "memhier_run", payload, timeout=timeout)
    r = _validate(module, cfg, payload["out"], timeout)
    return out, r


def campaign(ck, label, *, flush, stacks, requests, shards, module, cfg, relevant, extra=None, timeout=2400,
             parallel=8, minimise=400):
    """Runs `stacks` generated cases in `shards` harness processes, validates every trace with TLC,
    cross-checks the in-driver oracle, and reports the failing cases (minimised) whose class is
    `relevant(cls)`. Returns summary dict."""
    binary = ck.binary("memhier")
    d = core.scratch("memhier-")
    per = (stacks + shards - 1) // shards
    jobs = []
    for s in range(shards):
        first = s * per
        count = min(per, stacks - first)
        if count <= 0:
            break
        p = dict(seed=ck.seed, first=first, count=count, requests=requests, flush=flush,
                 out=os.path.join(d, "t%d.ndjson" % s), min_out=os.path.join(d, "m%d.ndjson" % s), minimise=minimise)
        p.update(extra or {})
        if p.get("internals_every"):
            p["int_out"] = os.path.join(d, "i%d.ndjson" % s)   # State projections for CacheInternals.tla (vlib/cacheint.py)
        jobs.append(p)
    results = []
    with cf.ThreadPoolExecutor(max_workers=parallel) as ex:
        futs = [ex.submit(_shard, binary, p, module, cfg, timeout) for p in jobs]
        for p, f in zip(jobs, futs):
            out, r = f.result()
            results.append((p, out, r))
    summary = dict(runs=0, rejected=0, events=0, requests=0, failing=0, flushes=0, filtered=0, dirty_flushed=0, kinds=set(), descs=[])
    mins = []   # (shard payload, run info) of minimised failing cases to confirm
    for p, out, r in results:
        record(ck, module, cfg, r)
        if not r.ok:
            keep = os.path.join(core.VERIF, "replays", "%s-%s-seed%d-rejected.ndjson" % (ck.pid, label, ck.seed))
            os.makedirs(os.path.dirname(keep), exist_ok=True)
            shutil.copyfile(p["out"], keep)
            raise core.Broken("%s: trace does not fit the structure of %s (%s %s %s); kept at %s" % (
                label, module, r.tagged.get("REJECTED"), r.violated, r.error, keep))
        # CASE records by run (line ranges)
        by_run = {}
        for c in r.tagged.get("CASE", []):
            for info in out["runs"]:
                if info.get("line") and info["line"] <= c["l"] < info["line"] + info["lines"]:
                    by_run.setdefault(info["run"], []).append(c)
        for info in out["runs"]:
            if info.get("err"):
                summary["rejected"] += 1
                continue
            summary["runs"] += 1
            summary["events"] += info["lines"]
            summary["requests"] += info["answered"]
            summary["flushes"] += info.get("flushes", 0)
            summary["filtered"] += info.get("filtered_flushes", 0)
            summary["dirty_flushed"] += info.get("dirty_flushed", 0)
            summary["kinds"].update(info["kinds"])
            summary["descs"].append(info["desc"])
            tlc_classes = {c["class"] for c in by_run.get(info["run"], [])}
            go_classes = {s["class"] for s in info.get("symptoms") or []}
            if {coarse(c) for c in tlc_classes} != {coarse(c) for c in go_classes}:
                raise core.Broken("%s: the trace specification and the in-driver oracle disagree on run %d (%s): TLC %s, driver %s" % (
                    label, info["run"], info["desc"], sorted(tlc_classes), sorted(go_classes)))
            rel = [c for c in by_run.get(info["run"], []) if relevant(c["class"])]
            if rel:
                summary["failing"] += 1
                mins.append((p, info, rel))
    # confirm the minimised cases with the trace specification
    confirmed = {}
    if mins:
        cat = os.path.join(d, "min-all.ndjson")
        offsets = {}
        line = 1
        with open(cat, "w") as w:
            for p in {id(m[0]): m[0] for m in mins}.values():
                if os.path.exists(p["min_out"]):
                    offsets[p["min_out"]] = line - 1
                    with open(p["min_out"]) as f:
                        for ln in f:
                            w.write(ln)
                            line += 1
        if line > 1:
            r = ck.run_tlc(["mem", "common"], module, cfg, workers=1, timeout=timeout, env={"TRACE_FILE": cat}, tags=("REJECTED", "CASE"))
            if not r.ok:
                raise core.Broken("%s: minimised traces rejected by %s: %s %s" % (label, module, r.tagged.get("REJECTED"), r.error))
            for p, info, rel in mins:
                if not info.get("min_line"):
                    continue
                lo = offsets[p["min_out"]] + info["min_line"]
                hi = lo + info["min_lines"]
                confirmed[(p["out"], info["run"])] = [c for c in r.tagged.get("CASE", []) if lo <= c["l"] < hi]
    for p, info, rel in mins:
        feats = dict(info.get("features") or {})
        cls = info.get("class")
        conf = confirmed.get((p["out"], info["run"]), [])
        conf_classes = {coarse(c["class"]) for c in conf}
        replay = {"driver": "memhier_run", "seed": ck.seed, "index": info["index"], "flush": flush, "desc": info["desc"]}
        if info.get("min_case") and coarse(cls) in conf_classes:
            replay["case"] = info["min_case"]
            detail = next(c for c in conf if coarse(c["class"]) == coarse(cls))
            feats["class"] = detail["class"]
        else:
            # not minimised or not confirmed: report the original case under its own features
            feats["minimised"] = False
            replay["case"] = {"stack": info.get("stack"), "work": info.get("work")}
            detail = rel[0]
            feats["class"] = detail["class"]
        feats.pop("requests", None)
        desc = "%s: stack %s (case %d of seed %d): %s; minimal case: stack %s, %d request(s): %s" % (
            label, info["desc"], info["index"], ck.seed, detail["class"],
            feats.get("components"), len(((info.get("min_case") or {}).get("work") or {}).get("script") or []),
            json.dumps(detail.get("d"))[:600])
        ck.report(feats, desc, replay)
    try:
        with open(results[0][0]["out"]) as f:
            summary["excerpt"] = [json.loads(next(f)) for _ in range(6)]
        for rec in summary["excerpt"]:
            for k in ("data", "vals", "before", "after"):
                if isinstance(rec.get(k), list) and len(rec[k]) > 8:
                    rec[k] = rec[k][:8] + ["..."]
        ck.sample({label + "_trace_excerpt": summary["excerpt"]}, cap=8)
    except (OSError, StopIteration, IndexError):
        pass
    ck.cov["traces_validated_against_impl"] += summary["runs"]
    ck.cov["evaluations"] += summary["events"]
    summary["kinds"] = sorted(summary["kinds"])
    return summary, results
