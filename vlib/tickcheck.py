"""Shared machinery of C09 / C10 / C12: TickImpl.tla behaviours -> real systems (harness family
`tick`) -> traces -> TickTrace.tla monitor -> CASE records mapped to properties."""
import json, os
from . import core, tracecheck

UNIT = 1000  # one model time unit in ps

CLASS_PROPERTY = {
    "tick_off_edge": "C12", "tick_twice_in_instant": "C12", "retick_after_progress_missed": "C12",
    "retick_after_progress_never_happened": "C12", "tick_after_notification_never_happened": "C12",
    "foreign_delivery": "C10", "out_of_order_or_duplicate_delivery": "C10", "message_lost_in_connection": "C10",
    "outgoing_not_fifo": "C10", "incoming_not_fifo": "C10", "duplicate_message_id": "C10", "modified_message": "C10",
    "incoming_over_capacity": "C11", "outgoing_over_capacity": "C11", "size_mismatch": "C11",
    "stranded_deliverable": "C09", "stranded_send_after_same_instant_conn_tick": "C09",
    "unread_input_on_draining_component": "C09", "time_backwards": "C01",
}


def system_from_behaviour(b):
    t = b["topo"]
    comps = []
    for c in t["comps"]:
        ports = [dict(name=p["name"], **{"in": p["icap"]}, out=p["ocap"], conn=p["conn"]) for p in t["ports"] if p["owner"] == c["name"]]
        script = []
        for acts in b["script"].get(c["name"], []):
            script.append([dict(op="send", port=a["port"], dst=a["dst"]) if a["op"] == "send" else dict(op="wake", d=a["d"] * UNIT) for a in acts])
        comps.append(dict(name=c["name"], kind=c["kind"], period=c["period"] * UNIT, drain=True, stall=c["stall"], ports=ports, script=script))
    conns = [dict(name=k["name"], period=k["period"] * UNIT) for k in t["conns"]]
    init = [dict(comp=c["name"], at=0) for c in t["comps"]]
    return dict(comps=comps, conns=conns, init=init)


def run_and_monitor(ck, label, systems=None, random=0, max_comps=4, max_msgs=8, timeout=1500, stress=0):
    """Runs systems on the real code, validates the trace with TickTrace.tla.
    Returns list of (case, system_index, config)."""
    binary = ck.binary("tick")
    d = core.scratch("ttrace-")
    path = os.path.join(d, "trace.ndjson")
    out = core.harness(binary, "tick_trace", dict(seed=ck.seed, systems=systems or [], random=random, max_comps=max_comps,
                                                  max_msgs=max_msgs, stress=stress, out=path), timeout=timeout)
    v = tracecheck.validate(ck, ["tick", "common"], "TickTrace", "TickTrace.cfg", path, timeout=timeout)
    starts = out["starts"]
    cases = []

    def sysidx(line):
        i = 0
        for k, s in enumerate(starts):
            if s <= line:
                i = k
        return i
    for c in v.tlc.tagged.get("CASE", []):
        i = sysidx(c["l"])
        cases.append((c, i, out["configs"][i]))
    for b in out.get("bad") or []:
        cases.append(({"class": "modified_message", "l": 0, "d": b["problem"]}, b["system"], out["configs"][b["system"]]))
    if not v.accepted:
        keep = os.path.join(core.VERIF, "replays", "%s-%s-seed%d.ndjson" % (ck.pid, label, ck.seed))
        os.makedirs(os.path.dirname(keep), exist_ok=True)
        os.replace(path, keep)
        raise core.Broken("%s: trace does not fit the structure of TickTrace (matched %s, next %s, invariant %s); trace kept at %s" % (
            label, v.matched, v.next, v.invariant, keep))
    ck.cov["traces_validated_against_impl"] += out["systems"]
    ck.cov["evaluations"] += out["events"]
    if out.get("sample"):
        ck.sample({label + "_trace_excerpt": out["sample"][:14]}, cap=4)
    ck.note("%s: %d systems, %d events monitored, %d rule failures" % (label, out["systems"], out["events"], len(cases)))
    return cases, out


def report_cases(ck, cases, props, label):
    """Report the CASE records that belong to the properties this check decides."""
    n = 0
    for c, i, cfg in cases:
        prop = CLASS_PROPERTY.get(c["class"], "?")
        if prop not in props:
            continue
        n += 1
        key = {"class": c["class"]}
        ck.report(key, "%s: rule %s failed on the real code: %s" % (label, c["class"], json.dumps(c.get("d"))),
                  {"driver": "tick_trace", "system": cfg, "case": c})
    return n


def model_behaviours(ck, cfgs, workers=8, timeout=3000, cap=None):
    """Run TickImpl over the given cfgs; returns behaviours (lost ones first)."""
    lost, ok = [], []
    for cfg in cfgs:
        r = ck.run_tlc(["tick"], "TickImpl", cfg, workers=workers, timeout=timeout)
        if not r.ok:
            raise core.Broken("TickImpl/%s violates %s %s" % (cfg, r.violated, r.error))
        for b in r.tagged["BEHAVIOUR"]:
            (lost if b["lost"] else ok).append(b)
    ck.rng.shuffle(ok)
    ck.rng.shuffle(lost)
    if cap:
        lost, ok = lost[:cap // 4], ok[:cap]
    return lost, ok
