"""C06 / C03 on networks (called from checks/c06.py and checks/c03.py):

    run_c06(ck)  checkpoint / restore at event-time boundaries of seeded networks (mesh 2D/3D, PCIe trees,
                 NVLink/PCIe hybrids, generic connector graphs) built on a checkpointable simulation.Simulation
    run_c03(ck)  the same networks executed in separate OS processes with GOMAXPROCS 1/4/16/2, streams compared
                 by TLC with spec/ckpt/Det.tla

Harness family `nettrace` (harness/internal/drivers/nettrace/netckpt.go): drivers net_ckpt_cuts, net_det_run; every
simulation runs in its own OS process (driver net_ckpt_proc)."""
import concurrent.futures as cf
import json, os
from . import core, tracepar

C06_NOTE = ("networks: device agents keep their progress (script position, counters, checksum of what they retrieved) in component State; "
            "reference run records every handled event (time, handler, event ID), every device-port send / delivery (full metadata, time) and "
            "every entity's final payload; a cut = RunUntil(t) + SaveCheckpoint in one process, rebuild + LoadCheckpoint + Run + SaveCheckpoint "
            "in another, load + save again in a third (must be byte-identical); the spliced run (before the cut from the saved process, after it "
            "from the resumed one) is validated by TLC against NetTrace.tla (exactly-once delivery across the cut).")


def _key(m):
    key = {"kind": m["kind"], "class": m.get("class", ""), "msg_in_buffer_at_cut": bool(m.get("msg_in_buffer_at_cut", False)), "family": "net"}
    if m["kind"] == "final":
        key["entity_is_idgen"] = m.get("entity") == "entities/IDGenerator"
        key["entity_type"] = m.get("entity_type", "")
    if m["kind"] in ("save_error", "canonical"):
        key["entity_type"] = m.get("entity_type", "")
    return key


def run_c06(ck):
    q = ck.tier == "quick"
    binary = ck.binary("nettrace")
    d = core.scratch("c06net-")
    # quick: 8 networks (every kind of the generator's rotation once), <= 4 cuts each, chosen among the instants of highest
    # in-flight load, the last instant and random ones. thorough: every distinct event time of 6 small networks + 20 sampled
    # cuts of 8 larger ones.
    plans = [dict(networks=8, msgs=30, max_cuts=4, first=0)] if q else [dict(networks=3, msgs=16, max_cuts=0, first=0),
                                                                         dict(networks=8, msgs=60, max_cuts=12, first=6)]
    outs, traces = [], []
    for i, p in enumerate(plans):
        path = os.path.join(d, "spliced%d.ndjson" % i)
        out = core.harness(binary, "net_ckpt_cuts", dict(seed=ck.seed, parallel=6 if q else 12, trace_out=path, **p), timeout=3000)
        outs.append(out)
        traces.append(path)
    tot = dict(cuts=0, events=0, entities=0, inbuf=0, insw=0, asm=0, exact=0, nets=0)
    types, shapes = {}, {}
    for out in outs:
        tot["cuts"] += out["cuts"]
        tot["events"] += out["events"]
        tot["entities"] += out["entities"]
        tot["inbuf"] += out["cuts_with_msg_in_port_buffer"]
        tot["insw"] += out["cuts_with_flits_in_switch"]
        tot["asm"] += out["cuts_with_assembling_endpoint"]
        tot["exact"] += out["cuts_exactly_equal"]
        tot["nets"] += out["networks"]
        for k, v in (out.get("entity_types") or {}).items():
            types[k] = types.get(k, 0) + v
        for i in out["infos"]:
            shapes[i["shape"]] = shapes.get(i["shape"], 0) + 1
        for m in out["mismatches"] or []:
            if m["kind"] == "harness":
                raise core.Broken("network checkpoint driver: %s" % m["detail"])
            spec = m.pop("spec")
            desc = "network %d (%s %s) cut at %d ps: %s %s: %s" % (m["net"], spec["kind"], spec["shape"], m["cut"], m["kind"], m.get("entity") or "", m["detail"])
            ck.report(_key(m), desc, {"driver": "net_ckpt_cuts", "input": {"specs": [spec], "cuts": [m["cut"]]}, "mismatch": m})
    if tot["insw"] == 0 or tot["inbuf"] == 0:
        raise core.Broken("no network cut with flits inside a switch (%d) / a message in a port buffer (%d): the cuts do not exercise the state to be saved" % (tot["insw"], tot["inbuf"]))
    ck.cov["traces_validated_against_impl"] += tot["cuts"]
    ck.cov["evaluations"] += tot["events"]
    ck.cov["distinct_nontrivial"] += tot["cuts"]
    ck.cov["net"] = dict(networks=tot["nets"], shapes=shapes, cuts=tot["cuts"], cuts_with_flits_in_switch=tot["insw"], cuts_with_msg_in_port_buffer=tot["inbuf"],
                         cuts_with_assembling_endpoint=tot["asm"], cuts_exactly_equal_ids_included=tot["exact"], entities_compared_per_run_total=tot["entities"],
                         entity_types=types)
    if outs[0].get("sample"):
        ck.sample({"net_cut": outs[0]["sample"]})
    if C06_NOTE not in ck.assumptions:
        ck.assumptions.append(C06_NOTE)
    # the spliced runs under the network monitor
    vs = tracepar.validate_many(ck, ["noc", "common"], "NetTrace", "NetTrace.cfg", traces, parallel=2, timeout=3000)
    for v in vs:
        if not v.accepted:
            keep = tracepar.keep_trace(ck, v.trace, "netspliced")
            raise core.Broken("spliced network runs do not fit NetTrace: matched %s next %s invariant %s (kept %s)" % (v.matched, v.next, v.invariant, keep))
        for c in v.cases:
            ck.report({"kind": "monitor", "class": c["class"], "family": "net"}, "spliced network run %s violates %s: %s" % (c.get("net"), c["class"], json.dumps(c.get("d"))[:400]),
                      {"case": c})
    ck.note("networks: %d networks %s, %d cuts (%d with flits inside switches, %d with a message in a port buffer, %d exactly equal IDs included), "
            "%d records after cuts compared, %d entity payloads per reference runs" % (tot["nets"], shapes, tot["cuts"], tot["insw"], tot["inbuf"], tot["exact"], tot["events"], tot["entities"]))
    return tot


def run_c03(ck):
    q = ck.tier == "quick"
    binary = ck.binary("nettrace")
    d = core.scratch("c03net-")
    n_net = 8 if q else 48
    msgs = 40 if q else 80
    procs = [1, 4, 16, 2]
    paths = []

    def one(k):
        p = os.path.join(d, "netrun%d.ndjson" % k)
        out = core.harness(binary, "net_det_run", dict(seed=ck.seed, networks=n_net, msgs=msgs, out=p), env={"GOMAXPROCS": str(procs[k])}, timeout=3000)
        return p, out
    with cf.ThreadPoolExecutor(max_workers=4) as ex:
        res = list(ex.map(one, range(len(procs))))
    paths = [p for p, _ in res]
    out = res[0][1]
    with open(paths[0]) as f:
        head = [f.readline().strip() for _ in range(4)]
        if any('"e":"failed"' in x for x in f):
            raise core.Broken("a network run failed in the reference process (see %s)" % paths[0])
    ck.sample({"net_stream_excerpt": head})

    def cmp(k):
        return core.tlc(["ckpt"], "Det", "Det.cfg", workers=1, timeout=3000, env={"TRACE_A": paths[0], "TRACE_B": paths[k]}, tags=("REJECTED",))
    with cf.ThreadPoolExecutor(max_workers=3) as ex:
        rs = list(ex.map(cmp, range(1, len(paths))))
    for k, r in zip(range(1, len(paths)), rs):
        ck.cov["states"] += r.distinct
        ck.cov["transitions"] += r.generated
        ck.tlc_runs.append(dict(module="Det", cfg="Det.cfg(net)", **r.summary()))
        ck.cov["traces_validated_against_impl"] += 1
        if not r.ok:
            rej = (r.tagged.get("REJECTED") or [{}])[0]
            if not rej and r.violated is None:
                raise core.Broken("Det.tla reached no verdict on network streams: %s" % r.error)
            keep = os.path.join(core.VERIF, "replays", "C03-net-seed%d-run%d.ndjson" % (ck.seed, k))
            os.makedirs(os.path.dirname(keep), exist_ok=True)
            os.replace(paths[k], keep)
            a = rej.get("a") or {}
            ck.report({"kind": "divergence", "entity": a.get("entity", ""), "family": "net", "record": a.get("e", "")},
                      "network streams: process %d (GOMAXPROCS=%d) diverges from process 0 after %s records: %s vs %s" % (k, procs[k], rej.get("matched"), rej.get("a"), rej.get("b")),
                      {"trace": keep, "first": rej, "driver": "net_det_run", "input": dict(seed=ck.seed, networks=n_net, msgs=msgs)})
    ck.cov["evaluations"] += out["records"] * len(paths)
    ck.cov["distinct_nontrivial"] += out["systems"]
    ck.cov["net"] = dict(networks=out["systems"], processes=len(paths), gomaxprocs=procs, records_each=out["records"])
    ck.note("networks: %d networks x %d processes (GOMAXPROCS %s), %d records each" % (out["systems"], len(paths), procs, out["records"]))
    return out
