"""C06 (checkpoint/restore is invisible) and C03 (serial runs are deterministic) on address-translation
stacks (harness family `vmstack`, drivers vmckpt_cuts / vmdet_run in
harness/internal/drivers/vmstack/ckpt.go).  Called from checks/c06.py and checks/c03.py:

    from vlib import vmckpt
    vmckpt.run_c06(ck)
    vmckpt.run_c03(ck)

The stacks are the seeded ones of C25 (address translator -> 0..2 TLBs -> optional MMU cache -> optional
GMMU -> MMU over an ideal memory controller; 2-3 processes; page tables in which physical frames are shared
between processes), built with vmstack.BuildOn on a simulation.Simulation; page table and storage are
registered resources; the traffic agents keep their script position and outstanding request IDs in their
component State.  Every simulation runs in its own OS process."""
import concurrent.futures, json, os
from . import core


def run_c06(ck):
    """Every (sampled) distinct event time of every stack is a cut: process A RunUntil(t) + SaveCheckpoint,
    process B rebuild + LoadCheckpoint + Run + SaveCheckpoint; remaining stream (handled events with IDs,
    requester-visible issue/response records with data and time) and every entity's final payload are compared
    with the uninterrupted run; load + save again must be byte-identical; a stack rebuilt with another page
    size (everything / only the TLBs) must refuse the checkpoint with an error."""
    q = ck.tier == "quick"
    binary = ck.binary("vmstack")
    payload = dict(seed=ck.seed * 31 + 6, stacks=5 if q else 10, accesses=40, max_cuts=6 if q else 30, workers=6 if q else 12)
    out = core.harness(binary, "vmckpt_cuts", payload, timeout=1500 if q else 6000)
    ck.cov["traces_validated_against_impl"] += out["cuts"]
    ck.cov["evaluations"] += out["events"]
    ck.cov["distinct_nontrivial"] += out["cuts"]
    ck.cov["vmstack_cuts"] = out["cuts"]
    ck.cov["vmstack_cuts_with_requests_in_flight"] = out["cuts_with_requests_in_flight"]
    ck.cov["vmstack_cuts_at_rest"] = out["cuts_at_rest"]
    ck.cov["vmstack_cuts_exactly_equal_ids_included"] = out["exact"]
    ck.cov["vmstack_page_size_refusals_checked"] = out["page_size_checks"]
    ck.cov["vmstack_entities_compared_per_run_total"] = out["entities"]
    if out.get("sample"):
        ck.sample({"vmstack": out["sample"]})
    ck.assumptions += ["vmstack: traffic only (no control verbs, no page-table changes during the run); every agent's script is enqueued at time 0"]
    seen = {}
    for m in out["mismatches"] or []:
        key = {"family": "vmstack", "kind": m["kind"], "class": m.get("class", ""), "msg_in_buffer_at_cut": m.get("msg_in_buffer_at_cut", False),
               "request_in_flight_at_cut": m.get("request_in_flight_at_cut", False)}
        if m["kind"] in ("final", "canonical"):
            key["entity_is_idgen"] = m.get("entity") == "entities/IDGenerator"
            key["component"] = m.get("component", "")
        desc = "translation stack %d (%s) cut at %d ps: %s %s: %s" % (m["system"], m["shape"], m["cut"], m["kind"], m.get("entity") or "", m["detail"])
        k = core.canon(key)
        seen[k] = seen.get(k, 0) + 1
        replay = {"driver": "vmckpt_cuts", "input": payload, "system": m["system"], "cut": m["cut"]}
        if m.get("case"):
            replay["input"] = dict(seed=payload["seed"], stacks=0, cases=[m["case"]], max_cuts=0)
        if seen[k] <= 3 or m.get("class") != "ids_only":
            ck.report(key, desc, replay)
        else:
            ck.report(key, desc, {"driver": "vmckpt_cuts", "system": m["system"], "cut": m["cut"]})
    ck.note("translation stacks: %d stacks (%s), %d cuts (%d with requests in flight, %d at rest), %d exactly equal, %d page-size refusals checked, "
            "%d records after cuts compared, %d mismatches" % (out["systems"], ", ".join(sorted(set(out["shapes"]))), out["cuts"],
                                                              out["cuts_with_requests_in_flight"], out["cuts_at_rest"], out["exact"],
                                                              out["page_size_checks"], out["events"], len(out["mismatches"] or [])))
    return out


def run_c03(ck):
    """The same seeded stacks, each executed in 4 OS processes started with GOMAXPROCS 1 / 4 / 16 / 2 (fresh map
    seeds); the observation stream of process k — every handled event (time, handler, event ID), every
    requester-visible issue/response (IDs, data, time), the page table's reverse lookup of every physical frame, every
    entity's final checkpoint payload — is validated
    by TLC against that of process 0 (spec/ckpt/Det.tla)."""
    q = ck.tier == "quick"
    binary = ck.binary("vmstack")
    d = core.scratch("c03vm-")
    n = 6 if q else 40
    procs = [1, 4, 16, 2]
    paths = [os.path.join(d, "vmrun%d.ndjson" % k) for k in range(len(procs))]

    def one(k):
        return core.harness(binary, "vmdet_run", dict(seed=ck.seed * 31 + 3, stacks=n, accesses=60 if q else 100, out=paths[k]),
                            env={"GOMAXPROCS": str(procs[k])}, timeout=3000)
    with concurrent.futures.ThreadPoolExecutor(max_workers=len(procs)) as ex:
        outs = list(ex.map(one, range(len(procs))))
    out = outs[0]
    ck.cov["evaluations"] += out["records"] * len(paths)
    ck.cov["distinct_nontrivial"] += out["systems"]
    ck.cov["vmstack_frames_shared_between_mappings"] = out["shared_frames"]
    with open(paths[0]) as f:
        ck.sample({"vmstack_stream_excerpt": [f.readline().strip() for _ in range(4)]})

    def compare(k):
        return core.tlc(["ckpt"], "Det", "Det.cfg", workers=1, timeout=3000, env={"TRACE_A": paths[0], "TRACE_B": paths[k]}, tags=("REJECTED",))
    with concurrent.futures.ThreadPoolExecutor(max_workers=len(procs) - 1) as ex:
        cmps = list(ex.map(compare, range(1, len(paths))))
    for k, r in zip(range(1, len(paths)), cmps):
        ck.cov["states"] += r.distinct
        ck.cov["transitions"] += r.generated
        ck.tlc_runs.append(dict(module="Det", cfg="Det.cfg", family="vmstack", **r.summary()))
        ck.cov["traces_validated_against_impl"] += 1
        if not r.ok:
            rej = (r.tagged.get("REJECTED") or [{}])[0]
            keep = os.path.join(core.VERIF, "replays", "C03-vmstack-seed%d-run%d.ndjson" % (ck.seed, k))
            os.makedirs(os.path.dirname(keep), exist_ok=True)
            os.replace(paths[k], keep)
            a = rej.get("a") or {}
            what = a.get("entity") or a.get("c") or a.get("a") or ""
            ck.report({"family": "vmstack", "kind": "divergence", "record": a.get("e", ""), "entity": what},
                      "translation stacks: process %d (GOMAXPROCS %d) diverges from process 0 after %s records: %s vs %s" % (
                          k, procs[k], rej.get("matched"), rej.get("a"), rej.get("b")),
                      {"trace": keep, "first": rej, "driver": "vmdet_run"})
    ck.note("translation stacks: %d stacks (%s) x %d processes, %d records each, %d physical frames shared between mappings" % (
        out["systems"], ", ".join(sorted(set(out["shapes"]))), len(paths), out["records"], out["shared_frames"]))
    return out
