"""B1 binding for sequential objects whose specification is NON-DETERMINISTIC where the
property statement leaves a choice open (used by C15): TLC enumerates the complete bounded
state graph (EDGE/INIT lines); the Go driver (harness/internal/drivers/ports/follow.go)
gets the whole graph plus scripts of operation labels, steps the real object through them
and, after every step, requires the observed (result, observable state) to match at least
one specification edge with that label from one of the states the history can be in.
Histories: (explore) a breadth-first exploration of the part of the specification graph the
real, deterministic object can reach - every state reached is expanded with every label
enabled there, each on a fresh object replaying the first-found path; (cover, optional) one
script per specification edge; and seeded random walks chosen online by the driver among the
labels enabled in the state the real object actually reached."""
import json
from . import core


def graph_from_tlc(ck, spec_dirs, module, cfg, workers=4, timeout=600):
    r = ck.run_tlc(spec_dirs, module, cfg, workers=workers, timeout=timeout)
    if not r.ok:
        raise core.Broken("specification %s/%s itself fails: %s %s\n%s" % (module, cfg, r.violated, r.error, "\n".join(r.lines[-30:])))
    g = core.Graph(r.tagged["INIT"], r.tagged["EDGE"])
    if not g.edges:
        raise core.Broken("no behaviours emitted by %s/%s" % (module, cfg))
    return g, r


def follow(ck, g, family, driver, config=None, walks=100, walk_len=40, explore=True, explore_limit=0, cover=False,
           cover_limit=None, timeout=1800):
    """Returns (output, edges) — output["mismatches"] entries carry op/want/got/prefix/diag/ctx."""
    keys = list(g.nodes.keys())
    idx = {k: i for i, k in enumerate(keys)}
    nodes = [g.nodes[k] for k in keys]
    edges = [{"s": idx[s], "a": a, "t": idx[t]} for (s, a, t) in g.edges]
    inits = [idx[k] for k in g.inits]
    hs = g.edge_cover(limit=cover_limit, rng=ck.rng) if cover else []
    scripts = []
    for h in hs:
        scripts.append({"init": idx[core.canon(h["init"])],
                        "labels": [{"op": s["a"]["op"], "arg": s["a"]["arg"]} for s in h["steps"]]})
    payload = {"config": config or {}, "nodes": nodes, "inits": inits, "edges": edges, "scripts": scripts,
               "walks": walks, "walk_len": walk_len, "seed": ck.seed * 7919 + 13, "max_mismatches": 200000,
               "explore": bool(explore), "explore_limit": explore_limit}
    out = core.harness(ck.binary(family), driver, payload, timeout=timeout)
    out["mismatches"] = out.get("mismatches") or []
    out["covered_edges"] = out.get("covered_edges") or []
    out["n_scripts"] = len(scripts)
    ck.cov["traces_validated_against_impl"] += out["histories"]
    ck.cov["evaluations"] += out["steps"]
    for s in (out.get("samples") or [])[:3]:
        ck.sample({"init": s["init"], "steps": [[x["a"]["op"], x["a"]["arg"], x["a"]["res"]] for x in s["steps"]]})
    if explore and out.get("explore_cut"):
        raise core.Broken("exploration of the real-reachable graph hit its limit of %d transitions" % explore_limit)
    ck.note("followed %d histories (exploration: %d states / %d transitions of the real-reachable graph; %d edge-cover scripts; "
            "%d online walks), %d steps, %d scripts cut short by an allowed alternative; %d of %d specification edges exercised; "
            "%d mismatches" % (out["histories"], out.get("explored_states", 0), out.get("explored_transitions", 0), len(scripts), walks,
                               out["steps"], out.get("truncated", 0), len(out["covered_edges"]), len(edges), len(out["mismatches"])))
    return out, edges


def describe(m):
    return "%s mismatch at step %d of history %d: op=%s allowed=%s got=%s diag=%s" % (
        m["kind"], m["step"], m["history"], json.dumps(m.get("op")), json.dumps(m.get("want"))[:600],
        json.dumps(m.get("got")), json.dumps(m.get("diag")))
