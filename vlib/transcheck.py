"""Machinery of C25 (and reusable by checks that need translation stacks): harness family
`vmstack` runs cases (stack + program) on the real code and records one trace; the trace is
cut at case boundaries into chunks that TLC validates in parallel against TransTrace.tla
(monitor: CASE records name the rule of the statement that failed, INFO records carry the
per-case counters); the records are attributed to the case and level they belong to."""
import collections, concurrent.futures, json, os
from . import core

HANG = ("unanswered_at_quiescence", "unknown_answer", "duplicate_answer")
VALUE = ("stale_after_ack", "wrong_physical_page")


def run_cases(ck, payload, label, chunks=8, timeout=3600):
    """payload: input of driver vmstack_trace (without `out`). Returns (reports, records, infos):
    reports = per-case driver reports; records[i] = CASE records of case i (with global line numbers);
    infos[i] = counters of case i."""
    binary = ck.binary("vmstack")
    d = core.scratch("vmtrace-")
    path = os.path.join(d, "trace.ndjson")
    out = core.harness(binary, "vmstack_trace", dict(payload, out=path), timeout=timeout)
    reports = out["cases"]
    if not reports:
        raise core.Broken("%s: the driver ran no case" % label)
    with open(path) as f:
        lines = f.readlines()
    # cut into chunks of whole cases, balanced by line count
    k = max(1, min(chunks, len(reports)))
    target = len(lines) / k
    bounds, acc = [], 0
    cur = []
    for rep in reports:
        cur.append(rep)
        acc += rep["lines"]
        if acc >= target * (len(bounds) + 1) and len(bounds) < k - 1:
            bounds.append(cur)
            cur = []
    if cur:
        bounds.append(cur)
    jobs = []
    for j, reps in enumerate(bounds):
        a = reps[0]["start"] - 1
        b = reps[-1]["start"] - 1 + reps[-1]["lines"]
        cp = os.path.join(d, "chunk%d.ndjson" % j)
        with open(cp, "w") as f:
            f.writelines(lines[a:b])
        jobs.append((cp, a))

    def validate(job):
        cp, off = job
        r = core.tlc(["vm", "common"], "TransTrace", "TransTrace.cfg", workers=1, timeout=timeout, env={"TRACE_FILE": cp},
                     tags=("REJECTED", "CASE", "INFO"))
        return r, cp, off

    with concurrent.futures.ThreadPoolExecutor(max_workers=len(jobs)) as ex:
        results = list(ex.map(validate, jobs))
    records = collections.defaultdict(list)
    infos = {}
    starts = [rep["start"] for rep in reports]

    def case_of(line):
        i = 0
        for n, s in enumerate(starts):
            if s <= line:
                i = n
        return i
    for r, cp, off in results:
        ck.cov["states"] += r.distinct
        ck.cov["transitions"] += r.generated
        ck.tlc_runs.append(dict(module="TransTrace", cfg="TransTrace.cfg", **r.summary()))
        if not r.ok:
            keep = os.path.join(core.VERIF, "replays", "%s-%s-seed%d.ndjson" % (ck.pid, label, ck.seed))
            os.makedirs(os.path.dirname(keep), exist_ok=True)
            os.replace(cp, keep)
            rej = (r.tagged.get("REJECTED") or [None])[0]
            raise core.Broken("%s: trace does not fit the structure of TransTrace (rejected at %s, invariant %s, %s); trace kept at %s" % (
                label, rej, r.violated, r.error, keep))
        for c in r.tagged.get("CASE", []):
            c["l"] += off
            records[case_of(c["l"])].append(c)
        for c in r.tagged.get("INFO", []):
            infos[case_of(c["l"] + off)] = c["stats"]
    ck.cov["traces_validated_against_impl"] += len(reports)
    ck.cov["evaluations"] += out["events"]
    ck.note("%s: %d cases, %d requests seen at Top ports, %d events monitored in %d chunks, %d rule failures" % (
        label, len(reports), out["requests"], out["events"], len(jobs), sum(len(v) for v in records.values())))
    return reports, records, infos, out


def level_info(rep):
    """name -> (kind, depth, latency) of the levels of a case, top-down."""
    st = rep["stack"]
    names = []
    if st.get("at"):
        names.append(("AT", "at", 0))
    for i, t in enumerate(st.get("tlbs") or []):
        names.append(("L%d" % (i + 1), "tlb", t.get("latency") or 2))
    if st.get("mmu_cache"):
        names.append(("MC", "mmucache", 0))
    if st.get("gmmu"):
        names.append(("GM", "gmmu", st["gmmu"].get("latency", 0)))
    names.append(("MMU", "mmu", st["mmu"].get("latency", 0)))
    return {n: dict(kind=k, depth=i, latency=lat) for i, (n, k, lat) in enumerate(names)}


def shape(rep):
    st = rep["stack"]
    parts = []
    if st.get("at"):
        parts.append("AT")
    parts += ["TLB"] * len(st.get("tlbs") or [])
    if st.get("mmu_cache"):
        parts.append("MMUCache")
    if st.get("gmmu"):
        parts.append("GMMU")
    parts.append("MMU")
    return ">".join(parts)


def attribute(rep, recs):
    """Splits the CASE records of one case into root causes and consequences.
    A level that owes answers because a level below it owes answers (or answered into the void) is a
    consequence; a stale/wrong page handed up from a level below that already handed out the same page
    wrongly is a consequence.  Returns (roots, consequences); roots carry `key`."""
    lv = level_info(rep)
    remote = {(p, v) for p, v in (rep.get("remote") or [])}
    hang = [c for c in recs if c["class"] in HANG]
    roots, cons = [], []
    for c in recs:
        d = c["d"]
        me = lv[d["lv"]]
        cls = c["class"]
        if cls == "unanswered_at_quiescence" and any(lv[h["d"]["lv"]]["depth"] > me["depth"] for h in hang):
            cons.append(c)
            continue
        if cls in VALUE and any(o["class"] in VALUE and lv[o["d"]["lv"]]["depth"] > me["depth"] and
                                (o["d"]["pid"], o["d"]["vpn"], o["d"]["ppn"]) == (d["pid"], d["vpn"], d["ppn"]) for o in recs):
            cons.append(c)
            continue
        key = {"class": cls.replace("_at_quiescence", ""), "kind": me["kind"], "cause": "none", "quiesce": "n/a", "page": "n/a"}
        if cls == "unanswered_at_quiescence":
            if me["kind"] == "tlb" and d.get("unaligned", 0) > 0:
                key["cause"] = "unaligned_vaddr"
            elif me["kind"] == "tlb" and me["latency"] == 1:
                key["cause"] = "tlb_latency_1"
            f = d.get("first") or {}
            if me["kind"] == "gmmu":
                key["page"] = "remote" if (f.get("pid"), f.get("vpn")) in remote else "local"
        if cls in ("unknown_answer", "duplicate_answer") and me["kind"] == "gmmu":
            key["page"] = "remote" if (d.get("pid"), d.get("vpn")) in remote else "local"
        if cls in VALUE:
            key["quiesce"] = (d.get("how") or {}).get(d["lv"], "n/a")
        c["key"] = key
        roots.append(c)
    return roots, cons
