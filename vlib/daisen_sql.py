"""C37 helper: the SQL corpus behind the query classes of spec/daisen/QueryGuard.tla and the
seeded token-level variation of its seeds (case, whitespace, comments, quoting, terminators).

A seed is (text, flags): flags say which variations keep the seed's meaning (so that the
liveness expectation for plain reads is only attached to texts that really are plain reads)."""
import re

A70K = "A" * 70000
RECURSE = "WITH RECURSIVE c(x) AS (SELECT 1 UNION ALL SELECT x+1 FROM c) "

SEEDS = {
    # single SELECT/WITH statements that only read, small answers
    "plain": [
        "SELECT count(*) FROM trace",
        "SELECT Kind, count(*) AS n FROM trace GROUP BY Kind ORDER BY Kind",
        "SELECT t.ID, l.Locale FROM trace t JOIN location l ON t.Location = l.ID ORDER BY t.ID LIMIT 5",
        "WITH k AS (SELECT Kind, count(*) AS n FROM trace GROUP BY Kind) SELECT * FROM k ORDER BY n",
        "SELECT min(StartTime), max(EndTime), avg(EndTime - StartTime) FROM trace WHERE Kind = 'read'",
        "SELECT name FROM sqlite_master WHERE type = 'table' ORDER BY name",
        "SELECT count(*) FROM milestone m JOIN trace t ON m.TaskID = t.ID",
    ],
    # a write behind a WITH prefix; most of them carry a 'limit <n>' somewhere so that no LIMIT
    # clause is appended to the statement (an appended LIMIT makes SQLite reject DELETE/UPDATE/INSERT
    # at parse time, before the read-only switch is ever consulted)
    "cte_write": [
        "WITH x AS (SELECT 1 LIMIT 1) DELETE FROM trace",
        "WITH x AS (SELECT ID FROM trace LIMIT 5) UPDATE trace SET Kind = 'x' WHERE ID IN (SELECT ID FROM x)",
        "WITH x(a) AS (SELECT 1 LIMIT 1) INSERT INTO location SELECT 99, 'evil' FROM x",
        "WITH x AS (SELECT 1 LIMIT 1) REPLACE INTO location VALUES (1, 'evil')",
        "WITH x AS (SELECT 1 LIMIT 1) INSERT OR REPLACE INTO trace SELECT * FROM trace",
        "WITH x AS (SELECT 1) DELETE FROM trace RETURNING ID",
        "WITH x AS (SELECT 1) DELETE FROM trace /* limit 1 */",
        "WITH x AS (SELECT 1) INSERT INTO location VALUES (99, 'e') -- limit 1",
        "WITH x AS (SELECT 1 LIMIT 1) DELETE FROM trace RETURNING *",
        "WITH x AS (SELECT 1 LIMIT 1) UPDATE location SET Locale = 'z' RETURNING ID",
        "WITH x AS (SELECT 1 LIMIT 1) DELETE FROM milestone WHERE TaskID > 0",
        "WITH x AS (SELECT 1 LIMIT 1) INSERT INTO sqlite_master VALUES ('table','e','e',0,'')",
        "WITH x AS (SELECT 1 LIMIT 1) UPDATE sqlite_sequence SET seq = 0",
    ],
    "multi": [
        "SELECT 1; DROP TABLE trace",
        "SELECT 1; DELETE FROM trace;",
        "SELECT 1;\nDELETE FROM trace",
        "SELECT ';'; DELETE FROM trace",
        "SELECT 1 LIMIT 1; UPDATE trace SET Kind = 'x'",
        "WITH x AS (SELECT 1) SELECT * FROM x; VACUUM",
        "SELECT 1;-- x\nINSERT INTO location VALUES (99, 'e')",
        "SELECT 1 LIMIT 1;ATTACH DATABASE 'evil.db' AS e",
    ],
    "comment": [
        "/* SELECT */ DELETE FROM trace",
        "-- SELECT\nDELETE FROM trace",
        "/**/DROP TABLE trace",
        "--\nUPDATE trace SET Kind = 'x'",
        "/* WITH */ INSERT INTO location VALUES (99, 'e')",
        "/*! SELECT 1 */ VACUUM",
    ],
    "pragma": [
        "PRAGMA writable_schema = ON",
        "PRAGMA journal_mode = DELETE",
        "PRAGMA query_only = OFF",
        "PRAGMA wal_checkpoint(TRUNCATE)",
        "PRAGMA user_version = 7",
        "PRAGMA schema_version = 99",
        "PRAGMA application_id = 77",
        "PRAGMA locking_mode = EXCLUSIVE",
        "PRAGMA table_info(trace)",
        "PRAGMA optimize",
        "PRAGMA incremental_vacuum",
        "PRAGMA main.journal_mode = TRUNCATE",
    ],
    # pragmas reached through a SELECT (table-valued pragma functions)
    "pragma_fn": [
        "SELECT * FROM pragma_optimize",
        "SELECT * FROM pragma_optimize(0x10002) LIMIT 1",
        "SELECT * FROM pragma_user_version",
        "SELECT * FROM pragma_journal_mode",
        "SELECT * FROM pragma_journal_mode('delete') LIMIT 1",
        "SELECT * FROM pragma_query_only",
        "SELECT * FROM pragma_query_only(0) LIMIT 1",
        "SELECT * FROM pragma_writable_schema",
        "SELECT * FROM pragma_wal_checkpoint",
        "SELECT * FROM pragma_wal_checkpoint('TRUNCATE') LIMIT 1",
        "SELECT * FROM pragma_incremental_vacuum LIMIT 1",
        "SELECT * FROM pragma_schema_version",
        "SELECT * FROM pragma_locking_mode",
        "SELECT * FROM pragma_integrity_check",
        "SELECT * FROM pragma_table_info('trace')",
        "SELECT * FROM pragma_shrink_memory LIMIT 1",
        "SELECT * FROM pragma_wal_autocheckpoint",
        "SELECT * FROM pragma_temp_store",
        "SELECT * FROM pragma_database_list",
    ],
    "attach": [
        "ATTACH DATABASE 'evil.db' AS e",
        "ATTACH 'file:evil2.db?mode=rwc' AS e",
        "ATTACH DATABASE ':memory:' AS m",
        "DETACH DATABASE main",
        "ATTACH DATABASE '../evil3.db' AS e",
        "WITH x AS (SELECT 1 LIMIT 1) ATTACH DATABASE 'evil4.db' AS e",
    ],
    "vacuum": [
        "VACUUM",
        "VACUUM INTO 'copy.db'",
        "VACUUM main INTO 'copy2.db'",
        "VACUUM INTO '../copy3.db'",
        "WITH x AS (SELECT 1 LIMIT 1) VACUUM INTO 'copy4.db'",
    ],
    "ddl": [
        "CREATE TABLE evil (x)",
        "CREATE TEMP TABLE evil (x)",
        "CREATE INDEX evil_ix ON trace (Kind)",
        "ALTER TABLE trace ADD COLUMN z",
        "ALTER TABLE trace RENAME TO trace2",
        "DROP TABLE trace",
        "DROP TABLE IF EXISTS location",
        "DROP INDEX IF EXISTS verif_warm",
        "CREATE VIEW v AS SELECT 1",
        "CREATE TRIGGER tr AFTER INSERT ON trace BEGIN DELETE FROM trace; END",
        "CREATE VIRTUAL TABLE vt USING fts5(x)",
        "CREATE TABLE selected AS SELECT * FROM trace",
    ],
    "dml": [
        "DELETE FROM trace",
        "INSERT INTO location VALUES (99, 'evil')",
        "UPDATE trace SET Kind = 'x'",
        "REPLACE INTO location VALUES (1, 'evil')",
        "INSERT OR REPLACE INTO location VALUES (1, 'evil')",
        "BEGIN",
        "BEGIN IMMEDIATE",
        "COMMIT",
        "SAVEPOINT s",
        "ANALYZE",
        "REINDEX",
        "EXPLAIN DELETE FROM trace",
    ],
    "huge": [
        "SELECT * FROM trace a, trace b",
        "SELECT * FROM trace a, trace b, trace c LIMIT 5000000",
        "SELECT hex(zeroblob(5000)) FROM trace",
        "SELECT hex(zeroblob(2000000))",
        "SELECT hex(zeroblob(2000000)) AS h, * FROM trace",
        RECURSE.replace("FROM c)", "FROM c WHERE x < 200000)") + "SELECT x FROM c",
        "SELECT printf('%.*c', 3000, 'x') AS pad, * FROM trace",
        "SELECT a.ID FROM trace a, trace b LIMIT 99999",
        "SELECT char(10) || ID || char(10) FROM trace a, trace b",
        "SELECT *, *, *, *, *, *, *, * FROM trace a, trace b",
        "SELECT printf('%.*c', 4090, ',') FROM trace a, trace b LIMIT 100",
    ],
    # a header (column names) larger than the byte cap
    "huge_header": [
        'SELECT 1 AS "%s"' % A70K,
        "SELECT '%s'" % A70K,
        "SELECT " + ", ".join("%d AS c%05d_%s" % (i, i, "x" * 28) for i in range(1, 1999)),
        'SELECT ID AS "%s" FROM trace' % A70K,
    ],
    "endless": [
        RECURSE + "SELECT count(*) FROM c",
        RECURSE + "SELECT x FROM c WHERE x < 0",
        "SELECT count(*) FROM trace a, trace b, trace c, trace d, trace e",
        RECURSE + "SELECT max(x) FROM c LIMIT 1",
    ],
}

# ---- class "multi_quoted": a leading SELECT whose literal / quoted identifier / comment holds a ';' (and
# possibly quotes and a decoy "limit <n>"), then the real separator, then a statement of another class.
# The decoy matters: when "limit <digit>" occurs anywhere in the text the tool appends no LIMIT clause, so the
# trailing statement reaches the engine unchanged.
MQ_LEADS = [
    ("sq", "SELECT 'a; {D}'"),
    ("sq_alias", "SELECT 'a;b' AS x{L}"),
    ("sq_escaped", "SELECT 'it''s; {D}'"),
    ("sq_two", "SELECT 'a', 'b; {D}'"),
    ("sq_like", "SELECT count(*) FROM trace WHERE What LIKE '%;%{D}'"),
    ("dq", 'SELECT "a; {D}"'),
    ("dq_escaped", 'SELECT "a""; {D}"'),
    ("backtick", "SELECT `a; {D}`"),
    ("bracket", "SELECT 1 AS [a; {D}]"),
    ("line_comment", "SELECT 1 -- '; {D}\n"),
    ("block_comment", "SELECT 1 /* '; {D} */"),
    ("block_comment_dq", 'SELECT 1 /* "; {D} */'),
    ("sq_then_comment", "SELECT ';' /* ' {D} */"),
    ("blob", "SELECT x'3b', '; {D}'"),
]
MQ_TRAILS = [
    ("attach", "ATTACH DATABASE 'mq_evil.db' AS e"),
    ("attach_up", "ATTACH DATABASE '../mq_evil2.db' AS e"),
    ("attach_uri", "ATTACH 'file:mq_evil3.db?mode=rwc' AS e"),
    ("vacuum_into", "VACUUM INTO 'mq_copy.db'"),
    ("vacuum", "VACUUM"),
    ("journal_delete", "PRAGMA journal_mode = DELETE"),
    ("journal_truncate", "PRAGMA main.journal_mode = TRUNCATE"),
    ("journal_off", "PRAGMA journal_mode = OFF"),
    ("writable_schema", "PRAGMA writable_schema = ON"),
    ("query_only_off", "PRAGMA query_only = OFF"),
    ("user_version", "PRAGMA user_version = 7"),
    ("checkpoint", "PRAGMA wal_checkpoint(TRUNCATE)"),
    ("drop", "DROP TABLE trace"),
    ("create", "CREATE TABLE mq_evil (x)"),
    ("delete", "DELETE FROM trace"),
    ("insert", "INSERT INTO location VALUES (99, 'evil')"),
    ("update", "UPDATE trace SET Kind = 'x'"),
    ("two_more", "PRAGMA query_only = OFF; DELETE FROM trace"),
]


def multi_quoted_texts():
    """The full product lead x trailing statement x decoy, as (text, tag) pairs."""
    out = []
    for ln, lead in MQ_LEADS:
        for tn, trail in MQ_TRAILS:
            for decoy in (True, False):
                l = lead.replace("{D}", "limit 5" if decoy else "x").replace("{L}", " LIMIT 1" if decoy else "")
                for sep in (" ; ", ";"):
                    out.append((l + sep + trail, "%s/%s/%s" % (ln, tn, "decoy" if decoy else "plain")))
    return out


SEEDS["multi_quoted"] = [t for t, _ in multi_quoted_texts() if " ; " in t]

# malformed tool arguments (class "malformed"): (args, note)
MALFORMED_ARGS = [
    ({}, "no sql"),
    ({"reason": "x"}, "no sql"),
    ({"sql": 17}, "sql not a string"),
    ({"sql": None}, "sql null"),
    ({"sql": ["SELECT 1"]}, "sql a list"),
    ({"sql": ""}, "empty"),
    ({"sql": "   \n\t "}, "blank"),
    ({"sql": ";"}, "only a terminator"),
    ({"sql": ";;; ;"}, "only terminators"),
    ({"sql": "("}, "only a parenthesis"),
    ({"sql": "SELECT"}, "incomplete"),
    ({"sql": "WITH"}, "incomplete"),
    ({"sql": "SELECT FROM WHERE"}, "syntax error"),
    ({"sql": "SELECT * FROM no_such_table"}, "unknown table"),
    ({"sql": "SELECT 1 \x00 DELETE FROM trace"}, "NUL byte"),
    ({"sql": " SELECT 1"}, "no-break space"),
    ({"sql": "﻿SELECT 1"}, "byte order mark"),
]

# heavy but finite variants (a few seconds of engine time), used when the caller's deadline is meant to fire
# while the engine is running, and for "endless" texts whose deadline fires before or right at the start of
# the query: the SQLite driver loses an interrupt issued before the first step, and a truly endless statement
# would then never return
SLOW_PLAIN = [
    "SELECT count(*) FROM trace a, trace b, trace c",
    "SELECT a.Kind, count(*) FROM trace a, trace b, trace c GROUP BY a.Kind",
    RECURSE.replace("FROM c)", "FROM c WHERE x < 20000000)") + "SELECT count(*) FROM c",
]
LONG_NOT_ENDLESS = [
    RECURSE.replace("FROM c)", "FROM c WHERE x < 30000000)") + "SELECT count(*) FROM c",
    RECURSE.replace("FROM c)", "FROM c WHERE x < 30000000)") + "SELECT x FROM c WHERE x < 0",
    "SELECT count(*) FROM trace a, trace b, trace c WHERE a.ID + b.ID + c.ID < 0",
]

_TOKEN = re.compile(r"""
      (?P<str>'(?:[^']|'')*')
    | (?P<qid>"(?:[^"]|"")*")
    | (?P<lc>--[^\n]*)
    | (?P<bc>/\*.*?\*/)
    | (?P<ws>\s+)
    | (?P<word>[A-Za-z_][A-Za-z_0-9]*)
    | (?P<num>\d+(?:\.\d+)?|0x[0-9a-fA-F]+)
    | (?P<punct>.)
""", re.X | re.S)

KEYWORDS = {"select", "from", "where", "with", "as", "delete", "insert", "into", "update", "set", "values",
            "replace", "or", "group", "by", "order", "join", "on", "limit", "recursive", "union", "all",
            "pragma", "attach", "detach", "database", "vacuum", "create", "table", "index", "drop", "alter",
            "add", "column", "returning", "begin", "commit", "in", "and", "temp", "if", "exists", "view",
            "trigger", "after", "end", "virtual", "using", "rename", "to", "savepoint", "analyze", "reindex",
            "immediate", "explain", "count", "min", "max", "avg", "hex", "zeroblob", "printf", "char"}
TABLES = {"trace", "location", "milestone"}


def tokens(sql):
    return [(m.lastgroup, m.group(0)) for m in _TOKEN.finditer(sql)]


def vary(rng, sql, meaning_preserving=True):
    """One seeded token-level variation of sql. All operators keep the statement's meaning for SQLite
    (keywords are case-insensitive, whitespace and comments separate tokens, identifiers may be quoted,
    trailing terminators/comments are ignored) — except, when meaning_preserving is False, a few
    operators that a text filter might treat differently from the engine."""
    if len(sql) > 20000:          # the huge-header seeds: only change the envelope
        toks = [("raw", sql)]
    else:
        toks = tokens(sql)
    out = []
    case_mode = rng.choice(["keep", "upper", "lower", "random", "title"])
    ws_mode = rng.choice(["keep", "keep", "tab", "newline", "many", "comment", "mixed"])
    quote_mode = rng.choice(["keep", "keep", "dq", "bracket", "backtick"])
    for kind, t in toks:
        if kind == "word" and t.lower() in KEYWORDS:
            if case_mode == "upper":
                t = t.upper()
            elif case_mode == "lower":
                t = t.lower()
            elif case_mode == "title":
                t = t.title()
            elif case_mode == "random":
                t = "".join(ch.upper() if rng.random() < 0.5 else ch.lower() for ch in t)
        elif kind == "word" and t.lower() in TABLES and quote_mode != "keep":
            t = {"dq": '"%s"', "bracket": "[%s]", "backtick": "`%s`"}[quote_mode] % t
        elif kind == "ws":
            m = ws_mode if ws_mode != "mixed" else rng.choice(["keep", "tab", "newline", "many", "comment"])
            t = {"keep": t, "tab": "\t", "newline": "\n", "many": "  \t \n ", "comment": " /* c */ "}[m]
        out.append(t)
    s = "".join(out)
    lead = rng.choice(["", "", "", " ", "\n", "\t\t", " \r\n "])
    tail = rng.choice(["", "", "", ";", " ;", ";;", " ; \n", "\n", " -- done", " /* done */", " -- limit 9", ";\t;"])
    s = lead + s + tail
    if not meaning_preserving and rng.random() < 0.3:
        s = rng.choice(["(", "((", "( "]) + s
    return s
