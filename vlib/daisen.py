"""Shared by C37/C38/C39: hook H3 presence and the `daisen` harness binary."""
import os
from . import core

HOOK_FILES = ["daisen2/verif_export.go", "daisen2/internal/httpapi/verif_export.go"]


def binary(ck):
    """The daisen harness needs hook H3 (verif-tagged exports of the unexported guards in
    daisen2/internal/httpapi, re-exported from package daisen2). Without it nothing can be said."""
    for f in HOOK_FILES:
        if not os.path.exists(os.path.join(core.REPO, f)):
            raise core.Broken("hook H3 not applied (%s is missing in %s; apply hooks/H3-daisen-exports.diff)" % (f, core.REPO))
    return ck.binary("daisen")
