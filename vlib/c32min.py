"""Development aid of C32: shrink the assembly / workload of a reported rule failure.

    python3 -m vlib.c32min <replay.json | findings-id> [--class CLS --comp TYPE --what WHAT]

The search is guided by a plain re-reading of the trace (this file's `flags`, NOT a verdict
source); the smallest input found is then confirmed with TLC through TaskTrace.tla exactly as
the check does, and printed as a driver input for `nettrace task_trace`."""
import copy, json, os, sys
from . import core, tracepar


def flags(recs):
    """(class, comp, kind, what) of every rule failure of one trace file, per run — guidance only."""
    out = []
    head, started, open_, ended_now, now, starts = None, set(), {}, set(), -1, {}
    for r in recs:
        e = r["e"]
        if e == "run":
            head, started, open_, ended_now, now, starts = r, set(), {}, set(), -1, {}
            continue
        t = r["t"]
        if t > now:
            now, ended_now = t, set()
        types = head.get("types") or {}

        def add(cls, rec, what=None):
            comp = rec.get("comp", "")
            out.append((head["run"], cls, types.get(comp, "?"), rec.get("kind", rec["e"]), norm(what if what is not None else rec.get("what", ""), comp)))
        if e == "start":
            if r["id"] in started:
                add("started_twice", r)
            else:
                open_[r["id"]] = r
                starts[r["id"]] = r
            started.add(r["id"])
        elif e == "end":
            if r["id"] in open_:
                del open_[r["id"]]
                ended_now.add(r["id"])
            elif r["id"] in started:
                add("ended_twice", starts[r["id"]])
        elif e in ("ms", "tag"):
            if r["id"] in open_:
                pass
            elif r["id"] in started:
                if r["id"] not in ended_now:
                    add("rider_after_end", starts[r["id"]], r.get("what", ""))
            else:
                add("rider_unknown_task", r)
        elif e == "quiesce":
            for rec in open_.values():
                add("never_ended", rec)
    return out


def norm(what, comp):
    if comp and what.startswith(comp + "."):
        return what[len(comp) + 1:]
    return what.split(".", 1)[1] if "." in what else what


def run_driver(binary, cfg, d):
    path = os.path.join(d, "t.ndjson")
    core.harness(binary, "task_trace", dict(cfgs=[cfg], out=path), timeout=300)
    return path


def shrink(cfg, want, binary, d):
    """Greedy: fewer ops, fewer control steps, fewer commands, smaller window / lines, as long as `want` still shows."""
    def shows(c):
        fs = flags(tracepar.read_ndjson(run_driver(binary, c, d)))
        return any(all(w is None or w == f[i + 1] for i, w in enumerate(want)) for f in fs)
    if not shows(cfg):
        return None
    best = copy.deepcopy(cfg)
    best["ctl"] = best.get("ctl") or []
    changed = True
    while changed:
        changed = False
        cands = []
        for ops in (best["ops"] // 2, best["ops"] * 3 // 4, best["ops"] - 1):
            if 1 <= ops < best["ops"]:
                c = copy.deepcopy(best)
                c["ops"] = ops
                c["ctl"] = [s for s in c["ctl"] if s["after"] < ops]
                cands.append(c)
        for k in range(len(best["ctl"])):
            c = copy.deepcopy(best)
            del c["ctl"][k]
            cands.append(c)
            for j in range(len(best["ctl"][k]["cmds"])):
                if best["ctl"][k]["cmds"][j]["cmd"] in ("wait", "pause"):
                    c = copy.deepcopy(best)
                    del c["ctl"][k]["cmds"][j]
                    cands.append(c)
        for key, vals in (("window", (1, 2)), ("lines", (2, 4, 6)), ("port_buf", (4, 2))):
            for v in vals:
                if v < best[key]:
                    c = copy.deepcopy(best)
                    c[key] = v
                    cands.append(c)
        for c in cands:
            if shows(c):
                best, changed = c, True
                break
    return best


def main(argv):
    src = argv[1]
    want = [None, None, None, None]
    for i, a in enumerate(argv):
        if a == "--class":
            want[0] = argv[i + 1]
        if a == "--comp":
            want[1] = argv[i + 1]
        if a == "--kind":
            want[2] = argv[i + 1]
        if a == "--what":
            want[3] = argv[i + 1]
    with open(src) as f:
        rep = json.load(f)
    inp = rep["replay"]["input"] if "replay" in rep else rep
    cfg = inp["stack"]
    binary = core.build_harness("nettrace")
    d = core.scratch("c32min-")
    best = shrink(cfg, want, binary, d)
    if best is None:
        print("the given input does not show", want)
        return 1
    # confirmation by the real oracle
    ck = core.Check("C32", "quick", "exploration")
    path = run_driver(binary, best, d)
    v = tracepar.validate_many(ck, ["tracing", "common"], "TaskTrace", "TaskTrace.cfg", [path], parallel=1)[0]
    print(json.dumps({"cfgs": [best]}))
    print("TLC:", sorted({c["class"] for c in v.cases}), "events:", len(tracepar.read_ndjson(path)))
    return 0


if __name__ == "__main__":
    sys.exit(main(sys.argv))
