"""SwitchInternals: consistency rules of the switches' and endpoints' own State (spec/noc/SwitchInternals.tla),
evaluated by TLC on the State projected after every N-th handled engine event of the C29 network runs.

These rules go beyond the C29 statement: they are consistency conditions of the implementation's own
bookkeeping (per-port route / forward / send-out buffers and receive pipelines, the arbitration cursor,
queued output ports vs. the routing table, an endpoint's assembling and assembled tables), reported under
C29 with keys {part: "internals", kind, rule}. When the State schema no longer offers a field the projection
needs, a `DRIFT:` line is printed and the rules that need that part are skipped for that component kind —
never a failure.

    payload(path, every, cap)   the extra fields of a net_trace driver input that switch the projection on
    evaluate(ck, jobs)          TLC over the projections of the given (driver input, driver output) pairs and, at the
                                same time, over the negative controls: hand-corrupted projected states, every rule must
                                reject exactly its corrupted sample (otherwise core.Broken: the rules would be vacuous)
"""
import concurrent.futures as cf
import copy, json, os
from . import core

RULES = ["buffer_capacity", "pipeline_shape", "flit_once", "conservation", "arb_cursor", "arb_fair", "routed_as_table", "route_to_dst",
         "asm_count", "asm_seen", "asm_unique", "assembled_order", "settled_empty"]

NOTE = ("The 'internals' part goes beyond the C29 statement: its rules (spec/noc/SwitchInternals.tla) are consistency conditions of the "
        "implementation's own State — buffer and pipeline capacities, a flit in at most one place inside a switch, flits taken in = sent + held, "
        "arbitration cursor in range and round-robin fairness, queued output port = routing table's port, assembling-table counts, uniqueness and "
        "order, emptiness at rest — judged on sampled States (every N-th handled event, capped) plus port-hook counters; the fairness rule is "
        "judged only on a bounded window of switch ticks (the State alone does not record grant history).")


def payload(path, every, cap):
    return {"internals_every": every, "internals_max": cap, "int_out": path}


def _comp(name, kind, have, **kw):
    c = {"name": name, "kind": kind, "have": have, "bufs": [], "pipes": [], "flits": [], "tasks": [], "recv": 0, "sent": 0, "held": 0,
         "arb": {"cursor": 0, "nports": 1, "max_skip": 0, "ticks": 0}, "routed": [], "route_to": [], "asm": [], "assembled": [], "nout": 0, "nflits": 0}
    c.update(kw)
    return c


SW_HAVE = ["bufs", "pipes", "flits", "counts", "routed", "route_to", "arb", "arb_track"]
EP_HAVE = ["asm", "seen", "assembled", "assembled_order", "outgoing"]


def _baseline():
    """A sound sample: a 3-port switch holding five flits, an endpoint reassembling two messages with two more waiting for delivery."""
    sw = _comp("N.SW[0]", "switch", SW_HAVE,
               bufs=[{"name": "route_buffer", "cap": 2, "n": 1}, {"name": "forward_buffer", "cap": 2, "n": 2}, {"name": "send_out_buffer", "cap": 2, "n": 1}],
               pipes=[{"name": "pipeline", "width": 2, "stages": 2, "items": [{"lane": 0, "stage": 1}]}],
               flits=[11, 12, 13, 14, 15], tasks=[101, 102, 103, 104, 105], recv=9, sent=4, held=5,
               arb={"cursor": 2, "nports": 3, "max_skip": 2, "ticks": 40},
               routed=[{"out": 1, "want": 1}, {"out": 2, "want": 2}, {"out": 0, "want": 0}],
               route_to=[{"to": "D1.Port0", "dst": "D1.Port0"}, {"to": "D2.Port0", "dst": "D2.Port0"}])
    ep = _comp("N.EP[0]", "endpoint", EP_HAVE,
               asm=[{"id": 7, "arrived": 2, "required": 3, "seen": 2}, {"id": 9, "arrived": 1, "required": 1, "seen": 1}],
               assembled=[{"id": 3, "done": 10, "first": 2}, {"id": 4, "done": 10, "first": 5}, {"id": 2, "done": 12, "first": 1}], nout=1, nflits=3)
    return [sw, ep]


def _corruptions():
    def at(i, f):
        def g(cs):
            f(cs[i])
        return g
    return {
        "buffer_capacity": at(0, lambda c: c["bufs"][1].update(n=3)),
        "pipeline_shape": at(0, lambda c: c["pipes"][0]["items"].append({"lane": 0, "stage": 1})),
        "flit_once": at(0, lambda c: c.update(flits=[11, 12, 13, 14, 12])),
        "conservation": at(0, lambda c: c.update(sent=5)),
        "arb_cursor": at(0, lambda c: c["arb"].update(cursor=3)),
        "arb_fair": at(0, lambda c: c["arb"].update(max_skip=3)),
        "routed_as_table": at(0, lambda c: c["routed"][1].update(out=0)),
        "route_to_dst": at(0, lambda c: c["route_to"][0].update(to="D2.Port0")),
        "asm_count": at(1, lambda c: c["asm"][0].update(arrived=4, seen=4)),
        "asm_seen": at(1, lambda c: c["asm"][0].update(seen=1)),
        "asm_unique": at(1, lambda c: c["asm"][1].update(id=7)),
        "assembled_order": at(1, lambda c: c["assembled"][1].update(first=1)),
    }


def _neg_file():
    d = core.scratch("switchint-neg-")
    path = os.path.join(d, "neg.ndjson")
    recs, expect = [], {}
    recs.append({"e": "state", "run": 1, "n": 0, "final": False, "settled": False, "comps": _baseline()})
    expect[1] = set()
    run = 1
    for rule, f in _corruptions().items():
        run += 1
        cs = copy.deepcopy(_baseline())
        f(cs)
        recs.append({"e": "state", "run": run, "n": 0, "final": False, "settled": False, "comps": cs})
        expect[run] = {rule}
    run += 1   # a settled sample with leftovers
    recs.append({"e": "state", "run": run, "n": 0, "final": True, "settled": True, "comps": _baseline()[1:]})
    expect[run] = {"settled_empty"}
    run += 1   # a settled sample at rest
    rest = [_comp("N.SW[0]", "switch", SW_HAVE, bufs=[{"name": "route_buffer", "cap": 2, "n": 0}], pipes=[{"name": "pipeline", "width": 2, "stages": 2, "items": []}],
                  recv=9, sent=9, arb={"cursor": 1, "nports": 3, "max_skip": 0, "ticks": 50}),
            _comp("N.EP[0]", "endpoint", EP_HAVE)]
    recs.append({"e": "state", "run": run, "n": 0, "final": True, "settled": True, "comps": rest})
    expect[run] = set()
    run += 1   # a component whose parts drifted away: nothing may fire although the content is wrong
    drifted = copy.deepcopy(_baseline())
    drifted[0]["have"] = []
    drifted[0].update(sent=99, flits=[1, 1])
    recs.append({"e": "state", "run": run, "n": 0, "final": False, "settled": False, "comps": drifted})
    expect[run] = set()
    with open(path, "w") as f:
        for r in recs:
            f.write(json.dumps(r) + "\n")
    return path, expect


def _record(ck, r):
    ck.cov["states"] += r.distinct
    ck.cov["transitions"] += r.generated
    ck.tlc_runs.append(dict(module="SwitchInternals", cfg="SwitchInternals.cfg", **r.summary()))


def _tlc(path):
    return core.tlc(["noc", "common"], "SwitchInternals", "SwitchInternals.cfg", workers=1, timeout=2400,
                    env={"TRACE_FILE": path}, tags=("REJECTED", "CASE"))


def _neg_verdict(ck, r, expect):
    _record(ck, r)
    if not r.ok:
        raise core.Broken("SwitchInternals negative controls: trace rejected: %s %s" % (r.tagged.get("REJECTED"), r.error))
    got = {k: set() for k in expect}
    for c in r.tagged.get("CASE", []):
        got.setdefault(c["run"], set()).add(c["rule"])
    wrong = {k: (sorted(expect[k]), sorted(got.get(k, set()))) for k in expect if expect[k] != got.get(k, set())}
    if wrong:
        raise core.Broken("SwitchInternals negative controls: run -> (expected rules, reported rules): %s" % wrong)
    covered = set().union(*expect.values())
    if covered != set(RULES):
        raise core.Broken("SwitchInternals negative controls do not cover: %s" % sorted(set(RULES) - covered))
    ck.cov["internals_negative_controls"] = len(expect)
    ck.note("SwitchInternals negative controls: %d hand-made samples, every one of the %d rules rejects exactly its corrupted sample" % (len(expect), len(RULES)))


def evaluate(ck, jobs, parallel=8):
    """jobs: list of (driver input, driver output) of net_trace runs made with payload(...)."""
    jobs = [(p, out) for p, out in jobs if p.get("int_out") and os.path.exists(p["int_out"]) and os.path.getsize(p["int_out"]) > 0]
    drifts, stats = set(), {}
    for p, out in jobs:
        for dr in out.get("drifts") or []:
            drifts.add((dr["kind"], dr["part"], dr["field"]))
        for k, v in (out.get("int_stats") or {}).items():
            stats[k] = max(stats.get(k, 0), v) if k.startswith("max_") else stats.get(k, 0) + v
    for kind, part, field in sorted(drifts):
        print("DRIFT: property=%s internals: the State of %s no longer offers %r; the rules that need its %r part are skipped" % (
            ck.pid, kind, field, part), flush=True)
    ck.cov["internals_drift"] = [list(x) for x in sorted(drifts)]
    neg_path, expect = _neg_file()
    with cf.ThreadPoolExecutor(max_workers=max(2, parallel)) as ex:
        neg = ex.submit(_tlc, neg_path)
        rs = list(ex.map(lambda job: _tlc(job[0]["int_out"]), jobs))
        _neg_verdict(ck, neg.result(), expect)
    cases = 0
    for (p, out), r in zip(jobs, rs):
        _record(ck, r)
        if not r.ok:
            raise core.Broken("C29 internals: projection trace does not fit SwitchInternals: %s %s" % (r.tagged.get("REJECTED"), r.error))
        specs = {s["id"]: s for s in out["specs"]}
        for c in r.tagged.get("CASE", []):
            s = specs.get(c["run"])
            cases += 1
            desc = "C29 internals: rule %s fails on %s (%s) of network %s (%s) after %s handled events: %s" % (
                c["rule"], c["comp"], c["kind"], c["run"], (s or {}).get("shape"), c.get("n"), json.dumps(c.get("state"))[:900])
            ck.report({"part": "internals", "kind": c["kind"], "rule": c["rule"]}, desc,
                      {"driver": "net_trace", "input": dict(specs=[s], internals_every=p.get("internals_every"), internals_max=p.get("internals_max")), "case": c})
    ck.cov["internals"] = dict(stats, rule_failures=cases, rules=len(RULES))
    ck.cov["evaluations"] += stats.get("components", 0)
    ck.note("C29 internals: %d samples, %d switch / endpoint states judged by %d rules (%d buffered + %d pipelined flits, %d assembling entries, %d assembled "
            "messages waiting, %d settled samples; arbitration: longest run of passed-over ticks %d), %d rule failures, %d drift(s)" % (
                stats.get("samples", 0), stats.get("components", 0), len(RULES), stats.get("buffer_items", 0), stats.get("pipeline_items", 0),
                stats.get("assembling_entries", 0), stats.get("assembled_waiting", 0), stats.get("settled_samples", 0),
                stats.get("max_arbitration_skips", 0), cases, len(drifts)))
    return cases
