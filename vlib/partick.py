"""C10 / C12 under the parallel engine: ticking components and direct connections run by timing.ParallelEngine
(harness driver par_ticks, family `tick`), the log judged by TLC with spec/tick/ParTick.tla."""
import os
from . import core, tracecheck

NOTE = ("parallel engine: S senders (2-12) spread over 1-3 direct connections and one receiver with one port per connection; all handlers of an "
        "instant run on different goroutines (GOMAXPROCS 2/4/8/16), so several senders wake one idle connection and several connections wake "
        "one idle receiver in the same round; every engine event, send and retrieval is logged under one mutex and judged by ParTick.tla")


def run(ck, systems, msgs, wide=0, wide_msgs=0, cfg="ParTick.cfg"):
    binary = ck.binary("tick")
    d = core.scratch("partick-")
    path = os.path.join(d, "partick.ndjson")
    payload = dict(seed=ck.seed, systems=systems, msgs=msgs, wide=wide, wide_msgs=wide_msgs, out=path)
    try:
        out = core.harness(binary, "par_ticks", payload, timeout=1500)
    except core.Crashed as c:
        where = c.akita_panic()
        if not where:
            raise
        ck.report({"engine": "parallel", "at": "panic"}, "parallel engine: the real code panicked while ticking components exchanged messages: %s" % where,
                  {"driver": "par_ticks", "input": payload, "stderr": c.stderr[-3000:]})
        return None
    v = tracecheck.validate(ck, ["tick", "common"], "ParTick", cfg, path, timeout=1500)
    ck.cov["traces_validated_against_impl"] += out["systems"]
    ck.cov["evaluations"] += out["records"]
    ck.cov["distinct_nontrivial"] += out["systems"]
    ck.cov["parallel_engine"] = dict(systems=out["systems"], records=out["records"], engine_events=out["ticks"], messages=out["sends"])
    if NOTE not in ck.assumptions:
        ck.assumptions.append(NOTE)
    if out["ticks"] == 0 or out["sends"] == 0:
        raise core.Broken("par_ticks recorded no engine events / no messages")
    if not v.accepted:
        nxt = v.next or {}
        keep = os.path.join(core.VERIF, "replays", "%s-partick-seed%d.ndjson" % (ck.pid, ck.seed))
        os.makedirs(os.path.dirname(keep), exist_ok=True)
        os.replace(path, keep)
        what = {"tick": "a second event of one handler in one instant (or time going back)", "recv": "a retrieval that is not the oldest undelivered message of its channel (duplicate, loss, reordering or damage)",
                "ret": "the run ended with undelivered messages", "send": "a message ID sent twice", "hang": "the run did not end"}.get(nxt.get("e"), "?")
        ck.report({"engine": "parallel", "at": nxt.get("e", "invariant:%s" % v.invariant)},
                  "parallel engine: log of the real components rejected by ParTick after %s records at %s: %s" % (v.matched, nxt, what),
                  {"trace": keep, "driver": "par_ticks", "input": payload})
    ck.note("parallel engine: %d systems, %d records (%d engine events, %d messages), accepted=%s" % (out["systems"], out["records"], out["ticks"], out["sends"], v.accepted))
    return v
