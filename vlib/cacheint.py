"""CacheInternals: consistency rules of the memory components' own State (spec/mem/CacheInternals.tla),
evaluated by TLC on the State projected after every N-th handled engine event of the C16 runs.

These rules go beyond the C16 statement: they are consistency conditions of the implementation's own
bookkeeping (MSHRs, transaction tables, stage buffers and pipelines, eviction lists, ROB table, bank
pipelines, DRAM queues), reported under C16 with keys {part: "internals", kind, rule}. When the State
schema no longer offers a field the projection needs, a `DRIFT:` line is printed and the rules that
need that part are skipped for that component kind — never a failure.

    evaluate(ck, results)     TLC over the projections recorded by memcheck.campaign(..., internals_every=N), and, at the
                              same time, over the negative controls: hand-corrupted projected states must be rejected,
                              every rule by exactly its corrupted sample (otherwise core.Broken: the rules would be vacuous)
"""
import concurrent.futures as cf
import copy, json, os
from . import core

RULES = ["mshr_unique", "mshr_capacity", "mshr_waiter", "mshr_waiters_live", "ref_exists", "ref_live", "ref_once", "buffer_capacity",
         "pipeline_shape", "eviction_lists", "evicting_not_clean", "active_bound", "rob_order", "rob_capacity",
         "rob_response", "bank_selection", "dram_queues", "settled_empty"]


def _comp(name, kind, have, **kw):
    c = {"name": name, "kind": kind, "have": have, "mshr": {"cap": 0, "entries": []}, "slots": [], "bufs": [], "pipes": [],
         "pending": [], "inflight_evict": [], "inflight_fetch": [], "evicting": [], "valid_clean": [], "max_active": 0,
         "rob": {"cap": 0, "entries": []}, "banks": {"n": 1, "per_4k": 1, "items": []},
         "dram": {"tq_cap": 0, "sub": 0, "cq_cap": 0, "queues": [], "tx": [], "refs": []}}
    c.update(kw)
    return c


def _baseline():
    """A sound sample: a tiny cache (2 lines x 2 MSHR entries) in the middle of a miss, a ROB, a banked memory, a DRAM."""
    cache = _comp("WB0", "writeback", ["mshr", "slots", "bufs", "pipes", "evictions"],
                  mshr={"cap": 2, "entries": [{"pid": 1, "line": 0, "nwait": 2, "wait": [0, 3], "fetch": False}, {"pid": 1, "line": 64, "nwait": 1, "wait": [1], "fetch": False}]},
                  slots=[False, False, True, False],
                  bufs=[{"name": "dir_stage_buf", "cap": 2, "items": [3], "refs": True}, {"name": "mshr_stage_buf", "cap": 2, "items": [], "refs": True}],
                  pipes=[{"name": "bank_pipelines[0]", "width": 2, "stages": 2, "refs": True,
                          "items": [{"lane": 0, "stage": 0, "item": 0}, {"lane": 1, "stage": 0, "item": 1}]}],
                  pending=[0], inflight_evict=[2], inflight_fetch=[1], evicting=[128], valid_clean=[192])
    wt = _comp("WA1", "writearound", ["mshr", "slots", "bufs", "pipes"], max_active=2,
               mshr={"cap": 2, "entries": [{"pid": 0, "line": 0, "nwait": 0, "wait": [], "fetch": True}]}, slots=[False, True, False],
               bufs=[{"name": "dir_buf", "cap": 1, "items": [2], "refs": True}],
               pipes=[{"name": "dir_pipeline", "width": 1, "stages": 1, "refs": True, "items": [{"lane": 0, "stage": 0, "item": 0}]}])
    rob = _comp("ROB2", "rob", ["rob"], rob={"cap": 2, "entries": [{"bottom": 10, "read": True, "has_rsp": True, "rsp_len": 8},
                                                                      {"bottom": 12, "read": False, "has_rsp": False, "rsp_len": 0}]})
    banked = _comp("BANKED3", "banked", ["banks"], banks={"n": 2, "per_4k": 64, "items": [{"bank": 1, "hi": 3, "lo": 64, "div": 64},
                                                                                           {"bank": 0, "hi": 3, "lo": 130, "div": 64}]})
    dram = _comp("DRAM3", "dram", ["dram"], dram={"tq_cap": 4, "sub": 2, "cq_cap": 2, "queues": [1, 2], "tx": [7, 9], "refs": [7, 9, 9]})
    return [cache, wt, rob, banked, dram]


def _corruptions():
    """rule -> function corrupting the baseline so that exactly this rule fails."""
    def at(i, f):
        def g(cs):
            f(cs[i])
        return g
    return {
        "mshr_unique": at(0, lambda c: c["mshr"]["entries"][1].update(line=0)),
        "mshr_capacity": at(0, lambda c: c["mshr"]["entries"].append({"pid": 2, "line": 0, "nwait": 1, "wait": [0], "fetch": False})),
        "mshr_waiter": at(1, lambda c: c["mshr"]["entries"][0].update(fetch=False)),
        "mshr_waiters_live": at(0, lambda c: c["mshr"]["entries"][1].update(wait=[2])),
        "ref_exists": at(0, lambda c: c["bufs"][0].update(items=[9])),
        "ref_live": at(0, lambda c: c["bufs"][0].update(items=[2])),
        "ref_once": at(0, lambda c: (c["bufs"][0].update(items=[3, 3]))),
        "buffer_capacity": at(1, lambda c: c["bufs"][0].update(items=[2, 0])),
        "pipeline_shape": at(0, lambda c: c["pipes"][0]["items"][1].update(lane=0)),
        "eviction_lists": at(0, lambda c: c.update(pending=[0, 0])),
        "evicting_not_clean": at(0, lambda c: c.update(valid_clean=[128])),
        "active_bound": at(1, lambda c: c.update(max_active=1)),
        "rob_order": at(2, lambda c: c["rob"]["entries"][1].update(bottom=9)),
        "rob_capacity": at(2, lambda c: c["rob"].update(cap=1)),
        "rob_response": at(2, lambda c: c["rob"]["entries"][0].update(rsp_len=0)),
        "bank_selection": at(3, lambda c: c["banks"]["items"][0].update(bank=0)),
        "dram_queues": at(4, lambda c: c["dram"].update(refs=[7, 8])),
    }


def _neg_file():
    """The sound baseline passes every rule; each hand-corrupted variant is rejected by exactly its rule; a
    settled sample with leftovers fails settled_empty (otherwise the rules would be vacuous: core.Broken)."""
    d = core.scratch("cacheint-neg-")
    path = os.path.join(d, "neg.ndjson")
    recs, expect = [], {}
    recs.append({"e": "state", "run": 1, "n": 0, "final": False, "settled": False, "comps": _baseline()})
    expect[1] = set()
    run = 1
    for rule, f in _corruptions().items():
        run += 1
        cs = copy.deepcopy(_baseline())
        f(cs)
        recs.append({"e": "state", "run": run, "n": 0, "final": False, "settled": False, "comps": cs})
        expect[run] = {rule}
    run += 1
    recs.append({"e": "state", "run": run, "n": 0, "final": True, "settled": True, "comps": _baseline()[:1]})
    expect[run] = {"settled_empty"}
    run += 1
    empty = [_comp("WB0", "writeback", ["mshr", "slots", "bufs", "pipes", "evictions"], slots=[True, True],
                   bufs=[{"name": "dir_stage_buf", "cap": 2, "items": [], "refs": True}])]
    recs.append({"e": "state", "run": run, "n": 0, "final": True, "settled": True, "comps": empty})
    expect[run] = set()
    with open(path, "w") as f:
        for r in recs:
            f.write(json.dumps(r) + "\n")
    return path, expect


def _neg_verdict(ck, r, expect):
    record(ck, r)
    if not r.ok:
        raise core.Broken("CacheInternals negative controls: trace rejected: %s %s" % (r.tagged.get("REJECTED"), r.error))
    got = {k: set() for k in expect}
    for c in r.tagged.get("CASE", []):
        got.setdefault(c["run"], set()).add(c["rule"])
    wrong = {k: (sorted(expect[k]), sorted(got.get(k, set()))) for k in expect if expect[k] != got.get(k, set())}
    if wrong:
        raise core.Broken("CacheInternals negative controls: run -> (expected rules, reported rules): %s" % wrong)
    covered = set().union(*expect.values())
    if covered != set(RULES):
        raise core.Broken("CacheInternals negative controls do not cover: %s" % sorted(set(RULES) - covered))
    ck.cov["internals_negative_controls"] = len(expect)
    ck.note("CacheInternals negative controls: %d hand-made samples, every one of the %d rules rejects exactly its corrupted sample" % (len(expect), len(RULES)))


def record(ck, r):
    ck.cov["states"] += r.distinct
    ck.cov["transitions"] += r.generated
    ck.tlc_runs.append(dict(module="CacheInternals", cfg="CacheInternals.cfg", **r.summary()))


def _tlc(path):
    return core.tlc(["mem", "common"], "CacheInternals", "CacheInternals.cfg", workers=1, timeout=2400,
                    env={"TRACE_FILE": path}, tags=("REJECTED", "CASE"))


def negative_controls(ck):
    """Stand-alone form (evaluate() runs the same controls concurrently with the real traces)."""
    path, expect = _neg_file()
    _neg_verdict(ck, _tlc(path), expect)


def evaluate(ck, results, label="C16"):
    """results: the (payload, harness output, tlc result) triples of memcheck.campaign run with internals_every > 0."""
    jobs = [(p, out) for p, out, _ in results if p.get("int_out") and os.path.exists(p["int_out"]) and os.path.getsize(p["int_out"]) > 0]
    drifts, stats = set(), {}
    for p, out in jobs:
        for dr in out.get("drifts") or []:
            drifts.add((dr["kind"], dr["part"], dr["field"]))
        for k, v in (out.get("int_stats") or {}).items():
            stats[k] = stats.get(k, 0) + v
    for kind, part, field in sorted(drifts):
        print("DRIFT: property=%s internals: the State of %s no longer offers %r; the rules that need its %r part are skipped" % (
            ck.pid, kind, field, part), flush=True)
    ck.cov["internals_drift"] = [list(x) for x in sorted(drifts)]

    neg_path, expect = _neg_file()
    with cf.ThreadPoolExecutor(max_workers=8) as ex:
        neg = ex.submit(_tlc, neg_path)
        rs = list(ex.map(lambda job: _tlc(job[0]["int_out"]), jobs))
        _neg_verdict(ck, neg.result(), expect)
    cases = 0
    for (p, out), r in zip(jobs, rs):
        record(ck, r)
        if not r.ok:
            raise core.Broken("%s internals: projection trace does not fit CacheInternals: %s %s" % (label, r.tagged.get("REJECTED"), r.error))
        for c in r.tagged.get("CASE", []):
            info = next((i for i in out["runs"] if i.get("int_line") and i["int_line"] <= c["l"] < i["int_line"] + i["int_lines"]), None)
            cases += 1
            desc = "%s internals: rule %s fails on %s (%s) of stack %s after %s handled events: %s" % (
                label, c["rule"], c["comp"], c["kind"], info["desc"] if info else "?", c.get("n"), json.dumps(c.get("state"))[:900])
            ck.report({"part": "internals", "kind": c["kind"], "rule": c["rule"]}, desc,
                      {"driver": "memhier_run", "seed": p["seed"], "index": info["index"] if info else None,
                       "internals_every": p.get("internals_every"), "case": c})
    ck.cov["internals"] = dict(stats, rule_failures=cases, rules=len(RULES))
    ck.cov["evaluations"] += stats.get("components", 0)
    ck.note("%s internals: %d samples, %d component states judged by %d rules (%d MSHR entries, %d buffered refs, %d eviction-list entries, "
            "%d ROB entries, %d banked items, %d DRAM refs, %d settled samples), %d rule failures, %d drift(s)" % (
                label, stats.get("samples", 0), stats.get("components", 0), len(RULES), stats.get("mshr_entries", 0),
                stats.get("buffer_items", 0) + stats.get("pipeline_items", 0), stats.get("eviction_list_entries", 0), stats.get("rob_entries", 0),
                stats.get("bank_items", 0), stats.get("dram_refs", 0), stats.get("settled_samples", 0), cases, len(drifts)))
    return cases
