"""Core plumbing shared by every check: TLC runner, harness runner, behaviour
graph utilities, known-findings matcher, evidence writer, verdict printing.

Exit codes: 0 property held on everything explored (KNOWN-FINDING lines allowed),
1 violation confirmed on real code (VIOLATION line printed), 2 check broken.
"""
import json, os, random, re, shutil, subprocess, sys, tempfile, time, hashlib, atexit, collections

VERIF = os.path.dirname(os.path.dirname(os.path.abspath(__file__)))
REPO = os.environ.get("VERIF_REPO", "/repo")
SPEC = os.path.join(VERIF, "spec")
HARNESS = os.path.join(VERIF, "harness")
BUILD = os.path.join(VERIF, ".build")
TLA_JARS = "/opt/veriftools/tla/tla2tools.jar:/opt/veriftools/tla/CommunityModules-deps.jar"
GO = "go1.26.8"

GOENV = dict(os.environ, GOFLAGS="-mod=mod", GOPROXY="off", GOSUMDB="off",
             GOTOOLCHAIN="local", CGO_ENABLED="1")


class Broken(Exception):
    """The check itself could not run (exit 2, never a violation)."""


class Crashed(Broken):
    """A harness driver process died. .stderr holds its output; akita_panic() tells whether
    the Go panic was raised inside the repository's own code (first frame that is neither
    runtime/log nor the harness) — a real-code failure a check may report — or in the harness."""

    def __init__(self, msg, stderr):
        super().__init__(msg)
        self.stderr = stderr

    def akita_panic(self):
        lines = self.stderr.splitlines()
        try:
            i = next(k for k, l in enumerate(lines) if l.startswith("panic:") or l.startswith("fatal error:"))
        except StopIteration:
            return None
        for l in lines[i + 1:]:
            l = l.strip()
            if not l or l.startswith(("goroutine ", "/", "created by", "[", "fatal error:", "panic:")) or l.startswith(("runtime.", "log.", "panic(", "sync.", "internal/", "reflect.")):
                continue
            if l.startswith("github.com/sarchlab/akita"):
                return lines[i].strip() + " in " + l.split("(")[0]
            return None
        return None


_scratch_dirs = []


def scratch(prefix="verif-"):
    d = tempfile.mkdtemp(prefix=prefix)
    _scratch_dirs.append(d)
    return d


def _cleanup():
    for d in _scratch_dirs:
        shutil.rmtree(d, ignore_errors=True)


atexit.register(_cleanup)

# --------------------------------------------------------------------------- harness


def build_harness(family, race=False):
    """(Re)build one harness binary (harness/cmd/<family>) against /repo's current
    working tree, hooks on."""
    os.makedirs(BUILD, exist_ok=True)
    out = os.path.join(BUILD, family + ("-race" if race else ""))
    # go.sum follows the repository's
    try:
        shutil.copyfile(os.path.join(REPO, "go.sum"), os.path.join(HARNESS, "go.sum"))
    except OSError:
        pass
    cmd = [GO, "build", "-tags", "verif"]
    if race:
        cmd.append("-race")
    if os.path.abspath(REPO) != "/repo":
        # development aid: build against a scratch worktree of the repository
        md = scratch("modfile-")
        with open(os.path.join(HARNESS, "go.mod")) as f:
            gm = f.read().replace("=> /repo", "=> " + os.path.abspath(REPO))
        with open(os.path.join(md, "go.mod"), "w") as f:
            f.write(gm)
        shutil.copyfile(os.path.join(REPO, "go.sum"), os.path.join(md, "go.sum"))
        cmd += ["-modfile", os.path.join(md, "go.mod")]
        out = os.path.join(md, family)
    cmd += ["-o", out, "./cmd/" + family]
    p = subprocess.run(cmd, cwd=HARNESS, env=GOENV, capture_output=True, text=True)
    if p.returncode != 0:
        raise Broken("harness build failed:\n" + p.stdout + p.stderr)
    return out


def harness(binary, driver, payload, timeout=900, env=None, args=()):
    """Run one harness driver. payload (JSON-able) is written to a file; the driver
    writes a JSON document to its -out file."""
    d = scratch("hx-")
    inp = os.path.join(d, "in.json")
    outp = os.path.join(d, "out.json")
    with open(inp, "w") as f:
        json.dump(payload, f)
    e = dict(GOENV)
    if env:
        e.update(env)
    try:
        p = subprocess.run([binary, driver, "-in", inp, "-out", outp, *args], cwd=d, env=e,
                           capture_output=True, text=True, timeout=timeout)
    except subprocess.TimeoutExpired:
        raise Broken("harness driver %s timed out after %ss" % (driver, timeout))
    if p.returncode != 0 or not os.path.exists(outp):
        raise Crashed("harness driver %s failed (rc=%s):\n%s\n%s" % (driver, p.returncode, p.stdout[-4000:], p.stderr[-4000:]),
                      p.stderr[-20000:])
    with open(outp) as f:
        res = json.load(f)
    shutil.rmtree(d, ignore_errors=True)
    return res


# --------------------------------------------------------------------------- TLC

class TLCResult:
    def __init__(self):
        self.ok = False
        self.generated = 0
        self.distinct = 0
        self.depth = 0
        self.error = None          # text of first "Error:" line
        self.violated = None       # invariant / property name
        self.lines = []
        self.tagged = collections.defaultdict(list)
        self.wall = 0.0
        self.coverage = {}
        self.rc = None

    def summary(self):
        return dict(ok=self.ok, generated=self.generated, distinct=self.distinct, depth=self.depth,
                    error=self.error, violated=self.violated, wall_s=round(self.wall, 2))


_TAG_RE = re.compile(r'^<<"([A-Z_]+)", (.*)>>$')


def _decode_tla_string(s):
    # TLC prints strings with \" and \\ escapes; JSON decoding handles both
    return json.loads(s)


def tlc(spec_dirs, module, cfg, workers=4, timeout=600, simulate=None, depth=None, seed=None,
        env=None, tags=("EDGE", "INIT", "BEHAVIOUR", "CASE"), coverage=False, deque=False, extra=(),
        keep_lines=False, heap=None):
    """Run TLC on module.tla with cfg in a scratch copy of spec_dirs. Returns TLCResult.
    Raises Broken on timeouts, parse errors and anything that is not a clean verdict."""
    d = scratch("tlc-")
    for sd in spec_dirs:
        src = sd if os.path.isabs(sd) else os.path.join(SPEC, sd)
        for fn in os.listdir(src):
            if fn.endswith((".tla", ".cfg")):
                shutil.copyfile(os.path.join(src, fn), os.path.join(d, fn))
    md = os.path.join(d, "md")
    jopts = ["-XX:+UseParallelGC", "-Xss512m"]
    if heap:
        jopts.append("-Xmx" + heap)
    if deque:
        jopts.append("-Dtlc2.tool.queue.IStateQueue=StateDeque")
    cmd = ["timeout", str(timeout), "java", *jopts, "-cp", TLA_JARS, "tlc2.TLC",
           "-workers", str(workers), "-metadir", md, "-noGenerateSpecTE", "-config", cfg]
    if simulate is not None:
        cmd += ["-simulate", "num=%d" % simulate]
    if depth is not None:
        cmd += ["-depth", str(depth)]
    if seed is not None:
        cmd += ["-seed", str(seed)]
    if coverage:
        cmd += ["-coverage", "1"]
    cmd += list(extra)
    cmd.append(module + ".tla")
    e = dict(os.environ)
    if env:
        e.update({k: str(v) for k, v in env.items()})
    r = TLCResult()
    t0 = time.time()
    p = subprocess.Popen(cmd, cwd=d, env=e, stdout=subprocess.PIPE, stderr=subprocess.STDOUT, text=True,
                         errors="replace")
    tail = collections.deque(maxlen=200)
    errlines = []
    for line in p.stdout:
        line = line.rstrip("\n")
        m = _TAG_RE.match(line)
        if m and m.group(1) in tags:
            try:
                r.tagged[m.group(1)].append(json.loads(_decode_tla_string(m.group(2))))
            except Exception:
                # not a JSON payload: keep raw
                r.tagged[m.group(1)].append(m.group(2))
            continue
        tail.append(line)
        if keep_lines:
            r.lines.append(line)
        if line.startswith("Error:") or "Error:" in line[:40]:
            errlines.append(line)
        m = re.search(r"(\d+) states generated, (\d+) distinct states found", line)
        if m:
            r.generated, r.distinct = int(m.group(1)), int(m.group(2))
        m = re.search(r"depth of the complete state graph search is (\d+)", line)
        if m:
            r.depth = int(m.group(1))
        m = re.search(r"Invariant (\S+) is violated", line)
        if m:
            r.violated = m.group(1)
        m = re.search(r"Action property (\S+) is violated|Temporal properties were violated|property (\S+) is violated", line)
        if m and not r.violated:
            r.violated = m.group(1) or m.group(2) or "temporal"
        if "Model checking completed. No error has been found" in line:
            r.ok = True
        if simulate is not None and "Finished in" in line and not errlines:
            r.ok = True
        m = re.match(r"<(\w+) line \d+, col \d+ to line \d+, col \d+ of module (\w+)>: (\d+):(\d+)", line)
        if m:
            r.coverage[m.group(2) + "!" + m.group(1)] = [int(m.group(3)), int(m.group(4))]
    p.wait()
    r.rc = p.returncode
    r.wall = time.time() - t0
    if errlines:
        r.error = errlines[0]
        r.ok = False
    if not keep_lines:
        r.lines = list(tail)
    if p.returncode == 124:
        raise Broken("TLC timed out after %ss on %s/%s" % (timeout, module, cfg))
    if not r.ok and r.violated is None and "Postcondition" not in (r.error or "") and "postcondition" not in "\n".join(tail).lower():
        raise Broken("TLC did not reach a verdict on %s/%s (rc=%s):\n%s" % (module, cfg, p.returncode, "\n".join(list(tail)[-40:])))
    shutil.rmtree(d, ignore_errors=True)
    return r


# --------------------------------------------------------------------------- behaviour graphs

def canon(x):
    return json.dumps(x, sort_keys=True, separators=(",", ":"))


class Graph:
    """State graph rebuilt from TLC's EDGE/INIT lines ({s,a,t} records)."""

    def __init__(self, inits, edges):
        self.nodes = {}
        self.out = collections.defaultdict(list)
        self.edges = []
        seen = set()
        for e in edges:
            ks, kt = canon(e["s"]), canon(e["t"])
            key = (ks, canon(e["a"]), kt)
            if key in seen:
                continue
            seen.add(key)
            self.nodes.setdefault(ks, e["s"])
            self.nodes.setdefault(kt, e["t"])
            self.edges.append((ks, e["a"], kt))
            self.out[ks].append((e["a"], kt))
        self.inits = []
        for s in inits:
            k = canon(s)
            self.nodes.setdefault(k, s)
            if k not in self.inits:
                self.inits.append(k)
        # BFS shortest paths from the set of initial states
        self.parent = {k: None for k in self.inits}
        dq = collections.deque(self.inits)
        while dq:
            u = dq.popleft()
            for a, v in self.out[u]:
                if v not in self.parent:
                    self.parent[v] = (u, a)
                    dq.append(v)

    def path_to(self, k):
        steps = []
        while self.parent[k] is not None:
            u, a = self.parent[k]
            steps.append((a, k))
            k = u
        steps.reverse()
        return k, steps

    def history(self, root, steps):
        return {"init": self.nodes[root], "steps": [{"a": a, "t": self.nodes[t]} for a, t in steps]}

    def edge_cover(self, limit=None, rng=None):
        """One history per edge: shortest path to its source, then the edge.
        Histories that are prefixes of others are merged greedily by extending paths:
        we walk from each uncovered edge onward through other uncovered edges."""
        uncovered = set(range(len(self.edges)))
        idx = collections.defaultdict(list)
        for i, (s, a, t) in enumerate(self.edges):
            idx[s].append(i)
        order = list(range(len(self.edges)))
        if rng:
            rng.shuffle(order)
        hs = []
        for i in order:
            if i not in uncovered:
                continue
            s, a, t = self.edges[i]
            if s not in self.parent:
                continue  # unreachable from init (cannot happen with BFS output)
            root, steps = self.path_to(s)
            steps = list(steps)
            cur = i
            n_ext = 0
            while cur is not None and n_ext < 64:
                s, a, t = self.edges[cur]
                steps.append((a, t))
                uncovered.discard(cur)
                n_ext += 1
                nxt = [j for j in idx[t] if j in uncovered]
                cur = nxt[0] if nxt else None
            hs.append(self.history(root, steps))
            if limit and len(hs) >= limit:
                break
        return hs

    def random_walks(self, rng, n, length):
        hs = []
        for _ in range(n):
            root = rng.choice(self.inits)
            k = root
            steps = []
            for _ in range(length):
                outs = self.out.get(k)
                if not outs:
                    break
                a, t = rng.choice(outs)
                steps.append((a, t))
                k = t
            hs.append(self.history(root, steps))
        return hs


# --------------------------------------------------------------------------- findings

def load_findings():
    out = []
    p = os.path.join(VERIF, "known_findings.json")
    if os.path.exists(p):
        with open(p) as f:
            out += json.load(f).get("findings", [])
    fd = os.path.join(VERIF, "findings.d")   # fragments awaiting a merge into known_findings.json
    if os.path.isdir(fd):
        for fn in sorted(os.listdir(fd)):
            if fn.endswith(".json"):
                with open(os.path.join(fd, fn)) as f:
                    out += json.load(f).get("findings", [])
    return out


# --------------------------------------------------------------------------- check context

class Check:
    def __init__(self, pid, tier, level):
        self.pid = pid
        self.tier = tier
        self.level = level
        self.seed = int(os.environ.get("VERIF_SEED", "1") or 1)
        self.rng = random.Random(self.seed * 1000003 + int(hashlib.sha1(pid.encode()).hexdigest()[:6], 16))
        self.t0 = time.time()
        self.cov = dict(states=0, transitions=0, traces_validated_against_impl=0, evaluations=0,
                        distinct_nontrivial=0, samples=[], rule="", exhaustive=False)
        self.assumptions = []
        self.violations = []      # (key, description, replay_obj)
        self.known = []           # matched known findings
        self.tlc_runs = []
        self.findings = [f for f in load_findings() if f.get("property") == pid and f.get("status", "open") == "open"]
        self._binary = {}

    # -- building blocks
    def binary(self, family, race=False):
        if (family, race) not in self._binary:
            self._binary[(family, race)] = build_harness(family, race)
        return self._binary[(family, race)]

    def run_tlc(self, *a, **kw):
        r = tlc(*a, **kw)
        self.cov["states"] += r.distinct
        self.cov["transitions"] += r.generated
        self.tlc_runs.append(dict(module=a[1], cfg=a[2], **r.summary()))
        return r

    def note(self, msg):
        print("[%s %s] %s" % (self.pid, self.tier, msg), flush=True)

    def sample(self, obj, cap=6):
        if len(self.cov["samples"]) < cap:
            self.cov["samples"].append(obj)

    # -- verdicts
    def report(self, key, desc, replay):
        """A confirmed real-code contradiction of the property. key: dict of features of the
        failing case; matched against known_findings.json."""
        for f in self.findings:
            if _match(f.get("match", {}), key):
                if f["id"] not in [k["id"] for k in self.known]:
                    self.known.append(dict(id=f["id"], what=f["what"], count=1, example=key))
                else:
                    for k in self.known:
                        if k["id"] == f["id"]:
                            k["count"] += 1
                return "known"
        self.violations.append((key, desc, replay))
        return "new"

    def finish(self):
        wall = time.time() - self.t0
        os.makedirs(os.path.join(VERIF, "evidence"), exist_ok=True)
        os.makedirs(os.path.join(VERIF, "replays"), exist_ok=True)
        for k in self.known:
            print("KNOWN-FINDING: property=%s %s [%s, %d case(s) this run]" % (self.pid, k["what"], k["id"], k["count"]))
        rc = 0
        seen_paths = []
        for i, (key, desc, replay) in enumerate(self.violations[:5]):
            path = os.path.join(VERIF, "replays", "%s-%s-seed%d-%d.json" % (self.pid, self.tier, self.seed, i))
            with open(path, "w") as f:
                json.dump(dict(property=self.pid, key=key, description=desc, replay=replay), f, indent=1)
            print("VIOLATION property=%s replay=%s" % (self.pid, path))
            print("  " + desc)
            seen_paths.append(path)
            rc = 1
        cov = dict(self.cov)
        cov["tlc_runs"] = self.tlc_runs
        cov["known_findings_matched"] = self.known
        if not cov["samples"]:
            cov["samples"] = ["(no sample recorded)"]
        ev = dict(property_id=self.pid, tier=self.tier, seed=self.seed, level=self.level, coverage=cov,
                  assumptions=self.assumptions, wall_s=round(wall, 2), violations=len(self.violations))
        with open(os.path.join(VERIF, "evidence", self.pid + ".json"), "w") as f:
            json.dump(ev, f, indent=1, sort_keys=True)
        self.note("done in %.1fs: states=%d transitions=%d replayed/validated=%d violations=%d known=%d" % (
            wall, cov["states"], cov["transitions"], cov["traces_validated_against_impl"], len(self.violations), len(self.known)))
        return rc


def _match(pattern, key):
    """pattern: dict feature -> value | {"in": [...]} ; all must match the key's features."""
    if not pattern:
        return False
    for k, v in pattern.items():
        if k not in key:
            return False
        if isinstance(v, dict) and "in" in v:
            if key[k] not in v["in"]:
                return False
        elif key[k] != v:
            return False
    return True
