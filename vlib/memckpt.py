"""C06 / C03 on memory-hierarchy stacks (harness family `memhier`, drivers memhier_ckpt / memhier_det).

Called from checks/c06.py and checks/c03.py:

    from vlib import memckpt
    ...
    memckpt.run_c06(ck)      # at the end of c06.run(ck)
    memckpt.run_c03(ck)      # at the end of c03.run(ck)

C06: seeded stacks of real caches, ROBs and controllers (the C16 generator) built on a
simulation.Simulation with a requester whose progress lives in checkpointable State. Reference run in
its own OS process; then for every chosen cut time t (quick: <= 6 per stack, always one with requests in
flight; thorough: every distinct event time of 6 small runs, 16 sampled cuts of 30 larger ones) process A
RunUntil(t)+SaveCheckpoint, process B rebuild+LoadCheckpoint+Run+SaveCheckpoint; the remaining stream
(handled events with IDs, requester-side issue/response with data and time) and every entity's final
payload are compared with the reference; load+save again must give identical bytes. Mismatches are
classified as in tick/ckpt.go: real | ids_only, msg_in_buffer_at_cut, plus work_in_flight_at_cut.

C03: the same stacks executed in 4 separate OS processes (GOMAXPROCS 1/4/16/2); the full observation
stream is compared by TLC with spec/ckpt/Det.tla."""
import concurrent.futures as cf
import os
from . import core

PRESETS = ["dram:default", "dram:DDR4", "dram:DDR5", "dram:HBM2", "dram:HBM3", "dram:GDDR6"]


def _leaves(ck):
    ps = PRESETS[:]
    ck.rng.shuffle(ps)
    if ck.tier == "quick":
        return ["ideal", "banked", ps[0], "ideal", ps[1], "banked", ps[2]]
    return ["ideal", "banked", ps[0], "ideal", ps[1], "banked", ps[2], "ideal", ps[3], "banked", ps[4], ps[5], "ideal"]


DATA_FIELDS = {"data", "mshr_data", "fetched_data", "evicting_data", "write_data", "write_to_bottom_data", "rsp_data", "read_data"}


def _what_class(what):
    """dead_slot_data: only byte payloads of a slot flagged removed differ."""
    if "[removed]." in what and set(what.split("[removed].", 1)[1].split("+")) <= DATA_FIELDS:
        return "dead_slot_data"
    return "other"


def _report_c06(ck, out, label):
    for m in out["mismatches"] or []:
        key = {"kind": m["kind"], "class": m.get("class", ""), "msg_in_buffer_at_cut": m.get("msg_in_buffer_at_cut", False),
               "family": "memhier", "work_in_flight_at_cut": m.get("work_in_flight_at_cut", False),
               "request_in_flight_at_cut": m.get("requests_in_flight_at_cut", 0) > 0}
        if m["kind"] in ("final", "canonical"):
            key["entity_kind"] = m.get("entity_kind", "")
            key["entity_is_idgen"] = m.get("entity") == "entities/IDGenerator"
            if m.get("class") == "real":
                key["what"] = m.get("what", "")
                key["what_class"] = _what_class(key["what"])
        ck.report(key, "%s: stack %s cut at %d ps (%d request(s) in flight): %s %s %s: %s" % (
            label, m["desc"], m["cut"], m.get("requests_in_flight_at_cut", 0), m["kind"], m.get("entity") or "", m.get("what") or "", m["detail"]),
            {"driver": "memhier_ckpt", "case": m.get("case"), "cut": m["cut"]})


def run_c06(ck):
    """Every chosen cut of every stack: resumed run == uninterrupted run; canonical reload."""
    q = ck.tier == "quick"
    binary = ck.binary("memhier")
    leaves = _leaves(ck)
    campaigns = ([dict(stacks=8, requests=40, max_cuts=6, canon_every=1)] if q else
                 [dict(stacks=3, requests=6, max_cuts=0, canon_every=4),        # every distinct event time (~200 cuts per stack)
                  dict(stacks=16, requests=50, max_cuts=12, canon_every=2)])
    tot = dict(stacks=0, cuts=0, events=0, entities=0, exact=0, idle=0, exact_idle=0, busy=0, canon=0, procs=0, mism=0)
    for i, c in enumerate(campaigns):
        out = core.harness(binary, "memhier_ckpt", dict(seed=ck.seed * 10 + i, leaves=leaves, minimise=12, **c), timeout=3000)
        _report_c06(ck, out, "C06/memhier")
        tot["stacks"] += out["stacks"]
        tot["cuts"] += out["cuts"]
        tot["events"] += out["events"]
        tot["entities"] += out["entities"]
        tot["exact"] += out["exact"]
        tot["idle"] += out["idle_cuts"]
        tot["exact_idle"] += out["exact_at_idle_cuts"]
        tot["busy"] += out["cuts_with_requests_in_flight"]
        tot["canon"] += out["canonical_reloads"]
        tot["procs"] += out["processes"]
        tot["mism"] += len(out["mismatches"] or [])
        if out.get("sample"):
            ck.sample({"memhier_cut": out["sample"]}, cap=8)
        if out["cuts"] and out["cuts_with_requests_in_flight"] == 0:
            raise core.Broken("memhier: no cut with requests in flight was exercised")
    ck.cov["traces_validated_against_impl"] += tot["cuts"]
    ck.cov["evaluations"] += tot["events"]
    ck.cov["distinct_nontrivial"] += tot["cuts"]
    ck.cov["memhier"] = tot
    ck.assumptions += ["memhier stacks: the requester keeps its script position, countdown and in-flight set in component State; "
                       "request IDs come from the checkpointed ID generator; every simulation runs in its own OS process"]
    ck.note("memhier: %d stacks, %d cuts (%d with requests in flight, %d idle of which %d equal IDs included), %d canonical reloads, "
            "%d records after cuts compared, %d processes, %d mismatches" % (
                tot["stacks"], tot["cuts"], tot["busy"], tot["idle"], tot["exact_idle"], tot["canon"], tot["events"], tot["procs"], tot["mism"]))
    return tot


def run_c03(ck):
    """The same stacks in 4 OS processes with different GOMAXPROCS; streams compared by Det.tla."""
    q = ck.tier == "quick"
    binary = ck.binary("memhier")
    d = core.scratch("c03mh-")
    payload = dict(seed=ck.seed, leaves=_leaves(ck), stacks=10 if q else 40, requests=30 if q else 60)
    procs = [1, 4, 16, 2]
    paths = [os.path.join(d, "run%d.ndjson" % k) for k in range(len(procs))]

    def one(k):
        return core.harness(binary, "memhier_det", dict(payload, out=paths[k]), env={"GOMAXPROCS": str(procs[k])}, timeout=3000)
    with cf.ThreadPoolExecutor(max_workers=len(procs)) as ex:
        outs = list(ex.map(one, range(len(procs))))
    out = outs[0]
    ck.cov["evaluations"] += out["records"] * len(paths)
    ck.cov["distinct_nontrivial"] += out["stacks"]
    with open(paths[0]) as f:
        ck.sample({"memhier_stream_excerpt": [f.readline().strip()[:200] for _ in range(5)]}, cap=8)

    def cmp(k):
        return core.tlc(["ckpt"], "Det", "Det.cfg", workers=1, timeout=3000, env={"TRACE_A": paths[0], "TRACE_B": paths[k]}, tags=("REJECTED",))
    with cf.ThreadPoolExecutor(max_workers=3) as ex:
        rs = list(ex.map(cmp, range(1, len(paths))))
    for k, r in zip(range(1, len(paths)), rs):
        ck.cov["states"] += r.distinct
        ck.cov["transitions"] += r.generated
        ck.tlc_runs.append(dict(module="Det", cfg="Det.cfg", **r.summary()))
        ck.cov["traces_validated_against_impl"] += 1
        if not r.ok:
            rej = (r.tagged.get("REJECTED") or [{}])[0]
            if not rej:
                raise core.Broken("Det.tla reached no verdict on memhier stream %d: %s" % (k, r.error))
            keep = os.path.join(core.VERIF, "replays", "C03-memhier-seed%d-run%d.ndjson" % (ck.seed, k))
            os.makedirs(os.path.dirname(keep), exist_ok=True)
            os.replace(paths[k], keep)
            a = rej.get("a") or {}
            ck.report({"kind": "divergence", "entity": a.get("entity", ""), "family": "memhier", "record": a.get("e", ""),
                       "component": a.get("c", "")},
                      "memhier: process %d (GOMAXPROCS %d) diverges from process 0 after %s records (stack %s): %s vs %s" % (
                          k, procs[k], rej.get("matched"), a.get("sys"), rej.get("a"), rej.get("b")),
                      {"trace": keep, "first": rej, "driver": "memhier_det", "payload": payload})
    ck.note("memhier: %d stacks x %d processes, %d records each" % (out["stacks"], len(paths), out["records"]))
    run_c03_control(ck)
    return out


def _phase_at(path, matched):
    """What the requester was doing at record number `matched` of a control-history stream: the control command
    that was sent and not yet acknowledged (flush / drain / enable), else traffic."""
    import json
    pending = None
    with open(path) as f:
        for i, line in enumerate(f):
            if i > matched:
                break
            r = json.loads(line)
            if r.get("e") == "stack":
                pending = None
            elif r.get("e") == "msg" and r.get("port") == "Agent.Ctl" and r.get("dir") == "send":
                pending = r.get("cmd")
            elif r.get("e") in ("ctl", "flush"):
                pending = None
    return pending or "traffic"


def run_c03_control(ck):
    """Control histories (the C17 scenarios: drain, filtered flushes with address lists naming several dirty lines, PID
    filters, full flush, enable, more traffic) in 4 OS processes (GOMAXPROCS 1/4/16/2); inside every process each scenario
    runs 3 times on fresh simulations (IDs reset). Observation stream: every handled event with its ID, every message
    crossing the Bottom port of a cache and the requester's control port (ID, address), the requester's records (issue,
    response, control acks, flush records with directory before/after), final payload hashes. Det.tla compares process
    k with process 0, and process 0 with itself rotated by one repetition (equal iff the 3 repetitions are equal)."""
    q = ck.tier == "quick"
    binary = ck.binary("memhier")
    d = core.scratch("c03mhf-")
    payload = dict(seed=ck.seed, leaves=_leaves(ck), stacks=6 if q else 30, requests=60 if q else 120, filters=4 if q else 6, reps=3)
    procs = [1, 4, 16, 2]
    paths = [os.path.join(d, "ctl%d.ndjson" % k) for k in range(len(procs))]
    rot = os.path.join(d, "ctl0rot.ndjson")

    def one(k):
        p = dict(payload, out=paths[k])
        if k == 0:
            p["out_rot"] = rot
        return core.harness(binary, "memhier_det_flush", p, env={"GOMAXPROCS": str(procs[k])}, timeout=3000)
    with cf.ThreadPoolExecutor(max_workers=len(procs)) as ex:
        outs = list(ex.map(one, range(len(procs))))
    out = outs[0]
    if out["address_flushes_of_several_dirty_lines"] == 0:
        raise core.Broken("memhier control histories: no address-filtered flush wrote back two or more dirty lines")
    ck.cov["evaluations"] += out["records"] * (len(paths) + 1)
    ck.cov["distinct_nontrivial"] += out["stacks"]
    ck.cov["memhier_control_histories"] = dict(stacks=out["stacks"], flushes=out["flushes"], repetitions=out["reps"], processes=len(procs),
                                               address_flushes_of_several_dirty_lines=out["address_flushes_of_several_dirty_lines"])
    others = [(paths[k], "process %d (GOMAXPROCS %d)" % (k, procs[k])) for k in range(1, len(paths))] + [(rot, "a later repetition in process 0")]

    def cmp(job):
        return core.tlc(["ckpt"], "Det", "Det.cfg", workers=1, timeout=3000, env={"TRACE_A": paths[0], "TRACE_B": job[0]}, tags=("REJECTED",))
    with cf.ThreadPoolExecutor(max_workers=len(others)) as ex:
        rs = list(ex.map(cmp, others))
    for n, ((path, who), r) in enumerate(zip(others, rs)):
        ck.cov["states"] += r.distinct
        ck.cov["transitions"] += r.generated
        ck.tlc_runs.append(dict(module="Det", cfg="Det.cfg", **r.summary()))
        ck.cov["traces_validated_against_impl"] += 1
        if r.ok:
            continue
        rej = (r.tagged.get("REJECTED") or [{}])[0]
        if not rej:
            raise core.Broken("Det.tla reached no verdict on memhier control stream %s: %s" % (who, r.error))
        keep = os.path.join(core.VERIF, "replays", "C03-memhier-control-seed%d-%d.ndjson" % (ck.seed, n))
        os.makedirs(os.path.dirname(keep), exist_ok=True)
        os.replace(path, keep)
        a = rej.get("a") or {}
        phase = _phase_at(paths[0], rej.get("matched") or 0)
        ck.report({"kind": "divergence", "family": "memhier", "scenario": "control_history", "during": phase, "record": a.get("e", ""),
                   "entity": a.get("entity", "")},
                  "memhier control history: %s diverges from process 0 after %s records, during %s (stack %s, repetition %s): %s vs %s" % (
                      who, rej.get("matched"), phase, a.get("sys"), a.get("rep"), str(rej.get("a"))[:400], str(rej.get("b"))[:400]),
                  {"trace": keep, "first": rej, "driver": "memhier_det_flush", "payload": payload})
    ck.note("memhier control histories: %d stacks x %d processes x %d repetitions, %d flushes (%d address-filtered over several dirty lines), "
            "%d records each" % (out["stacks"], len(procs), out["reps"], out["flushes"], out["address_flushes_of_several_dirty_lines"], out["records"]))
    return out
