"""Shared machinery of C18: CtrlProto.tla behaviours -> twelve real agents (harness family
`ctrlproto`, one process per agent) -> ndjson traces -> CtrlTrace.tla monitor (one TLC per
agent, in parallel) -> CASE records / B1 mismatches / real-code panics."""
import bisect, json, os, shutil, concurrent.futures as cf
from . import core

VERBS = ["pause", "drain", "enable", "reset", "invalidate", "flush"]
LETTERS = [[v, False] for v in VERBS] + [["invalidate", True], ["flush", True]]
NOTE_ONLY = {"request_never_served"}   # outside the statement: recorded in the evidence, never a verdict


def model(ck, cfg, workers, timeout):
    """Runs CtrlProto.tla; returns (matrix, behaviours by kind)."""
    r = ck.run_tlc(["mem"], "CtrlProto", cfg, workers=workers, timeout=timeout)
    if not r.ok:
        raise core.Broken("CtrlProto/%s fails its own properties: %s %s\n%s" % (cfg, r.violated, r.error, "\n".join(r.lines[-20:])))
    if not r.tagged["CASE"]:
        raise core.Broken("CtrlProto did not print the support matrix")
    matrix = r.tagged["CASE"][0]
    by_kind, seen = {}, set()
    for b in r.tagged["BEHAVIOUR"]:
        k = core.canon([b["kind"], b["traffic"], b["seq"]])
        if k in seen:
            continue
        seen.add(k)
        by_kind.setdefault(b["kind"], []).append(b)
    for k in by_kind:
        by_kind[k].sort(key=lambda b: (len(b["seq"]), core.canon(b["seq"]), b["traffic"]))
    if not by_kind:
        raise core.Broken("CtrlProto emitted no behaviours")
    return matrix, by_kind, r


def liveness(ck, timeout=600):
    r = ck.run_tlc(["mem"], "CtrlProto", "CtrlProto_live.cfg", workers=4, timeout=timeout, tags=("CASE",))
    if not r.ok:
        raise core.Broken("CtrlProto liveness (every request answered; queued requests served after enable) fails: %s %s" % (r.violated, r.error))
    return r


def _harness(binary, agent, kinds, histories, seed, nreq, timeout):
    d = core.scratch("ctl-")
    path = os.path.join(d, agent + ".ndjson")
    out = core.harness(binary, "ctrl_trace", dict(agents=[agent], kinds=kinds, histories=histories, seed=seed, nreq=nreq, out=path),
                       timeout=timeout)
    return agent, path, out


def _monitor(path, timeout):
    return core.tlc(["mem", "common"], "CtrlTrace", "CtrlTrace.cfg", workers=1, timeout=timeout, env={"TRACE_FILE": path},
                    tags=("REJECTED", "CASE"), heap="4g")


def replay(ck, label, matrix, per_kind, nreq=6, timeout=2400, parallel=12, shards=4):
    """per_kind: kind -> list of histories ({seq, traffic, pacing, out?, ctl?}). Every agent replays
    the histories of its row of the matrix (one harness process per agent); the traces are
    concatenated into `shards` files, each validated by one TLC run of CtrlTrace.tla.
    Returns (findings, notes) as lists of (key, description, replay)."""
    binary = ck.binary("ctrlproto")
    agents = matrix["agents"]
    found, notes = [], []
    total_runs = total_events = 0
    with cf.ThreadPoolExecutor(max_workers=parallel) as ex:
        futs = [ex.submit(_harness, binary, a, agents, per_kind[agents[a]], ck.seed, nreq, timeout) for a in sorted(agents)]
        traces = [f.result() for f in futs]
    # longest traces first, each to the currently shortest shard
    traces.sort(key=lambda t: -t[2]["events"])
    groups = [dict(members=[], lines=0) for _ in range(shards)]
    for t in traces:
        g = min(groups, key=lambda g: g["lines"])
        g["members"].append((t, g["lines"]))
        g["lines"] += t[2]["events"]
    groups = [g for g in groups if g["members"]]
    sd = core.scratch("ctlshard-")
    for i, g in enumerate(groups):
        g["path"] = os.path.join(sd, "shard%d.ndjson" % i)
        with open(g["path"], "wb") as w:
            for (agent, path, out), off in g["members"]:
                with open(path, "rb") as f:
                    shutil.copyfileobj(f, w)
                os.remove(path)
    with cf.ThreadPoolExecutor(max_workers=len(groups)) as ex:
        futs = [ex.submit(_monitor, g["path"], timeout) for g in groups]
        verdicts = [f.result() for f in futs]
    results = []
    for g, r in zip(groups, verdicts):
        ck.cov["states"] += r.distinct
        ck.cov["transitions"] += r.generated
        ck.tlc_runs.append(dict(module="CtrlTrace", cfg="CtrlTrace.cfg", agents=[m[0][0] for m in g["members"]], **r.summary()))
        if not r.ok:
            keep = os.path.join(core.VERIF, "replays", "%s-%s-seed%d.ndjson" % (ck.pid, label, ck.seed))
            os.makedirs(os.path.dirname(keep), exist_ok=True)
            os.replace(g["path"], keep)
            rej = (r.tagged.get("REJECTED") or [None])[0]
            raise core.Broken("%s: trace does not fit the structure of CtrlTrace (rejected at %s, invariant %s, %s); trace kept at %s" % (
                label, rej, r.violated, r.error, keep))
        offs = [off for _, off in g["members"]]
        per = {m[0][0]: [] for m in g["members"]}
        for c in r.tagged.get("CASE", []):
            k = max(0, bisect.bisect_right(offs, c["l"] - 1) - 1)
            (agent, _, _), off = g["members"][k]
            c = dict(c, l=c["l"] - off)
            per[agent].append(c)
        for (agent, path, out), off in g["members"]:
            results.append((agent, out, per[agent]))
    for agent, out, cases in sorted(results, key=lambda x: x[0]):
        hs = per_kind[agents[agent]]
        total_runs += out["runs"]
        total_events += out["events"]
        starts = [x["line"] for x in out["index"]]

        def run_of(line):
            return out["index"][max(0, bisect.bisect_right(starts, line) - 1)]
        for c in cases:
            ix = run_of(c["l"])
            h = hs[ix["history"]]
            d = c.get("d") or {}
            key = {"agent": agent, "class": c["class"], "has_reset": any(v[0] == "reset" for v in h["seq"])}
            for f in ("v", "after", "during"):
                if isinstance(d, dict) and f in d:
                    key["verb"] = d[f]
            rec = (key, "%s on %s: rule %s failed at trace line %d: %s (history %s, traffic %s, pacing %s, back-pressure %s)" % (
                label, agent, c["class"], c["l"] - ix["line"], json.dumps(d), json.dumps(h["seq"]), h["traffic"], h.get("pacing"), h.get("bp", False)),
                {"driver": "ctrl_trace", "agents": [agent], "kinds": agents, "histories": [h], "exact_seed": ix["seed"], "case": c})
            (notes if c["class"] in NOTE_ONLY else found).append(rec)
        for m in out.get("mismatches") or []:
            key = {"agent": agent, "class": "model_" + m["kind"], "verb": m["verb"],
                   "has_reset": any(v[0] == "reset" for v in m["history"]["seq"])}
            found.append((key, "%s on %s: CtrlProto behaviour not reproduced: %s of verb #%d %s: model %s, agent %s (history %s, traffic %s, pacing %s)" % (
                label, agent, m["kind"], m["index"], m["verb"], json.dumps(m["want"]), json.dumps(m["got"]), json.dumps(m["history"]["seq"]),
                m["history"]["traffic"], m["history"].get("pacing")),
                {"driver": "ctrl_trace", "agents": [agent], "kinds": agents, "histories": [m["history"]], "exact_seed": m["seed"]}))
        for p in out.get("panics") or []:
            if p["msg"].startswith("HARNESS:"):
                raise core.Broken("harness panic on %s: %s" % (agent, p["msg"][:3000]))
            where = p["msg"].split(" in ")[-1]
            key = {"agent": agent, "class": "panic", "where": where.split("/")[-1]}
            found.append((key, "%s on %s: the agent panicked: %s (history %s, traffic %s, pacing %s)" % (
                label, agent, p["msg"][:300], json.dumps(p["history"]["seq"]), p["history"]["traffic"], p["history"].get("pacing")),
                {"driver": "ctrl_trace", "agents": [agent], "kinds": agents, "histories": [p["history"]], "exact_seed": p["seed"]}))
        if out.get("sample") and agent == "writeback":
            ck.sample({label + "_trace_excerpt_" + agent: [json.loads(x) for x in out["sample"][:16]]}, cap=4)
        ck.cov.setdefault("data_responses_observed", 0)
        ck.cov["data_responses_observed"] += out.get("data_rsps", 0)
        ck.cov.setdefault("runs_hitting_deadline", 0)
        ck.cov["runs_hitting_deadline"] += out.get("timeouts", 0)
        ck.cov.setdefault("requester_stalls", 0)
        ck.cov["requester_stalls"] += out.get("stalls", 0)
        ck.cov.setdefault("acks_with_top_outgoing_full", {})
        ck.cov["acks_with_top_outgoing_full"][agent] = out.get("full_at_ack", 0)
    ck.cov["traces_validated_against_impl"] += total_runs
    ck.cov["evaluations"] += total_events
    ck.note("%s: %d runs on %d agents, %d trace events monitored, %d rule failures/mismatches, %d notes" % (
        label, total_runs, len(agents), total_events, len(found), len(notes)))
    return found, notes
