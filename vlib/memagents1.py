"""Helper shared by checks/c21.py and checks/c23.py: run a list of cases through a memagents1 driver in parallel
batches; a driver process that had to stop because one case never returned (its output says `aborted`) is
restarted on the remaining cases, so every case gets a result."""
import concurrent.futures
from . import core


MAX_STUCK = 3   # after this many cases that never return, the rest of the chunk is skipped (the verdict is already a violation)


def _run_chunk(binary, driver, chunk, timeout):
    results = []
    stuck = 0
    while chunk:
        out = core.harness(binary, driver, {"cases": chunk}, timeout=timeout)
        got = out["results"] or []
        if not got:
            raise core.Broken("driver %s returned no result for %d cases" % (driver, len(chunk)))
        if not out.get("aborted"):
            if len(got) != len(chunk):
                raise core.Broken("driver %s returned %d results for %d cases" % (driver, len(got), len(chunk)))
            results += got
            break
        # the last result is a case whose simulation did not return in time: confirm it alone in a fresh process
        hung = chunk[len(got) - 1]
        again = core.harness(binary, driver, {"cases": [hung]}, timeout=timeout)
        if not again.get("aborted"):
            got[-1] = again["results"][0]
        else:
            stuck += 1
        results += got
        chunk = chunk[len(got):]
        if stuck >= MAX_STUCK:
            results += [{"skipped": True} for _ in chunk]
            break
    return results


def run_cases(ck, driver, cases, batch=4000, workers=4, timeout=900):
    binary = ck.binary("memagents1")
    chunks = [cases[i:i + batch] for i in range(0, len(cases), batch)]
    results = []
    with concurrent.futures.ThreadPoolExecutor(max_workers=workers) as ex:
        for part in ex.map(lambda ch: _run_chunk(binary, driver, ch, timeout), chunks):
            results += part
    if len(results) != len(cases):
        raise core.Broken("driver %s returned %d results for %d cases" % (driver, len(results), len(cases)))
    return results
