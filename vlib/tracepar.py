"""Helpers of the C29 / C32 / C33 checks: several TLC runs side by side (trace chunks are
independent, one TLC worker each), verdict extraction in the style of vlib/tracecheck.py,
and expected-violation control runs of a specification's own properties."""
import concurrent.futures as cf
import json, os
from . import core

TAGS = ("REJECTED", "EDGE", "INIT", "BEHAVIOUR", "CASE")


class Verdict:
    def __init__(self, r, trace):
        self.tlc = r
        self.trace = trace
        self.accepted = bool(r.ok)
        self.matched = self.next = self.invariant = None
        if not r.ok:
            if r.tagged.get("REJECTED"):
                rej = r.tagged["REJECTED"][0]
                self.matched, self.next = rej.get("matched"), rej.get("next")
            elif r.violated:
                self.invariant = r.violated
        self.cases = r.tagged.get("CASE", [])


def _account(ck, module, cfg, r):
    ck.cov["states"] += r.distinct
    ck.cov["transitions"] += r.generated
    ck.tlc_runs.append(dict(module=module, cfg=cfg, **r.summary()))


def validate_many(ck, spec_dirs, module, cfg, traces, timeout=900, parallel=6, heap=None):
    """Validate every trace file (ndjson) with `module`/`cfg`, `parallel` TLC processes at a time.
    Returns the verdicts in the order of `traces`. A run that reaches no verdict raises Broken."""
    def one(path):
        return core.tlc(spec_dirs, module, cfg, workers=1, timeout=timeout, env={"TRACE_FILE": path}, tags=TAGS, heap=heap)
    out = []
    with cf.ThreadPoolExecutor(max_workers=max(1, parallel)) as ex:
        futs = [ex.submit(one, p) for p in traces]
        for p, f in zip(traces, futs):
            r = f.result()          # Broken propagates
            _account(ck, module, cfg, r)
            v = Verdict(r, p)
            if not v.accepted and v.matched is None and v.invariant is None:
                raise core.Broken("trace validation of %s reached no verdict: %s\n%s" % (p, r.error, "\n".join(r.lines[-30:])))
            out.append(v)
    return out


def model_runs(ck, spec_dirs, module, jobs, parallel=4, timeout=900, env=None):
    """jobs: list of dict(cfg=, expect=None | '<property that must be violated>', workers=, simulate=, depth=).
    Runs them side by side. A job without `expect` must complete without error; a control job must end
    with exactly the expected property violated (TLC finding nothing there means the property is vacuous
    in that configuration: Broken)."""
    def one(j):
        return core.tlc(spec_dirs, module, j["cfg"], workers=j.get("workers", 2), timeout=timeout, env=env,
                        simulate=j.get("simulate"), depth=j.get("depth"), seed=j.get("seed"))
    res = {}
    with cf.ThreadPoolExecutor(max_workers=max(1, parallel)) as ex:
        futs = [(j, ex.submit(one, j)) for j in jobs]
        for j, f in futs:
            r = f.result()
            _account(ck, module, j["cfg"], r)
            exp = j.get("expect")
            if exp is None:
                if not r.ok:
                    raise core.Broken("%s/%s fails its own properties: violated=%s error=%s\n%s" % (
                        module, j["cfg"], r.violated, r.error, "\n".join(r.lines[-25:])))
            else:
                if r.ok or r.violated != exp:
                    raise core.Broken("control %s/%s: expected %s to be violated, TLC says ok=%s violated=%s error=%s" % (
                        module, j["cfg"], exp, r.ok, r.violated, r.error))
            res[j["cfg"]] = r
    return res


def keep_trace(ck, path, label):
    """Move a trace file into replays/ so that a reported case can be re-examined."""
    keep = os.path.join(core.VERIF, "replays", "%s-%s-seed%d.ndjson" % (ck.pid, label, ck.seed))
    os.makedirs(os.path.dirname(keep), exist_ok=True)
    try:
        os.replace(path, keep)
    except OSError:
        import shutil
        shutil.copyfile(path, keep)
    return keep


def read_ndjson(path):
    with open(path) as f:
        return [json.loads(x) for x in f if x.strip()]


def write_ndjson(path, recs):
    with open(path, "w") as f:
        for r in recs:
            f.write(json.dumps(r, separators=(",", ":")) + "\n")
