"""B2 binding: a trace recorded from the real code (ndjson, one record per specification
action) is validated by TLC against a trace specification (spec/common/TraceCommon.tla).
Acceptance = the high-water mark reached the end of the trace (POSTCONDITION TraceAccepted)
with every INVARIANT of the cfg holding at every step."""
import json, os
from . import core


class Verdict:
    def __init__(self):
        self.accepted = False
        self.matched = None
        self.next = None
        self.invariant = None
        self.tlc = None


def validate(ck, spec_dirs, module, cfg, trace_path, timeout=900, deque=False, env=None):
    e = {"TRACE_FILE": trace_path}
    if env:
        e.update(env)
    r = ck.run_tlc(spec_dirs, module, cfg, workers=1, timeout=timeout, env=e, deque=deque,
                   tags=("REJECTED", "EDGE", "INIT", "BEHAVIOUR", "CASE"))
    v = Verdict()
    v.tlc = r
    if r.ok:
        v.accepted = True
        return v
    if r.tagged.get("REJECTED"):
        rej = r.tagged["REJECTED"][0]
        v.matched, v.next = rej.get("matched"), rej.get("next")
        return v
    if r.violated:
        v.invariant = r.violated
        return v
    raise core.Broken("trace validation of %s reached no verdict: %s\n%s" % (trace_path, r.error, "\n".join(r.lines[-30:])))
