"""B1 binding for sequential objects: TLC enumerates the complete bounded state graph of
the specification (EDGE/INIT lines), every transition is replayed on the real object
(transition cover), then seeded random walks over the same graph."""
import json
from . import core


def graph_from_tlc(ck, spec_dirs, module, cfg, workers=4, timeout=600, env=None):
    r = ck.run_tlc(spec_dirs, module, cfg, workers=workers, timeout=timeout, env=env)
    if not r.ok:
        raise core.Broken("specification %s/%s itself fails: %s %s\n%s" % (module, cfg, r.violated, r.error, "\n".join(r.lines[-30:])))
    g = core.Graph(r.tagged["INIT"], r.tagged["EDGE"])
    if not g.edges:
        raise core.Broken("no behaviours emitted by %s/%s" % (module, cfg))
    return g, r


def default_key(m):
    return {"op": (m.get("op") or {}).get("op"), "kind": m.get("kind")}


def replay_graph(ck, g, family, driver, config=None, walks=50, walk_len=40, keyfn=default_key, race=False,
                 cover_limit=None, nontrivial=None, timeout=900, batch=4000):
    hs = g.edge_cover(limit=cover_limit, rng=ck.rng)
    n_cover = len(hs)
    hs += g.random_walks(ck.rng, walks, walk_len)
    binary = ck.binary(family, race)
    total_steps = 0
    mism = []
    for i in range(0, len(hs), batch):
        out = core.harness(binary, driver, {"config": config or {}, "histories": hs[i:i + batch]}, timeout=timeout)
        total_steps += out["steps"]
        for m in out["mismatches"] or []:
            m["history"] += i
            mism.append(m)
    ck.cov["traces_validated_against_impl"] += len(hs)
    ck.cov["evaluations"] += total_steps
    nt = 0
    seen = set()
    for h in hs:
        k = core.canon(h)
        if k in seen:
            continue
        seen.add(k)
        if nontrivial is None or nontrivial(h):
            nt += 1
    ck.cov["distinct_nontrivial"] += nt
    for h in hs[:2] + hs[n_cover:n_cover + 1]:
        ck.sample({"init": h["init"], "ops": [s["a"] for s in h["steps"]][:12]})
    new = 0
    for m in mism:
        key = keyfn(m)
        desc = "%s mismatch at step %d of history %d: op=%s want=%s got=%s" % (
            m["kind"], m["step"], m["history"], json.dumps(m.get("op")), json.dumps(m["want"]), json.dumps(m["got"]))
        if ck.report(key, desc, {"driver": driver, "config": config or {}, "history": {"init": m.get("init"), "steps": m.get("prefix")}}) == "new":
            new += 1
    ck.note("replayed %d histories (%d edge-cover + %d walks), %d steps, %d mismatches (%d new)" % (
        len(hs), n_cover, len(hs) - n_cover, total_steps, len(mism), new))
    return mism
