module verif/harness

go 1.26.0

require github.com/sarchlab/akita/v5 v5.0.0

replace github.com/sarchlab/akita/v5 => /repo
