// Command recorder: drivers for datarecording (C35) — gated schedules through hook H2,
// free-running goroutines, sequential value round trips.
package main

import (
	"verif/harness/internal/cli"
	_ "verif/harness/internal/drivers/recorder"
)

func main() { cli.Main() }
