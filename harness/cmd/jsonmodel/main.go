// Command jsonmodel: drivers for the serialization properties (C43 generated
// types, C08 library messages/events/states). For C43 the check builds a scratch
// copy of this module with generated packages imported next to this file.
package main

import (
	"verif/harness/internal/cli"
	_ "verif/harness/internal/drivers/jsonmodel"
)

func main() { cli.Main() }
