// Command tick: scripted ticking / event-driven components on real ports and direct
// connections (C09, C10, C12, and the assemblies reused by C03/C06).
package main

import (
	"verif/harness/internal/cli"
	_ "verif/harness/internal/drivers/tick"
)

func main() { cli.Main() }
