// Command daisen: drivers for the Daisen replay server guards (C37 data-query
// tool, C38 outbound LLM connection guard, C39 recorded-source tools).
package main

import (
	"verif/harness/internal/cli"
	_ "verif/harness/internal/drivers/daisen"
)

func main() { cli.Main() }
