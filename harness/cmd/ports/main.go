// Command ports: drivers for messaging ports (C11), queueing pipelines and the
// TLB's use of them (C15).
package main

import (
	"verif/harness/internal/cli"
	_ "verif/harness/internal/drivers/ports"
)

func main() { cli.Main() }
