// Command container: drivers for queueing/lruset/pagetable/storage/address conversion.
package main

import (
	"verif/harness/internal/cli"
	_ "verif/harness/internal/drivers/container"
)

func main() { cli.Main() }
