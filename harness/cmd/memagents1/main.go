// Command memagents1: drivers for the data mover (C23) and the reorder buffer (C21).
package main

import (
	"verif/harness/internal/cli"
	_ "verif/harness/internal/drivers/memagents1"
)

func main() { cli.Main() }
