// Command vmcontainers: drivers for the mem/vm containers (lruset.Set, vm.PageTable).
package main

import (
	"verif/harness/internal/cli"
	_ "verif/harness/internal/drivers/vmcontainers"
)

func main() { cli.Main() }
