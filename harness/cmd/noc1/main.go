// Command noc1: drivers for routing tables (C30) and endpoints (C31).
package main

import (
	"verif/harness/internal/cli"
	_ "verif/harness/internal/drivers/noc1"
)

func main() { cli.Main() }
