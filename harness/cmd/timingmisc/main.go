// Command timingmisc: drivers for clock arithmetic (C42), ID generation (C41)
// and event-driven component wakeups (C13).
package main

import (
	"verif/harness/internal/cli"
	_ "verif/harness/internal/drivers/timingmisc"
)

func main() { cli.Main() }
