// Command monitor: drivers for the live monitor next to a running simulation (C40).
package main

import (
	"verif/harness/internal/cli"
	_ "verif/harness/internal/drivers/monitor"
)

func main() { cli.Main() }
