// Command mmudir: drivers for C27 (MMU auto page allocation) and C19 (cache directories).
package main

import (
	"verif/harness/internal/cli"
	_ "verif/harness/internal/drivers/mmudir"
)

func main() { cli.Main() }
