// Command tracers: drivers for the tracing package (aggregate tracers, DB tracer).
package main

import (
	"verif/harness/internal/cli"
	_ "verif/harness/internal/drivers/tracers"
)

func main() { cli.Main() }
