// Command engine: drivers for the serial/parallel engines (C01, C02, C04, C05).
package main

import (
	"verif/harness/internal/cli"
	_ "verif/harness/internal/drivers/engine"
)

func main() { cli.Main() }
