// Command nettrace: drivers of C29 (network traces), C32 (task traces) and C33 (observation streams).
package main

import (
	"verif/harness/internal/cli"
	_ "verif/harness/internal/drivers/nettrace"
)

func main() { cli.Main() }
