// Command vmstack: generated address-translation stacks (address translator, TLB
// levels, MMU cache, GMMU, MMU) driven with traffic, page-table updates and
// invalidation histories, traced for TransTrace.tla (C25).
package main

import (
	"verif/harness/internal/cli"
	_ "verif/harness/internal/drivers/vmstack"
)

func main() { cli.Main() }
