// Command dramchk: driver for C22 (DRAM command legality and timing, hook H1).
package main

import (
	"verif/harness/internal/cli"
	_ "verif/harness/internal/drivers/dramchk"
)

func main() { cli.Main() }
