// Command ctrlproto: C18 driver (twelve memory agents under the control protocol).
package main

import (
	"verif/harness/internal/cli"
	_ "verif/harness/internal/drivers/ctrlproto"
)

func main() { cli.Main() }
