// Command memhier: memory-hierarchy stacks (C16 transparency, C17 drain/flush).
package main

import (
	"verif/harness/internal/cli"
	_ "verif/harness/internal/drivers/memhier"
)

func main() { cli.Main() }
