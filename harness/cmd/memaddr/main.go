// Command memaddr: drivers for mem.Storage (C20) and interleaved address
// conversion / port mapping / bank selection (C24).
package main

import (
	"verif/harness/internal/cli"
	_ "verif/harness/internal/drivers/memaddr"
)

func main() { cli.Main() }
