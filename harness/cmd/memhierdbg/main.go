// Command memhierdbg replays one memhier case (a Case JSON, or a replays/*.json file written by
// checks C16/C17) and prints every message that crosses a port of the stack, then the requester's
// records. Usage: memhierdbg <file>
package main

import (
	"encoding/json"
	"fmt"
	"os"

	"github.com/sarchlab/akita/v5/hooking"
	"github.com/sarchlab/akita/v5/mem/memprotocol"
	"github.com/sarchlab/akita/v5/messaging"
	"github.com/sarchlab/akita/v5/timing"

	"verif/harness/internal/drivers/memhier"
)

type hk struct {
	st *memhier.Stack
}

func (h hk) Func(ctx hooking.HookCtx) {
	if ctx.Pos != messaging.HookPosPortMsgSend {
		return
	}
	p := ctx.Domain.(messaging.Port)
	t := h.st.Engine.CurrentTime()
	switch m := ctx.Item.(type) {
	case memprotocol.ReadReq:
		fmt.Printf("%8d %-14s -> %-14s READ  id=%d @%d+%d pid=%d\n", t, p.Name(), m.Dst, m.ID, m.Address, m.AccessByteSize, m.PID)
	case memprotocol.WriteReq:
		fmt.Printf("%8d %-14s -> %-14s WRITE id=%d @%d+%d pid=%d data=%v mask=%v\n", t, p.Name(), m.Dst, m.ID, m.Address, len(m.Data), m.PID, m.Data, m.DirtyMask)
	case memprotocol.DataReadyRsp:
		fmt.Printf("%8d %-14s -> %-14s DATA  to=%d %v\n", t, p.Name(), m.Dst, m.RspTo, m.Data)
	case memprotocol.WriteDoneRsp:
		fmt.Printf("%8d %-14s -> %-14s DONE  to=%d\n", t, p.Name(), m.Dst, m.RspTo)
	default:
		fmt.Printf("%8d %-14s -> %T %+v\n", t, p.Name(), m, m)
	}
}

func main() {
	b, _ := os.ReadFile(os.Args[1])
	var c memhier.Case
	var rep struct {
		Replay struct {
			Case *memhier.Case `json:"case"`
		} `json:"replay"`
	}
	if err := json.Unmarshal(b, &rep); err == nil && rep.Replay.Case != nil {
		c = *rep.Replay.Case
	} else if err := json.Unmarshal(b, &c); err != nil {
		panic(err)
	}
	timing.UseSequentialIDGenerator()
	st, err := memhier.BuildStack(c.Stack)
	if err != nil {
		panic(err)
	}
	a := memhier.NewAgent(st, c.Work)
	h := hk{st}
	a.MemPort().AcceptHook(h)
	for _, cc := range st.Comps {
		cc.Top.AcceptHook(h)
		cc.Control.AcceptHook(h)
		if cc.Bottom != nil {
			cc.Bottom.AcceptHook(h)
		}
	}
	a.Start()
	st.Engine.Run()
	for _, r := range a.Records() {
		j, _ := json.Marshal(r)
		s := string(j)
		if len(s) > 300 {
			s = s[:300]
		}
		fmt.Println(s)
	}
}
