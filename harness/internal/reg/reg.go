// Package reg is the driver registry of the verification harness.
package reg

import (
	"encoding/json"
	"fmt"
	"os"
	"sort"
)

// Driver reads its JSON input and returns a JSON-able result.
type Driver func(in json.RawMessage) (any, error)

var drivers = map[string]Driver{}

// Register adds a driver under a name (called from init functions).
func Register(name string, d Driver) {
	if _, dup := drivers[name]; dup {
		panic("duplicate driver " + name)
	}
	drivers[name] = d
}

// Names lists the registered drivers.
func Names() []string {
	var ns []string
	for n := range drivers {
		ns = append(ns, n)
	}
	sort.Strings(ns)
	return ns
}

// Run executes a driver with input/output files.
func Run(name, in, out string) error {
	d, ok := drivers[name]
	if !ok {
		return fmt.Errorf("unknown driver %q", name)
	}
	var raw json.RawMessage
	if in != "" {
		b, err := os.ReadFile(in)
		if err != nil {
			return err
		}
		raw = b
	}
	res, err := d(raw)
	if err != nil {
		return err
	}
	b, err := json.Marshal(res)
	if err != nil {
		return err
	}
	return os.WriteFile(out, b, 0o644)
}
