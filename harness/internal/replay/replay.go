// Package replay steps real objects through specification histories and
// compares the result of every operation and the projected abstract state
// after every step with what the specification says.
package replay

import (
	"encoding/json"
	"fmt"
	"reflect"
)

// Step is one specification transition: the operation record (op, arg, res …)
// and the abstract state after it.
type Step struct {
	A map[string]any `json:"a"`
	T any            `json:"t"`
}

// History is an initial abstract state followed by steps.
type History struct {
	Init  any    `json:"init"`
	Steps []Step `json:"steps"`
}

// Input is what every replay driver receives.
type Input struct {
	Config    map[string]any `json:"config"`
	Histories []History      `json:"histories"`
}

// Object is a real object under replay.
type Object interface {
	// Apply performs the operation and returns the observable result in the
	// same shape the specification uses for a.res.
	Apply(a map[string]any) any
	// Project returns the abstract state in the specification's shape; nil
	// means "no projection available for this step".
	Project() any
}

// Factory builds the object for an initial abstract state.
type Factory func(cfg map[string]any, init any) (Object, error)

// Mismatch describes the first step at which code and specification differ.
type Mismatch struct {
	History int            `json:"history"`
	Step    int            `json:"step"`
	Kind    string         `json:"kind"` // result | state | panic | init
	Op      map[string]any `json:"op,omitempty"`
	Want    any            `json:"want"`
	Got     any            `json:"got"`
	Prefix  []Step         `json:"prefix,omitempty"`
	Init    any            `json:"init,omitempty"`
}

// Output is what every replay driver returns.
type Output struct {
	Histories  int        `json:"histories"`
	Steps      int        `json:"steps"`
	Mismatches []Mismatch `json:"mismatches"`
	Extra      any        `json:"extra,omitempty"`
}

// Norm brings a value to its canonical JSON-decoded form.
func Norm(v any) any {
	b, err := json.Marshal(v)
	if err != nil {
		return fmt.Sprintf("<<unmarshalable %v>>", err)
	}
	var out any
	if err := json.Unmarshal(b, &out); err != nil {
		return string(b)
	}
	return out
}

// Equal compares two values by canonical JSON form. An empty array and null
// are considered equal (TLC prints <<>> as []; Go nil slices print as null).
func Equal(a, b any) bool {
	return reflect.DeepEqual(squash(Norm(a)), squash(Norm(b)))
}

func squash(v any) any {
	switch t := v.(type) {
	case []any:
		if len(t) == 0 {
			return nil
		}
		out := make([]any, len(t))
		for i := range t {
			out[i] = squash(t[i])
		}
		return out
	case map[string]any:
		if len(t) == 0 {
			return nil
		}
		out := map[string]any{}
		for k, x := range t {
			out[k] = squash(x)
		}
		return out
	}
	return v
}

// Safely runs f and converts a panic into ("panic: …", true).
func Safely(f func() any) (res any, panicked bool) {
	defer func() {
		if r := recover(); r != nil {
			res = fmt.Sprintf("panic: %v", r)
			panicked = true
		}
	}()
	return f(), false
}

// Run replays all histories. maxMismatch bounds the report size.
func Run(f Factory, in Input, maxMismatch int) Output {
	out := Output{Histories: len(in.Histories)}
	for hi, h := range in.Histories {
		obj, err := f(in.Config, h.Init)
		if err != nil {
			out.Mismatches = append(out.Mismatches, Mismatch{History: hi, Step: -1, Kind: "init", Want: h.Init, Got: err.Error()})
			continue
		}
		if p, _ := Safely(obj.Project); p != nil && !Equal(p, h.Init) {
			out.Mismatches = append(out.Mismatches, Mismatch{History: hi, Step: -1, Kind: "init", Want: h.Init, Got: Norm(p), Init: h.Init})
			continue
		}
		for si, st := range h.Steps {
			out.Steps++
			got, panicked := Safely(func() any { return obj.Apply(st.A) })
			want := st.A["res"]
			if !Equal(got, want) {
				kind := "result"
				if panicked {
					kind = "panic"
				}
				out.Mismatches = append(out.Mismatches, Mismatch{History: hi, Step: si, Kind: kind, Op: st.A, Want: want, Got: Norm(got), Prefix: h.Steps[:si+1], Init: h.Init})
				break
			}
			p, pp := Safely(obj.Project)
			if (p != nil || pp) && st.T != nil && !Equal(p, st.T) {
				out.Mismatches = append(out.Mismatches, Mismatch{History: hi, Step: si, Kind: "state", Op: st.A, Want: st.T, Got: Norm(p), Prefix: h.Steps[:si+1], Init: h.Init})
				break
			}
		}
		if len(out.Mismatches) >= maxMismatch {
			break
		}
	}
	return out
}

// Driver wraps a factory as a registry driver.
func Driver(f Factory) func(json.RawMessage) (any, error) {
	return func(raw json.RawMessage) (any, error) {
		var in Input
		if err := json.Unmarshal(raw, &in); err != nil {
			return nil, err
		}
		return Run(f, in, 50), nil
	}
}

// Num reads a JSON number as int.
func Num(v any) int {
	switch t := v.(type) {
	case float64:
		return int(t)
	case int:
		return t
	case json.Number:
		i, _ := t.Int64()
		return int(i)
	}
	return 0
}

// U64 reads a JSON number as uint64.
func U64(v any) uint64 { return uint64(Num(v)) }

// Str reads a JSON string.
func Str(v any) string {
	s, _ := v.(string)
	return s
}

// Ints reads a JSON array of numbers.
func Ints(v any) []int {
	a, _ := v.([]any)
	out := make([]int, len(a))
	for i := range a {
		out[i] = Num(a[i])
	}
	return out
}

// Field reads m[k] from a JSON object.
func Field(v any, k string) any {
	m, _ := v.(map[string]any)
	return m[k]
}
