// Package cli is the shared main of every harness binary (one binary per
// driver family, so a compile error in one family cannot break the others).
package cli

import (
	"flag"
	"fmt"
	"os"

	"verif/harness/internal/reg"
)

// Main dispatches "<binary> <driver> -in f -out f".
func Main() {
	if len(os.Args) < 2 {
		fmt.Println("usage: <binary> <driver> -in f -out f; drivers:", reg.Names())
		os.Exit(2)
	}
	fs := flag.NewFlagSet(os.Args[1], flag.ExitOnError)
	in := fs.String("in", "", "input json")
	out := fs.String("out", "out.json", "output json")
	_ = fs.Parse(os.Args[2:])
	if err := reg.Run(os.Args[1], *in, *out); err != nil {
		fmt.Fprintln(os.Stderr, "driver error:", err)
		os.Exit(3)
	}
}
