// Package tracers holds the drivers for the tracing package: the aggregate
// tracers (C34) and the database tracer (C36).
package tracers

import (
	"encoding/json"
	"fmt"

	"github.com/sarchlab/akita/v5/hooking"
	"github.com/sarchlab/akita/v5/timing"
	"github.com/sarchlab/akita/v5/tracing"

	"verif/harness/internal/reg"
)

// domain is the traced domain: the tracing API stamps every event with the
// domain's clock and delivers it to the attached tracers through hooks.
type domain struct {
	*hooking.HookableBase
	name string
	now  timing.VTimeInPicoSec
}

func (d *domain) Name() string                       { return d.name }
func (d *domain) CurrentTime() timing.VTimeInPicoSec { return d.now }

func newDomain(name string) *domain {
	return &domain{HookableBase: hooking.NewHookableBase(), name: name}
}

// ---------------------------------------------------------------- C34

// A statsEvent is one entry of a TracerStats.tla history in its wire form
//
//	[op, task, time, x, tot, cnt, avg, busy, tags_1, tasks_1, tags_2, tasks_2, ...]
//
// op 0 = start (x = 1: the task passes the filter, 0: it does not), 1 = end,
// 2 = tag (x = index of the tag name). tot.. are the getter values the
// specification expects after the event; -1 means "left free by the statement".
type statsEvent []int64

var tagNames = []string{"a", "b", "c"}

type statsInput struct {
	// Direct: call the tracer methods directly instead of going through the
	// tracing API + hooks (both paths are exercised by the check).
	Direct  bool           `json:"direct"`
	Streams [][]statsEvent `json:"streams"`
}

type statsMismatch struct {
	Stream int    `json:"stream"`
	Step   int    `json:"step"`
	Getter string `json:"getter"` // total | count | average | busy | tagcount | taskcount | panic
	Tag    string `json:"tag,omitempty"`
	Want   any    `json:"want"`
	Got    any    `json:"got"`
}

type statsOutput struct {
	Streams     int             `json:"streams"`
	Steps       int             `json:"steps"`
	Comparisons int             `json:"comparisons"`
	Mismatches  []statsMismatch `json:"mismatches"`
}

const keptKind = "kept"

func keepFilter(t tracing.TaskStart) bool { return t.Kind == keptKind }

type statsRig struct {
	d     *domain
	total *tracing.TotalTimeTracer
	avg   *tracing.AverageTimeTracer
	busy  *tracing.BusyTimeTracer
	tags  *tracing.TagCountTracer
	all   []tracing.Tracer
}

func newStatsRig() *statsRig {
	r := &statsRig{
		d:     newDomain("Dom"),
		total: tracing.NewTotalTimeTracer(keepFilter),
		avg:   tracing.NewAverageTimeTracer(keepFilter),
		busy:  tracing.NewBusyTimeTracer(keepFilter),
		tags:  tracing.NewTagCountTracer(keepFilter),
	}
	r.all = []tracing.Tracer{r.total, r.avg, r.busy, r.tags}
	for _, t := range r.all {
		tracing.CollectTrace(r.d, t)
	}
	return r
}

func (r *statsRig) feed(e statsEvent, direct bool, tagID uint64) {
	if len(e) < 8 {
		panic(fmt.Sprintf("malformed event %v", e))
	}
	r.d.now = timing.VTimeInPicoSec(e[2])
	id := uint64(100 + e[1])
	switch e[0] {
	case 0:
		kind := keptKind
		if e[3] != 1 {
			kind = "dropped"
		}
		ts := tracing.TaskStart{ID: id, ParentID: 1, Kind: kind, What: "w", Location: "Dom"}
		if direct {
			ts.Time = r.d.now
			for _, t := range r.all {
				t.StartTask(ts)
			}
		} else {
			tracing.StartTask(r.d, ts)
		}
	case 1:
		te := tracing.TaskEnd{ID: id}
		if direct {
			te.Time = r.d.now
			for _, t := range r.all {
				t.EndTask(te)
			}
		} else {
			tracing.EndTask(r.d, te)
		}
	case 2:
		tg := tracing.TaskTag{ID: tagID, TaskID: id, What: tagNames[e[3]-1]}
		if direct {
			tg.Time = r.d.now
			for _, t := range r.all {
				t.AddTaskTag(tg)
			}
		} else {
			tracing.AddTaskTag(r.d, tg)
		}
	default:
		panic(fmt.Sprintf("unknown event %v", e))
	}
}

func runStats(in statsInput) statsOutput {
	out := statsOutput{Streams: len(in.Streams)}
	for si, stream := range in.Streams {
		rig := newStatsRig()
		reported := map[string]bool{} // first mismatch per getter and stream
		miss := func(step int, getter, tag string, want, got any) {
			k := getter + "/" + tag
			if reported[k] {
				return
			}
			reported[k] = true
			out.Mismatches = append(out.Mismatches, statsMismatch{Stream: si, Step: step, Getter: getter, Tag: tag, Want: want, Got: got})
		}
		cmp := func(step int, getter, tag string, want int64, got uint64) {
			if want < 0 {
				return
			}
			out.Comparisons++
			if uint64(want) != got {
				miss(step, getter, tag, want, got)
			}
		}
		for ei, e := range stream {
			out.Steps++
			var perr any
			func() {
				defer func() { perr = recover() }()
				rig.feed(e, in.Direct, uint64(1000+ei))
			}()
			if perr != nil {
				miss(ei, "panic", "", "no panic", fmt.Sprint(perr))
				break
			}
			cmp(ei, "total", "", e[4], uint64(rig.total.TotalTime()))
			cmp(ei, "count", "", e[5], rig.avg.TotalCount())
			cmp(ei, "average", "", e[6], uint64(rig.avg.AverageTime()))
			cmp(ei, "busy", "", e[7], uint64(rig.busy.BusyTime()))
			for k := 0; 8+2*k+1 < len(e); k++ {
				n := tagNames[k]
				cmp(ei, "tagcount", n, e[8+2*k], rig.tags.GetTagCount(n))
				cmp(ei, "taskcount", n, e[8+2*k+1], rig.tags.GetTaskCount(n))
			}
		}
	}
	return out
}

func init() {
	reg.Register("stats", func(raw json.RawMessage) (any, error) {
		var in statsInput
		if err := json.Unmarshal(raw, &in); err != nil {
			return nil, err
		}
		return runStats(in), nil
	})
}
