package tracers

import (
	"encoding/json"
	"fmt"
	"sync"
	"time"

	"github.com/sarchlab/akita/v5/timing"
	"github.com/sarchlab/akita/v5/tracing"

	"verif/harness/internal/reg"
)

// ---------------------------------------------------------------- C36, two goroutines
//
// Gate-controlled schedules of two tracer calls. The DBTracer writes through
// the datarecording.DataRecorder interface, so the recorder the harness hands
// to it is the gate: its InsertData (or Flush) parks the calling goroutine at a
// chosen call. Call A runs until it is parked inside the recorder, call B is
// started on another goroutine and classified (completed while A was parked /
// blocked), A is released, both are joined, the rest of the stream (ending
// with Terminate) is fed sequentially and the database contents — the rows
// that were inserted before the last Flush — are compared with the sets the
// specification gives for the two sequential orders of A and B.

type dbConcGate struct {
	Kind string `json:"kind"` // "insert" | "flush"
	K    int    `json:"k"`    // park before the K-th such call made after arming (0-based)
}

type dbConcCase struct {
	Prefix [][]int64     `json:"prefix"`
	A      []int64       `json:"a"`
	B      []int64       `json:"b"`
	Suffix [][]int64     `json:"suffix"`
	Gate   dbConcGate    `json:"gate"`
	Alts   []dbBehaviour `json:"alts"` // the expected sets of the sequential orders (h is informational)
}

type dbConcInput struct {
	Cases []dbConcCase `json:"cases"`
}

type dbConcResult struct {
	Case      int        `json:"case"`
	Parked    bool       `json:"parked"`
	BClass    string     `json:"b_class"` // completed | blocked | "" (A did not park: B ran after A)
	Alt       int        `json:"alt"`     // index of the alternative the database equals, -1: none
	Panic     string     `json:"panic,omitempty"`
	Backend   []string   `json:"backend,omitempty"`
	Got       dbRows     `json:"got"`
	Tables    [][]string `json:"tables,omitempty"`  // per alternative: the tables that differ
	Unflushed int        `json:"unflushed"`         // rows handed to the recorder after its last Flush
	Partial   []uint64   `json:"partial,omitempty"` // tasks whose rows were split by a Flush
}

type dbConcOutput struct {
	Cases   int            `json:"cases"`
	Steps   int            `json:"steps"`
	Results []dbConcResult `json:"results"`
}

// gateRecorder is a DataRecorder with a buffer and a committed part (what a
// Flush has written), guarded by its own lock like the real recorder, and one
// gate.
type gateRecorder struct {
	mu        sync.Mutex
	inner     *stubRecorder
	committed map[string]int // table -> number of rows written by the last Flush

	armed   bool
	gate    dbConcGate
	seen    int
	parked  chan struct{}
	release chan struct{}
}

func newGateRecorder() *gateRecorder {
	return &gateRecorder{inner: newStub(), committed: map[string]int{}}
}

func (g *gateRecorder) arm(gate dbConcGate) {
	g.mu.Lock()
	defer g.mu.Unlock()
	g.armed, g.gate, g.seen = true, gate, 0
	g.parked = make(chan struct{})
	g.release = make(chan struct{})
}

func (g *gateRecorder) disarm() {
	g.mu.Lock()
	defer g.mu.Unlock()
	g.armed = false
}

// at is called at the start of InsertData / Flush; it parks the caller when the gate fires.
func (g *gateRecorder) at(kind string) {
	g.mu.Lock()
	fire := false
	if g.armed && g.gate.Kind == kind {
		if g.seen == g.gate.K {
			fire = true
			g.armed = false
		}
		g.seen++
	}
	parked, release := g.parked, g.release
	g.mu.Unlock()
	if fire {
		close(parked)
		<-release
	}
}

func (g *gateRecorder) CreateTable(name string, sample any) {
	g.mu.Lock()
	defer g.mu.Unlock()
	g.inner.CreateTable(name, sample)
}

func (g *gateRecorder) InsertData(name string, entry any) {
	g.at("insert")
	g.mu.Lock()
	defer g.mu.Unlock()
	g.inner.InsertData(name, entry)
}

func (g *gateRecorder) ListTables() []string {
	g.mu.Lock()
	defer g.mu.Unlock()
	return g.inner.ListTables()
}

func (g *gateRecorder) Flush() {
	g.at("flush")
	g.mu.Lock()
	defer g.mu.Unlock()
	g.inner.flushes++
	for name, rows := range g.inner.rows {
		g.committed[name] = len(rows)
	}
}

func (g *gateRecorder) Close() error { return nil }

// database returns the committed rows and the number of rows still in the buffer.
func (g *gateRecorder) database() (dbRows, []string, int) {
	g.mu.Lock()
	defer g.mu.Unlock()
	snap := newStub()
	snap.errs = g.inner.errs
	unflushed := 0
	for name, rows := range g.inner.rows {
		n := g.committed[name]
		snap.rows[name] = rows[:n]
		unflushed += len(rows) - n
	}
	r, errs := snap.collect()
	return r, errs, unflushed
}

func feedDB(d *domain, tr *tracing.DBTracer, e []int64, pos int, fedMu *sync.Mutex, fed map[uint64]fedMs) {
	var a taskAttr
	if e[0] <= 3 {
		a = attrOf(e[1])
	}
	switch e[0] {
	case 0:
		tracing.StartTask(d, tracing.TaskStart{ID: a.ID, ParentID: a.Parent, Kind: a.Kind, What: a.What, Location: a.Location})
	case 1:
		tracing.EndTask(d, tracing.TaskEnd{ID: a.ID})
	case 2:
		tracing.AddTaskTag(d, tracing.TaskTag{ID: riderID(pos), TaskID: a.ID, What: dbTagNames[e[3]-1]})
	case 3:
		m := fedMs{riderID(pos), string(msKinds[e[3]-1]), fmt.Sprintf("ms%d", pos)}
		fedMu.Lock()
		fed[m.id] = m
		fedMu.Unlock()
		tracing.AddMilestone(d, tracing.Milestone{ID: m.id, TaskID: a.ID, Kind: msKinds[e[3]-1], What: m.what})
	case 4:
		tr.StartTracing()
	case 5:
		tr.StopTracing()
	case 6:
		tr.Terminate()
	default:
		panic(fmt.Sprintf("unknown event %v", e))
	}
}

const dbConcHang = 10 * time.Second

func runDBConcCase(ci int, c dbConcCase, out *dbConcOutput) (dbConcResult, error) {
	res := dbConcResult{Case: ci, Alt: -1}
	d := newDomain("GPU")
	rec := newGateRecorder()
	tr := tracing.NewDBTracer(d, rec)
	tracing.CollectTrace(d, tr)
	fed := map[uint64]fedMs{}
	var fedMu sync.Mutex
	var panics []string
	var pmu sync.Mutex
	guard := func(who string, f func()) {
		defer func() {
			if p := recover(); p != nil {
				pmu.Lock()
				panics = append(panics, fmt.Sprintf("%s: %v", who, p))
				pmu.Unlock()
			}
		}()
		f()
	}
	pos := 0
	guard("prefix", func() {
		for _, e := range c.Prefix {
			pos++
			out.Steps++
			d.now = timing.VTimeInPicoSec(e[2])
			feedDB(d, tr, e, pos, &fedMu, fed)
		}
	})
	if len(panics) == 0 {
		// A and B happen at the same instant: the clock is set once, before both
		d.now = timing.VTimeInPicoSec(c.A[2])
		posA, posB := len(c.Prefix)+1, len(c.Prefix)+2
		out.Steps += 2
		rec.arm(c.Gate)
		aDone, bDone := make(chan struct{}), make(chan struct{})
		go func() {
			defer close(aDone)
			guard("A", func() { feedDB(d, tr, c.A, posA, &fedMu, fed) })
		}()
		select {
		case <-rec.parked:
			res.Parked = true
		case <-aDone:
		case <-time.After(dbConcHang):
			return res, fmt.Errorf("case %d: call A neither parked nor returned within %v", ci, dbConcHang)
		}
		if !res.Parked {
			rec.disarm() // A wrote less than expected: B must not run into A's gate
		}
		go func() {
			defer close(bDone)
			guard("B", func() { feedDB(d, tr, c.B, posB, &fedMu, fed) })
		}()
		if res.Parked {
			res.BClass = "blocked"
			for i := 0; i < 3 && res.BClass == "blocked"; i++ {
				select {
				case <-bDone:
					res.BClass = "completed"
				case <-time.After(2 * time.Millisecond):
				}
			}
			close(rec.release)
		}
		for _, ch := range []chan struct{}{aDone, bDone} {
			select {
			case <-ch:
			case <-time.After(dbConcHang):
				return res, fmt.Errorf("case %d: a call did not return within %v after the gate was opened", ci, dbConcHang)
			}
		}
		rec.disarm()
		pos = posB
		guard("suffix", func() {
			for _, e := range c.Suffix {
				pos++
				out.Steps++
				d.now = timing.VTimeInPicoSec(e[2])
				feedDB(d, tr, e, pos, &fedMu, fed)
			}
		})
	}
	got, errs, unflushed := rec.database()
	got.sort()
	res.Got, res.Backend, res.Unflushed = got, errs, unflushed
	if len(panics) > 0 {
		res.Panic = fmt.Sprint(panics)
		return res, nil
	}
	// order-independent: a task row in the database has all of its milestone and tag rows
	res.Partial = rec.splitGroups()
	for ai := range c.Alts {
		var tables []string
		diffRows(&c.Alts[ai], got, fed, func(table string, want, got any) { tables = append(tables, table) })
		res.Tables = append(res.Tables, tables)
		if len(tables) == 0 && len(errs) == 0 && res.Alt < 0 {
			res.Alt = ai
		}
	}
	return res, nil
}

// splitGroups reports the tasks whose trace row is in the database (flushed)
// while a milestone or tag row of theirs was handed to the recorder but not flushed.
func (g *gateRecorder) splitGroups() []uint64 {
	g.mu.Lock()
	defer g.mu.Unlock()
	var out []uint64
	for _, row := range g.inner.rows["trace"][:g.committed["trace"]] {
		id := fnum(row["ID"])
		late := false
		for _, table := range []string{"milestone", "tag"} {
			for _, r := range g.inner.rows[table][g.committed[table]:] {
				if fnum(r["TaskID"]) == id {
					late = true
				}
			}
		}
		if late {
			out = append(out, uint64(id))
		}
	}
	return out
}

func runDBConc(in dbConcInput) (dbConcOutput, error) {
	out := dbConcOutput{Cases: len(in.Cases)}
	for ci, c := range in.Cases {
		r, err := runDBConcCase(ci, c, &out)
		if err != nil {
			return out, err
		}
		out.Results = append(out.Results, r)
	}
	return out, nil
}

func init() {
	reg.Register("dbtracerconc", func(raw json.RawMessage) (any, error) {
		var in dbConcInput
		if err := json.Unmarshal(raw, &in); err != nil {
			return nil, err
		}
		return runDBConc(in)
	})
}
