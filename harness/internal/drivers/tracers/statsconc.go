package tracers

// C34, concurrent histories: the aggregate tracers that are built for use by
// several goroutines (TotalTimeTracer, AverageTimeTracer, TagCountTracer: each
// guards its state with a mutex) receive the events of ONE history from G
// goroutines at the same moment, as the components of a parallel engine that
// share a tracer deliver them.
//
// A history (an "epoch") is a seeded script of R rounds = R instants of
// simulated time. Every goroutine owns a disjoint set of tasks; in each round
// it ends some of its running tasks, tags some, starts new ones (and runs
// zero-length tasks), all stamped with the instant of the round. The G
// goroutines (and one reader goroutine that only calls getters) are released
// together by a spin barrier, join at a second barrier, and then every getter
// is compared with the statement's value for the SET of events issued so far
// (sum of the durations of the ended tracked tasks, floor(sum/count), number
// of tag events / of distinct tracked tasks per name). Those are functions of
// sets, so the expected value is exact whatever the interleaving was.
//
// Go compares every round cheaply with numbers computed from the script's task
// table; a sample of rounds and every mismatching round are written out in
// the record format of spec/tracing/TracerStatsTrace.tla, where TLC evaluates
// TracerStats.tla's own operators on the recorded set of tasks: TLC's verdict
// on these records is the one the check reports.

import (
	"encoding/json"
	"fmt"
	"math/rand"
	"runtime"
	"sync"
	"sync/atomic"
	"time"

	"github.com/sarchlab/akita/v5/timing"
	"github.com/sarchlab/akita/v5/tracing"

	"verif/harness/internal/reg"
)

type concInput struct {
	Seed        int64 `json:"seed"`
	Goroutines  int   `json:"goroutines"`
	Epochs      int   `json:"epochs"`
	Rounds      int   `json:"rounds"`       // instants per epoch
	Scripts     int   `json:"scripts"`      // distinct seeded scripts, cycled
	SampleEvery int   `json:"sample_every"` // every round of every N-th epoch is logged for TLC
	API         bool  `json:"api"`          // events through tracing.StartTask/... on one hooked domain per goroutine
	BudgetMs    int   `json:"budget_ms"`    // stop starting new epochs after this long (0: none)
	MaxMismatch int   `json:"max_mismatch"`
}

// concRecord is one line of the trace judged by TracerStatsTrace.tla.
type concRecord struct {
	ID     int        `json:"id"`
	Epoch  int        `json:"epoch"`
	Script int        `json:"script"`
	Round  int        `json:"round"`
	Now    int64      `json:"now"`
	Tasks  [][4]int64 `json:"tasks"` // [start, end, tracked, done] of every task started so far, by task index
	Tags   [][2]int64 `json:"tags"`  // [task index (1-based), name index (1-based)] of every tag event so far
	Obs    concObs    `json:"obs"`
	// EndsNow: tracked tasks ended in this round, Owners: goroutines that ended one
	EndsNow int `json:"ends_now"`
	Owners  int `json:"owners"`
}

type concObs struct {
	Tot  int64      `json:"tot"`
	Cnt  int64      `json:"cnt"`
	Avg  int64      `json:"avg"`
	Tags [][2]int64 `json:"tags"` // per name: [tags recorded, distinct tracked tasks]
}

type concMismatch struct {
	Record int    `json:"record"` // ID of the record
	Getter string `json:"getter"`
	Tag    string `json:"tag,omitempty"`
	Want   any    `json:"want"`
	Got    any    `json:"got"`
}

type concOutput struct {
	Epochs         int            `json:"epochs"`
	Rounds         int            `json:"rounds"`
	Events         int            `json:"events"`
	Comparisons    int            `json:"comparisons"`
	ReaderReads    int            `json:"reader_reads"`
	ConcEndRounds  int            `json:"concurrent_end_rounds"` // rounds in which >= 2 goroutines ended a tracked task
	Scripts        int            `json:"scripts"`
	MaxTasks       int            `json:"max_tasks"`
	WallMs         int64          `json:"wall_ms"`
	Samples        []concRecord   `json:"samples"`
	Mismatches     []concMismatch `json:"mismatches"`
	MismatchRounds int            `json:"mismatch_rounds"`
	Panic          string         `json:"panic,omitempty"`
}

const numConcNames = 2

type cOp struct {
	kind  int // 0 start, 1 end, 2 tag
	start tracing.TaskStart
	end   tracing.TaskEnd
	tag   tracing.TaskTag
}

type cTask struct {
	start, end         int64
	tracked            bool
	startRound, endRnd int
	owner              int
}

type cTag struct {
	task, name, round int
}

type cWant struct {
	tot, cnt, avg int64 // cnt = -1 while a tracked task is running, avg = -1 while none has completed
	completed     int64
	tags          [numConcNames][2]int64
	endsNow       int
	owners        int
}

type cScript struct {
	now   []int64
	ops   [][][]cOp // [goroutine][round]
	tasks []cTask
	tags  []cTag
	want  []cWant
	nops  int
}

var concDeltas = []int64{0, 1, 1, 7, 90, 1000, 20000, 500000}

// genScript draws one history. Everything the oracle needs (want) is computed
// from the task table as sets, independently of the order of the operations.
func genScript(rng *rand.Rand, g, rounds int) *cScript {
	s := &cScript{now: make([]int64, rounds), ops: make([][][]cOp, g), want: make([]cWant, rounds)}
	for i := range s.ops {
		s.ops[i] = make([][]cOp, rounds)
	}
	t := int64(rng.Intn(3))
	for r := 0; r < rounds; r++ {
		if r > 0 {
			t += concDeltas[rng.Intn(len(concDeltas))]
		}
		s.now[r] = t
	}
	tagSeq := uint64(500000)
	mkStart := func(idx int, tk cTask) cOp {
		kind := keptKind
		if !tk.tracked {
			kind = "dropped"
		}
		return cOp{kind: 0, start: tracing.TaskStart{ID: uint64(1000 + idx), ParentID: 1, Kind: kind, What: "w", Location: "Dom",
			Time: timing.VTimeInPicoSec(tk.start)}}
	}
	mkTag := func(idx, name int, at int64) cOp {
		tagSeq++
		return cOp{kind: 2, tag: tracing.TaskTag{ID: tagSeq, TaskID: uint64(1000 + idx), What: tagNames[name], Time: timing.VTimeInPicoSec(at)}}
	}
	mkEnd := func(idx int, at int64) cOp {
		return cOp{kind: 1, end: tracing.TaskEnd{ID: uint64(1000 + idx), Time: timing.VTimeInPicoSec(at)}}
	}
	running := make([][]int, g)
	for r := 0; r < rounds; r++ {
		last := r == rounds-1
		for w := 0; w < g; w++ {
			var ops []cOp
			// ends first: they are the calls lined up right behind the barrier
			keep := running[w][:0]
			for _, idx := range running[w] {
				if last || rng.Intn(100) < 75 {
					s.tasks[idx].end = s.now[r]
					s.tasks[idx].endRnd = r
					ops = append(ops, mkEnd(idx, s.now[r]))
				} else {
					keep = append(keep, idx)
				}
			}
			running[w] = keep
			for _, idx := range running[w] {
				if rng.Intn(100) < 30 {
					n := rng.Intn(numConcNames)
					s.tags = append(s.tags, cTag{idx, n, r})
					ops = append(ops, mkTag(idx, n, s.now[r]))
				}
			}
			nstart := 1
			if x := rng.Intn(10); x == 0 {
				nstart = 0
			} else if x == 1 {
				nstart = 2
			}
			for k := 0; k < nstart; k++ {
				idx := len(s.tasks)
				tk := cTask{start: s.now[r], end: s.now[r], tracked: rng.Intn(100) < 80, startRound: r, endRnd: -1, owner: w}
				zero := last || rng.Intn(100) < 15 // a zero-length task: start, (tag,) end at the same instant
				s.tasks = append(s.tasks, tk)
				ops = append(ops, mkStart(idx, tk))
				if rng.Intn(100) < 35 {
					n := rng.Intn(numConcNames)
					s.tags = append(s.tags, cTag{idx, n, r})
					ops = append(ops, mkTag(idx, n, s.now[r]))
					if rng.Intn(100) < 30 { // the same name twice on one task: one task, two tags
						s.tags = append(s.tags, cTag{idx, n, r})
						ops = append(ops, mkTag(idx, n, s.now[r]))
					}
				}
				if zero {
					s.tasks[idx].endRnd = r
					ops = append(ops, mkEnd(idx, s.now[r]))
				} else {
					running[w] = append(running[w], idx)
				}
			}
			s.ops[w][r] = ops
			s.nops += len(ops)
		}
	}
	// the statement, on sets
	for r := 0; r < rounds; r++ {
		w := &s.want[r]
		inflight := 0
		owners := map[int]bool{}
		for _, tk := range s.tasks {
			if tk.startRound > r || !tk.tracked {
				continue
			}
			if tk.endRnd >= 0 && tk.endRnd <= r {
				w.tot += tk.end - tk.start
				w.completed++
				if tk.endRnd == r {
					w.endsNow++
					owners[tk.owner] = true
				}
			} else {
				inflight++
			}
		}
		w.owners = len(owners)
		w.cnt, w.avg = w.completed, -1
		if inflight > 0 {
			w.cnt = -1
		}
		if w.completed > 0 {
			w.avg = w.tot / w.completed
		}
		for n := 0; n < numConcNames; n++ {
			seen := map[int]bool{}
			for _, tg := range s.tags {
				if tg.round > r || tg.name != n {
					continue
				}
				w.tags[n][0]++
				if s.tasks[tg.task].tracked {
					seen[tg.task] = true
				}
			}
			w.tags[n][1] = int64(len(seen))
		}
	}
	return s
}

func (s *cScript) record(id, epoch, script, r int, obs concObs) concRecord {
	rec := concRecord{ID: id, Epoch: epoch, Script: script, Round: r, Now: s.now[r], Obs: obs, Tasks: [][4]int64{}, Tags: [][2]int64{},
		EndsNow: s.want[r].endsNow, Owners: s.want[r].owners}
	// task indices of the record: tasks started so far, in table order (the table is in start order)
	pos := map[int]int{}
	for i, tk := range s.tasks {
		if tk.startRound > r {
			continue
		}
		pos[i] = len(rec.Tasks) + 1
		e, done := tk.start, int64(0)
		if tk.endRnd >= 0 && tk.endRnd <= r {
			e, done = tk.end, 1
		}
		tr := int64(0)
		if tk.tracked {
			tr = 1
		}
		rec.Tasks = append(rec.Tasks, [4]int64{tk.start, e, tr, done})
	}
	for _, tg := range s.tags {
		if tg.round <= r {
			rec.Tags = append(rec.Tags, [2]int64{int64(pos[tg.task]), int64(tg.name + 1)})
		}
	}
	return rec
}

// spinBarrier: sense-reversing barrier; the waiters spin (yielding now and then)
// so that all of them leave within a few nanoseconds of each other.
type spinBarrier struct {
	n     int32
	count atomic.Int32
	sense atomic.Uint32
	abort atomic.Bool
}

func (b *spinBarrier) wait(local *uint32) bool {
	*local ^= 1
	if b.count.Add(1) == b.n {
		b.count.Store(0)
		b.sense.Store(*local)
		return !b.abort.Load()
	}
	for i := 0; b.sense.Load() != *local; i++ {
		if b.abort.Load() {
			return false
		}
		if i&1023 == 1023 {
			runtime.Gosched()
			if i > 1<<16 { // a peer lost its CPU (oversubscribed machine): give ours away instead of spinning against it
				time.Sleep(20 * time.Microsecond)
			}
		}
	}
	return !b.abort.Load()
}

type concRig struct {
	total *tracing.TotalTimeTracer
	avg   *tracing.AverageTimeTracer
	tags  *tracing.TagCountTracer
	all   [3]tracing.Tracer
	doms  []*domain
}

func newConcRig(g int, api bool) *concRig {
	r := &concRig{
		total: tracing.NewTotalTimeTracer(keepFilter),
		avg:   tracing.NewAverageTimeTracer(keepFilter),
		tags:  tracing.NewTagCountTracer(keepFilter),
	}
	r.all = [3]tracing.Tracer{r.total, r.avg, r.tags}
	if api {
		// one traced component per goroutine, the same tracers attached to all of them
		for i := 0; i < g; i++ {
			d := newDomain(fmt.Sprintf("Dom%d", i))
			for _, t := range r.all {
				tracing.CollectTrace(d, t)
			}
			r.doms = append(r.doms, d)
		}
	}
	return r
}

func (r *concRig) observe() concObs {
	o := concObs{Tot: int64(r.total.TotalTime()), Cnt: int64(r.avg.TotalCount()), Avg: int64(r.avg.AverageTime()), Tags: make([][2]int64, numConcNames)}
	for n := 0; n < numConcNames; n++ {
		o.Tags[n] = [2]int64{int64(r.tags.GetTagCount(tagNames[n])), int64(r.tags.GetTaskCount(tagNames[n]))}
	}
	return o
}

func runStatsConc(in concInput) concOutput {
	g := in.Goroutines
	if g < 2 {
		g = 2
	}
	if in.Rounds < 2 {
		in.Rounds = 2
	}
	if in.Scripts < 1 {
		in.Scripts = 1
	}
	if in.SampleEvery < 1 {
		in.SampleEvery = 1
	}
	if in.MaxMismatch < 1 {
		in.MaxMismatch = 8
	}
	if runtime.GOMAXPROCS(0) < g+1 {
		runtime.GOMAXPROCS(g + 1)
	}
	rng := rand.New(rand.NewSource(in.Seed))
	pool := make([]*cScript, in.Scripts)
	out := concOutput{Scripts: in.Scripts, Samples: []concRecord{}, Mismatches: []concMismatch{}}
	for i := range pool {
		pool[i] = genScript(rng, g, in.Rounds)
		if len(pool[i].tasks) > out.MaxTasks {
			out.MaxTasks = len(pool[i].tasks)
		}
	}

	bar := &spinBarrier{n: int32(g + 1)}
	var rig atomic.Pointer[concRig]
	rig.Store(newConcRig(g, in.API))
	var stop atomic.Bool // set by goroutine 0 between the barriers: no further epoch
	var panicMsg atomic.Pointer[string]
	var readerReads atomic.Int64
	var readerBad atomic.Pointer[concMismatch]
	t0 := time.Now()
	nextID := 0

	guard := func(who string) {
		if p := recover(); p != nil {
			m := fmt.Sprintf("%s: %v", who, p)
			panicMsg.CompareAndSwap(nil, &m)
			bar.abort.Store(true)
		}
	}

	var wg sync.WaitGroup
	for w := 0; w < g; w++ {
		wg.Add(1)
		go func(w int) {
			defer wg.Done()
			defer guard(fmt.Sprintf("goroutine %d", w))
			var local uint32
			for ep := 0; ep < in.Epochs; ep++ {
				si := ep % len(pool)
				sc := pool[si]
				for r := 0; r < in.Rounds; r++ {
					if !bar.wait(&local) { // released together
						return
					}
					cur := rig.Load()
					ops := sc.ops[w][r]
					if in.API {
						d := cur.doms[w]
						d.now = timing.VTimeInPicoSec(sc.now[r])
						for i := range ops {
							switch ops[i].kind {
							case 0:
								tracing.StartTask(d, ops[i].start)
							case 1:
								tracing.EndTask(d, ops[i].end)
							default:
								tracing.AddTaskTag(d, ops[i].tag)
							}
						}
					} else {
						for i := range ops {
							switch ops[i].kind {
							case 0:
								for _, t := range cur.all {
									t.StartTask(ops[i].start)
								}
							case 1:
								for _, t := range cur.all {
									t.EndTask(ops[i].end)
								}
							default:
								for _, t := range cur.all {
									t.AddTaskTag(ops[i].tag)
								}
							}
						}
					}
					if !bar.wait(&local) { // joined: every call of the round has returned
						return
					}
					if w != 0 {
						continue
					}
					// goroutine 0 is the judge of the round; the others wait at the next barrier
					obs := cur.observe()
					want := &sc.want[r]
					out.Rounds++
					if want.owners >= 2 {
						out.ConcEndRounds++
					}
					var bad []concMismatch
					cmp := func(getter, tag string, wv, gv int64) {
						if wv < 0 {
							return
						}
						out.Comparisons++
						if wv != gv {
							bad = append(bad, concMismatch{Getter: getter, Tag: tag, Want: wv, Got: gv})
						}
					}
					cmp("total", "", want.tot, obs.Tot)
					cmp("count", "", want.cnt, obs.Cnt)
					cmp("average", "", want.avg, obs.Avg)
					for n := 0; n < numConcNames; n++ {
						cmp("tagcount", tagNames[n], want.tags[n][0], obs.Tags[n][0])
						cmp("taskcount", tagNames[n], want.tags[n][1], obs.Tags[n][1])
					}
					if rb := readerBad.Swap(nil); rb != nil {
						bad = append(bad, *rb)
					}
					sampled := ep%in.SampleEvery == 0
					if len(bad) > 0 {
						out.MismatchRounds++
					}
					if sampled || (len(bad) > 0 && out.MismatchRounds <= in.MaxMismatch) {
						rec := sc.record(nextID, ep, si, r, obs)
						nextID++
						out.Samples = append(out.Samples, rec)
						for _, b := range bad {
							b.Record = rec.ID
							out.Mismatches = append(out.Mismatches, b)
						}
					}
					if r == in.Rounds-1 {
						out.Epochs++
						out.Events += sc.nops
						rig.Store(newConcRig(g, in.API))
						if out.MismatchRounds >= in.MaxMismatch || (in.BudgetMs > 0 && time.Since(t0) > time.Duration(in.BudgetMs)*time.Millisecond) {
							stop.Store(true)
						}
					}
				}
				// agree on stopping: one more barrier, after which stop is stable for this epoch
				if !bar.wait(&local) {
					return
				}
				if stop.Load() {
					return
				}
			}
		}(w)
	}

	// the reader: a monitoring goroutine that polls the getters while the events arrive.
	// Between two joins the set of ended tasks only grows (TracerStats.tla, PROPERTY Monotone),
	// so a total read during round r lies between the values after rounds r-1 and r.
	wg.Add(1)
	go func() {
		defer wg.Done()
		defer guard("reader")
		var local uint32
		for ep := 0; ep < in.Epochs; ep++ {
			sc := pool[ep%len(pool)]
			for r := 0; r < in.Rounds; r++ {
				if !bar.wait(&local) {
					return
				}
				cur := rig.Load()
				lo := int64(0)
				var lot [numConcNames]int64
				if r > 0 {
					lo = sc.want[r-1].tot
					for n := 0; n < numConcNames; n++ {
						lot[n] = sc.want[r-1].tags[n][0]
					}
				}
				hi := sc.want[r].tot
				for k := 0; k < 2; k++ {
					tot := int64(cur.total.TotalTime())
					_ = cur.avg.AverageTime()
					_ = cur.avg.TotalCount()
					n := k % numConcNames
					tc := int64(cur.tags.GetTagCount(tagNames[n]))
					_ = cur.tags.GetTaskCount(tagNames[n])
					_ = cur.tags.GetTagNames()
					readerReads.Add(1)
					if tot < lo || tot > hi {
						readerBad.CompareAndSwap(nil, &concMismatch{Getter: "total_during_round", Want: fmt.Sprintf("%d..%d", lo, hi), Got: tot})
					}
					if tc < lot[n] || tc > sc.want[r].tags[n][0] {
						readerBad.CompareAndSwap(nil, &concMismatch{Getter: "tagcount_during_round", Tag: tagNames[n],
							Want: fmt.Sprintf("%d..%d", lot[n], sc.want[r].tags[n][0]), Got: tc})
					}
				}
				if !bar.wait(&local) {
					return
				}
			}
			if !bar.wait(&local) {
				return
			}
			if stop.Load() {
				return
			}
		}
	}()
	wg.Wait()
	out.ReaderReads = int(readerReads.Load())
	out.WallMs = time.Since(t0).Milliseconds()
	if p := panicMsg.Load(); p != nil {
		out.Panic = *p
	}
	return out
}

func init() {
	reg.Register("statsconc", func(raw json.RawMessage) (any, error) {
		var in concInput
		if err := json.Unmarshal(raw, &in); err != nil {
			return nil, err
		}
		return runStatsConc(in), nil
	})
}
