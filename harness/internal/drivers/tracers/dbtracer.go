package tracers

import (
	"context"
	"encoding/json"
	"fmt"
	"os"
	"path/filepath"
	"reflect"
	"sort"

	"github.com/sarchlab/akita/v5/datarecording"
	"github.com/sarchlab/akita/v5/timing"
	"github.com/sarchlab/akita/v5/tracing"

	"verif/harness/internal/reg"
)

// ---------------------------------------------------------------- C36
//
// A behaviour of DBTracer.tla: the stream h of events [op, task, time, x]
// (op 0 start, 1 end, 2 tag, 3 milestone, 4 StartTracing, 5 StopTracing,
// 6 Terminate) and the sets the statement demands in the database afterwards.

type dbBehaviour struct {
	H     [][]int64         `json:"h"`
	Tasks [][]int64         `json:"tasks"` // [task, start, end]
	Tags  [][]int64         `json:"tags"`  // [position (row id), task, time, name]
	Ms    []json.RawMessage `json:"ms"`    // [task, time, [positions]]: exactly one of the positions is kept
	Segs  [][]int64         `json:"segs"`  // [position, open, close]
}

type dbInput struct {
	// Backend "stub" records the InsertData calls; "sqlite" is the real
	// datarecording recorder, read back from the file with the real reader.
	Backend    string        `json:"backend"`
	Behaviours []dbBehaviour `json:"behaviours"`
}

type dbMismatch struct {
	Behaviour int    `json:"behaviour"`
	Table     string `json:"table"` // trace | tag | milestone | segment | panic | backend
	Want      any    `json:"want"`
	Got       any    `json:"got"`
}

type dbOutput struct {
	Behaviours int          `json:"behaviours"`
	Steps      int          `json:"steps"`
	Rows       int          `json:"rows"`
	Mismatches []dbMismatch `json:"mismatches"`
}

// what the driver feeds for task k (fixed attributes, all fields distinct
// between tasks; tasks 1 and 3 share a location)
type taskAttr struct {
	ID, Parent           uint64
	Kind, What, Location string
}

func attrOf(task int64) taskAttr {
	kinds := []string{"req_in", "req_out", "pipeline"}
	locs := []string{"GPU.L1", "GPU.L2", "GPU.L1"}
	k := int(task-1) % 3
	return taskAttr{
		ID: uint64(100 + task), Parent: uint64(100 + task - 1),
		Kind: kinds[k], What: fmt.Sprintf("what%d", task), Location: locs[k],
	}
}

var msKinds = []tracing.MilestoneKind{tracing.MilestoneKindQueue, tracing.MilestoneKindData, tracing.MilestoneKindHardwareResource}
var dbTagNames = []string{"hit", "miss", "evict"}

func riderID(pos int) uint64 { return uint64(1000 + pos) } // pos is 1-based, like the specification's

// normalized rows
type traceRow struct {
	ID, ParentID         uint64
	Kind, What, Location string
	Start, End           float64
}
type tagRow struct {
	ID, TaskID uint64
	Time       float64
	What       string
}
type msRow struct {
	ID, TaskID uint64
	Time       float64
	Kind, What string
}
type segRow struct{ Start, End float64 }

type dbRows struct {
	Trace []traceRow
	Tag   []tagRow
	Ms    []msRow
	Seg   []segRow
}

func (r *dbRows) sort() {
	sort.Slice(r.Trace, func(i, j int) bool { return fmt.Sprint(r.Trace[i]) < fmt.Sprint(r.Trace[j]) })
	sort.Slice(r.Tag, func(i, j int) bool { return fmt.Sprint(r.Tag[i]) < fmt.Sprint(r.Tag[j]) })
	sort.Slice(r.Ms, func(i, j int) bool { return fmt.Sprint(r.Ms[i]) < fmt.Sprint(r.Ms[j]) })
	sort.Slice(r.Seg, func(i, j int) bool {
		if r.Seg[i].Start != r.Seg[j].Start {
			return r.Seg[i].Start < r.Seg[j].Start
		}
		return r.Seg[i].End < r.Seg[j].End
	})
}

// ---- stub backend: records what DBTracer hands to the DataRecorder interface

type stubRecorder struct {
	tables  map[string]bool
	rows    map[string][]map[string]any
	flushes int
	errs    []string
}

func newStub() *stubRecorder {
	return &stubRecorder{tables: map[string]bool{}, rows: map[string][]map[string]any{}}
}

func (s *stubRecorder) CreateTable(name string, sample any) { s.tables[name] = true }
func (s *stubRecorder) InsertData(name string, entry any) {
	if !s.tables[name] {
		s.errs = append(s.errs, "InsertData into a table that was not created: "+name)
	}
	// like the real recorder: one column per exported struct field, by field name
	v := reflect.ValueOf(entry)
	if v.Kind() == reflect.Pointer {
		v = v.Elem()
	}
	if v.Kind() != reflect.Struct {
		s.errs = append(s.errs, fmt.Sprintf("entry for %s is not a struct: %T", name, entry))
		return
	}
	m := map[string]any{}
	for i := 0; i < v.NumField(); i++ {
		f := v.Type().Field(i)
		if !f.IsExported() {
			continue
		}
		switch fv := v.Field(i); fv.Kind() {
		case reflect.Uint, reflect.Uint8, reflect.Uint16, reflect.Uint32, reflect.Uint64:
			m[f.Name] = float64(fv.Uint())
		case reflect.Int, reflect.Int8, reflect.Int16, reflect.Int32, reflect.Int64:
			m[f.Name] = float64(fv.Int())
		case reflect.Float32, reflect.Float64:
			m[f.Name] = fv.Float()
		case reflect.String:
			m[f.Name] = fv.String()
		default:
			m[f.Name] = fmt.Sprint(fv.Interface())
		}
	}
	s.rows[name] = append(s.rows[name], m)
}
func (s *stubRecorder) ListTables() []string {
	var out []string
	for t := range s.tables {
		out = append(out, t)
	}
	return out
}
func (s *stubRecorder) Flush()       { s.flushes++ }
func (s *stubRecorder) Close() error { return nil }

func fnum(v any) float64 { f, _ := v.(float64); return f }
func fstr(v any) string  { s, _ := v.(string); return s }

func (s *stubRecorder) collect() (dbRows, []string) {
	var r dbRows
	errs := append([]string{}, s.errs...)
	for name, rows := range s.rows {
		for _, m := range rows {
			switch name {
			case "trace":
				r.Trace = append(r.Trace, traceRow{uint64(fnum(m["ID"])), uint64(fnum(m["ParentID"])), fstr(m["Kind"]), fstr(m["What"]), fstr(m["Location"]), fnum(m["StartTime"]), fnum(m["EndTime"])})
			case "tag":
				r.Tag = append(r.Tag, tagRow{uint64(fnum(m["ID"])), uint64(fnum(m["TaskID"])), fnum(m["Time"]), fstr(m["What"])})
			case "milestone":
				r.Ms = append(r.Ms, msRow{uint64(fnum(m["ID"])), uint64(fnum(m["TaskID"])), fnum(m["Time"]), fstr(m["Kind"]), fstr(m["What"])})
			case "daisen$segments":
				r.Seg = append(r.Seg, segRow{fnum(m["StartTime"]), fnum(m["EndTime"])})
			default:
				errs = append(errs, "rows in unexpected table "+name)
			}
		}
	}
	return r, errs
}

// ---- sqlite backend: the real recorder, read back with the real reader.
// Field names mirror the tracer's table entries (the reader maps columns to
// fields by name).

type sqlTrace struct {
	ID        uint64
	ParentID  uint64
	Kind      string
	What      string
	Location  string `akita_data:"location"`
	StartTime float64
	EndTime   float64
}
type sqlMilestone struct {
	ID     uint64
	TaskID uint64
	Time   float64
	Kind   string
	What   string
}
type sqlTag struct {
	ID     uint64
	TaskID uint64
	Time   float64
	What   string
}
type sqlSegment struct {
	StartTime float64
	EndTime   float64
}

func readSQLite(file string) (r dbRows, errs []string) {
	defer func() {
		if p := recover(); p != nil {
			errs = append(errs, fmt.Sprint("reader panicked: ", p))
		}
	}()
	rd := datarecording.NewReader(file)
	defer rd.Close()
	rd.MapTable("trace", sqlTrace{})
	rd.MapTable("milestone", sqlMilestone{})
	rd.MapTable("tag", sqlTag{})
	rd.MapTable("daisen$segments", sqlSegment{})
	ctx := context.Background()
	q := func(table string) []any {
		rows, n, err := rd.Query(ctx, table, datarecording.QueryParams{})
		if err != nil {
			errs = append(errs, "query "+table+": "+err.Error())
			return nil
		}
		if n != len(rows) {
			errs = append(errs, fmt.Sprintf("table %s: count %d but %d rows", table, n, len(rows)))
		}
		return rows
	}
	for _, x := range q("trace") {
		e := x.(*sqlTrace)
		r.Trace = append(r.Trace, traceRow{e.ID, e.ParentID, e.Kind, e.What, e.Location, e.StartTime, e.EndTime})
	}
	for _, x := range q("tag") {
		e := x.(*sqlTag)
		r.Tag = append(r.Tag, tagRow{e.ID, e.TaskID, e.Time, e.What})
	}
	for _, x := range q("milestone") {
		e := x.(*sqlMilestone)
		r.Ms = append(r.Ms, msRow{e.ID, e.TaskID, e.Time, e.Kind, e.What})
	}
	for _, x := range q("daisen$segments") {
		e := x.(*sqlSegment)
		r.Seg = append(r.Seg, segRow{e.StartTime, e.EndTime})
	}
	return r, errs
}

// ---- replay

type fedMs struct {
	id   uint64
	kind string
	what string
}

// sqliteDir is where the database files of the sqlite backend live: a private
// directory on tmpfs when there is one (a file per stream on disk is slow),
// else the working directory. It is removed when the driver returns.
func sqliteDir() (dir string, cleanup func()) {
	for _, base := range []string{"/dev/shm", "."} {
		if d, err := os.MkdirTemp(base, "c36-sqlite-"); err == nil {
			return d, func() { os.RemoveAll(d) }
		}
	}
	return ".", func() {}
}

func runDB(in dbInput) dbOutput {
	out := dbOutput{Behaviours: len(in.Behaviours)}
	dir := "."
	if in.Backend == "sqlite" {
		d, cleanup := sqliteDir()
		defer cleanup()
		dir = d
	}
	for bi, b := range in.Behaviours {
		miss := func(table string, want, got any) {
			out.Mismatches = append(out.Mismatches, dbMismatch{Behaviour: bi, Table: table, Want: want, Got: got})
		}
		d := newDomain("GPU")
		var rec datarecording.DataRecorder
		var stub *stubRecorder
		dbName := ""
		if in.Backend == "sqlite" {
			dbName = filepath.Join(dir, fmt.Sprintf("c36_%d", bi))
			rec = datarecording.NewDataRecorder(dbName)
		} else {
			stub = newStub()
			rec = stub
		}
		tr := tracing.NewDBTracer(d, rec)
		tracing.CollectTrace(d, tr)
		fed := map[uint64]fedMs{}
		var perr any
		func() {
			defer func() { perr = recover() }()
			for pi, e := range b.H {
				out.Steps++
				pos := pi + 1
				d.now = timing.VTimeInPicoSec(e[2])
				var a taskAttr
				if e[0] <= 3 {
					a = attrOf(e[1])
				}
				switch e[0] {
				case 0:
					tracing.StartTask(d, tracing.TaskStart{ID: a.ID, ParentID: a.Parent, Kind: a.Kind, What: a.What, Location: a.Location})
				case 1:
					tracing.EndTask(d, tracing.TaskEnd{ID: a.ID})
				case 2:
					tracing.AddTaskTag(d, tracing.TaskTag{ID: riderID(pos), TaskID: a.ID, What: dbTagNames[e[3]-1]})
				case 3:
					m := fedMs{riderID(pos), string(msKinds[e[3]-1]), fmt.Sprintf("ms%d", pos)}
					fed[m.id] = m
					tracing.AddMilestone(d, tracing.Milestone{ID: m.id, TaskID: a.ID, Kind: msKinds[e[3]-1], What: m.what})
				case 4:
					tr.StartTracing()
				case 5:
					tr.StopTracing()
				case 6:
					tr.Terminate()
				default:
					panic(fmt.Sprintf("unknown event %v", e))
				}
			}
		}()
		var got dbRows
		var errs []string
		if in.Backend == "sqlite" {
			func() {
				defer func() {
					if p := recover(); p != nil {
						errs = append(errs, fmt.Sprint("recorder Close panicked: ", p))
					}
				}()
				if err := rec.Close(); err != nil {
					errs = append(errs, "recorder Close: "+err.Error())
				}
			}()
			file := dbName + ".sqlite3"
			r, e2 := readSQLite(file)
			got, errs = r, append(errs, e2...)
			os.Remove(file)
		} else {
			got, errs = stub.collect()
		}
		if perr != nil {
			miss("panic", "no panic", fmt.Sprint(perr))
			continue
		}
		for _, e := range errs {
			miss("backend", "", e)
		}
		got.sort()
		out.Rows += len(got.Trace) + len(got.Tag) + len(got.Ms) + len(got.Seg)

		diffRows(&b, got, fed, miss)
	}
	return out
}

// diffRows compares the rows read from the database with the sets the
// specification demands (b.Tasks, b.Tags, b.Ms, b.Segs) and calls miss for
// every table that differs.
func diffRows(b *dbBehaviour, got dbRows, fed map[uint64]fedMs, miss func(table string, want, got any)) {
	// expected rows
	var want dbRows
	for _, t := range b.Tasks {
		a := attrOf(t[0])
		want.Trace = append(want.Trace, traceRow{a.ID, a.Parent, a.Kind, a.What, a.Location, float64(t[1]), float64(t[2])})
	}
	for _, t := range b.Tags {
		want.Tag = append(want.Tag, tagRow{riderID(int(t[0])), attrOf(t[1]).ID, float64(t[2]), dbTagNames[t[3]-1]})
	}
	for _, s := range b.Segs {
		want.Seg = append(want.Seg, segRow{float64(s[1]), float64(s[2])})
	}
	want.sort()
	if !sameRows(want.Trace, got.Trace) {
		miss("trace", want.Trace, got.Trace)
	}
	if !sameRows(want.Tag, got.Tag) {
		miss("tag", want.Tag, got.Tag)
	}
	if !sameRows(want.Seg, got.Seg) {
		miss("segment", want.Seg, got.Seg)
	}
	// milestones: exactly one row per (task, instant) group, and it is one of the
	// milestones fed at that instant, unchanged
	type group struct {
		task  uint64
		time  float64
		cands map[uint64]bool
		hits  int
	}
	var groups []*group
	for _, raw := range b.Ms {
		var parts []json.RawMessage
		var task, tm int64
		var cands []int64
		if json.Unmarshal(raw, &parts) != nil || len(parts) != 3 ||
			json.Unmarshal(parts[0], &task) != nil || json.Unmarshal(parts[1], &tm) != nil || json.Unmarshal(parts[2], &cands) != nil {
			miss("backend", "", "malformed milestone group "+string(raw))
			continue
		}
		g := &group{task: attrOf(task).ID, time: float64(tm), cands: map[uint64]bool{}}
		for _, c := range cands {
			g.cands[riderID(int(c))] = true
		}
		groups = append(groups, g)
	}
	okMs := true
	for _, r := range got.Ms {
		found := false
		for _, g := range groups {
			if g.task == r.TaskID && g.time == r.Time && g.cands[r.ID] {
				f := fed[r.ID]
				if f.kind == r.Kind && f.what == r.What {
					g.hits++
					found = true
				}
			}
		}
		if !found {
			okMs = false
		}
	}
	for _, g := range groups {
		if g.hits != 1 {
			okMs = false
		}
	}
	if !okMs {
		miss("milestone", b.Ms, got.Ms)
	}
}

func sameRows[T comparable](a, b []T) bool {
	if len(a) != len(b) {
		return false
	}
	for i := range a {
		if a[i] != b[i] {
			return false
		}
	}
	return true
}

func init() {
	reg.Register("dbtracer", func(raw json.RawMessage) (any, error) {
		var in dbInput
		if err := json.Unmarshal(raw, &in); err != nil {
			return nil, err
		}
		return runDB(in), nil
	})
}
