package vmstack

import (
	"encoding/binary"
	"fmt"

	"github.com/sarchlab/akita/v5/hooking"
	"github.com/sarchlab/akita/v5/mem/memcontrolprotocol"
	"github.com/sarchlab/akita/v5/mem/memprotocol"
	"github.com/sarchlab/akita/v5/mem/vm/vmprotocol"
	"github.com/sarchlab/akita/v5/messaging"
	"github.com/sarchlab/akita/v5/timing"
)

// Step is one step of a case's program.  The program is executed from outside
// the engine: between steps the engine is stopped (RunUntil / Run returned).
//
//	traffic  enqueue Accesses on Agent (nothing runs yet)
//	runfor   let the engine run for Cycles cycles (traffic stays in flight)
//	run      let the engine run until it has no event left
//	quiesce  run, then record that the system is at rest (every request must be answered)
//	map      install/change the page-table entry (PID, VPN) -> PPN (device Dev)
//	ctrl     send Cmd (pause|drain|enable|inv|reset) to Level's Control port and run until it is acknowledged;
//	         inv carries the filter PID (0 = all) and VPNs (empty = all; AddrOff is added to every address)
type Step struct {
	Op       string   `json:"op"`
	Agent    string   `json:"agent,omitempty"`
	Accesses []Access `json:"accesses,omitempty"`
	Cycles   int      `json:"cycles,omitempty"`
	PID      uint32   `json:"pid,omitempty"`
	VPN      uint64   `json:"vpn,omitempty"`
	PPN      uint64   `json:"ppn,omitempty"`
	Dev      uint64   `json:"dev,omitempty"`
	Level    string   `json:"level,omitempty"`
	Cmd      string   `json:"cmd,omitempty"`
	VPNs     []uint64 `json:"vpns,omitempty"`
	AddrOff  uint64   `json:"addr_off,omitempty"`
}

// Case is a stack plus the program run on it.
type Case struct {
	Stack   Config         `json:"stack"`
	Program []Step         `json:"program"`
	Tags    map[string]any `json:"tags,omitempty"` // free-form labels of the generator (mode, probe, ...)
}

// Result is what running a case produced besides the trace records.
type Result struct {
	Records  []map[string]any `json:"-"`
	Bad      []string         `json:"bad,omitempty"`     // observations the trace format cannot carry
	Aborted  string           `json:"aborted,omitempty"` // the program could not be completed (control verb not acknowledged)
	Panic    string           `json:"panic,omitempty"`   // a panic raised while the engine was running
	Requests int              `json:"requests"`          // request events over all levels
	TopReqs  int              `json:"top_requests"`      // requests issued by the agents
	EndTime  uint64           `json:"end_time"`          // ps
	Stuck    map[string]any   `json:"stuck,omitempty"`   // where unanswered work sits at the end (diagnosis only)
	MemReads int              `json:"mem_reads"`
}

var cmdOf = map[string]memcontrolprotocol.Command{
	"pause": memcontrolprotocol.CmdPause, "drain": memcontrolprotocol.CmdDrain, "enable": memcontrolprotocol.CmdEnable,
	"reset": memcontrolprotocol.CmdReset, "inv": memcontrolprotocol.CmdInvalidate, "flush": memcontrolprotocol.CmdFlush,
}
var cmdName = map[memcontrolprotocol.Command]string{}

func init() {
	for n, c := range cmdOf {
		cmdName[c] = n
	}
}

type ctlInfo struct {
	lv   string
	cmd  string
	pid  uint32
	vpns []uint64
	cid  int
}

// recorder observes every level's Top and Control port and the memory's Top port.
type recorder struct {
	s        *Stack
	recs     []map[string]any
	bad      []string
	topOf    map[messaging.Port]*Level
	ctlOf    map[messaging.Port]*Level
	memTop   messaging.Port
	ids      map[string]map[uint64]int // level -> message id -> dense request number
	next     int
	nreq     int
	tagOf    map[int]uint64    // AT request number -> write tag
	wpaddr   map[uint64]uint64 // write tag -> physical address seen at the memory
	memReads map[uint64]int    // physical addresses of reads reaching the memory
	sigReads map[uint64]int    // physical addresses decoded from read data at the AT's Top
	ctl      map[uint64]ctlInfo
	nctl     int
}

func (r *recorder) add(m map[string]any) { r.recs = append(r.recs, m) }

func newRecorder(s *Stack) *recorder {
	r := &recorder{s: s, topOf: map[messaging.Port]*Level{}, ctlOf: map[messaging.Port]*Level{},
		ids: map[string]map[uint64]int{}, tagOf: map[int]uint64{}, wpaddr: map[uint64]uint64{},
		memReads: map[uint64]int{}, sigReads: map[uint64]int{}, ctl: map[uint64]ctlInfo{}}
	for _, l := range s.Levels {
		r.topOf[l.Top] = l
		r.ctlOf[l.Control] = l
		r.ids[l.Name] = map[uint64]int{}
		l.Top.AcceptHook(r)
		l.Control.AcceptHook(r)
	}
	if s.Mem != nil {
		r.memTop = s.Mem.GetPortByName("Top")
		r.memTop.AcceptHook(r)
	}
	return r
}

func (r *recorder) split(addr uint64) (int64, int64) {
	lg := r.s.Cfg.Log2Page
	return int64(addr >> lg), int64(addr & (1<<lg - 1))
}

// Func implements hooking.Hook.
func (r *recorder) Func(ctx hooking.HookCtx) {
	port, ok := ctx.Domain.(messaging.Port)
	if !ok {
		return
	}
	switch ctx.Pos {
	case messaging.HookPosPortMsgRecvd:
		if l := r.topOf[port]; l != nil {
			r.request(l, ctx.Item.(messaging.Msg))
		} else if l := r.ctlOf[port]; l != nil {
			r.ctlReq(l, ctx.Item.(messaging.Msg))
		} else if port == r.memTop {
			r.atMemory(ctx.Item.(messaging.Msg))
		}
	case messaging.HookPosPortMsgSend:
		if l := r.topOf[port]; l != nil {
			r.answer(l, ctx.Item.(messaging.Msg))
		} else if l := r.ctlOf[port]; l != nil {
			r.ctlAck(l, ctx.Item.(messaging.Msg))
		}
	}
}

func (r *recorder) request(l *Level, msg messaging.Msg) {
	var pid uint32
	var vaddr uint64
	write := false
	switch m := msg.(type) {
	case vmprotocol.TranslationReq:
		pid, vaddr = uint32(m.PID), m.VAddr
	case memprotocol.ReadReq:
		pid, vaddr = uint32(m.PID), m.Address
	case memprotocol.WriteReq:
		pid, vaddr, write = uint32(m.PID), m.Address, true
	default:
		r.bad = append(r.bad, fmt.Sprintf("%s.Top received a %T", l.Name, msg))
		return
	}
	meta := msg.Meta()
	if _, dup := r.ids[l.Name][meta.ID]; dup {
		r.bad = append(r.bad, fmt.Sprintf("%s.Top received message id %d twice", l.Name, meta.ID))
		return
	}
	r.next++
	r.nreq++
	id := r.next
	r.ids[l.Name][meta.ID] = id
	if w, ok := msg.(memprotocol.WriteReq); ok && len(w.Data) == 8 {
		r.tagOf[id] = binary.LittleEndian.Uint64(w.Data)
	}
	vpn, off := r.split(vaddr)
	r.add(map[string]any{"e": "req", "lv": l.Name, "id": id, "pid": pid, "vpn": vpn, "off": off, "who": string(meta.Src), "w": write})
}

func (r *recorder) answer(l *Level, msg messaging.Msg) {
	meta := msg.Meta()
	id := r.ids[l.Name][meta.RspTo] // 0 when the response refers to no request this Top port received
	rec := map[string]any{"e": "ans", "lv": l.Name, "id": id, "to": string(meta.Dst), "pid": -1, "vpn": -1, "ppn": -1, "off": -1}
	switch m := msg.(type) {
	case vmprotocol.TranslationRsp:
		lg := r.s.Cfg.Log2Page
		rec["pid"] = uint32(m.Page.PID)
		rec["vpn"], _ = r.split(m.Page.VAddr)
		rec["ppn"] = int64(m.Page.PAddr >> lg)
		if m.Page.PAddr&(1<<lg-1) != 0 || m.Page.VAddr&(1<<lg-1) != 0 || m.Page.PageSize != 1<<lg || !m.Page.Valid {
			r.bad = append(r.bad, fmt.Sprintf("%s answered request %d with a malformed page %+v", l.Name, id, m.Page))
		}
	case memprotocol.DataReadyRsp:
		if len(m.Data) != 8 {
			r.bad = append(r.bad, fmt.Sprintf("%s answered read %d with %d bytes", l.Name, id, len(m.Data)))
			rec["ppn"] = -2
			break
		}
		sig := binary.LittleEndian.Uint64(m.Data)
		if sig >= uint64(r.s.Cfg.NumPPages+1)<<r.s.Cfg.Log2Page {
			rec["ppn"] = -2 // not an address signature: the data did not come from where a read may go
			r.bad = append(r.bad, fmt.Sprintf("read %d returned data %#x, which is no address signature", id, sig))
			break
		}
		r.sigReads[sig]++
		rec["ppn"], rec["off"] = r.split(sig)
	case memprotocol.WriteDoneRsp:
		pa, seen := r.wpaddr[r.tagOf[id]]
		if !seen {
			rec["ppn"] = -3 // acknowledged although the write never reached the memory
			break
		}
		rec["ppn"], rec["off"] = r.split(pa)
	default:
		r.bad = append(r.bad, fmt.Sprintf("%s.Top sent a %T", l.Name, msg))
		return
	}
	r.add(rec)
}

func (r *recorder) atMemory(msg messaging.Msg) {
	switch m := msg.(type) {
	case memprotocol.ReadReq:
		r.memReads[m.Address]++
	case memprotocol.WriteReq:
		if len(m.Data) != 8 {
			r.bad = append(r.bad, fmt.Sprintf("a write of %d bytes reached the memory", len(m.Data)))
			return
		}
		tag := binary.LittleEndian.Uint64(m.Data)
		if _, dup := r.wpaddr[tag]; dup {
			r.bad = append(r.bad, fmt.Sprintf("write tag %#x reached the memory twice", tag))
		}
		r.wpaddr[tag] = m.Address
	}
}

func (r *recorder) ctlReq(l *Level, msg messaging.Msg) {
	req, ok := msg.(memcontrolprotocol.Req)
	if !ok {
		return
	}
	r.nctl++
	lg := r.s.Cfg.Log2Page
	ci := ctlInfo{lv: l.Name, cmd: cmdName[req.Command], pid: uint32(req.PID), cid: r.nctl}
	for _, a := range req.Addresses {
		ci.vpns = append(ci.vpns, a>>lg)
	}
	r.ctl[req.ID] = ci
	r.add(map[string]any{"e": "ctl", "lv": l.Name, "cmd": ci.cmd, "cid": ci.cid, "pid": ci.pid, "vpns": nonNil(ci.vpns)})
}

func (r *recorder) ctlAck(l *Level, msg messaging.Msg) {
	rsp, ok := msg.(memcontrolprotocol.Rsp)
	if !ok {
		return
	}
	ci, known := r.ctl[rsp.RspTo]
	if !known || ci.lv != l.Name || cmdName[rsp.Command] != ci.cmd {
		r.bad = append(r.bad, fmt.Sprintf("%s acknowledged an unknown control request: %+v", l.Name, rsp))
		return
	}
	delete(r.ctl, rsp.RspTo)
	r.add(map[string]any{"e": "ack", "lv": l.Name, "cmd": ci.cmd, "cid": ci.cid, "ok": rsp.Success, "err": rsp.Error,
		"pid": ci.pid, "vpns": nonNil(ci.vpns)})
}

func nonNil(v []uint64) []uint64 {
	if v == nil {
		return []uint64{}
	}
	return v
}

const cycle = timing.VTimeInPicoSec(1000)

// ctrlBudget is how long (in cycles) a control verb may take before the case is abandoned.
const ctrlBudget = 60000

type runner struct {
	s   *Stack
	r   *recorder
	now timing.VTimeInPicoSec
	res *Result
}

func (x *runner) runFor(cycles int) {
	x.now += timing.VTimeInPicoSec(cycles) * cycle
	if err := x.s.Engine.(*timing.SerialEngine).RunUntil(x.now); err != nil {
		panic(err)
	}
}

func (x *runner) runIdle() {
	if err := x.s.Engine.Run(); err != nil {
		panic(err)
	}
	if t := x.s.Engine.CurrentTime(); t > x.now {
		x.now = t
	}
}

// control sends one verb and runs until its acknowledgement left the component.
func (x *runner) control(st Step) bool {
	l := x.s.Level(st.Level)
	if l == nil {
		panic("no level " + st.Level)
	}
	var addrs []uint64
	for _, v := range st.VPNs {
		addrs = append(addrs, v<<x.s.Cfg.Log2Page+st.AddrOff)
	}
	id := x.s.Ctrl.Send(l.Control, cmdOf[st.Cmd], st.PID, addrs)
	for i := 0; i < ctrlBudget; i++ {
		x.runFor(1)
		if _, ok := x.s.Ctrl.Acks[id]; ok {
			return true
		}
	}
	return false
}

// Run executes a case on a freshly built stack and returns the trace records.
func Run(c Case, caseNo int) (res Result) {
	var s *Stack
	defer func() {
		if s == nil { // the stack could not even be built
			if p := recover(); p != nil {
				res.Panic = "while building the stack: " + fmt.Sprint(p)
				res.Records = []map[string]any{{"e": "reset"}}
			}
		}
	}()
	s = Build(c.Stack)
	built := s
	s = nil
	r := newRecorder(built)
	s = built
	x := &runner{s: s, r: r, res: &res}
	var caching, all []string
	kinds := map[string]any{}
	for _, l := range s.Levels {
		all = append(all, l.Name)
		kinds[l.Name] = l.Kind
		if l.Caching {
			caching = append(caching, l.Name)
		}
	}
	if caching == nil {
		caching = []string{}
	}
	r.add(map[string]any{"e": "config", "case": caseNo, "levels": all, "caching": caching, "kinds": kinds, "log2": c.Stack.Log2Page})
	defer func() {
		if p := recover(); p != nil {
			res.Panic = fmt.Sprint(p)
			r.add(map[string]any{"e": "crash"})
		}
		r.add(map[string]any{"e": "reset"})
		res.Records, res.Bad, res.Requests = r.recs, r.bad, r.nreq
		res.EndTime = uint64(s.Engine.CurrentTime())
		for _, a := range s.Agents {
			res.TopReqs += a.Sent()
		}
		for a, n := range r.memReads {
			res.MemReads += n
			if r.sigReads[a] > n {
				res.Bad = append(res.Bad, fmt.Sprintf("%d reads returned the signature of physical address %#x but only %d reads reached it", r.sigReads[a], a, n))
			}
		}
		for a, n := range r.sigReads {
			if r.memReads[a] == 0 {
				res.Bad = append(res.Bad, fmt.Sprintf("%d reads returned the signature of physical address %#x, which no read reached", n, a))
			}
		}
	}()
	for _, st := range c.Program {
		switch st.Op {
		case "traffic":
			a := s.Agent(st.Agent)
			if a == nil {
				panic("no agent " + st.Agent)
			}
			a.Enqueue(st.Accesses)
		case "runfor":
			x.runFor(st.Cycles)
		case "run":
			x.runIdle()
		case "quiesce":
			x.runIdle()
			x.atRest()
		case "map":
			s.Map(st.PID, st.VPN, st.PPN, st.Dev)
			r.add(map[string]any{"e": "map", "pid": st.PID, "vpn": st.VPN, "ppn": st.PPN})
		case "ctrl":
			if !x.control(st) {
				res.Aborted = fmt.Sprintf("%s of %s not acknowledged within %d cycles", st.Cmd, st.Level, ctrlBudget)
				r.add(map[string]any{"e": "abort", "lv": st.Level, "cmd": st.Cmd})
				x.release()
				return res
			}
		default:
			panic("unknown step " + st.Op)
		}
	}
	return res
}

// release re-enables every level bottom-up after an abandoned program and lets the
// system come to rest, so that what stays unanswered is really unanswerable.
func (x *runner) release() {
	x.runIdle()
	for i := len(x.s.Levels) - 1; i >= 0; i-- {
		l := x.s.Levels[i]
		id := x.s.Ctrl.Send(l.Control, memcontrolprotocol.CmdEnable, 0, nil)
		for k := 0; k < 200; k++ {
			x.runFor(1)
			if _, ok := x.s.Ctrl.Acks[id]; ok {
				break
			}
		}
	}
	x.runIdle()
	x.atRest()
}

// atRest records that the engine has no event left, and where work is still held.
func (x *runner) atRest() {
	s := x.s
	x.r.add(map[string]any{"e": "quiesce", "t": int64(s.Engine.CurrentTime() / cycle)})
	stuck := map[string]any{}
	for i, t := range s.TLBs {
		n := fmt.Sprintf("L%d", i+1)
		if k := len(t.State.MSHREntries); k > 0 {
			stuck[n+".mshr"] = k
		}
		if k := len(t.State.Pipeline.Stages()); k > 0 {
			stuck[n+".pipeline"] = k
		}
		if k := t.State.BufferItems.Size(); k > 0 {
			stuck[n+".post_pipeline"] = k
		}
	}
	if s.AT != nil {
		if k := len(s.AT.State.Transactions); k > 0 {
			stuck["AT.translations"] = k
		}
		if k := len(s.AT.State.InflightReqToBottom); k > 0 {
			stuck["AT.to_memory"] = k
		}
	}
	if s.MMUCache != nil {
		if k := len(s.MMUCache.State.OutstandingBottomReqs); k > 0 {
			stuck["MC.outstanding"] = k
		}
	}
	if s.GMMU != nil {
		if k := len(s.GMMU.State.RemoteMemReqs); k > 0 {
			stuck["GM.remote"] = k
		}
		if k := len(s.GMMU.State.WalkingTranslations); k > 0 {
			stuck["GM.walking"] = k
		}
	}
	if k := len(s.MMU.State.WalkingTranslations); k > 0 {
		stuck["MMU.walking"] = k
	}
	for _, l := range s.Levels {
		for _, p := range l.Comp.Ports() {
			if k := p.NumIncoming() + p.NumOutgoing(); k > 0 {
				stuck["port:"+p.Name()] = k
			}
		}
	}
	for _, a := range s.Agents {
		if k := a.Pending(); k > 0 {
			stuck["agent:"+a.name+".unsent"] = k
		}
	}
	if len(stuck) > 0 {
		x.res.Stuck = stuck
	}
}
