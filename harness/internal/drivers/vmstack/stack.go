// Package vmstack assembles address-translation stacks out of the real akita
// components (address translator -> TLB levels -> optional MMU cache -> optional
// GMMU -> MMU, ideal memory controller below the address translator) and drives
// them with scripted traffic, page-table updates and control-protocol histories
// (C25).  Build is exported: determinism / checkpoint checks reuse the same
// assemblies from the same JSON configuration.
package vmstack

import (
	"encoding/binary"
	"fmt"

	"github.com/sarchlab/akita/v5/mem"
	"github.com/sarchlab/akita/v5/mem/idealmemcontroller"
	"github.com/sarchlab/akita/v5/mem/vm"
	"github.com/sarchlab/akita/v5/mem/vm/addresstranslator"
	"github.com/sarchlab/akita/v5/mem/vm/gmmu"
	"github.com/sarchlab/akita/v5/mem/vm/mmu"
	"github.com/sarchlab/akita/v5/mem/vm/mmuCache"
	"github.com/sarchlab/akita/v5/mem/vm/tlb"
	"github.com/sarchlab/akita/v5/messaging"
	"github.com/sarchlab/akita/v5/modeling"
	"github.com/sarchlab/akita/v5/noc/directconnection"
	"github.com/sarchlab/akita/v5/timing"
)

// TLBCfg is the geometry of one TLB level.
type TLBCfg struct {
	Sets    int `json:"sets"`
	Ways    int `json:"ways"`
	MSHR    int `json:"mshr"`
	Latency int `json:"latency"`
	Width   int `json:"width"` // NumReqPerCycle
	Buf     int `json:"buf"`   // port buffer size
}

// ATCfg configures the address translator and the memory below it.
type ATCfg struct {
	Width      int `json:"width"` // NumReqPerCycle
	Buf        int `json:"buf"`
	MemLatency int `json:"mem_latency"`
	MemWidth   int `json:"mem_width"`
	MemBuf     int `json:"mem_buf"`
}

// MMUCacheCfg configures the optional MMU cache.
type MMUCacheCfg struct {
	Levels          int    `json:"levels"`
	Blocks          int    `json:"blocks"`
	Width           int    `json:"width"`
	Buf             int    `json:"buf"`
	LatencyPerLevel uint64 `json:"latency_per_level"`
}

// WalkerCfg configures an MMU or a GMMU.
type WalkerCfg struct {
	Latency     int    `json:"latency"`
	MaxInFlight int    `json:"max_in_flight"`
	Buf         int    `json:"buf"`
	DeviceID    uint64 `json:"device_id"` // GMMU only
}

// AgentCfg is one traffic source: At names the level whose Top port it talks to
// ("AT" = memory accesses through the address translator, otherwise translation
// requests to "L1", "L2", "GM" or "MMU").
type AgentCfg struct {
	Name   string `json:"name"`
	At     string `json:"at"`
	Window int    `json:"window"`
	Buf    int    `json:"buf"`
}

// Config is a complete stack.  Levels from the top: AT (optional), L1, L2 (TLBs,
// zero to two), MC (optional MMU cache), GM (optional GMMU), MMU.
type Config struct {
	Name     string `json:"name"`
	Log2Page uint64 `json:"log2_page"`
	// TLBLog2Page, when not 0, builds the TLBs with another page size than the rest of
	// the stack (only to check that a checkpoint of a consistent stack is refused).
	TLBLog2Page uint64       `json:"tlb_log2_page,omitempty"`
	AT          *ATCfg       `json:"at,omitempty"`
	TLBs        []TLBCfg     `json:"tlbs"`
	MMUCache    *MMUCacheCfg `json:"mmu_cache,omitempty"`
	GMMU        *WalkerCfg   `json:"gmmu,omitempty"`
	MMU         WalkerCfg    `json:"mmu"`
	NumPPages   int          `json:"num_ppages"`
	Agents      []AgentCfg   `json:"agents"`
}

// Level is one translator of the stack.
type Level struct {
	Name    string // AT, L1, L2, MC, GM, MMU
	Kind    string // at, tlb, mmucache, gmmu, mmu
	Comp    messaging.Component
	Top     messaging.Port
	Control messaging.Port
	Caching bool // supports Invalidate (TLBs and the MMU cache)
	Latency int
}

// Stack is a built assembly.
type Stack struct {
	Cfg       Config
	Engine    timing.Engine
	PageTable vm.PageTable
	Levels    []*Level
	AT        *addresstranslator.Comp
	TLBs      []*tlb.Comp
	MMUCache  *mmuCache.Comp
	GMMU      *gmmu.Comp
	MMU       *mmu.Comp
	Mem       *idealmemcontroller.Comp
	Storage   *mem.Storage
	Agents    []*Agent
	Ctrl      *Controller
	Conns     []*directconnection.Comp
}

// Level returns the level with the given name, or nil.
func (s *Stack) Level(name string) *Level {
	for _, l := range s.Levels {
		if l.Name == name {
			return l
		}
	}
	return nil
}

// Agent returns the agent with the given name, or nil.
func (s *Stack) Agent(name string) *Agent {
	for _, a := range s.Agents {
		if a.name == name {
			return a
		}
	}
	return nil
}

func assign(reg modeling.Registrar, comp messaging.Component, buf int, names ...string) {
	if buf <= 0 {
		buf = 2
	}
	for _, n := range names {
		b := buf
		if n == "Control" {
			b = 2
		}
		p := modeling.MakePortBuilder().WithRegistrar(reg).WithComponent(comp).
			WithSpec(modeling.PortSpec{BufSize: b}).Build(n)
		comp.AssignPort(n, p)
	}
}

func pos(v, d int) int {
	if v <= 0 {
		return d
	}
	return v
}

// Build assembles the stack on a fresh serial engine.
func Build(cfg Config) *Stack {
	return BuildOn(modeling.NewStandaloneRegistrar(timing.NewSerialEngine()), cfg)
}

// BuildOn assembles the stack using the given registrar (a *simulation.Simulation
// or a standalone registrar).  Everything is built bottom-up so that every level
// knows the Top port of the level below it.
func BuildOn(reg modeling.Registrar, cfg Config) *Stack {
	if cfg.Log2Page == 0 {
		cfg.Log2Page = 12
	}
	if cfg.NumPPages <= 0 {
		cfg.NumPPages = 16
	}
	s := &Stack{Cfg: cfg, Engine: reg.GetEngine()}
	s.PageTable = vm.MakePageTableBuilder().WithLog2PageSize(cfg.Log2Page).WithSimulation(reg).Build(cfg.Name + ".PT")
	conn := func(name string, ports ...messaging.Port) {
		c := directconnection.MakeBuilder().WithRegistrar(reg).Build(cfg.Name + "." + name)
		for _, p := range ports {
			c.PlugIn(p)
		}
		s.Conns = append(s.Conns, c)
	}
	// requesters of each level's Top port, collected while building upwards
	reqPorts := map[string][]messaging.Port{}

	// --- MMU
	ms := mmu.DefaultSpec()
	ms.Log2PageSize = cfg.Log2Page
	ms.Latency = cfg.MMU.Latency
	ms.MaxRequestsInFlight = pos(cfg.MMU.MaxInFlight, 4)
	s.MMU = mmu.MakeBuilder().WithRegistrar(reg).WithSpec(ms).
		WithResources(mmu.Resources{PageTable: s.PageTable}).Build(cfg.Name + ".MMU")
	assign(reg, s.MMU, cfg.MMU.Buf, "Top", "Control")
	levels := []*Level{{Name: "MMU", Kind: "mmu", Comp: s.MMU, Latency: ms.Latency}}
	below := "MMU"
	belowTop := s.MMU.GetPortByName("Top")

	// --- GMMU (remote pages are forwarded to the MMU)
	if cfg.GMMU != nil {
		gs := gmmu.DefaultSpec()
		gs.Log2PageSize = cfg.Log2Page
		gs.Latency = cfg.GMMU.Latency
		gs.MaxRequestsInFlight = pos(cfg.GMMU.MaxInFlight, 4)
		gs.DeviceID = cfg.GMMU.DeviceID
		gs.LowModule = belowTop.AsRemote()
		s.GMMU = gmmu.MakeBuilder().WithRegistrar(reg).WithSpec(gs).
			WithResources(gmmu.Resources{PageTable: s.PageTable}).Build(cfg.Name + ".GMMU")
		assign(reg, s.GMMU, cfg.GMMU.Buf, "Top", "Bottom", "Control")
		reqPorts[below] = append(reqPorts[below], s.GMMU.GetPortByName("Bottom"))
		levels = append(levels, &Level{Name: "GM", Kind: "gmmu", Comp: s.GMMU, Latency: gs.Latency})
		below, belowTop = "GM", s.GMMU.GetPortByName("Top")
	}

	// --- MMU cache; its single upstream requester is fixed at build time, so the
	// level above is built first in name only: the port name is known in advance.
	var mcUp *messaging.RemotePort
	if cfg.MMUCache != nil {
		cs := mmuCache.DefaultSpec()
		cs.Log2PageSize = cfg.Log2Page
		cs.PageSize = 1 << cfg.Log2Page
		cs.NumLevels = pos(cfg.MMUCache.Levels, 2)
		cs.NumBlocks = pos(cfg.MMUCache.Blocks, 2)
		cs.NumReqPerCycle = pos(cfg.MMUCache.Width, 1)
		cs.LatencyPerLevel = cfg.MMUCache.LatencyPerLevel
		up := upstreamOfMMUCache(cfg)
		mcUp = &up
		s.MMUCache = mmuCache.MakeBuilder().WithRegistrar(reg).WithSpec(cs).
			WithResources(mmuCache.Resources{LowModulePort: belowTop.AsRemote(), UpModulePort: up}).
			Build(cfg.Name + ".MC")
		assign(reg, s.MMUCache, cfg.MMUCache.Buf, "Top", "Bottom", "Control")
		reqPorts[below] = append(reqPorts[below], s.MMUCache.GetPortByName("Bottom"))
		levels = append(levels, &Level{Name: "MC", Kind: "mmucache", Comp: s.MMUCache, Caching: true})
		below, belowTop = "MC", s.MMUCache.GetPortByName("Top")
	}

	// --- TLBs, bottom-up (cfg.TLBs[0] is the top-most)
	s.TLBs = make([]*tlb.Comp, len(cfg.TLBs))
	for i := len(cfg.TLBs) - 1; i >= 0; i-- {
		tc := cfg.TLBs[i]
		ts := tlb.DefaultSpec()
		ts.Log2PageSize = cfg.Log2Page
		if cfg.TLBLog2Page != 0 {
			ts.Log2PageSize = cfg.TLBLog2Page
		}
		ts.NumSets = pos(tc.Sets, 1)
		ts.NumWays = pos(tc.Ways, 2)
		ts.MSHRSize = pos(tc.MSHR, 2)
		ts.Latency = pos(tc.Latency, 2)
		ts.NumReqPerCycle = pos(tc.Width, 1)
		name := fmt.Sprintf("L%d", i+1)
		t := tlb.MakeBuilder().WithRegistrar(reg).WithSpec(ts).
			WithResources(tlb.Resources{TranslationProviderMapper: &mem.SinglePortMapper{Port: belowTop.AsRemote()}}).
			Build(cfg.Name + "." + name + "TLB")
		assign(reg, t, tc.Buf, "Top", "Bottom", "Control")
		s.TLBs[i] = t
		reqPorts[below] = append(reqPorts[below], t.GetPortByName("Bottom"))
		levels = append(levels, &Level{Name: name, Kind: "tlb", Comp: t, Caching: true, Latency: ts.Latency})
		below, belowTop = name, t.GetPortByName("Top")
	}

	// --- address translator and memory
	if cfg.AT != nil {
		is := idealmemcontroller.DefaultSpec()
		is.Latency = pos(cfg.AT.MemLatency, 3)
		is.Width = pos(cfg.AT.MemWidth, 2)
		is.Capacity = uint64(cfg.NumPPages+1) << cfg.Log2Page
		s.Storage = mem.MakeStorageBuilder().WithCapacity(is.Capacity).WithSimulation(reg).Build(cfg.Name + ".Mem.Storage")
		s.Mem = idealmemcontroller.MakeBuilder().WithRegistrar(reg).WithSpec(is).
			WithResources(idealmemcontroller.Resources{Storage: s.Storage}).Build(cfg.Name + ".Mem")
		assign(reg, s.Mem, cfg.AT.MemBuf, "Top", "Control")
		as := addresstranslator.DefaultSpec()
		as.Log2PageSize = cfg.Log2Page
		as.NumReqPerCycle = pos(cfg.AT.Width, 1)
		s.AT = addresstranslator.MakeBuilder().WithRegistrar(reg).WithSpec(as).
			WithResources(addresstranslator.Resources{
				MemProviderMapper:         &mem.SinglePortMapper{Port: s.Mem.GetPortByName("Top").AsRemote()},
				TranslationProviderMapper: &mem.SinglePortMapper{Port: belowTop.AsRemote()},
			}).Build(cfg.Name + ".AT")
		assign(reg, s.AT, cfg.AT.Buf, "Top", "Bottom", "Translation", "Control")
		reqPorts[below] = append(reqPorts[below], s.AT.GetPortByName("Translation"))
		conn("ConnMem", s.AT.GetPortByName("Bottom"), s.Mem.GetPortByName("Top"))
		levels = append(levels, &Level{Name: "AT", Kind: "at", Comp: s.AT})
		s.FillSignature()
	}
	if mcUp != nil {
		// the port that was promised to the MMU cache must be the one that exists
		found := false
		for _, p := range reqPorts["MC"] {
			found = found || p.AsRemote() == *mcUp
		}
		if !found {
			panic("vmstack: MMU cache upstream port " + string(*mcUp) + " was not built")
		}
	}

	// top-down order
	for i := len(levels) - 1; i >= 0; i-- {
		l := levels[i]
		l.Top = l.Comp.GetPortByName("Top")
		l.Control = l.Comp.GetPortByName("Control")
		s.Levels = append(s.Levels, l)
	}

	// --- agents
	for ai, ac := range cfg.Agents {
		l := s.Level(ac.At)
		if l == nil {
			panic("vmstack: agent " + ac.Name + " attached to missing level " + ac.At)
		}
		if l.Kind == "mmucache" {
			panic("vmstack: the MMU cache answers one fixed upstream port; no agent can be attached to it")
		}
		a := newAgent(s, reg, ac, l, ai)
		s.Agents = append(s.Agents, a)
		reqPorts[l.Name] = append(reqPorts[l.Name], a.port)
	}

	// --- one connection per served Top port
	for _, l := range s.Levels {
		if len(reqPorts[l.Name]) == 0 {
			continue
		}
		conn("Conn"+l.Name, append([]messaging.Port{l.Top}, reqPorts[l.Name]...)...)
	}

	// --- control plane
	s.Ctrl = newController(cfg.Name + ".Ctrl")
	cports := []messaging.Port{s.Ctrl.port}
	for _, l := range s.Levels {
		cports = append(cports, l.Control)
	}
	if s.Mem != nil {
		cports = append(cports, s.Mem.GetPortByName("Control"))
	}
	conn("ConnCtrl", cports...)
	return s
}

// upstreamOfMMUCache names the Bottom/Translation port of the component that will
// sit directly above the MMU cache.
func upstreamOfMMUCache(cfg Config) messaging.RemotePort {
	if n := len(cfg.TLBs); n > 0 {
		return messaging.RemotePort(fmt.Sprintf("%s.L%dTLB.Bottom", cfg.Name, n))
	}
	if cfg.AT != nil {
		return messaging.RemotePort(cfg.Name + ".AT.Translation")
	}
	panic("vmstack: an MMU cache needs a TLB or an address translator above it")
}

// FillSignature writes, into every aligned 8-byte word of the physical memory, the
// physical address of that word: the data a read returns tells which physical
// address it reached.
func (s *Stack) FillSignature() {
	page := uint64(1) << s.Cfg.Log2Page
	buf := make([]byte, page)
	for p := uint64(0); p < uint64(s.Cfg.NumPPages+1); p++ {
		for o := uint64(0); o < page; o += 8 {
			binary.LittleEndian.PutUint64(buf[o:], p*page+o)
		}
		if err := s.Storage.Write(p*page, buf); err != nil {
			panic(err)
		}
	}
}

// Map installs or changes one page-table entry (directly on the shared table).
func (s *Stack) Map(pid uint32, vpn, ppn, dev uint64) {
	pg := vm.Page{PID: vm.PID(pid), VAddr: vpn << s.Cfg.Log2Page, PAddr: ppn << s.Cfg.Log2Page,
		PageSize: 1 << s.Cfg.Log2Page, Valid: true, DeviceID: dev, Unified: true}
	if _, found := s.PageTable.Find(pg.PID, pg.VAddr); found {
		s.PageTable.Update(pg)
	} else {
		s.PageTable.Insert(pg)
	}
}
