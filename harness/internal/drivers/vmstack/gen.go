package vmstack

import (
	"fmt"
	"math/rand"
	"sort"
)

// Bounds of the random generator.
type Bounds struct {
	Accesses int `json:"accesses"` // agent requests per case (over all rounds)
	Rounds   int `json:"rounds"`   // update/invalidate rounds per case
}

type pageKey struct {
	pid uint32
	vpn uint64
}

func pick[T any](rng *rand.Rand, xs ...T) T { return xs[rng.Intn(len(xs))] }

// RandomStack draws a stack shape and geometry.  flavour "" = anything valid (TLB
// latencies include 1: the single-stage pipeline defect W2 is repaired in the
// repository); "nomc" has no MMU cache, "mc" has one, "gmmu-remote"
// has a GMMU, "lat1" has one TLB with latency 1, "unaligned" has a TLB with an
// agent attached to it.
func RandomStack(rng *rand.Rand, name string, flavour string) Config {
	cfg := Config{Name: name, Log2Page: pick[uint64](rng, 12, 12, 16)}
	hasAT := rng.Intn(5) != 0
	ntlb := rng.Intn(3)
	if !hasAT && ntlb == 0 {
		ntlb = 1 + rng.Intn(2)
	}
	for i := 0; i < ntlb; i++ {
		cfg.TLBs = append(cfg.TLBs, TLBCfg{Sets: pick(rng, 1, 2, 4), Ways: pick(rng, 1, 2, 4), MSHR: pick(rng, 1, 2, 4),
			Latency: pick(rng, 1, 2, 2, 3, 4, 6), Width: pick(rng, 1, 2, 4), Buf: pick(rng, 1, 2, 4)})
	}
	if flavour == "lat1" {
		if len(cfg.TLBs) == 0 {
			cfg.TLBs = append(cfg.TLBs, TLBCfg{Sets: 2, Ways: 2, MSHR: 2, Width: 2, Buf: 2})
		}
		cfg.TLBs[rng.Intn(len(cfg.TLBs))].Latency = 1
	}
	if flavour == "unaligned" && len(cfg.TLBs) == 0 {
		cfg.TLBs = append(cfg.TLBs, TLBCfg{Sets: 2, Ways: 2, MSHR: 2, Latency: 2, Width: 2, Buf: 2})
	}
	if hasAT {
		cfg.AT = &ATCfg{Width: pick(rng, 1, 2, 4), Buf: pick(rng, 1, 2, 4), MemLatency: pick(rng, 1, 3, 10, 30),
			MemWidth: pick(rng, 1, 2, 4), MemBuf: pick(rng, 1, 2, 4)}
	}
	if flavour == "mc" || (flavour == "" && rng.Intn(6) == 0) {
		cfg.MMUCache = &MMUCacheCfg{Levels: pick(rng, 1, 2, 4), Blocks: pick(rng, 1, 2, 4), Width: pick(rng, 1, 2, 4),
			Buf: pick(rng, 1, 2, 4), LatencyPerLevel: pick[uint64](rng, 1, 10, 100)}
	}
	if flavour == "gmmu-remote" || rng.Intn(3) == 0 {
		cfg.GMMU = &WalkerCfg{Latency: pick(rng, 0, 1, 3, 8), MaxInFlight: pick(rng, 1, 2, 8), Buf: pick(rng, 1, 2, 4), DeviceID: 1}
	}
	cfg.MMU = WalkerCfg{Latency: pick(rng, 0, 1, 3, 10), MaxInFlight: pick(rng, 1, 2, 8), Buf: pick(rng, 1, 2, 4)}
	cfg.NumPPages = 48
	if hasAT {
		cfg.Agents = append(cfg.Agents, AgentCfg{Name: "A0", At: "AT", Window: pick(rng, 1, 2, 4, 8), Buf: pick(rng, 1, 2, 4)})
		if rng.Intn(3) == 0 {
			cfg.Agents = append(cfg.Agents, AgentCfg{Name: "A1", At: "AT", Window: pick(rng, 1, 4), Buf: 2})
		}
	}
	// translation requests straight into lower levels
	var direct []string
	for i := range cfg.TLBs {
		direct = append(direct, fmt.Sprintf("L%d", i+1))
	}
	if cfg.GMMU != nil {
		direct = append(direct, "GM")
	}
	direct = append(direct, "MMU")
	k := 0
	for _, lv := range direct {
		top := !hasAT && lv == direct[0]
		if top || rng.Intn(2) == 0 || (flavour == "unaligned" && lv == "L1") {
			cfg.Agents = append(cfg.Agents, AgentCfg{Name: fmt.Sprintf("T%d", k), At: lv, Window: pick(rng, 1, 2, 4, 8), Buf: pick(rng, 1, 2, 4)})
			k++
		}
	}
	return cfg
}

type gen struct {
	rng      *rand.Rand
	cfg      Config
	pt       map[pageKey]uint64
	dev      map[pageKey]uint64
	keys     []pageKey
	free     []uint64
	prog     []Step
	hot      []pageKey
	splitTLB bool // agents attached to TLBs also send addresses that are not page-aligned
}

func (g *gen) mapPage(k pageKey, ppn uint64) {
	g.pt[k] = ppn
	g.prog = append(g.prog, Step{Op: "map", PID: k.pid, VPN: k.vpn, PPN: ppn, Dev: g.dev[k]})
}

func (g *gen) takeFree() uint64 {
	i := g.rng.Intn(len(g.free))
	p := g.free[i]
	g.free = append(g.free[:i], g.free[i+1:]...)
	return p
}

func (g *gen) access(mem bool, atWalker bool) Access {
	var k pageKey
	if g.rng.Intn(3) != 0 {
		k = g.hot[g.rng.Intn(len(g.hot))]
	} else {
		k = g.keys[g.rng.Intn(len(g.keys))]
	}
	page := uint64(1) << g.cfg.Log2Page
	a := Access{PID: k.pid, VPN: k.vpn}
	switch {
	case mem:
		a.Write = g.rng.Intn(4) == 0
		a.Off = uint64(g.rng.Intn(int(page/16))) * 8 // reads: lower half, 8-aligned
		if a.Write {
			a.Off += page / 2 // writes: upper half, so that no read ever sees a write tag
		}
	case (atWalker || g.splitTLB) && g.rng.Intn(2) == 0:
		a.Off = uint64(g.rng.Intn(int(page)))
	}
	return a
}

func (g *gen) traffic(n int) {
	if n <= 0 {
		return
	}
	per := n/len(g.cfg.Agents) + 1
	for _, ag := range g.cfg.Agents {
		var acc []Access
		for i := 0; i < per; i++ {
			acc = append(acc, g.access(ag.At == "AT", ag.At == "MMU" || ag.At == "GM" || ag.At == "MC"))
		}
		g.prog = append(g.prog, Step{Op: "traffic", Agent: ag.Name, Accesses: acc})
	}
}

func (g *gen) levels() (all []string, caching []string) {
	if g.cfg.AT != nil {
		all = append(all, "AT")
	}
	for i := range g.cfg.TLBs {
		n := fmt.Sprintf("L%d", i+1)
		all = append(all, n)
		caching = append(caching, n)
	}
	if g.cfg.MMUCache != nil {
		all = append(all, "MC")
		caching = append(caching, "MC")
	}
	if g.cfg.GMMU != nil {
		all = append(all, "GM")
	}
	all = append(all, "MMU")
	return
}

// RandomCase draws a stack, a page table and a program of update/invalidate rounds.
//
//	mode idle   traffic runs to completion, then the caching levels are paused
//	mode drain  traffic is in flight; every level is drained top-down
//	mode pause  traffic is in flight; the caching levels are only paused
func RandomCase(rng *rand.Rand, name string, b Bounds, flavour string, modes []string) Case {
	cfg := RandomStack(rng, name, flavour)
	g := &gen{rng: rng, cfg: cfg, pt: map[pageKey]uint64{}, dev: map[pageKey]uint64{}, splitTLB: flavour == "unaligned"}
	for p := uint64(1); p <= uint64(cfg.NumPPages); p++ {
		g.free = append(g.free, p)
	}
	npid := 1 + rng.Intn(3)
	pids := rng.Perm(5)[:npid] // 0..4; PID 0 is an ordinary process for translation, the wildcard for Invalidate
	remote := cfg.GMMU != nil && flavour == "gmmu-remote"
	for _, p := range pids {
		nv := 3 + rng.Intn(8)
		base := uint64(rng.Intn(4))
		for v := 0; v < nv; v++ {
			k := pageKey{uint32(p), base + uint64(v)*pick[uint64](rng, 1, 1, 2)}
			if _, dup := g.pt[k]; dup {
				continue
			}
			g.dev[k] = 1
			if remote && rng.Intn(3) == 0 {
				g.dev[k] = 2
			}
			g.keys = append(g.keys, k)
			g.mapPage(k, g.takeFree())
		}
	}
	sort.Slice(g.keys, func(i, j int) bool {
		if g.keys[i].pid != g.keys[j].pid {
			return g.keys[i].pid < g.keys[j].pid
		}
		return g.keys[i].vpn < g.keys[j].vpn
	})
	for i := 0; i < 1+len(g.keys)/4; i++ {
		g.hot = append(g.hot, g.keys[rng.Intn(len(g.keys))])
	}
	all, caching := g.levels()
	perRound := b.Accesses / (b.Rounds + 1)
	usedModes := map[string]bool{}
	for round := 0; round < b.Rounds; round++ {
		mode := modes[rng.Intn(len(modes))]
		usedModes[mode] = true
		g.traffic(perRound)
		// which mappings change
		var changed []pageKey
		for i := 0; i < 1+rng.Intn(4); i++ {
			k := g.keys[rng.Intn(len(g.keys))]
			if rng.Intn(2) == 0 {
				k = g.hot[rng.Intn(len(g.hot))]
			}
			dup := false
			for _, c := range changed {
				dup = dup || c == k
			}
			if !dup {
				changed = append(changed, k)
			}
		}
		update := func() {
			if len(changed) >= 2 && rng.Intn(3) == 0 {
				// swap two mappings
				a, b2 := changed[0], changed[1]
				pa, pb := g.pt[a], g.pt[b2]
				g.mapPage(a, pb)
				g.mapPage(b2, pa)
				for _, k := range changed[2:] {
					old := g.pt[k]
					g.mapPage(k, g.takeFree())
					g.free = append(g.free, old)
				}
				return
			}
			for _, k := range changed {
				old := g.pt[k]
				g.mapPage(k, g.takeFree())
				g.free = append(g.free, old) // the old frame may be handed out again later
			}
		}
		updateFirst := rng.Intn(3) == 0
		if mode == "idle" {
			g.prog = append(g.prog, Step{Op: "run"})
		} else {
			g.prog = append(g.prog, Step{Op: "runfor", Cycles: rng.Intn(60)})
		}
		if updateFirst {
			update()
			if rng.Intn(2) == 0 {
				g.prog = append(g.prog, Step{Op: "runfor", Cycles: rng.Intn(20)})
			}
		}
		var stopped []string
		if mode == "drain" {
			for _, lv := range all {
				g.prog = append(g.prog, Step{Op: "ctrl", Level: lv, Cmd: "drain"})
				stopped = append(stopped, lv)
			}
		} else {
			for _, lv := range caching {
				g.prog = append(g.prog, Step{Op: "ctrl", Level: lv, Cmd: "pause"})
				stopped = append(stopped, lv)
			}
		}
		if !updateFirst {
			update()
		}
		// invalidate the affected entries at every caching level
		flavourInv := rng.Intn(3)
		for _, lv := range caching {
			switch flavourInv {
			case 0: // everything
				g.prog = append(g.prog, Step{Op: "ctrl", Level: lv, Cmd: "inv"})
			case 1: // the changed addresses, any process
				var vpns []uint64
				for _, k := range changed {
					vpns = append(vpns, k.vpn)
				}
				g.prog = append(g.prog, Step{Op: "ctrl", Level: lv, Cmd: "inv", VPNs: vpns,
					AddrOff: uint64(rng.Intn(2)) * uint64(rng.Intn(1<<cfg.Log2Page))})
			default: // per process: its changed addresses (PID 0 cannot be named: 0 means every process)
				by := map[uint32][]uint64{}
				var order []uint32
				for _, k := range changed {
					if _, ok := by[k.pid]; !ok {
						order = append(order, k.pid)
					}
					by[k.pid] = append(by[k.pid], k.vpn)
				}
				for _, p := range order {
					g.prog = append(g.prog, Step{Op: "ctrl", Level: lv, Cmd: "inv", PID: p, VPNs: by[p]})
				}
			}
		}
		for i := len(stopped) - 1; i >= 0; i-- {
			g.prog = append(g.prog, Step{Op: "ctrl", Level: stopped[i], Cmd: "enable"})
		}
		if rng.Intn(2) == 0 {
			g.traffic(perRound / 2)
			g.prog = append(g.prog, Step{Op: "quiesce"})
		}
	}
	g.traffic(perRound)
	g.prog = append(g.prog, Step{Op: "quiesce"})
	var ms []string
	for m := range usedModes {
		ms = append(ms, m)
	}
	sort.Strings(ms)
	return Case{Stack: cfg, Program: g.prog, Tags: map[string]any{"flavour": flavour, "modes": ms}}
}
