package vmstack

// C06 / C03 on translation stacks: the stacks of this package are built on a
// simulation.Simulation (BuildOn), driven by their traffic agents only, cut at event
// times (RunUntil + SaveCheckpoint, rebuild + LoadCheckpoint + Run) and compared with
// the uninterrupted run; and executed in several OS processes for determinism.
//
// Every simulation runs in its OWN OS process (os/exec of this binary, driver
// vmckpt_proc), as a real restore does: the repository keeps process-wide tracing
// side tables keyed by component name and message ID that would leak between
// simulations inside one process.

import (
	"archive/tar"
	"bytes"
	"compress/gzip"
	"crypto/sha256"
	"encoding/hex"
	"encoding/json"
	"fmt"
	"io"
	"math/rand"
	"os"
	"os/exec"
	"path/filepath"
	"regexp"
	"sort"
	"strings"
	"sync"

	"github.com/sarchlab/akita/v5/hooking"
	"github.com/sarchlab/akita/v5/mem/memprotocol"
	"github.com/sarchlab/akita/v5/mem/vm/vmprotocol"
	"github.com/sarchlab/akita/v5/messaging"
	"github.com/sarchlab/akita/v5/modeling"
	"github.com/sarchlab/akita/v5/simulation"
	"github.com/sarchlab/akita/v5/timing"

	"verif/harness/internal/reg"
)

const ckBuildID = "verif-build"

// TrafficCase draws a stack, a page table in which some physical pages are shared
// between processes (reverse lookup), and one script per agent, all enqueued at time 0.
func TrafficCase(rng *rand.Rand, name string, accesses int) Case {
	flavour := ""
	cfg := RandomStack(rng, name, flavour)
	// a small physical memory: every process of a cut builds, fills and archives it
	cfg.NumPPages = 20
	if cfg.Log2Page == 16 {
		cfg.NumPPages = 8
	}
	g := &gen{rng: rng, cfg: cfg, pt: map[pageKey]uint64{}, dev: map[pageKey]uint64{}}
	for p := uint64(1); p <= uint64(cfg.NumPPages); p++ {
		g.free = append(g.free, p)
	}
	pids := rng.Perm(5)[:2+rng.Intn(2)]
	var used []uint64
	for _, p := range pids {
		nv := 3 + rng.Intn(6)
		base := uint64(rng.Intn(4))
		for v := 0; v < nv; v++ {
			k := pageKey{uint32(p), base + uint64(v)}
			g.dev[k] = 1
			g.keys = append(g.keys, k)
			if len(used) > 0 && (len(g.free) == 0 || rng.Intn(4) == 0) {
				g.mapPage(k, used[rng.Intn(len(used))]) // a frame another mapping already uses
			} else {
				f := g.takeFree()
				used = append(used, f)
				g.mapPage(k, f)
			}
		}
	}
	for i := 0; i < 1+len(g.keys)/4; i++ {
		g.hot = append(g.hot, g.keys[rng.Intn(len(g.keys))])
	}
	g.traffic(accesses)
	return Case{Stack: cfg, Program: g.prog, Tags: map[string]any{"flavour": "traffic"}}
}

// ---------------------------------------------------------------- one simulation

type ckObs struct {
	s      *Stack
	eng    *timing.SerialEngine
	recs   []map[string]any
	agents map[messaging.Port]string
}

func (o *ckObs) now() int { return int(o.eng.CurrentTime()) }

// Func implements hooking.Hook: engine events and the agents' ports.
func (o *ckObs) Func(ctx hooking.HookCtx) {
	switch ctx.Pos {
	case timing.HookPosBeforeEvent:
		evt := ctx.Item.(timing.Event)
		rec := map[string]any{"e": "act", "t": int(evt.Time()), "c": evt.HandlerID()}
		if te, ok := evt.(modeling.TickEvent); ok {
			rec["id"] = int(te.ID)
		}
		o.recs = append(o.recs, rec)
	case messaging.HookPosPortMsgSend:
		a, ok := o.agents[ctx.Domain.(messaging.Port)]
		if !ok {
			return
		}
		msg := ctx.Item.(messaging.Msg)
		rec := map[string]any{"e": "issue", "a": a, "t": o.now(), "m": int(msg.Meta().ID)}
		switch m := msg.(type) {
		case vmprotocol.TranslationReq:
			rec["pid"], rec["va"], rec["k"] = int(m.PID), int(m.VAddr), "trans"
		case memprotocol.ReadReq:
			rec["pid"], rec["va"], rec["k"] = int(m.PID), int(m.Address), "read"
		case memprotocol.WriteReq:
			rec["pid"], rec["va"], rec["k"] = int(m.PID), int(m.Address), "write"
		}
		o.recs = append(o.recs, rec)
	case messaging.HookPosPortMsgRecvd:
		a, ok := o.agents[ctx.Domain.(messaging.Port)]
		if !ok {
			return
		}
		msg := ctx.Item.(messaging.Msg)
		rec := map[string]any{"e": "rsp", "a": a, "t": o.now(), "m": int(msg.Meta().ID), "to": int(msg.Meta().RspTo)}
		switch m := msg.(type) {
		case vmprotocol.TranslationRsp:
			rec["k"], rec["pa"], rec["pva"], rec["ppid"] = "trans", int(m.Page.PAddr), int(m.Page.VAddr), int(m.Page.PID)
		case memprotocol.DataReadyRsp:
			rec["k"], rec["data"] = "read", hex.EncodeToString(m.Data)
		case memprotocol.WriteDoneRsp:
			rec["k"] = "write"
		default:
			rec["k"] = fmt.Sprintf("%T", msg)
		}
		o.recs = append(o.recs, rec)
	}
}

// reverseLookups asks the page table which mapping owns each physical frame the case
// uses (frames shared between processes have several candidates): part of the observation.
func (o *ckObs) reverseLookups(c Case) {
	seen := map[uint64]bool{}
	for _, st := range c.Program {
		if st.Op != "map" || seen[st.PPN] {
			continue
		}
		seen[st.PPN] = true
		pa := st.PPN << c.Stack.Log2Page
		pg, found := o.s.PageTable.ReverseLookup(pa)
		o.recs = append(o.recs, map[string]any{"e": "rev", "pa": int(pa), "found": found, "pid": int(pg.PID), "va": int(pg.VAddr)})
	}
}

func resetIDs(start uint64) {
	timing.ResetIDGenerator()
	timing.UseSequentialIDGenerator()
	if start > 0 {
		timing.SetIDGeneratorNextID(start)
	}
}

// buildSim builds the case's stack on a checkpointable simulation.  fresh = also
// install the page table and hand the agents their scripts (a run that starts at time
// 0); a simulation that is going to load a checkpoint gets neither.
func buildSim(c Case, dir string, fresh bool) (*simulation.Simulation, *Stack, *ckObs) {
	sim := simulation.MakeBuilder().WithoutMonitoring().WithOutputFileName(filepath.Join(dir, "rec")).Build()
	s := BuildOn(sim, c.Stack)
	o := &ckObs{s: s, eng: sim.GetEngine().(*timing.SerialEngine), agents: map[messaging.Port]string{}}
	o.eng.AcceptHook(o)
	for _, a := range s.Agents {
		o.agents[a.port] = a.name
		a.port.AcceptHook(o)
	}
	if fresh {
		for _, st := range c.Program {
			switch st.Op {
			case "map":
				s.Map(st.PID, st.VPN, st.PPN, st.Dev)
			case "traffic":
				s.Agent(st.Agent).Enqueue(st.Accesses)
			}
		}
	}
	return sim, s, o
}

type ckProcIn struct {
	Mode  string `json:"mode"` // ref | a | b | canon | badpage
	Case  Case   `json:"case"`
	T     int    `json:"t"`
	Ck    string `json:"ck"`
	Final string `json:"final"`
	Dir   string `json:"dir"`
	Log2  uint64 `json:"log2"`     // badpage: page size of the rebuilt stack
	TLB   bool   `json:"tlb_only"` // badpage: only the TLBs get the other page size
}

type ckProcOut struct {
	Recs     []map[string]any `json:"recs"`
	Err      string           `json:"err"`
	Panicked string           `json:"panicked"`
	Loaded   bool             `json:"loaded"`
}

func safely(f func() error) (err error, panicked string) {
	defer func() {
		if r := recover(); r != nil {
			panicked = fmt.Sprint(r)
		}
	}()
	return f(), ""
}

func runCkProc(in ckProcIn) (out ckProcOut) {
	switch in.Mode {
	case "ref":
		resetIDs(0)
		sim, _, o := buildSim(in.Case, in.Dir, true)
		if err := o.eng.Run(); err != nil {
			out.Err = err.Error()
		}
		if err := sim.SaveCheckpoint(in.Final, ckBuildID); err != nil {
			out.Err = err.Error()
		}
		sim.Terminate()
		o.reverseLookups(in.Case)
		out.Recs = o.recs
	case "a":
		resetIDs(0)
		sim, _, o := buildSim(in.Case, in.Dir, true)
		_ = o.eng.RunUntil(timing.VTimeInPicoSec(in.T))
		if err := sim.SaveCheckpoint(in.Ck, ckBuildID); err != nil {
			out.Err = "save: " + err.Error()
		}
		sim.Terminate()
		out.Recs = o.recs
	case "b":
		resetIDs(777777) // another process starts with its own counter: the restore must set it
		sim, _, o := buildSim(in.Case, in.Dir, false)
		err, panicked := safely(func() error { return sim.LoadCheckpoint(in.Ck, ckBuildID) })
		if err != nil || panicked != "" {
			if err != nil {
				out.Err = err.Error()
			}
			out.Panicked = panicked
			return out
		}
		if _, panicked := safely(func() error { return o.eng.Run() }); panicked != "" {
			out.Panicked = "after the restore, while running: " + panicked
			return out
		}
		if err := sim.SaveCheckpoint(in.Final, ckBuildID); err != nil {
			out.Err = "save after resume: " + err.Error()
		}
		sim.Terminate()
		o.reverseLookups(in.Case)
		out.Recs = o.recs
	case "canon":
		resetIDs(424242)
		sim, _, _ := buildSim(in.Case, in.Dir, false)
		if err := sim.LoadCheckpoint(in.Ck, ckBuildID); err != nil {
			out.Err = err.Error()
			return out
		}
		if err := sim.SaveCheckpoint(in.Final, ckBuildID); err != nil {
			out.Err = err.Error()
		}
		sim.Terminate()
	case "badpage":
		resetIDs(555)
		c := in.Case
		if in.TLB {
			c.Stack.TLBLog2Page = in.Log2
		} else {
			c.Stack.Log2Page = in.Log2
		}
		var sim *simulation.Simulation
		_, panicked := safely(func() error { sim, _, _ = buildSim(c, in.Dir, false); return nil })
		if panicked != "" {
			out.Err = "the stack cannot be built with this page size: " + panicked
			return out
		}
		err, panicked := safely(func() error { return sim.LoadCheckpoint(in.Ck, ckBuildID) })
		out.Panicked = panicked
		if err != nil {
			out.Err = err.Error()
		}
		out.Loaded = err == nil && panicked == ""
		sim.Terminate()
	}
	return out
}

// ---------------------------------------------------------------- parent side

// scratchDir prefers a memory-backed directory: every child process creates (and syncs)
// a recorder database and checkpoint archives.
func scratchDir(prefix string) string {
	if st, err := os.Stat("/dev/shm"); err == nil && st.IsDir() {
		if d, err := os.MkdirTemp("/dev/shm", prefix); err == nil {
			return d
		}
	}
	d, _ := os.MkdirTemp("", prefix)
	return d
}

type ckRunner struct {
	dir   string
	nsim  int
	procs int // GOMAXPROCS of the child processes (0 = inherited)
}

func (k *ckRunner) exec(in ckProcIn) (ckProcOut, error) {
	in.Dir = k.dir
	k.nsim++
	inF := filepath.Join(k.dir, fmt.Sprintf("p%d.in", k.nsim))
	outF := filepath.Join(k.dir, fmt.Sprintf("p%d.out", k.nsim))
	b, _ := json.Marshal(in)
	if err := os.WriteFile(inF, b, 0o644); err != nil {
		return ckProcOut{}, err
	}
	cmd := exec.Command(os.Args[0], "vmckpt_proc", "-in", inF, "-out", outF)
	cmd.Dir = k.dir
	if k.procs > 0 {
		cmd.Env = append(os.Environ(), fmt.Sprintf("GOMAXPROCS=%d", k.procs))
	}
	if o, err := cmd.CombinedOutput(); err != nil {
		return ckProcOut{}, fmt.Errorf("child process failed: %v: %s", err, clip(o))
	}
	var out ckProcOut
	ob, err := os.ReadFile(outF)
	if err != nil {
		return out, err
	}
	dec := json.NewDecoder(bytes.NewReader(ob))
	dec.UseNumber()
	if err := dec.Decode(&out); err != nil {
		return out, err
	}
	for _, r := range out.Recs {
		for f, v := range r {
			if n, ok := v.(json.Number); ok {
				i, _ := n.Int64()
				r[f] = int(i)
			}
		}
	}
	_ = os.Remove(inF)
	_ = os.Remove(outF)
	return out, nil
}

func readArchive(path string) (map[string][]byte, error) {
	f, err := os.Open(path)
	if err != nil {
		return nil, err
	}
	defer f.Close()
	gz, err := gzip.NewReader(f)
	if err != nil {
		return nil, err
	}
	tr := tar.NewReader(gz)
	out := map[string][]byte{}
	for {
		h, err := tr.Next()
		if err == io.EOF {
			break
		}
		if err != nil {
			return nil, err
		}
		b, err := io.ReadAll(tr)
		if err != nil {
			return nil, err
		}
		out[h.Name] = b
	}
	return out, nil
}

func clip(b []byte) string {
	s := string(bytes.TrimSpace(b))
	if len(s) > 400 {
		return s[:400] + "…"
	}
	return s
}

var idField = regexp.MustCompile(`"([A-Za-z_]*(?:id|ID|Id)|RspTo|rsp_to)":\s*\d+`)
var idList = regexp.MustCompile(`"outstanding":\s*\[[\d,\s]*\]`)
var idKey = regexp.MustCompile(`"(outstanding_bottom_reqs|inflight_reqs|remote_mem_reqs)":\s*\{[^{}]*(?:\{[^{}]*\}[^{}]*)*\}`)

// maskIDs erases generated IDs from an entity payload.
func maskIDs(b []byte) []byte {
	b = idField.ReplaceAll(b, []byte(`"$1":0`))
	b = idList.ReplaceAll(b, []byte(`"outstanding":[]`))
	return idKey.ReplaceAll(b, []byte(`"$1":{}`))
}

// canonIDs renames event IDs and message IDs by order of first appearance.
func canonIDs(recs []map[string]any) []map[string]any {
	ev, ms := map[any]int{}, map[any]int{0: 0}
	out := make([]map[string]any, len(recs))
	for i, r := range recs {
		c := map[string]any{}
		for k, v := range r {
			c[k] = v
		}
		if v, ok := c["id"]; ok {
			if _, seen := ev[v]; !seen {
				ev[v] = len(ev) + 1
			}
			c["id"] = ev[v]
		}
		for _, f := range []string{"to", "m"} {
			if v, ok := c[f]; ok {
				if _, seen := ms[v]; !seen {
					ms[v] = len(ms)
				}
				c[f] = ms[v]
			}
		}
		out[i] = c
	}
	return out
}

func recJSON(r map[string]any) []byte { b, _ := json.Marshal(r); return b }

func firstDiff(want, got []map[string]any) string {
	n := len(want)
	if len(got) < n {
		n = len(got)
	}
	for i := 0; i < n; i++ {
		if !bytes.Equal(recJSON(want[i]), recJSON(got[i])) {
			return fmt.Sprintf("record %d after the cut: uninterrupted %s, resumed %s", i, recJSON(want[i]), recJSON(got[i]))
		}
	}
	if len(want) != len(got) {
		return fmt.Sprintf("uninterrupted run has %d records after the cut, resumed run %d", len(want), len(got))
	}
	return ""
}

// requesterView keeps what a requester sees: issue/response records without IDs.
func requesterView(recs []map[string]any) []map[string]any {
	var out []map[string]any
	for _, r := range recs {
		if r["e"] == "act" {
			continue
		}
		c := map[string]any{}
		for k, v := range r {
			if k != "m" && k != "to" {
				c[k] = v
			}
		}
		out = append(out, c)
	}
	return out
}

func actTimes(recs []map[string]any) []int {
	seen := map[int]bool{}
	var out []int
	for _, r := range recs {
		if r["e"] == "act" {
			if t := r["t"].(int); !seen[t] {
				seen[t] = true
				out = append(out, t)
			}
		}
	}
	return out
}

// inFlightTimes are the event times at which some agent still waits for a response.
func inFlightTimes(recs []map[string]any) []int {
	open := 0
	seen := map[int]bool{}
	var out []int
	for _, r := range recs {
		switch r["e"] {
		case "issue":
			open++
		case "rsp":
			open--
		case "act":
			if t := r["t"].(int); open > 0 && !seen[t] {
				seen[t] = true
				out = append(out, t)
			}
		}
	}
	return out
}

func suffixAfter(recs []map[string]any, t int) []map[string]any {
	for i, r := range recs {
		if (r["e"] == "act" && r["t"].(int) > t) || r["e"] == "rev" {
			return recs[i:]
		}
	}
	return nil
}

// componentOf names the kind of entity a checkpoint entry belongs to.
func componentOf(entity string) string {
	e := strings.TrimPrefix(entity, "entities/")
	parts := strings.Split(e, ".")
	if len(parts) < 2 {
		return e
	}
	kind := parts[1]
	switch {
	case strings.HasSuffix(kind, "TLB"):
		kind = "tlb"
	case kind == "AT":
		kind = "addresstranslator"
	case kind == "MC":
		kind = "mmucache"
	case kind == "GMMU":
		kind = "gmmu"
	case kind == "MMU":
		kind = "mmu"
	case kind == "Mem":
		kind = "idealmemcontroller"
	case kind == "PT":
		kind = "pagetable"
	case strings.HasPrefix(kind, "Conn"):
		kind = "connection"
	case strings.HasPrefix(kind, "A") || strings.HasPrefix(kind, "T"):
		kind = "agent"
	}
	if len(parts) > 2 {
		if parts[len(parts)-1] == "Storage" {
			return "storage"
		}
		return kind + ".port"
	}
	return kind
}

type ckMismatch struct {
	System    int    `json:"system"`
	Cut       int    `json:"cut"`
	Kind      string `json:"kind"`  // suffix | requester | final | load_error | panic | canonical | save_error | page_size
	Class     string `json:"class"` // ids_only: equal once generated IDs are erased; real: differs beyond IDs
	InBuf     bool   `json:"msg_in_buffer_at_cut"`
	InFlight  bool   `json:"request_in_flight_at_cut"` // some requester was waiting for a response at the cut
	Entity    string `json:"entity,omitempty"`
	Component string `json:"component,omitempty"`
	Detail    string `json:"detail"`
	Shape     string `json:"shape"`
	Case      *Case  `json:"case,omitempty"`
}

func shapeOf(c Config) string {
	var p []string
	if c.AT != nil {
		p = append(p, "AT")
	}
	for range c.TLBs {
		p = append(p, "TLB")
	}
	if c.MMUCache != nil {
		p = append(p, "MMUCache")
	}
	if c.GMMU != nil {
		p = append(p, "GMMU")
	}
	return strings.Join(append(p, "MMU"), ">")
}

func runCuts(raw json.RawMessage) (any, error) {
	var in struct {
		Seed     int64  `json:"seed"`
		Stacks   int    `json:"stacks"`
		Accesses int    `json:"accesses"`
		MaxCuts  int    `json:"max_cuts"` // 0 = every distinct event time
		Workers  int    `json:"workers"`
		Cases    []Case `json:"cases"`
	}
	if err := json.Unmarshal(raw, &in); err != nil {
		return nil, err
	}
	rng := rand.New(rand.NewSource(in.Seed))
	all := in.Cases
	for i := 0; i < in.Stacks; i++ {
		all = append(all, TrafficCase(rng, fmt.Sprintf("S%d", len(all)), in.Accesses))
	}
	dir := scratchDir("vmckpt-")
	defer os.RemoveAll(dir)
	workers := in.Workers
	if workers <= 0 {
		workers = 6
	}
	results := make([]*stackResult, len(all))
	jobs := make(chan int)
	var wg sync.WaitGroup
	for w := 0; w < workers; w++ {
		wg.Add(1)
		go func() {
			defer wg.Done()
			for si := range jobs {
				sd := filepath.Join(dir, fmt.Sprintf("s%d", si))
				_ = os.MkdirAll(sd, 0o755)
				results[si] = cutStack(&ckRunner{dir: sd, procs: 2}, si, &all[si], in.MaxCuts, rand.New(rand.NewSource(in.Seed*7919+int64(si))))
				_ = os.RemoveAll(sd)
			}
		}()
	}
	for si := range all {
		jobs <- si
	}
	close(jobs)
	wg.Wait()
	tot := &stackResult{}
	var shapes []string
	var sample map[string]any
	for si, r := range results {
		shapes = append(shapes, shapeOf(all[si].Stack))
		if r.fatal != nil {
			return nil, r.fatal
		}
		tot.cuts += r.cuts
		tot.events += r.events
		tot.entities += r.entities
		tot.exact += r.exact
		tot.inflightCuts += r.inflightCuts
		tot.idleCuts += r.idleCuts
		tot.pageChecks += r.pageChecks
		for _, m := range r.mm {
			if len(tot.mm) >= 40 {
				m.Case = nil
			}
			tot.mm = append(tot.mm, m)
		}
		if sample == nil {
			sample = r.sample
		}
	}
	return map[string]any{"systems": len(all), "cuts": tot.cuts, "events": tot.events, "entities": tot.entities, "exact": tot.exact,
		"cuts_with_requests_in_flight": tot.inflightCuts, "cuts_at_rest": tot.idleCuts, "page_size_checks": tot.pageChecks,
		"mismatches": tot.mm, "sample": sample, "shapes": shapes}, nil
}

type stackResult struct {
	mm                                                                []ckMismatch
	cuts, events, entities, exact, inflightCuts, idleCuts, pageChecks int
	sample                                                            map[string]any
	fatal                                                             error
}

// cutStack: reference run of one case, then every (sampled) cut of it.
func cutStack(k *ckRunner, si int, c *Case, maxCuts int, rng *rand.Rand) *stackResult {
	res := &stackResult{}
	dir := k.dir
	waiting := map[int]bool{}
	add := func(m ckMismatch, c *Case) {
		m.Shape = shapeOf(c.Stack)
		m.Case = c
		m.InFlight = waiting[m.Cut]
		res.mm = append(res.mm, m)
	}
	fail := func(err error) *stackResult { res.fatal = err; return res }
	{
		final := filepath.Join(dir, "final.ckpt")
		ref, err := k.exec(ckProcIn{Mode: "ref", Case: *c, Final: final})
		if err == nil && ref.Err != "" {
			err = fmt.Errorf("%s", ref.Err)
		}
		if err != nil {
			add(ckMismatch{System: si, Cut: -1, Kind: "save_error", Detail: err.Error()}, c)
			return res
		}
		refFinal, err := readArchive(final)
		if err != nil {
			return fail(err)
		}
		res.entities += len(refFinal)
		times := actTimes(ref.Recs)
		inflight := waiting
		for _, t := range inFlightTimes(ref.Recs) {
			inflight[t] = true
		}
		if maxCuts > 0 && len(times) > maxCuts {
			var fl, rest []int
			for _, t := range times {
				if inflight[t] {
					fl = append(fl, t)
				} else {
					rest = append(rest, t)
				}
			}
			rng.Shuffle(len(times), func(i, j int) { times[i], times[j] = times[j], times[i] })
			times = times[:maxCuts]
			if len(fl) > 0 {
				times[0] = fl[rng.Intn(len(fl))] // at least one cut with translations in flight
			}
			if len(rest) > 0 && maxCuts > 1 {
				times[1] = rest[rng.Intn(len(rest))] // and one while no requester waits for anything
			}
			if maxCuts > 1 && times[0] == times[1] {
				times = times[1:]
			}
		}
		pageChecked := false
		for _, t := range times {
			res.cuts++
			if inflight[t] {
				res.inflightCuts++
			} else {
				res.idleCuts++
			}
			ck := filepath.Join(dir, fmt.Sprintf("cut%d.ckpt", t))
			a, err := k.exec(ckProcIn{Mode: "a", Case: *c, T: t, Ck: ck})
			if err == nil && a.Err != "" {
				err = fmt.Errorf("%s", a.Err)
			}
			if err != nil {
				add(ckMismatch{System: si, Cut: t, Kind: "save_error", Detail: err.Error()}, c)
				continue
			}
			fp := filepath.Join(dir, "finalB.ckpt")
			b, err := k.exec(ckProcIn{Mode: "b", Case: *c, Ck: ck, Final: fp})
			if err != nil {
				return fail(err)
			}
			if b.Panicked != "" {
				add(ckMismatch{System: si, Cut: t, Kind: "panic", Class: "real", Detail: b.Panicked}, c)
				continue
			}
			if b.Err != "" {
				add(ckMismatch{System: si, Cut: t, Kind: "load_error", Class: "real", Detail: b.Err}, c)
				continue
			}
			arch, err := readArchive(ck)
			if err != nil {
				return fail(err)
			}
			inBuf := false
			for _, d := range arch {
				if bytes.Contains(d, []byte(`"capacity"`)) && bytes.Contains(d, []byte(`"elements":[{`)) {
					inBuf = true
				}
			}
			want := suffixAfter(ref.Recs, t)
			res.events += len(b.Recs)
			clean := true
			if d := firstDiff(want, b.Recs); d != "" {
				clean = false
				class := "real"
				if firstDiff(canonIDs(want), canonIDs(b.Recs)) == "" {
					class = "ids_only"
				}
				m := ckMismatch{System: si, Cut: t, Kind: "suffix", Class: class, InBuf: inBuf, Detail: d}
				if class == "real" {
					if dr := firstDiff(requesterView(want), requesterView(b.Recs)); dr != "" {
						m.Kind, m.Detail = "requester", dr
					}
				}
				add(m, c)
			}
			finalB, err := readArchive(fp)
			if err != nil {
				return fail(err)
			}
			var names []string
			for n := range refFinal {
				names = append(names, n)
			}
			sort.Strings(names)
			for _, name := range names {
				data := refFinal[name]
				if bytes.Equal(data, finalB[name]) {
					continue
				}
				clean = false
				class := "real"
				if bytes.Equal(maskIDs(data), maskIDs(finalB[name])) {
					class = "ids_only"
				}
				add(ckMismatch{System: si, Cut: t, Kind: "final", Class: class, InBuf: inBuf, Entity: name, Component: componentOf(name),
					Detail: fmt.Sprintf("uninterrupted %s, resumed %s", clip(data), clip(finalB[name]))}, c)
				if class == "real" {
					break
				}
			}
			if len(finalB) != len(refFinal) {
				add(ckMismatch{System: si, Cut: t, Kind: "final", Class: "real", Entity: "<entity set>", Detail: "different entity sets"}, c)
			}
			if clean {
				res.exact++
			}
			// load + save again must reproduce the archive byte for byte
			again := ck + ".again"
			cn, err := k.exec(ckProcIn{Mode: "canon", Case: *c, Ck: ck, Final: again})
			if err != nil {
				return fail(err)
			}
			if cn.Err != "" {
				add(ckMismatch{System: si, Cut: t, Kind: "load_error", Class: "real", Detail: "canonical reload: " + cn.Err}, c)
			} else {
				x, _ := os.ReadFile(ck)
				y, _ := os.ReadFile(again)
				if !bytes.Equal(x, y) {
					ay, _ := readArchive(again)
					d := "archive bytes differ"
					ent := ""
					for n := range arch {
						if !bytes.Equal(arch[n], ay[n]) {
							ent = n
							d = fmt.Sprintf("entry %s: saved %s, saved again after load %s", n, clip(arch[n]), clip(ay[n]))
						}
					}
					add(ckMismatch{System: si, Cut: t, Kind: "canonical", Class: "real", Entity: ent, Component: componentOf(ent), Detail: d}, c)
				}
				_ = os.Remove(again)
			}
			// a stack rebuilt with another page size must refuse the checkpoint
			if !pageChecked || maxCuts == 0 && rng.Intn(20) == 0 {
				pageChecked = true
				other := uint64(16)
				if c.Stack.Log2Page == 16 {
					other = 12
				}
				variants := []bool{false}
				if len(c.Stack.TLBs) > 0 {
					variants = append(variants, true)
				}
				for _, tlbOnly := range variants {
					res.pageChecks++
					bp, err := k.exec(ckProcIn{Mode: "badpage", Case: *c, Ck: ck, Log2: other, TLB: tlbOnly})
					if err != nil {
						return fail(err)
					}
					what := "every component"
					if tlbOnly {
						what = "the TLBs only"
					}
					if bp.Panicked != "" {
						add(ckMismatch{System: si, Cut: t, Kind: "page_size", Class: "panic",
							Detail: fmt.Sprintf("LoadCheckpoint into a stack rebuilt with log2 page size %d for %s panicked: %s", other, what, bp.Panicked)}, c)
					} else if bp.Loaded {
						add(ckMismatch{System: si, Cut: t, Kind: "page_size", Class: "accepted",
							Detail: fmt.Sprintf("LoadCheckpoint into a stack rebuilt with log2 page size %d for %s succeeded", other, what)}, c)
					}
				}
			}
			_ = os.Remove(ck)
			if res.sample == nil && len(b.Recs) > 6 && inflight[t] {
				res.sample = map[string]any{"shape": shapeOf(c.Stack), "cut_ps": t, "entities": len(refFinal), "msg_in_buffer_at_cut": inBuf,
					"first_resumed_records": b.Recs[:4]}
			}
		}
	}
	return res
}

// runDet: every stack once, full observation, written as one stream (C03).
func runDet(raw json.RawMessage) (any, error) {
	var in struct {
		Seed     int64  `json:"seed"`
		Stacks   int    `json:"stacks"`
		Accesses int    `json:"accesses"`
		Out      string `json:"out"`
	}
	if err := json.Unmarshal(raw, &in); err != nil {
		return nil, err
	}
	rng := rand.New(rand.NewSource(in.Seed))
	dir := scratchDir("vmdet-")
	defer os.RemoveAll(dir)
	k := &ckRunner{dir: dir}
	f, err := os.Create(in.Out)
	if err != nil {
		return nil, err
	}
	defer f.Close()
	enc := json.NewEncoder(f)
	n, shared := 0, 0
	var shapes []string
	for i := 0; i < in.Stacks; i++ {
		c := TrafficCase(rng, fmt.Sprintf("S%d", i), in.Accesses)
		shapes = append(shapes, shapeOf(c.Stack))
		frames := map[uint64]int{}
		for _, st := range c.Program {
			if st.Op == "map" {
				frames[st.PPN]++
			}
		}
		for _, cnt := range frames {
			if cnt > 1 {
				shared++
			}
		}
		final := filepath.Join(dir, "final.ckpt")
		ref, err := k.exec(ckProcIn{Mode: "ref", Case: c, Final: final})
		if err != nil {
			return nil, err
		}
		if ref.Err != "" {
			return nil, fmt.Errorf("stack %d: %s", i, ref.Err)
		}
		for _, r := range ref.Recs {
			r["sys"] = i
			_ = enc.Encode(r)
			n++
		}
		arch, err := readArchive(final)
		if err != nil {
			return nil, err
		}
		var names []string
		for nme := range arch {
			names = append(names, nme)
		}
		sort.Strings(names)
		for _, nme := range names {
			sum := sha256.Sum256(arch[nme])
			_ = enc.Encode(map[string]any{"e": "final", "sys": i, "entity": nme, "sha": hex.EncodeToString(sum[:8]), "data": clip(arch[nme])})
			n++
		}
	}
	return map[string]any{"systems": in.Stacks, "records": n, "shared_frames": shared, "shapes": shapes}, nil
}

func init() {
	reg.Register("vmckpt_proc", func(raw json.RawMessage) (any, error) {
		var in ckProcIn
		if err := json.Unmarshal(raw, &in); err != nil {
			return nil, err
		}
		return runCkProc(in), nil
	})
	reg.Register("vmckpt_cuts", runCuts)
	reg.Register("vmdet_run", runDet)
}
