package vmstack

import (
	"encoding/binary"

	"github.com/sarchlab/akita/v5/hooking"
	"github.com/sarchlab/akita/v5/mem/memcontrolprotocol"
	"github.com/sarchlab/akita/v5/mem/memprotocol"
	"github.com/sarchlab/akita/v5/mem/vm"
	"github.com/sarchlab/akita/v5/mem/vm/vmprotocol"
	"github.com/sarchlab/akita/v5/messaging"
	"github.com/sarchlab/akita/v5/modeling"
	"github.com/sarchlab/akita/v5/timing"
)

// Access is one scripted access / translation request.
type Access struct {
	PID   uint32 `json:"pid"`
	VPN   uint64 `json:"vpn"`
	Off   uint64 `json:"off"`
	Write bool   `json:"write,omitempty"`
}

// WriteTagBit marks the 8-byte payload of a scripted write as a tag (the low bits
// number the write), so that it can never be mistaken for an address signature.
const WriteTagBit = uint64(1) << 62

// AgentSpec is the immutable configuration of a traffic agent.
type AgentSpec struct {
	Mem      bool   `json:"mem"`       // memory accesses (to the AT) or translation requests
	Window   int    `json:"window"`    // outstanding requests allowed
	Log2Page uint64 `json:"log2_page"` // page size of the stack
	Dst      string `json:"dst"`       // the Top port the agent talks to
	Index    int    `json:"index"`     // position among the stack's agents (numbers the write tags)
}

// AgentState is the agent's progress.  It is the component's checkpointed State, so
// that a resumed run continues the same stream: the script not sent yet, the IDs of
// the requests still unanswered, and the counters.
type AgentState struct {
	Queue       []Access `json:"queue"`
	Outstanding []uint64 `json:"outstanding"`
	Sent        int      `json:"sent"`
	Received    int      `json:"received"`
	Foreign     int      `json:"foreign"`
	Tags        uint64   `json:"tags"`
}

// Agent is a ticking traffic source with a bounded number of outstanding requests.
type Agent struct {
	*modeling.Component[AgentSpec, AgentState, modeling.None]
	name string
	port messaging.Port
}

type agentMW struct{ a *Agent }

func newAgent(s *Stack, reg modeling.Registrar, ac AgentCfg, l *Level, index int) *Agent {
	a := &Agent{name: ac.Name}
	a.Component = modeling.NewBuilder[AgentSpec, AgentState, modeling.None]().
		WithEngine(s.Engine).WithFreq(1 * timing.GHz).
		WithSpec(AgentSpec{Mem: l.Kind == "at", Window: pos(ac.Window, 4), Log2Page: s.Cfg.Log2Page,
			Dst: string(l.Top.AsRemote()), Index: index}).Build(s.Cfg.Name + "." + ac.Name)
	a.AddMiddleware(&agentMW{a: a})
	if l.Kind == "at" {
		a.DeclarePort("Out", memprotocol.Requester)
	} else {
		a.DeclarePort("Out", vmprotocol.Requester)
	}
	reg.RegisterComponent(a.Component)
	a.port = modeling.MakePortBuilder().WithRegistrar(reg).WithComponent(a.Component).
		WithSpec(modeling.PortSpec{BufSize: pos(ac.Buf, 2)}).Build("Out")
	a.AssignPort("Out", a.port)
	return a
}

// Port returns the agent's only port.
func (a *Agent) Port() messaging.Port { return a.port }

// AgentName returns the short name given in the configuration.
func (a *Agent) AgentName() string { return a.name }

// Enqueue appends accesses to the agent's script and wakes it up.
func (a *Agent) Enqueue(acc []Access) {
	a.State.Queue = append(a.State.Queue, acc...)
	a.TickLater()
}

// Pending is the number of scripted accesses not sent yet.
func (a *Agent) Pending() int { return len(a.State.Queue) }

// Sent is the number of requests issued so far.
func (a *Agent) Sent() int { return a.State.Sent }

func (m *agentMW) Tick() bool {
	a := m.a
	st := &a.State
	progress := false
	for msg := a.port.RetrieveIncoming(); msg != nil; msg = a.port.RetrieveIncoming() {
		progress = true
		switch msg.(type) {
		case vmprotocol.TranslationRsp, memprotocol.DataReadyRsp, memprotocol.WriteDoneRsp:
			st.Received++
			to := msg.Meta().RspTo
			for i, id := range st.Outstanding {
				if id == to {
					st.Outstanding = append(st.Outstanding[:i], st.Outstanding[i+1:]...)
					break
				}
			}
		default:
			st.Foreign++
		}
	}
	for len(st.Queue) > 0 && st.Sent-st.Received < a.Spec().Window && a.port.CanSend() {
		x := st.Queue[0]
		st.Queue = st.Queue[1:]
		msg := a.message(x)
		st.Outstanding = append(st.Outstanding, msg.Meta().ID)
		a.port.Send(msg)
		st.Sent++
		progress = true
	}
	return progress
}

func (a *Agent) message(x Access) messaging.Msg {
	spec := a.Spec()
	vaddr := x.VPN<<spec.Log2Page + x.Off
	meta := messaging.MsgMeta{ID: timing.GetIDGenerator().Generate(), Src: a.port.AsRemote(), Dst: messaging.RemotePort(spec.Dst)}
	switch {
	case !spec.Mem:
		meta.TrafficClass = "vmprotocol.TranslationReq"
		return vmprotocol.TranslationReq{MsgMeta: meta, VAddr: vaddr, PID: vm.PID(x.PID), DeviceID: 1}
	case x.Write:
		a.State.Tags++
		data := make([]byte, 8)
		binary.LittleEndian.PutUint64(data, WriteTagBit|uint64(spec.Index)<<40|a.State.Tags)
		meta.TrafficClass = "memprotocol.WriteReq"
		meta.TrafficBytes = 20
		return memprotocol.WriteReq{MsgMeta: meta, Address: vaddr, PID: vm.PID(x.PID), Data: data}
	default:
		meta.TrafficClass = "memprotocol.ReadReq"
		meta.TrafficBytes = 12
		return memprotocol.ReadReq{MsgMeta: meta, Address: vaddr, PID: vm.PID(x.PID), AccessByteSize: 8}
	}
}

// Controller is the control-plane endpoint: it owns one port connected to every
// Control port of the stack and remembers the acknowledgements it received.
type Controller struct {
	hooking.HookableBase
	*messaging.PortOwnerBase
	name string
	port messaging.Port
	Acks map[uint64]memcontrolprotocol.Rsp // by RspTo
}

func newController(name string) *Controller {
	c := &Controller{name: name, PortOwnerBase: messaging.NewPortOwnerBase(), Acks: map[uint64]memcontrolprotocol.Rsp{}}
	c.port = messaging.NewPort(c, 64, 64, name+".Port")
	c.DeclarePort("Port")
	c.AssignPort("Port", c.port)
	return c
}

// Name implements naming.Named.
func (c *Controller) Name() string { return c.name }

// NotifyRecv collects acknowledgements.
func (c *Controller) NotifyRecv(port messaging.Port) {
	for msg := port.RetrieveIncoming(); msg != nil; msg = port.RetrieveIncoming() {
		if r, ok := msg.(memcontrolprotocol.Rsp); ok {
			c.Acks[r.RspTo] = r
		}
	}
}

// NotifyPortFree implements messaging.Component.
func (c *Controller) NotifyPortFree(messaging.Port) {}

// Send issues one control request to a Control port; it returns the request id.
func (c *Controller) Send(dst messaging.Port, cmd memcontrolprotocol.Command, pid uint32, addrs []uint64) uint64 {
	req := memcontrolprotocol.Req{Command: cmd, Addresses: addrs, PID: vm.PID(pid)}
	req.ID = timing.GetIDGenerator().Generate()
	req.Src = c.port.AsRemote()
	req.Dst = dst.AsRemote()
	req.TrafficClass = "memcontrolprotocol.Req"
	c.port.Send(req)
	return req.ID
}
