package vmstack

import (
	"encoding/binary"

	"github.com/sarchlab/akita/v5/hooking"
	"github.com/sarchlab/akita/v5/mem/memcontrolprotocol"
	"github.com/sarchlab/akita/v5/mem/memprotocol"
	"github.com/sarchlab/akita/v5/mem/vm"
	"github.com/sarchlab/akita/v5/mem/vm/vmprotocol"
	"github.com/sarchlab/akita/v5/messaging"
	"github.com/sarchlab/akita/v5/modeling"
	"github.com/sarchlab/akita/v5/timing"
)

// Access is one scripted access / translation request.
type Access struct {
	PID   uint32 `json:"pid"`
	VPN   uint64 `json:"vpn"`
	Off   uint64 `json:"off"`
	Write bool   `json:"write,omitempty"`
}

// WriteTagBit marks the 8-byte payload of a scripted write as a tag (the low bits
// number the write), so that it can never be mistaken for an address signature.
const WriteTagBit = uint64(1) << 62

// Agent is a ticking traffic source with a bounded number of outstanding requests.
type Agent struct {
	*modeling.Component[struct{}, struct{}, modeling.None]
	s        *Stack
	name     string
	mem      bool // memory accesses (to the AT) or translation requests
	port     messaging.Port
	dst      messaging.RemotePort
	window   int
	queue    []Access
	Sent     int
	Received int
	Foreign  int
	nextTag  *uint64
}

type agentMW struct{ a *Agent }

func newAgent(s *Stack, ac AgentCfg, l *Level) *Agent {
	a := &Agent{s: s, name: ac.Name, nextTag: &s.wtag, mem: l.Kind == "at", dst: l.Top.AsRemote(), window: pos(ac.Window, 4)}
	a.Component = modeling.NewBuilder[struct{}, struct{}, modeling.None]().
		WithEngine(s.Engine).WithFreq(1 * timing.GHz).WithSpec(struct{}{}).Build(s.Cfg.Name + "." + ac.Name)
	a.AddMiddleware(&agentMW{a: a})
	if a.mem {
		a.DeclarePort("Out", memprotocol.Requester)
	} else {
		a.DeclarePort("Out", vmprotocol.Requester)
	}
	b := pos(ac.Buf, 2)
	a.port = messaging.NewPort(a, b, b, s.Cfg.Name+"."+ac.Name+".Out")
	a.AssignPort("Out", a.port)
	return a
}

// Port returns the agent's only port.
func (a *Agent) Port() messaging.Port { return a.port }

// AgentName returns the short name given in the configuration.
func (a *Agent) AgentName() string { return a.name }

// Enqueue appends accesses to the agent's script and wakes it up.
func (a *Agent) Enqueue(acc []Access) {
	a.queue = append(a.queue, acc...)
	a.TickLater()
}

// Pending is the number of scripted accesses not sent yet.
func (a *Agent) Pending() int { return len(a.queue) }

func (m *agentMW) Tick() bool {
	a := m.a
	progress := false
	for msg := a.port.RetrieveIncoming(); msg != nil; msg = a.port.RetrieveIncoming() {
		progress = true
		switch msg.(type) {
		case vmprotocol.TranslationRsp, memprotocol.DataReadyRsp, memprotocol.WriteDoneRsp:
			a.Received++
		default:
			a.Foreign++
		}
	}
	for len(a.queue) > 0 && a.Sent-a.Received < a.window && a.port.CanSend() {
		x := a.queue[0]
		a.queue = a.queue[1:]
		a.port.Send(a.message(x))
		a.Sent++
		progress = true
	}
	return progress
}

func (a *Agent) message(x Access) messaging.Msg {
	vaddr := x.VPN<<a.s.Cfg.Log2Page + x.Off
	meta := messaging.MsgMeta{ID: timing.GetIDGenerator().Generate(), Src: a.port.AsRemote(), Dst: a.dst}
	switch {
	case !a.mem:
		meta.TrafficClass = "vmprotocol.TranslationReq"
		return vmprotocol.TranslationReq{MsgMeta: meta, VAddr: vaddr, PID: vm.PID(x.PID), DeviceID: 1}
	case x.Write:
		*a.nextTag++
		data := make([]byte, 8)
		binary.LittleEndian.PutUint64(data, WriteTagBit|*a.nextTag)
		meta.TrafficClass = "memprotocol.WriteReq"
		meta.TrafficBytes = 20
		return memprotocol.WriteReq{MsgMeta: meta, Address: vaddr, PID: vm.PID(x.PID), Data: data}
	default:
		meta.TrafficClass = "memprotocol.ReadReq"
		meta.TrafficBytes = 12
		return memprotocol.ReadReq{MsgMeta: meta, Address: vaddr, PID: vm.PID(x.PID), AccessByteSize: 8}
	}
}

// Controller is the control-plane endpoint: it owns one port connected to every
// Control port of the stack and remembers the acknowledgements it received.
type Controller struct {
	hooking.HookableBase
	*messaging.PortOwnerBase
	name string
	port messaging.Port
	Acks map[uint64]memcontrolprotocol.Rsp // by RspTo
}

func newController(name string) *Controller {
	c := &Controller{name: name, PortOwnerBase: messaging.NewPortOwnerBase(), Acks: map[uint64]memcontrolprotocol.Rsp{}}
	c.port = messaging.NewPort(c, 64, 64, name+".Port")
	c.DeclarePort("Port")
	c.AssignPort("Port", c.port)
	return c
}

// Name implements naming.Named.
func (c *Controller) Name() string { return c.name }

// NotifyRecv collects acknowledgements.
func (c *Controller) NotifyRecv(port messaging.Port) {
	for msg := port.RetrieveIncoming(); msg != nil; msg = port.RetrieveIncoming() {
		if r, ok := msg.(memcontrolprotocol.Rsp); ok {
			c.Acks[r.RspTo] = r
		}
	}
}

// NotifyPortFree implements messaging.Component.
func (c *Controller) NotifyPortFree(messaging.Port) {}

// Send issues one control request to a Control port; it returns the request id.
func (c *Controller) Send(dst messaging.Port, cmd memcontrolprotocol.Command, pid uint32, addrs []uint64) uint64 {
	req := memcontrolprotocol.Req{Command: cmd, Addresses: addrs, PID: vm.PID(pid)}
	req.ID = timing.GetIDGenerator().Generate()
	req.Src = c.port.AsRemote()
	req.Dst = dst.AsRemote()
	req.TrafficClass = "memcontrolprotocol.Req"
	c.port.Send(req)
	return req.ID
}
