package vmstack

import (
	"encoding/json"
	"fmt"
	"math/rand"
	"os"

	"verif/harness/internal/reg"
)

// Batch asks for explicit cases and/or random ones.
type Batch struct {
	Seed   int64  `json:"seed"`
	Out    string `json:"out"` // ndjson trace file
	Cases  []Case `json:"cases"`
	Random []struct {
		N       int      `json:"n"`
		Flavour string   `json:"flavour"`
		Modes   []string `json:"modes"`
		Bounds  Bounds   `json:"bounds"`
	} `json:"random"`
	EchoCases bool `json:"echo_cases"` // return the generated cases (programs included)
}

// CaseReport is the per-case part of the driver's output.
type CaseReport struct {
	Index  int            `json:"index"`
	Start  int            `json:"start"` // first line (1-based) of the case in the trace file
	Lines  int            `json:"lines"`
	Stack  Config         `json:"stack"`
	Tags   map[string]any `json:"tags"`
	Result Result         `json:"result"`
	Remote [][2]uint64    `json:"remote,omitempty"` // [pid, vpn] of pages mapped to another device than the GMMU's
	Case   *Case          `json:"case,omitempty"`
}

func runBatch(raw json.RawMessage) (any, error) {
	var in Batch
	if err := json.Unmarshal(raw, &in); err != nil {
		return nil, err
	}
	rng := rand.New(rand.NewSource(in.Seed))
	cases := in.Cases
	for _, r := range in.Random {
		modes := r.Modes
		if len(modes) == 0 {
			modes = []string{"idle", "drain"}
		}
		for i := 0; i < r.N; i++ {
			cases = append(cases, RandomCase(rng, fmt.Sprintf("S%d", len(cases)), r.Bounds, r.Flavour, modes))
		}
	}
	f, err := os.Create(in.Out)
	if err != nil {
		return nil, err
	}
	defer f.Close()
	enc := json.NewEncoder(f)
	line := 1
	var reports []CaseReport
	events, requests := 0, 0
	var sample []map[string]any
	for i := range cases {
		res := Run(cases[i], i)
		rep := CaseReport{Index: i, Start: line, Lines: len(res.Records), Stack: cases[i].Stack, Tags: cases[i].Tags, Result: res}
		if g := cases[i].Stack.GMMU; g != nil {
			for _, st := range cases[i].Program {
				if st.Op == "map" && st.Dev != g.DeviceID {
					rep.Remote = append(rep.Remote, [2]uint64{uint64(st.PID), st.VPN})
				}
			}
		}
		if in.EchoCases {
			rep.Case = &cases[i]
		}
		for _, r := range res.Records {
			if err := enc.Encode(r); err != nil {
				return nil, err
			}
		}
		line += len(res.Records)
		events += len(res.Records)
		requests += res.Requests
		if sample == nil && len(res.Records) > 40 {
			for _, r := range res.Records {
				if r["e"] != "map" && len(sample) < 24 {
					sample = append(sample, r)
				}
			}
		}
		reports = append(reports, rep)
	}
	return map[string]any{"cases": reports, "events": events, "requests": requests, "sample": sample}, nil
}

func init() {
	reg.Register("vmstack_trace", runBatch)
}
