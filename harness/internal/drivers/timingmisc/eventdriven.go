package timingmisc

import (
	"encoding/json"
	"fmt"

	"github.com/sarchlab/akita/v5/modeling"
	"github.com/sarchlab/akita/v5/timing"

	"verif/harness/internal/reg"
	"verif/harness/internal/replay"
)

// C13: a real modeling.EventDrivenComponent on a real timing.SerialEngine is fed
// the input histories of EventDriven.tla. The driver does not judge: it returns
// the log of what happened in the order it happened —
//
//	["req", at, t]          ScheduleWakeAt(t) called from outside the processor at engine time at
//	["notify_recv", at, at] NotifyRecv at engine time at      (likewise notify_free)
//	["run", at, 0]          the processor was invoked with time at
//	["inreq", at, t]        ScheduleWakeAt(t) called by the processor during the run at time at
//	["end", at, 0]          the engine ran out of events (Run returned)
//
// — and the check applies the WakeNoLaterThan rules of the specification to it.
//
// Modes (how the requests that do not come from the processor reach the component):
//
//	outside  between engine.RunUntil calls, from the goroutine that drives the engine
//	inside   from the handler of an "env" event at the time the specification says; all env events are scheduled before Run
//	chain    like inside, but each env event schedules the next one, so that wakeups
//	         scheduled earlier for the same instant are dispatched in between
type edSpec struct {
	Label string `json:"label"`
}

type edState struct {
	Runs int `json:"runs"`
}

type edComp = modeling.EventDrivenComponent[edSpec, edState, modeling.None]

type edLog [][3]any

type edRun struct {
	engine *timing.SerialEngine
	comp   *edComp
	log    edLog
	script [][]int // in-process request deltas, one entry consumed per processor invocation
	err    string
}

func (r *edRun) add(kind string, at, t timing.VTimeInPicoSec) {
	r.log = append(r.log, [3]any{kind, uint64(at), uint64(t)})
}

// Process implements modeling.EventProcessor.
func (r *edRun) Process(comp *edComp, now timing.VTimeInPicoSec) bool {
	r.add("run", now, 0)
	comp.State.Runs++
	if len(r.script) > 0 {
		ds := r.script[0]
		r.script = r.script[1:]
		for _, d := range ds {
			t := now + timing.VTimeInPicoSec(d)
			r.add("inreq", now, t)
			comp.ScheduleWakeAt(t)
		}
	}
	return true
}

// external operation at the current engine time
func (r *edRun) ext(op string, d int) {
	now := r.engine.CurrentTime()
	switch op {
	case "req":
		t := now + timing.VTimeInPicoSec(d)
		r.add("req", now, t)
		r.comp.ScheduleWakeAt(t)
	case "notify_recv":
		r.add("notify_recv", now, now)
		r.comp.NotifyRecv(nil)
	case "notify_free":
		r.add("notify_free", now, now)
		r.comp.NotifyPortFree(nil)
	}
}

// env events carry external operations into the engine's event loop
type envEvent struct {
	timing.EventBase
	idx int
}

type envHandler struct {
	r     *edRun
	steps []replay.Step
	chain bool
	next  func(from int) // schedules the next env event (chain mode)
}

func (h *envHandler) Handle(e timing.Event) error {
	ev := e.(envEvent)
	if ev.idx >= 0 {
		a := h.steps[ev.idx].A
		h.r.ext(replay.Str(a["op"]), replay.Num(a["d"]))
		if h.chain {
			h.next(ev.idx + 1)
		}
	}
	return nil
}

func edReplay(mode string, h replay.History) (log edLog, errText string) {
	defer func() {
		if p := recover(); p != nil {
			errText = fmt.Sprintf("panic: %v", p)
		}
	}()
	timing.ResetIDGenerator()
	r := &edRun{engine: timing.NewSerialEngine()}
	r.comp = modeling.NewEventDrivenBuilder[edSpec, edState, modeling.None]().
		WithEngine(r.engine).
		WithSpec(edSpec{Label: "c13"}).
		WithProcessor(r).
		Build("EDC")
	isExt := func(op string) bool { return op == "req" || op == "notify_recv" || op == "notify_free" }
	switch mode {
	case "outside":
		eh := &envHandler{r: r}
		r.engine.RegisterHandler("env", eh)
		steps := h.Steps
		for i := 0; i < len(steps); i++ {
			a := steps[i].A
			op := replay.Str(a["op"])
			switch {
			case isExt(op):
				r.ext(op, replay.Num(a["d"]))
			case op == "tick":
				// a clock event moves the engine time to now+1 whatever the component does
				to := r.engine.CurrentTime() + 1
				r.engine.Schedule(envEvent{EventBase: timing.MakeEventBase(to, "env"), idx: -1})
				if err := r.engine.RunUntil(to); err != nil {
					return r.log, err.Error()
				}
			case op == "dispatch":
				// consecutive dispatches of the specification: their processor scripts, then
				// let the engine run up to the time the specification reaches
				to := r.engine.CurrentTime()
				for ; i < len(steps) && replay.Str(steps[i].A["op"]) == "dispatch"; i++ {
					r.script = append(r.script, replay.Ints(steps[i].A["reqs"]))
					if at := timing.VTimeInPicoSec(replay.Num(steps[i].A["at"])); at > to {
						to = at
					}
				}
				i--
				if err := r.engine.RunUntil(to); err != nil {
					return r.log, err.Error()
				}
			}
		}
	case "inside", "chain":
		eh := &envHandler{r: r, steps: h.Steps, chain: mode == "chain"}
		r.engine.RegisterHandler("env", eh)
		eh.next = func(from int) {
			for i := from; i < len(h.Steps); i++ {
				a := h.Steps[i].A
				if isExt(replay.Str(a["op"])) {
					at := timing.VTimeInPicoSec(replay.Num(a["at"]))
					if now := r.engine.CurrentTime(); at < now {
						at = now // the real component ran ahead of the specification's clock
					}
					r.engine.Schedule(envEvent{EventBase: timing.MakeEventBase(at, "env"), idx: i})
					if eh.chain {
						return
					}
				}
			}
		}
		for _, st := range h.Steps {
			if replay.Str(st.A["op"]) == "dispatch" {
				r.script = append(r.script, replay.Ints(st.A["reqs"]))
			}
		}
		eh.next(0)
	default:
		return nil, "unknown mode " + mode
	}
	// quiescence: everything still queued is dispatched
	if err := r.engine.Run(); err != nil {
		return r.log, err.Error()
	}
	r.add("end", r.engine.CurrentTime(), 0)
	return r.log, ""
}

func eventDrivenDriver(raw json.RawMessage) (any, error) {
	var in replay.Input
	if err := json.Unmarshal(raw, &in); err != nil {
		return nil, err
	}
	mode := replay.Str(in.Config["mode"])
	logs := make([]edLog, len(in.Histories))
	errs := make([]string, len(in.Histories))
	for i, h := range in.Histories {
		logs[i], errs[i] = edReplay(mode, h)
	}
	return map[string]any{"logs": logs, "errors": errs}, nil
}

func init() {
	reg.Register("eventdriven", eventDrivenDriver)
}
