package timingmisc

import (
	"encoding/json"
	"fmt"
	"sync"
	"time"

	"github.com/sarchlab/akita/v5/hooking"
	"github.com/sarchlab/akita/v5/messaging"
	"github.com/sarchlab/akita/v5/modeling"
	"github.com/sarchlab/akita/v5/timing"

	"verif/harness/internal/reg"
	"verif/harness/internal/replay"
)

// C13: a real modeling.EventDrivenComponent on a real timing.SerialEngine is fed
// the input histories of EventDriven.tla. The driver does not judge: it returns
// the log of what happened in the order it happened —
//
//	["req", at, t]          ScheduleWakeAt(t) called from outside the processor at engine time at
//	["notify_recv", at, at] NotifyRecv at engine time at      (likewise notify_free)
//	["run", at, idle]       the processor was invoked with time at; idle = 1 if this run then reported "no progress"
//	                        (Process returned false; the script of the history says what each run reports)
//	["inreq", at, t]        ScheduleWakeAt(t) called by the processor during the run at time at
//	["in_notify_recv", at, at]  NotifyRecv reached the component WHILE its processor was running at time at
//	                        (likewise in_notify_free)
//	["end", at, 0]          the engine ran out of events (Run returned)
//
// — and the check applies the WakeNoLaterThan rules of the specification to it.
//
// Modes (how the requests that do not come from the processor reach the component):
//
//	outside  between engine.RunUntil calls, from the goroutine that drives the engine
//	inside   from the handler of an "env" event at the time the specification says; all env events are scheduled before Run
//	chain    like inside, but each env event schedules the next one, so that wakeups
//	         scheduled earlier for the same instant are dispatched in between
//
// Notification variants (config "notify"; how NotifyRecv / NotifyPortFree are produced, in particular
// the ones the specification places INSIDE a processor run, codes 100 / 101 of a dispatch):
//
//	direct  comp.NotifyRecv(port) / comp.NotifyPortFree(port) called directly (from the processor itself when inside a run)
//	port    through a real messaging port owned by the component: Deliver into its empty incoming buffer
//	        (loop-back: the port calls NotifyRecv), Send + RetrieveOutgoing on a full outgoing buffer (the port calls NotifyPortFree)
//	gate    the processor parks inside Process while ANOTHER goroutine calls NotifyRecv / NotifyPortFree, then resumes
//	        (what a handler of the same instant does under a parallel engine)
//
// Driver "eventdriven_parallel" runs the same situation on a real timing.ParallelEngine.
type edSpec struct {
	Label string `json:"label"`
}

type edState struct {
	Runs int `json:"runs"`
}

type edComp = modeling.EventDrivenComponent[edSpec, edState, modeling.None]

type edLog [][3]any

const (
	codeNotifyRecv = 100 // EventDriven.tla NRecv
	codeNotifyFree = 101 // EventDriven.tla NFree
)

type edRun struct {
	engine timing.Engine
	comp   *edComp
	mu     sync.Mutex
	log    edLog
	script [][]int // what happens during a processor run (request deltas, notification codes), one entry per invocation
	idles  []bool  // what that run reports afterwards (true = no progress); same indexing as script
	tail   bool    // what runs beyond the script report (true = no progress)
	notify string
	port   messaging.Port
	msgID  uint64
}

func (r *edRun) add(kind string, at, t timing.VTimeInPicoSec) {
	r.mu.Lock()
	r.log = append(r.log, [3]any{kind, uint64(at), uint64(t)})
	r.mu.Unlock()
}

// stubConn is the connection of the component's loop-back port; it never forwards anything.
type stubConn struct{ hooking.HookableBase }

func (*stubConn) Name() string                   { return "StubConn" }
func (*stubConn) PlugIn(messaging.Port)          {}
func (*stubConn) Unplug(messaging.Port)          {}
func (*stubConn) NotifyAvailable(messaging.Port) {}
func (*stubConn) NotifySend()                    {}

type edMsg struct{ messaging.MsgMeta }

// raise makes a NotifyRecv (recv=true) or NotifyPortFree reach the component now.
func (r *edRun) raise(recv bool) {
	switch r.notify {
	case "port":
		r.msgID++
		if recv {
			for r.port.RetrieveIncoming() != nil { // empty buffer: the next Deliver notifies
			}
			r.port.Deliver(edMsg{messaging.MsgMeta{ID: r.msgID, Src: "Other.Port", Dst: r.port.AsRemote()}})
		} else {
			for r.port.RetrieveOutgoing() != nil {
			}
			r.port.Send(edMsg{messaging.MsgMeta{ID: r.msgID, Src: r.port.AsRemote(), Dst: "Other.Port"}})
			r.port.RetrieveOutgoing() // capacity 1: the buffer was full, the port reports it free
		}
	default:
		if recv {
			r.comp.NotifyRecv(r.port)
		} else {
			r.comp.NotifyPortFree(r.port)
		}
	}
}

// Process implements modeling.EventProcessor.
func (r *edRun) Process(comp *edComp, now timing.VTimeInPicoSec) bool {
	idle := r.tail
	if len(r.script) > 0 && len(r.idles) > 0 {
		idle = r.idles[0]
	}
	if idle {
		r.add("run", now, 1)
	} else {
		r.add("run", now, 0)
	}
	comp.State.Runs++
	if len(r.script) > 0 {
		ds := r.script[0]
		r.script = r.script[1:]
		if len(r.idles) > 0 {
			r.idles = r.idles[1:]
		}
		for _, d := range ds {
			switch d {
			case codeNotifyRecv, codeNotifyFree:
				kind := map[int]string{codeNotifyRecv: "in_notify_recv", codeNotifyFree: "in_notify_free"}[d]
				r.add(kind, now, now)
				if r.notify == "gate" {
					// park here while another goroutine delivers the notification
					done := make(chan struct{})
					go func() {
						defer close(done)
						r.raise(d == codeNotifyRecv)
					}()
					<-done
				} else {
					r.raise(d == codeNotifyRecv)
				}
			default:
				t := now + timing.VTimeInPicoSec(d)
				r.add("inreq", now, t)
				comp.ScheduleWakeAt(t)
			}
		}
	}
	return !idle
}

func isTrue(v any) bool { b, _ := v.(bool); return b }

// external operation at the current engine time
func (r *edRun) ext(op string, d int) {
	now := r.engine.CurrentTime()
	switch op {
	case "req":
		t := now + timing.VTimeInPicoSec(d)
		r.add("req", now, t)
		r.comp.ScheduleWakeAt(t)
	case "notify_recv":
		r.add("notify_recv", now, now)
		r.raise(true)
	case "notify_free":
		r.add("notify_free", now, now)
		r.raise(false)
	}
}

// env events carry external operations into the engine's event loop
type envEvent struct {
	timing.EventBase
	idx int
}

type envHandler struct {
	r     *edRun
	steps []replay.Step
	chain bool
	next  func(from int) // schedules the next env event (chain mode)
}

func (h *envHandler) Handle(e timing.Event) error {
	ev := e.(envEvent)
	if ev.idx >= 0 {
		a := h.steps[ev.idx].A
		h.r.ext(replay.Str(a["op"]), replay.Num(a["d"]))
		if h.chain {
			h.next(ev.idx + 1)
		}
	}
	return nil
}

func newEdRun(engine timing.Engine, notify string) *edRun {
	r := &edRun{engine: engine, notify: notify}
	r.comp = modeling.NewEventDrivenBuilder[edSpec, edState, modeling.None]().
		WithEngine(engine).
		WithSpec(edSpec{Label: "c13"}).
		WithProcessor(r).
		Build("EDC")
	r.port = messaging.NewPort(r.comp, 1024, 1, "EDC.Port")
	r.port.SetConnection(&stubConn{})
	return r
}

func edReplay(mode, notify string, tailIdle bool, h replay.History) (log edLog, errText string) {
	defer func() {
		if p := recover(); p != nil {
			errText = fmt.Sprintf("panic: %v", p)
		}
	}()
	timing.ResetIDGenerator()
	eng := timing.NewSerialEngine()
	r := newEdRun(eng, notify)
	r.tail = tailIdle
	isExt := func(op string) bool { return op == "req" || op == "notify_recv" || op == "notify_free" }
	switch mode {
	case "outside":
		eh := &envHandler{r: r}
		eng.RegisterHandler("env", eh)
		steps := h.Steps
		for i := 0; i < len(steps); i++ {
			a := steps[i].A
			op := replay.Str(a["op"])
			switch {
			case isExt(op):
				r.ext(op, replay.Num(a["d"]))
			case op == "tick":
				// a clock event moves the engine time to now+1 whatever the component does
				to := r.engine.CurrentTime() + 1
				r.engine.Schedule(envEvent{EventBase: timing.MakeEventBase(to, "env"), idx: -1})
				if err := eng.RunUntil(to); err != nil {
					return r.log, err.Error()
				}
			case op == "dispatch":
				// consecutive dispatches of the specification: their processor scripts, then
				// let the engine run up to the time the specification reaches
				to := r.engine.CurrentTime()
				for ; i < len(steps) && replay.Str(steps[i].A["op"]) == "dispatch"; i++ {
					r.script = append(r.script, replay.Ints(steps[i].A["reqs"]))
					r.idles = append(r.idles, isTrue(steps[i].A["idle"]))
					if at := timing.VTimeInPicoSec(replay.Num(steps[i].A["at"])); at > to {
						to = at
					}
				}
				i--
				if err := eng.RunUntil(to); err != nil {
					return r.log, err.Error()
				}
			}
		}
	case "inside", "chain":
		eh := &envHandler{r: r, steps: h.Steps, chain: mode == "chain"}
		eng.RegisterHandler("env", eh)
		eh.next = func(from int) {
			for i := from; i < len(h.Steps); i++ {
				a := h.Steps[i].A
				if isExt(replay.Str(a["op"])) {
					at := timing.VTimeInPicoSec(replay.Num(a["at"]))
					if now := r.engine.CurrentTime(); at < now {
						at = now // the real component ran ahead of the specification's clock
					}
					r.engine.Schedule(envEvent{EventBase: timing.MakeEventBase(at, "env"), idx: i})
					if eh.chain {
						return
					}
				}
			}
		}
		for _, st := range h.Steps {
			if replay.Str(st.A["op"]) == "dispatch" {
				r.script = append(r.script, replay.Ints(st.A["reqs"]))
				r.idles = append(r.idles, isTrue(st.A["idle"]))
			}
		}
		eh.next(0)
	default:
		return nil, "unknown mode " + mode
	}
	// quiescence: everything still queued is dispatched
	if err := eng.Run(); err != nil {
		return r.log, err.Error()
	}
	r.add("end", r.engine.CurrentTime(), 0)
	return r.log, ""
}

func eventDrivenDriver(raw json.RawMessage) (any, error) {
	var in replay.Input
	if err := json.Unmarshal(raw, &in); err != nil {
		return nil, err
	}
	mode := replay.Str(in.Config["mode"])
	notify := replay.Str(in.Config["notify"])
	if notify == "" {
		notify = "direct"
	}
	logs := make([]edLog, len(in.Histories))
	errs := make([]string, len(in.Histories))
	for i, h := range in.Histories {
		logs[i], errs[i] = edReplay(mode, notify, isTrue(in.Config["tail_idle"]), h)
	}
	return map[string]any{"logs": logs, "errors": errs}, nil
}

// ---------------------------------------------------------------- parallel engine

// A scenario on a real timing.ParallelEngine: the component has a wakeup at time T and, at the
// same instant, another handler ("env") delivers notifications to it. The two events run in
// different goroutines; the first processor run parks until the env handler has delivered
// (gates with a timeout, so that an engine that serialises the two cannot hang the driver),
// i.e. the notification arrives WHILE the processor is running. Further processor runs follow
// the script like in the serial replay.
type parScenario struct {
	T      int     `json:"t"`
	Notes  []int   `json:"notes"`      // codes 100 / 101 delivered by the env handler during the first run
	Script [][]int `json:"script"`     // in-run operations of the processor runs after the first
	Idles  []bool  `json:"idles"`      // what those runs report (true = no progress)
	First  bool    `json:"first_idle"` // what the first (overlapped) run reports
	Tail   bool    `json:"tail_idle"`  // what runs beyond the script report
	Notify string  `json:"notify"`     // direct | port
}

type parEnv struct {
	r       *edRun
	sc      parScenario
	parked  chan struct{}
	done    chan struct{}
	overlap bool
}

func (h *parEnv) Handle(e timing.Event) error {
	select {
	case <-h.parked:
		h.overlap = true
	case <-time.After(2 * time.Second):
	}
	now := e.Time()
	for _, c := range h.sc.Notes {
		if h.overlap {
			h.r.add(map[int]string{codeNotifyRecv: "in_notify_recv", codeNotifyFree: "in_notify_free"}[c], now, now)
		} else {
			h.r.add(map[int]string{codeNotifyRecv: "notify_recv", codeNotifyFree: "notify_free"}[c], now, now)
		}
		h.r.raise(c == codeNotifyRecv)
	}
	close(h.done)
	return nil
}

type parProc struct {
	r     *edRun
	env   *parEnv
	first bool
}

func (p *parProc) Process(comp *edComp, now timing.VTimeInPicoSec) bool {
	if !p.first {
		p.first = true
		if p.env.sc.First {
			p.r.add("run", now, 1)
		} else {
			p.r.add("run", now, 0)
		}
		comp.State.Runs++
		close(p.env.parked)
		select {
		case <-p.env.done:
		case <-time.After(4 * time.Second):
		}
		return !p.env.sc.First
	}
	return p.r.Process(comp, now)
}

func edParallel(sc parScenario) (log edLog, overlap bool, errText string) {
	defer func() {
		if p := recover(); p != nil {
			errText = fmt.Sprintf("panic: %v", p)
		}
	}()
	timing.ResetIDGenerator()
	eng := timing.NewParallelEngine()
	r := &edRun{engine: eng, notify: sc.Notify, script: sc.Script, idles: sc.Idles, tail: sc.Tail}
	env := &parEnv{r: r, sc: sc, parked: make(chan struct{}), done: make(chan struct{})}
	proc := &parProc{r: r, env: env}
	r.comp = modeling.NewEventDrivenBuilder[edSpec, edState, modeling.None]().
		WithEngine(eng).
		WithSpec(edSpec{Label: "c13"}).
		WithProcessor(proc).
		Build("EDC")
	r.port = messaging.NewPort(r.comp, 1024, 1, "EDC.Port")
	r.port.SetConnection(&stubConn{})
	eng.RegisterHandler("env", env)
	t := timing.VTimeInPicoSec(sc.T)
	r.add("req", 0, t)
	r.comp.ScheduleWakeAt(t)
	eng.Schedule(envEvent{EventBase: timing.MakeEventBase(t, "env"), idx: -1})
	if err := eng.Run(); err != nil {
		return r.log, env.overlap, err.Error()
	}
	r.add("end", eng.CurrentTime(), 0)
	return r.log, env.overlap, ""
}

func eventDrivenParallelDriver(raw json.RawMessage) (any, error) {
	var in struct {
		Scenarios []parScenario `json:"scenarios"`
	}
	if err := json.Unmarshal(raw, &in); err != nil {
		return nil, err
	}
	logs := make([]edLog, len(in.Scenarios))
	errs := make([]string, len(in.Scenarios))
	overlaps := make([]bool, len(in.Scenarios))
	for i, sc := range in.Scenarios {
		if sc.Notify == "" {
			sc.Notify = "direct"
		}
		logs[i], overlaps[i], errs[i] = edParallel(sc)
	}
	return map[string]any{"logs": logs, "errors": errs, "overlap": overlaps}, nil
}

func init() {
	reg.Register("eventdriven", eventDrivenDriver)
	reg.Register("eventdriven_parallel", eventDrivenParallelDriver)
}
