package timingmisc

import (
	"bytes"
	"encoding/json"
	"fmt"
	"io"
	"strconv"
	"strings"
	"sync"

	"github.com/sarchlab/akita/v5/timing"

	"verif/harness/internal/reg"
	"verif/harness/internal/replay"
)

// C41: the process-wide ID generator of package timing.
//
// IDs travel as decimal strings. The specification (IDGen.tla) speaks about the
// POSITION of an ID in the sequence the sequential generator hands out; the
// reference sequence is measured by the check in separate processes
// (idgen_ref) and handed to the replay driver in its config.

type checkpointer interface {
	SaveCheckpoint(w io.Writer) error
	LoadCheckpoint(r io.Reader) error
}

func freshGenerator(kind string) (timing.IDGenerator, error) {
	timing.ResetIDGenerator()
	switch kind {
	case "sequential":
		timing.UseSequentialIDGenerator()
	case "parallel":
		timing.UseParallelIDGenerator()
	case "default":
		// GetIDGenerator instantiates the default generator
	case "lazy":
		// nothing is instantiated: the first callers of GetIDGenerator race for it
		return nil, nil
	default:
		return nil, fmt.Errorf("unknown generator kind %q", kind)
	}
	return timing.GetIDGenerator(), nil
}

func idStr(id uint64) string { return strconv.FormatUint(id, 10) }

// ---------------------------------------------------------------- idgen_ref

// idgen_ref: the first n IDs of a fresh generator of the given kind.
func idgenRef(raw json.RawMessage) (any, error) {
	var in struct {
		Kind string `json:"kind"`
		N    int    `json:"n"`
	}
	if err := json.Unmarshal(raw, &in); err != nil {
		return nil, err
	}
	g, err := freshGenerator(in.Kind)
	if err != nil {
		return nil, err
	}
	ids := make([]string, in.N)
	for i := range ids {
		ids[i] = idStr(g.Generate())
	}
	return map[string]any{"ids": ids}, nil
}

// ---------------------------------------------------------------- idgen (replay)

type token struct {
	bytes  []byte
	nextID uint64
}

type idgenObj struct {
	flavor string
	pos    map[string]int // ID -> 1-based position in the reference sequence
	saved  map[int]token  // specification counter value -> real checkpoint
	raw    []string       // raw results (IDs as handed out), for cross-process comparison
}

func (o *idgenObj) Project() any { return nil }

func (o *idgenObj) save() (token, error) {
	switch o.flavor {
	case "nextid":
		return token{nextID: timing.GetIDGeneratorNextID()}, nil
	default:
		cp, ok := timing.GetIDGenerator().(checkpointer)
		if !ok {
			return token{}, fmt.Errorf("generator is not checkpointable")
		}
		var buf bytes.Buffer
		if err := cp.SaveCheckpoint(&buf); err != nil {
			return token{}, err
		}
		return token{bytes: buf.Bytes()}, nil
	}
}

func (o *idgenObj) restore(t token) error {
	switch o.flavor {
	case "nextid":
		timing.SetIDGeneratorNextID(t.nextID)
		return nil
	case "checkpoint_fresh":
		// what a resumed simulation does: a new generator, then the checkpoint
		if _, err := freshGenerator("sequential"); err != nil {
			return err
		}
	case "checkpoint_fresh_default":
		if _, err := freshGenerator("default"); err != nil {
			return err
		}
	}
	cp, ok := timing.GetIDGenerator().(checkpointer)
	if !ok {
		return fmt.Errorf("generator is not checkpointable")
	}
	return cp.LoadCheckpoint(bytes.NewReader(t.bytes))
}

func (o *idgenObj) Apply(a map[string]any) any {
	switch replay.Str(a["op"]) {
	case "generate":
		id := idStr(timing.GetIDGenerator().Generate())
		o.raw = append(o.raw, id)
		if p, ok := o.pos[id]; ok {
			return p
		}
		return "ID " + id + " is not within the reference sequence"
	case "save":
		t, err := o.save()
		if err != nil {
			return "save error: " + err.Error()
		}
		o.saved[replay.Num(a["res"])] = t
		return a["res"]
	case "restore":
		t, ok := o.saved[replay.Num(a["arg"])]
		if !ok {
			return "driver: no checkpoint for counter value"
		}
		if err := o.restore(t); err != nil {
			return "restore error: " + err.Error()
		}
		return "ok"
	}
	return "unknown op"
}

func newIdgenObj(cfg map[string]any) (*idgenObj, error) {
	o := &idgenObj{flavor: replay.Str(cfg["flavor"]), pos: map[string]int{}, saved: map[int]token{}}
	ref, _ := cfg["ref"].([]any)
	for i, r := range ref {
		o.pos[replay.Str(r)] = i + 1
	}
	kind := "sequential"
	if o.flavor == "checkpoint_fresh_default" {
		kind = "default"
	}
	if _, err := freshGenerator(kind); err != nil {
		return nil, err
	}
	return o, nil
}

// idgen_hist: the same histories, but the raw IDs are returned (no comparison):
// the check runs it in several OS processes and compares the outputs.
func idgenHist(raw json.RawMessage) (any, error) {
	var in replay.Input
	if err := json.Unmarshal(raw, &in); err != nil {
		return nil, err
	}
	out := make([][]string, len(in.Histories))
	for i, h := range in.Histories {
		o, err := newIdgenObj(in.Config)
		if err != nil {
			return nil, err
		}
		for _, st := range h.Steps {
			r, _ := replay.Safely(func() any { return o.Apply(st.A) })
			if replay.Str(st.A["op"]) != "generate" {
				o.raw = append(o.raw, fmt.Sprint(r))
			}
		}
		out[i] = o.raw
	}
	return map[string]any{"results": out}, nil
}

// ---------------------------------------------------------------- idgen_xproc

// idgen_xproc: mode "save": fresh sequential generator, hand out `gen` IDs, save;
// mode "resume": fresh generator (another process), load the checkpoint, hand out `gen` IDs.
func idgenXproc(raw json.RawMessage) (any, error) {
	var in struct {
		Mode       string `json:"mode"`
		Gen        int    `json:"gen"`
		Checkpoint string `json:"checkpoint"`
		NextID     string `json:"next_id"`
		Flavor     string `json:"flavor"`
	}
	if err := json.Unmarshal(raw, &in); err != nil {
		return nil, err
	}
	g, err := freshGenerator("sequential")
	if err != nil {
		return nil, err
	}
	out := map[string]any{}
	if in.Mode == "resume" {
		if in.Flavor == "nextid" {
			v, err := strconv.ParseUint(in.NextID, 10, 64)
			if err != nil {
				return nil, err
			}
			timing.SetIDGeneratorNextID(v)
		} else if err := g.(checkpointer).LoadCheckpoint(bytes.NewReader([]byte(in.Checkpoint))); err != nil {
			out["error"] = err.Error()
		}
	}
	ids := make([]string, in.Gen)
	for i := range ids {
		ids[i] = idStr(timing.GetIDGenerator().Generate())
	}
	out["ids"] = ids
	if in.Mode == "save" {
		var buf bytes.Buffer
		if err := g.(checkpointer).SaveCheckpoint(&buf); err != nil {
			out["error"] = err.Error()
		}
		out["checkpoint"] = buf.String()
		out["next_id"] = idStr(timing.GetIDGeneratorNextID())
	}
	return out, nil
}

// ---------------------------------------------------------------- idgen_conc

type concPhase struct {
	Op         string `json:"op"` // gen | save | restore
	Goroutines int    `json:"g"`
	Per        int    `json:"per"`
}

// idgen_conc: phases of concurrent generation (all goroutines released together
// and calling timing.GetIDGenerator().Generate() as components do), with save
// and restore at the quiescent points between phases.
func idgenConc(raw json.RawMessage) (any, error) {
	var in struct {
		Kind   string      `json:"kind"`
		Phases []concPhase `json:"phases"`
	}
	if err := json.Unmarshal(raw, &in); err != nil {
		return nil, err
	}
	if _, err := freshGenerator(in.Kind); err != nil {
		return nil, err
	}
	var saved []byte
	type phaseOut struct {
		Op    string   `json:"op"`
		IDs   []string `json:"ids,omitempty"` // per goroutine: the IDs in call order, space separated
		Error string   `json:"error,omitempty"`
	}
	var outs []phaseOut
	for _, ph := range in.Phases {
		po := phaseOut{Op: ph.Op}
		switch ph.Op {
		case "gen":
			res := make([][]uint64, ph.Goroutines)
			start := make(chan struct{})
			var wg sync.WaitGroup
			for gi := 0; gi < ph.Goroutines; gi++ {
				res[gi] = make([]uint64, ph.Per)
				wg.Add(1)
				go func(gi int) {
					defer wg.Done()
					<-start
					mine := res[gi]
					for k := range mine {
						mine[k] = timing.GetIDGenerator().Generate()
					}
				}(gi)
			}
			close(start)
			wg.Wait()
			po.IDs = make([]string, ph.Goroutines)
			for gi := range res {
				var sb strings.Builder
				for k, id := range res[gi] {
					if k > 0 {
						sb.WriteByte(' ')
					}
					sb.WriteString(idStr(id))
				}
				po.IDs[gi] = sb.String()
			}
		case "save":
			var buf bytes.Buffer
			cp, ok := timing.GetIDGenerator().(checkpointer)
			if !ok {
				po.Error = "not checkpointable"
			} else if err := cp.SaveCheckpoint(&buf); err != nil {
				po.Error = err.Error()
			}
			saved = buf.Bytes()
		case "restore":
			cp, ok := timing.GetIDGenerator().(checkpointer)
			if !ok {
				po.Error = "not checkpointable"
			} else if err := cp.LoadCheckpoint(bytes.NewReader(saved)); err != nil {
				po.Error = err.Error()
			}
		default:
			return nil, fmt.Errorf("unknown phase op %q", ph.Op)
		}
		outs = append(outs, po)
	}
	return map[string]any{"phases": outs}, nil
}

func init() {
	reg.Register("idgen_ref", idgenRef)
	reg.Register("idgen", replay.Driver(func(cfg map[string]any, init any) (replay.Object, error) {
		return newIdgenObj(cfg)
	}))
	reg.Register("idgen_hist", idgenHist)
	reg.Register("idgen_xproc", idgenXproc)
	reg.Register("idgen_conc", idgenConc)
}
