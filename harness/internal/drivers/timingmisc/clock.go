// Package timingmisc holds the drivers of the timing-related properties that do
// not need a whole simulation: C42 (clock arithmetic), C41 (ID generator) and
// C13 (event-driven wakeups).
package timingmisc

import (
	"encoding/json"
	"fmt"
	"strconv"

	"github.com/sarchlab/akita/v5/timing"

	"verif/harness/internal/reg"
)

// C42: rows (frequency, time, n) with the results the specification demands are
// evaluated on real timing.Freq values. All 64-bit quantities travel as decimal
// strings (JSON numbers lose precision above 2^53). A result the specification
// leaves open (it does not fit in 64 bits) is the empty string and is not
// compared.
type clockCase struct {
	F      string `json:"f"`      // frequency in Hz
	Period string `json:"period"` // exact period in ps (10^12 / f)
	T      string `json:"t"`
	N      int    `json:"n"`
	This   string `json:"this"`
	Next   string `json:"next"`
	Later  string `json:"later"`
	Cycle  string `json:"cycle"`
}

type clockMismatch struct {
	Case int    `json:"case"`
	Fn   string `json:"fn"`
	Want string `json:"want"`
	Got  string `json:"got"`
}

type clockOut struct {
	Cases       int             `json:"cases"`
	Evaluations int             `json:"evaluations"`
	Mismatches  []clockMismatch `json:"mismatches"`
	Truncated   bool            `json:"truncated"`
}

func u64(s string) (uint64, error) { return strconv.ParseUint(s, 10, 64) }

func callU64(f func() uint64) (res string) {
	defer func() {
		if r := recover(); r != nil {
			res = fmt.Sprintf("panic: %v", r)
		}
	}()
	return strconv.FormatUint(f(), 10)
}

func clockDriver(raw json.RawMessage) (any, error) {
	var in struct {
		Cases []clockCase `json:"cases"`
		Max   int         `json:"max"`
	}
	if err := json.Unmarshal(raw, &in); err != nil {
		return nil, err
	}
	if in.Max == 0 {
		in.Max = 500
	}
	out := clockOut{Cases: len(in.Cases)}
	for i, c := range in.Cases {
		fv, err := u64(c.F)
		if err != nil {
			return nil, fmt.Errorf("case %d: bad f: %v", i, err)
		}
		tv, err := u64(c.T)
		if err != nil {
			return nil, fmt.Errorf("case %d: bad t: %v", i, err)
		}
		f := timing.Freq(fv)
		now := timing.VTimeInPicoSec(tv)
		cmp := func(fn, want string, call func() uint64) {
			if want == "" {
				return
			}
			out.Evaluations++
			got := callU64(call)
			if got != want {
				if len(out.Mismatches) < in.Max {
					out.Mismatches = append(out.Mismatches, clockMismatch{Case: i, Fn: fn, Want: want, Got: got})
				} else {
					out.Truncated = true
				}
			}
		}
		cmp("Period", c.Period, func() uint64 { return uint64(f.Period()) })
		cmp("ThisTick", c.This, func() uint64 { return uint64(f.ThisTick(now)) })
		cmp("NextTick", c.Next, func() uint64 { return uint64(f.NextTick(now)) })
		cmp("NCyclesLater", c.Later, func() uint64 { return uint64(f.NCyclesLater(c.N, now)) })
		cmp("Cycle", c.Cycle, func() uint64 { return f.Cycle(now) })
	}
	return out, nil
}

// clock_periods: the period the code itself reports for each frequency (decimal
// strings; a panic is reported as "panic: ...").
func clockPeriods(raw json.RawMessage) (any, error) {
	var in struct {
		Fs []string `json:"fs"`
	}
	if err := json.Unmarshal(raw, &in); err != nil {
		return nil, err
	}
	out := make([]string, len(in.Fs))
	for i, fs := range in.Fs {
		fv, err := u64(fs)
		if err != nil {
			return nil, fmt.Errorf("frequency %d: %v", i, err)
		}
		out[i] = callU64(func() uint64 { return uint64(timing.Freq(fv).Period()) })
	}
	return map[string]any{"periods": out}, nil
}

func init() {
	reg.Register("clock", clockDriver)
	reg.Register("clock_periods", clockPeriods)
}
