package timingmisc

import (
	"encoding/json"
	"fmt"
	"sync"
	"time"

	"github.com/sarchlab/akita/v5/messaging"
	"github.com/sarchlab/akita/v5/modeling"
	"github.com/sarchlab/akita/v5/timing"

	"verif/harness/internal/reg"
	"verif/harness/internal/replay"
)

// C13, the "schedules" part of the quantifier: driver "eventdriven_conc" replays the
// interleavings of EventDrivenConc.tla on a real modeling.EventDrivenComponent.
//
// The component reaches its engine only through the timing.EventScheduler interface, so it is
// built on a scheduler of the harness (gateSched) whose Schedule parks the calling goroutine
// until the controller releases it and whose CurrentTime is the controller's clock. Thread "h"
// is the goroutine that calls comp.Handle (one call at a time, like the worker of an engine
// that holds the component's wakeup); the scripted processor takes its requests one by one
// from the controller. The other threads (n1, n2, ...) are goroutines that call NotifyRecv /
// NotifyPortFree (directly or through a real port of the component) or ScheduleWakeAt, like
// handlers of other components of the same instant do under the parallel engine. Exactly one
// goroutine runs at any time: the controller starts or releases one and waits until it parks in
// Schedule or finishes, so every replay is deterministic.
//
// Steps of a history (a.op):
//
//	round         all queued wakeups of the earliest time become ready (a round of the engine starts)
//	dispatch      h calls Handle with the next ready wakeup; a.idle is what the processor run reports
//	hreq d        the running processor calls ScheduleWakeAt(now+d)   (h parks in Schedule unless the guard suppresses it)
//	nbegin th k   thread th calls NotifyRecv (k=100) / NotifyPortFree (k=101) / ScheduleWakeAt(now+k)
//	sched th      thread th is released from Schedule (the event enters the queue)
//	hend          the processor returns, Handle returns
//	tick          the clock moves by one (an instant without a wakeup of the component)
//
// The driver does not judge and never compares with the states of the specification; where the real
// component does something else than the specification expects (does not park, parks twice, does
// not run the processor) the step is skipped or the thread is released first. After the last step
// everything parked is released (config "tail": h_first | n_first), the run ends and the queued
// wakeups are handled round by round in time order. The log has the format of driver "eventdriven";
// an entry of an operation is written when the operation is invoked.
type gcThread struct {
	name    string
	work    chan func()
	release chan struct{}
	state   string // controller's view: idle | run (h: inside Process, waiting for the controller) | parked
	port    messaging.Port
}

type gcEvt struct {
	th   *gcThread
	kind string // parked | done | run | ready | panic: ...
}

type gateSched struct {
	mu    sync.Mutex
	now   timing.VTimeInPicoSec
	queue []timing.Event
	cur   *gcThread
	evs   chan gcEvt
}

func (g *gateSched) CurrentTime() timing.VTimeInPicoSec {
	g.mu.Lock()
	defer g.mu.Unlock()
	return g.now
}

func (g *gateSched) Schedule(e timing.Event) {
	g.mu.Lock()
	th := g.cur
	g.mu.Unlock()
	if th != nil {
		g.evs <- gcEvt{th, "parked"}
		<-th.release
	}
	g.mu.Lock()
	g.queue = append(g.queue, e)
	g.mu.Unlock()
}

type gcCmd struct {
	end bool
	t   timing.VTimeInPicoSec
}

type gcRun struct {
	g        *gateSched
	comp     *edComp
	h        *gcThread
	ns       map[string]*gcThread
	nsOrder  []string
	ready    []timing.Event
	inrun    chan gcCmd
	mu       sync.Mutex
	log      edLog
	curIdle  bool
	draining bool
	notify   string
	msgID    uint64
	parks    int // times a goroutine parked inside Schedule
	races    int // operations invoked while another thread was parked inside Schedule
}

func (c *gcRun) add(kind string, at, t timing.VTimeInPicoSec) {
	c.mu.Lock()
	c.log = append(c.log, [3]any{kind, uint64(at), uint64(t)})
	c.mu.Unlock()
}

// Process implements modeling.EventProcessor (runs on thread h).
func (c *gcRun) Process(comp *edComp, now timing.VTimeInPicoSec) bool {
	idle := c.curIdle
	if idle {
		c.add("run", now, 1)
	} else {
		c.add("run", now, 0)
	}
	comp.State.Runs++
	if c.draining {
		return !idle
	}
	c.g.evs <- gcEvt{c.h, "run"}
	for cmd := range c.inrun {
		if cmd.end {
			break
		}
		comp.ScheduleWakeAt(cmd.t)
		c.g.evs <- gcEvt{c.h, "ready"}
	}
	return !idle
}

func (c *gcRun) spawn(name string) *gcThread {
	th := &gcThread{name: name, work: make(chan func()), release: make(chan struct{}), state: "idle"}
	go func() {
		for f := range th.work {
			kind := "done"
			func() {
				defer func() {
					if p := recover(); p != nil {
						kind = fmt.Sprintf("panic: %v", p)
					}
				}()
				f()
			}()
			c.g.evs <- gcEvt{th, kind}
		}
	}()
	return th
}

func (c *gcRun) setCur(th *gcThread) {
	c.g.mu.Lock()
	c.g.cur = th
	c.g.mu.Unlock()
}

// await waits until the thread that was started or released parks or finishes.
func (c *gcRun) await(th *gcThread) string {
	select {
	case e := <-c.g.evs:
		if e.th != th {
			panic(fmt.Sprintf("harness: thread %s reported %q while %s was running", e.th.name, e.kind, th.name))
		}
		if len(e.kind) > 5 && e.kind[:5] == "panic" {
			panic(fmt.Sprintf("thread %s: %s", th.name, e.kind))
		}
		switch e.kind {
		case "parked":
			th.state = "parked"
			c.parks++
		case "run", "ready":
			th.state = "run"
		case "done":
			th.state = "idle"
		}
		return e.kind
	case <-time.After(5 * time.Second):
		panic(fmt.Sprintf("harness: thread %s neither parked nor finished within 5 s", th.name))
	}
}

func (c *gcRun) resume(th *gcThread) {
	if th.state != "parked" {
		return
	}
	c.setCur(th)
	th.release <- struct{}{}
	c.await(th)
}

// finishOp releases the thread until the operation it is in has returned.
func (c *gcRun) finishOp(th *gcThread) {
	for i := 0; i < 16 && th.state == "parked"; i++ {
		c.resume(th)
	}
	if th.state == "parked" {
		panic("harness: thread " + th.name + " keeps parking in Schedule")
	}
}

func (c *gcRun) othersParked(th *gcThread) bool {
	if c.h != th && c.h.state == "parked" {
		return true
	}
	for _, n := range c.ns {
		if n != th && n.state == "parked" {
			return true
		}
	}
	return false
}

func (c *gcRun) hEnd() {
	c.finishOp(c.h)
	if c.h.state == "run" {
		c.setCur(c.h)
		c.inrun <- gcCmd{end: true}
		c.await(c.h)
	}
}

func (c *gcRun) finishAll(hFirst bool) {
	if hFirst {
		c.finishOp(c.h)
	}
	names := c.nsOrder
	for i := range names {
		n := names[i]
		if !hFirst {
			n = names[len(names)-1-i]
		}
		c.finishOp(c.ns[n])
	}
	c.hEnd()
}

func (c *gcRun) round() {
	if len(c.ready) > 0 {
		return
	}
	c.g.mu.Lock()
	defer c.g.mu.Unlock()
	if len(c.g.queue) == 0 {
		return
	}
	tau := c.g.queue[0].Time()
	for _, e := range c.g.queue {
		if e.Time() < tau {
			tau = e.Time()
		}
	}
	rest := c.g.queue[:0:0]
	for _, e := range c.g.queue {
		if e.Time() == tau {
			c.ready = append(c.ready, e)
		} else {
			rest = append(rest, e)
		}
	}
	c.g.queue = rest
	if tau > c.g.now {
		c.g.now = tau
	}
}

func (c *gcRun) dispatch(idle bool) {
	if c.h.state != "idle" {
		c.hEnd()
	}
	if len(c.ready) == 0 {
		return
	}
	ev := c.ready[0]
	c.ready = c.ready[1:]
	c.curIdle = idle
	c.setCur(c.h)
	c.h.work <- func() { _ = c.comp.Handle(ev) }
	c.await(c.h)
}

func (c *gcRun) notifyOn(port messaging.Port, recv bool) {
	if c.notify == "port" {
		c.msgID++
		if recv {
			for port.RetrieveIncoming() != nil { // empty buffer: the next Deliver notifies
			}
			port.Deliver(edMsg{messaging.MsgMeta{ID: c.msgID, Src: "Other.Port", Dst: port.AsRemote()}})
		} else {
			for port.RetrieveOutgoing() != nil {
			}
			port.Send(edMsg{messaging.MsgMeta{ID: c.msgID, Src: port.AsRemote(), Dst: "Other.Port"}})
			port.RetrieveOutgoing() // capacity 1: the buffer was full, the port reports it free
		}
		return
	}
	if recv {
		c.comp.NotifyRecv(port)
	} else {
		c.comp.NotifyPortFree(port)
	}
}

func (c *gcRun) nBegin(th *gcThread, k int) {
	c.finishOp(th)
	now := c.g.CurrentTime()
	in := c.h.state != "idle"
	if c.othersParked(th) {
		c.races++
	}
	var f func()
	switch k {
	case codeNotifyRecv, codeNotifyFree:
		kind := map[int]string{codeNotifyRecv: "notify_recv", codeNotifyFree: "notify_free"}[k]
		if in {
			kind = "in_" + kind
		}
		c.add(kind, now, now)
		f = func() { c.notifyOn(th.port, k == codeNotifyRecv) }
	default:
		t := now + timing.VTimeInPicoSec(k)
		c.add("req", now, t)
		f = func() { c.comp.ScheduleWakeAt(t) }
	}
	c.setCur(th)
	th.work <- f
	c.await(th)
}

func (c *gcRun) hReq(d int) {
	c.finishOp(c.h)
	if c.h.state != "run" {
		return // the real component did not run its processor here
	}
	now := c.g.CurrentTime()
	t := now + timing.VTimeInPicoSec(d)
	if c.othersParked(c.h) {
		c.races++
	}
	c.add("inreq", now, t)
	c.setCur(c.h)
	c.inrun <- gcCmd{t: t}
	c.await(c.h)
}

func edConcReplay(notify, tail string, tailIdle bool, threads []string, h replay.History) (log edLog, parks, races int, errText string) {
	c := &gcRun{g: &gateSched{evs: make(chan gcEvt)}, inrun: make(chan gcCmd), notify: notify, ns: map[string]*gcThread{}}
	defer func() {
		if p := recover(); p != nil {
			errText = fmt.Sprintf("panic: %v", p)
			log, parks, races = c.log, c.parks, c.races
		}
	}()
	timing.ResetIDGenerator()
	c.comp = modeling.NewEventDrivenBuilder[edSpec, edState, modeling.None]().
		WithEngine(c.g).
		WithSpec(edSpec{Label: "c13"}).
		WithProcessor(c).
		Build("EDC")
	c.h = c.spawn("h")
	defer close(c.h.work)
	for _, n := range threads {
		th := c.spawn(n)
		defer close(th.work)
		th.port = messaging.NewPort(c.comp, 1024, 1, "EDC.Port_"+n)
		th.port.SetConnection(&stubConn{})
		c.ns[n] = th
		c.nsOrder = append(c.nsOrder, n)
	}
	for _, st := range h.Steps {
		a := st.A
		op := replay.Str(a["op"])
		switch op {
		case "round":
			c.finishAll(true)
			c.round()
		case "dispatch":
			c.dispatch(isTrue(a["idle"]))
		case "hreq":
			c.hReq(replay.Num(a["d"]))
		case "hend":
			c.hEnd()
		case "nbegin":
			th := c.ns[replay.Str(a["th"])]
			if th == nil {
				return c.log, c.parks, c.races, "unknown thread " + replay.Str(a["th"])
			}
			c.nBegin(th, replay.Num(a["d"]))
		case "sched":
			if name := replay.Str(a["th"]); name == "h" {
				c.resume(c.h)
			} else if th := c.ns[name]; th != nil {
				c.resume(th)
			}
		case "tick":
			c.finishAll(true)
			if len(c.ready) == 0 {
				c.g.mu.Lock()
				c.g.now++
				c.g.mu.Unlock()
			}
		case "write":
			// a step of the specification's controls only
		default:
			return c.log, c.parks, c.races, "unknown step " + op
		}
	}
	// quiescence: everything parked is released, the run ends, everything queued is handled
	c.finishAll(tail != "n_first")
	c.draining = true
	c.curIdle = tailIdle
	for i := 0; i < 10000; i++ {
		if len(c.ready) == 0 {
			c.round()
			if len(c.ready) == 0 {
				break
			}
		}
		c.dispatch(tailIdle)
		c.hEnd()
	}
	c.add("end", c.g.CurrentTime(), 0)
	return c.log, c.parks, c.races, ""
}

func eventDrivenConcDriver(raw json.RawMessage) (any, error) {
	var in replay.Input
	if err := json.Unmarshal(raw, &in); err != nil {
		return nil, err
	}
	notify := replay.Str(in.Config["notify"])
	if notify == "" {
		notify = "direct"
	}
	tail := replay.Str(in.Config["tail"])
	var threads []string
	if ts, ok := in.Config["threads"].([]any); ok {
		for _, t := range ts {
			threads = append(threads, replay.Str(t))
		}
	}
	if len(threads) == 0 {
		threads = []string{"n1"}
	}
	logs := make([]edLog, len(in.Histories))
	errs := make([]string, len(in.Histories))
	parks := make([]int, len(in.Histories))
	races := make([]int, len(in.Histories))
	for i, h := range in.Histories {
		logs[i], parks[i], races[i], errs[i] = edConcReplay(notify, tail, isTrue(in.Config["tail_idle"]), threads, h)
	}
	return map[string]any{"logs": logs, "errors": errs, "parks": parks, "races": races}, nil
}

func init() {
	reg.Register("eventdriven_conc", eventDrivenConcDriver)
}
