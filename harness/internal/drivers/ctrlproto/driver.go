package ctrlproto

import (
	"bufio"
	"encoding/json"
	"hash/fnv"
	"os"

	"verif/harness/internal/reg"
)

// ctrl_trace: every given history on every given agent; one ndjson trace (CtrlTrace.tla)
// per call, B1 mismatches and real-code panics in the result.
type traceInput struct {
	Agents    []string          `json:"agents"`
	Kinds     map[string]string `json:"kinds"`     // agent -> row of the support matrix (from the specification)
	Histories []History         `json:"histories"` // replayed on every agent whose kind matches ByKind, or on all
	ByKind    map[string][]int  `json:"by_kind"`   // kind -> indices into Histories (nil: all histories for all agents)
	Seed      int64             `json:"seed"`
	ExactSeed int64             `json:"exact_seed"` // replay: use this run seed as it is
	NReq      int               `json:"nreq"`
	Out       string            `json:"out"`
}

type panicRec struct {
	Agent   string  `json:"agent"`
	Run     int     `json:"run"`
	Msg     string  `json:"msg"`
	History History `json:"history"`
	Seed    int64   `json:"seed"`
}

type runRec struct {
	Agent   string `json:"agent"`
	Line    int    `json:"line"` // 1-based line of the run's begin record
	History int    `json:"history"`
	Seed    int64  `json:"seed"`
}

type traceOutput struct {
	Runs       int        `json:"runs"`
	Events     int        `json:"events"`
	DataRsps   int        `json:"data_rsps"`
	Timeouts   int        `json:"timeouts"`
	Stalls     int        `json:"stalls"`      // requester stalls (back-pressure runs)
	FullAtAck  int        `json:"full_at_ack"` // successful pause/drain/reset/invalidate/flush acks sent with the Top outgoing buffer full
	Mismatches []Mismatch `json:"mismatches"`
	Panics     []panicRec `json:"panics"`
	Index      []runRec   `json:"index"`
	Sample     []string   `json:"sample"`
}

func seedFor(base int64, agent string, i int) int64 {
	h := fnv.New64a()
	h.Write([]byte(agent))
	return base*1000003 + int64(h.Sum64()%1000003)*7919 + int64(i)
}

func init() {
	reg.Register("ctrl_trace", func(raw json.RawMessage) (any, error) {
		var in traceInput
		if err := json.Unmarshal(raw, &in); err != nil {
			return nil, err
		}
		if in.NReq == 0 {
			in.NReq = 6
		}
		if in.Out == "" {
			in.Out = "trace.ndjson"
		}
		f, err := os.Create(in.Out)
		if err != nil {
			return nil, err
		}
		defer f.Close()
		w := bufio.NewWriterSize(f, 1<<20)
		defer w.Flush()
		out := traceOutput{}
		line := 1
		for _, agent := range in.Agents {
			kind := in.Kinds[agent]
			idx := in.ByKind[kind]
			if in.ByKind == nil {
				idx = make([]int, len(in.Histories))
				for i := range idx {
					idx[i] = i
				}
			}
			for _, hi := range idx {
				h := in.Histories[hi]
				seed := seedFor(in.Seed, agent, hi)
				if in.ExactSeed != 0 {
					seed = in.ExactSeed
				}
				res := runOne(w, agent, kind, out.Runs, h, seed, in.NReq)
				out.Index = append(out.Index, runRec{Agent: agent, Line: line, History: hi, Seed: seed})
				line += res.events
				out.Runs++
				out.Events += res.events
				out.DataRsps += res.dataRsps
				out.Stalls += res.stalls
				out.FullAtAck += res.fullAtAck
				if res.timedOut {
					out.Timeouts++
				}
				out.Mismatches = append(out.Mismatches, res.mismatches...)
				if res.panicMsg != "" {
					out.Panics = append(out.Panics, panicRec{Agent: agent, Run: out.Runs - 1, Msg: res.panicMsg, History: h, Seed: seed})
				}
				if len(out.Sample) == 0 && h.Traffic && len(h.Seq) >= 2 {
					out.Sample = res.sample
				}
			}
		}
		return out, nil
	})
}
