package ctrlproto

import (
	"bufio"
	"encoding/json"
	"fmt"
	"math/rand"
	"os"
	"runtime/debug"
	"strings"

	"github.com/sarchlab/akita/v5/hooking"
	"github.com/sarchlab/akita/v5/mem/datamoverprotocol"
	"github.com/sarchlab/akita/v5/mem/memcontrolprotocol"
	"github.com/sarchlab/akita/v5/mem/memprotocol"
	"github.com/sarchlab/akita/v5/mem/vm"
	"github.com/sarchlab/akita/v5/mem/vm/vmprotocol"
	"github.com/sarchlab/akita/v5/messaging"
	"github.com/sarchlab/akita/v5/modeling"
	"github.com/sarchlab/akita/v5/timing"
)

// Verb is one letter of a history: the verb and whether it carries a filter.
type Verb struct {
	V string
	F bool
}

// UnmarshalJSON accepts ["pause", false].
func (v *Verb) UnmarshalJSON(b []byte) error {
	var a []any
	if err := json.Unmarshal(b, &a); err != nil {
		return err
	}
	if len(a) != 2 {
		return fmt.Errorf("verb wants [name, filtered], got %s", b)
	}
	v.V, _ = a[0].(string)
	v.F, _ = a[1].(bool)
	return nil
}

// MarshalJSON mirrors UnmarshalJSON.
func (v Verb) MarshalJSON() ([]byte, error) { return json.Marshal([]any{v.V, v.F}) }

// History is one behaviour to replay: the verb sequence, traffic on/off, the pacing
// of the sender, and (when it comes from CtrlProto.tla) the expected outcomes.
type History struct {
	Seq     []Verb   `json:"seq"`
	Traffic bool     `json:"traffic"`
	Pacing  string   `json:"pacing"`       // wait | burst
	Bp      bool     `json:"bp,omitempty"` // back-pressure: Top port of capacity 1-2 and a requester that stops retrieving around verbs
	Out     []string `json:"out,omitempty"`
	Ctl     string   `json:"ctl,omitempty"` // Enabled | Paused expected once the sequence is answered
}

var cmdOf = map[string]memcontrolprotocol.Command{
	"pause": memcontrolprotocol.CmdPause, "drain": memcontrolprotocol.CmdDrain, "enable": memcontrolprotocol.CmdEnable,
	"reset": memcontrolprotocol.CmdReset, "invalidate": memcontrolprotocol.CmdInvalidate, "flush": memcontrolprotocol.CmdFlush,
}

func verbName(c memcontrolprotocol.Command) string {
	for n, k := range cmdOf {
		if k == c {
			return n
		}
	}
	return fmt.Sprintf("cmd%d", int(c))
}

func outcomeOf(ok bool, err string) string {
	switch {
	case ok:
		return "ok"
	case err == memcontrolprotocol.ErrUnsupported:
		return "unsupported"
	case err == memcontrolprotocol.ErrMustBePausedOrDrained:
		return "illegal"
	}
	return "other:" + err
}

// ---------------------------------------------------------------- tracer

type tracer struct {
	w      *bufio.Writer
	events int
	keep   []string // first lines of the run, for samples
	r      *rig
	// identity maps (message id -> small per-run id)
	ctlID  map[uint64]int
	dataID map[uint64]int
	byAddr map[uint64][]int // translation requests outstanding per vaddr+1
	served map[int]bool
	// per agent tick
	tickAcks []uint64 // RspTo of the acknowledgments sent in this tick
	tickRetr []uint64 // ids of the control requests retrieved in this tick
	inTick   bool
	// back-pressure statistic: acknowledgments of pause/drain/reset sent while the Top outgoing buffer was full
	fullAtAck int
}

func (t *tracer) emit(m map[string]any) {
	b, _ := json.Marshal(m)
	t.w.Write(b)
	t.w.WriteByte('\n')
	t.events++
	if len(t.keep) < 40 {
		t.keep = append(t.keep, string(b))
	}
}

func isDataRsp(m messaging.Msg) bool {
	switch m.(type) {
	case memprotocol.DataReadyRsp, memprotocol.WriteDoneRsp, vmprotocol.TranslationRsp, datamoverprotocol.DataMoveResponse:
		return true
	}
	return false
}

// Func receives the hooks of the agent's Control and Top ports and of the engine.
func (t *tracer) Func(ctx hooking.HookCtx) {
	switch ctx.Pos {
	case timing.HookPosBeforeEvent:
		if evt, ok := ctx.Item.(timing.Event); ok && evt.HandlerID() == t.r.name {
			t.inTick = true
			t.tickAcks, t.tickRetr = t.tickAcks[:0], t.tickRetr[:0]
		}
		return
	case timing.HookPosAfterEvent:
		if evt, ok := ctx.Item.(timing.Event); ok && evt.HandlerID() == t.r.name {
			t.inTick = false
			// the projected state is attributed to an acknowledgment only when it was the only
			// control activity of the tick (an agent may answer a drain and take the next
			// command in one tick; the state in between is not observable)
			if len(t.tickAcks) == 1 {
				clean := true
				for _, id := range t.tickRetr {
					if id != t.tickAcks[0] {
						clean = false
					}
				}
				if clean {
					ctl, q := t.r.project()
					t.emit(map[string]any{"e": "st", "ctl": ctl, "q": q})
				}
			}
		}
		return
	}
	port, _ := ctx.Domain.(messaging.Port)
	msg, _ := ctx.Item.(messaging.Msg)
	if port == nil || msg == nil {
		return
	}
	meta := msg.Meta()
	if port == t.r.ctrl {
		switch ctx.Pos {
		case messaging.HookPosPortMsgRecvd:
			if q, ok := msg.(memcontrolprotocol.Req); ok {
				t.emit(map[string]any{"e": "creq", "id": t.ctlID[meta.ID], "v": verbName(q.Command)})
			}
		case messaging.HookPosPortMsgRetrieveIncoming:
			t.tickRetr = append(t.tickRetr, meta.ID)
		case messaging.HookPosPortMsgSend:
			if a, ok := msg.(memcontrolprotocol.Rsp); ok {
				t.tickAcks = append(t.tickAcks, meta.RspTo)
				if a.Success && a.Command != memcontrolprotocol.CmdEnable && !t.r.top.CanSend() {
					t.fullAtAck++
				}
				t.emit(map[string]any{"e": "crsp", "id": t.ctlID[meta.RspTo], "v": verbName(a.Command), "out": outcomeOf(a.Success, a.Error),
					"dst": string(meta.Dst) == string(t.r.drv.ctl.AsRemote())})
			} else {
				t.emit(map[string]any{"e": "crsp", "id": 0, "v": fmt.Sprintf("%T", msg), "out": "other:not a control response", "dst": false})
			}
		}
		return
	}
	if port == t.r.top {
		switch ctx.Pos {
		case messaging.HookPosPortMsgRecvd:
			if id := t.dataID[meta.ID]; id != 0 {
				t.emit(map[string]any{"e": "dreq", "id": id})
			}
		case messaging.HookPosPortMsgRetrieveIncoming:
			if id := t.dataID[meta.ID]; id != 0 {
				t.emit(map[string]any{"e": "dacc", "id": id})
			}
		case messaging.HookPosPortMsgSend:
			if !isDataRsp(msg) {
				return
			}
			id := t.dataID[meta.RspTo]
			if id == 0 {
				// some agents answer with a foreign RspTo (mmuCache, gmmu remote path): fall back on the page
				if x, ok := msg.(vmprotocol.TranslationRsp); ok {
					key := x.Page.VAddr + 1
					if l := t.byAddr[key]; len(l) > 0 {
						id = l[0]
					}
				}
			}
			if id != 0 {
				if x, ok := msg.(vmprotocol.TranslationRsp); ok {
					key := x.Page.VAddr + 1
					l := t.byAddr[key]
					for i, v := range l {
						if v == id {
							t.byAddr[key] = append(append([]int{}, l[:i]...), l[i+1:]...)
							break
						}
					}
				}
				t.served[id] = true
			}
			t.emit(map[string]any{"e": "drsp", "id": id})
		}
	}
}

// ---------------------------------------------------------------- driver component

type ack struct {
	RspTo   uint64
	Verb    string
	Outcome string
}

type driver struct {
	*modeling.Component[struct{}, struct{}, modeling.None]
	r         *rig
	data, ctl messaging.Port
	run       *runState
}

type runState struct {
	h        History
	rng      *rand.Rand
	tr       *tracer
	cycle    int
	deadline int
	nReq     int // data requests before the epilogue
	nAfter   int // data requests after the final enable
	sentReq  int
	reqAt    int
	sentVerb int
	verbAt   int
	verbIDs  []uint64
	acks     []ack
	epiSent  bool
	epiID    uint64
	epiAcked bool
	ctlAtEnd string
	qAtEnd   bool
	dataRsps int
	timedOut bool
	// back-pressure (h.Bp): around the verbs flagged in stallAt (index len(Seq) = the epilogue Enable) the
	// requester stops retrieving from its data port `lead` cycles before the verb is sent until `lag`
	// cycles after its acknowledgment arrived (at most maxStall cycles after the verb was sent), then
	// retrieves again while the agent is still in the state the verb left.
	stallAt   []bool
	stalling  bool
	stallVerb int // verb the open stall belongs to
	leadFrom  int // cycle at which the lead of the open stall began
	lead, lag int
	adaptive  bool
	fullSeen  int
	sentAt    []int // cycle each verb (and the epilogue) was sent
	ackAt     []int // cycle each acknowledgment arrived
	stalls    int
	heldMax   int // most responses seen waiting in the requester's buffer at the end of a stall
}

type drvMW struct{ d *driver }

const (
	maxStall = 60
	maxLead  = 400
)

func newDriver(r *rig, dataIn int) *driver {
	if dataIn <= 0 {
		dataIn = 16
	}
	d := &driver{r: r}
	d.Component = modeling.NewBuilder[struct{}, struct{}, modeling.None]().
		WithEngine(r.engine).WithFreq(1 * timing.GHz).WithSpec(struct{}{}).Build("Driver")
	d.AddMiddleware(&drvMW{d: d})
	d.DeclarePort("Data")
	d.DeclarePort("Ctl", memcontrolprotocol.Requester)
	d.data = messaging.NewPort(d, dataIn, 16, "Driver.Data")
	d.ctl = messaging.NewPort(d, 8, 8, "Driver.Ctl")
	d.AssignPort("Data", d.data)
	d.AssignPort("Ctl", d.ctl)
	return d
}

func (d *driver) sendVerb(v Verb) uint64 {
	q := memcontrolprotocol.Req{Command: cmdOf[v.V]}
	if v.F {
		q.Addresses = []uint64{64, 4096}
		q.PID = vm.PID(1)
	}
	q.ID = timing.GetIDGenerator().Generate()
	q.Src, q.Dst = d.ctl.AsRemote(), d.r.ctrl.AsRemote()
	q.TrafficClass = "memcontrolprotocol.Req"
	d.run.tr.ctlID[q.ID] = len(d.run.tr.ctlID) + 1
	d.ctl.Send(q)
	return q.ID
}

func (m *drvMW) Tick() bool {
	d := m.d
	s := d.run
	if s == nil {
		return false
	}
	s.cycle++
	for msg := d.ctl.RetrieveIncoming(); msg != nil; msg = d.ctl.RetrieveIncoming() {
		if a, ok := msg.(memcontrolprotocol.Rsp); ok {
			if s.epiSent && a.RspTo == s.epiID {
				s.epiAcked = true
				s.ackAt[len(s.h.Seq)] = s.cycle
				continue
			}
			if len(s.acks) < len(s.h.Seq) {
				s.ackAt[len(s.acks)] = s.cycle
			}
			s.acks = append(s.acks, ack{RspTo: a.RspTo, Verb: verbName(a.Command), Outcome: outcomeOf(a.Success, a.Error)})
		}
	}
	n := len(s.h.Seq)
	// an open stall ends lag cycles after the acknowledgment of its verb, or maxStall cycles after the verb
	if s.stalling && s.sentAt[s.stallVerb] > 0 {
		acked := s.ackAt[s.stallVerb] > 0
		if (acked && s.cycle >= s.ackAt[s.stallVerb]+s.lag) || s.cycle >= s.sentAt[s.stallVerb]+maxStall {
			s.stalling = false
			if k := d.data.NumIncoming(); k > s.heldMax {
				s.heldMax = k
			}
			// leave the agent some cycles in this state with the requester retrieving again
			if v := s.cycle + 3 + s.rng.Intn(8); v > s.verbAt {
				s.verbAt = v
			}
		}
	}
	if !s.stalling {
		for msg := d.data.RetrieveIncoming(); msg != nil; msg = d.data.RetrieveIncoming() {
			s.dataRsps++
		}
	}
	if s.cycle > s.deadline {
		s.timedOut = true
		s.stalling = false
		return false
	}
	// hold(j): verb j is due; when it is flagged, first stop retrieving for `lead` cycles
	hold := func(j int) bool {
		if !s.h.Bp || !s.stallAt[j] {
			return false
		}
		if s.stalling && s.stallVerb != j {
			if s.sentAt[s.stallVerb] > 0 && s.h.Pacing != "burst" {
				return true // the previous stall is still open: wait for it
			}
			s.stallVerb = j // burst: the open stall now follows this verb
		}
		if !s.stalling {
			s.stalling, s.stallVerb, s.leadFrom = true, j, s.cycle
			s.lead, s.lag = 3+s.rng.Intn(14), 1+s.rng.Intn(6)
			s.stalls++
		}
		if s.cycle < s.leadFrom+s.lead {
			return true
		}
		// first verb: slow agents (DRAM, data mover) need longer than the drawn lead to complete enough
		// responses; keep holding until the agent's Top outgoing buffer is full (plus a few cycles so
		// that more completed responses queue up behind it), as long as enough responses are outstanding
		if j == 0 && s.adaptive && s.cycle < s.leadFrom+maxLead {
			if !d.r.top.CanSend() {
				if s.fullSeen == 0 {
					s.fullSeen = s.cycle
				}
				return s.cycle < s.fullSeen+s.lag+2
			}
			return s.sentReq-s.dataRsps > d.data.NumIncoming()
		}
		return false
	}
	// control verbs
	if s.sentVerb < n && s.cycle >= s.verbAt && d.ctl.CanSend() &&
		(s.h.Pacing == "burst" || len(s.acks) >= s.sentVerb) && !hold(s.sentVerb) {
		s.verbIDs = append(s.verbIDs, d.sendVerb(s.h.Seq[s.sentVerb]))
		s.sentAt[s.sentVerb] = s.cycle
		s.sentVerb++
		if s.h.Pacing == "burst" {
			s.verbAt = s.cycle + s.rng.Intn(2)
		} else {
			s.verbAt = s.cycle + 1 + s.rng.Intn(7)
		}
	}
	// epilogue: once the sequence is answered, note the state, enable, send a little more traffic
	if !s.epiSent && s.sentVerb == n && len(s.acks) >= n && s.cycle >= s.verbAt+2 && d.ctl.CanSend() &&
		!(s.stalling && s.stallVerb != n) && !hold(n) {
		s.ctlAtEnd, s.qAtEnd = d.r.project()
		s.epiID = d.sendVerb(Verb{V: "enable"})
		s.sentAt[n] = s.cycle
		s.epiSent = true
	}
	// data traffic
	want := 0
	if s.h.Traffic {
		want = s.nReq
		if s.epiAcked {
			want += s.nAfter
		}
	}
	if s.sentReq < want && s.cycle >= s.reqAt && d.data.CanSend() {
		msg, key := d.r.dataReq(s.sentReq)
		id := s.sentReq + 1
		s.tr.dataID[msg.Meta().ID] = id
		if key != 0 {
			s.tr.byAddr[key] = append(s.tr.byAddr[key], id)
		}
		d.data.Send(msg)
		s.sentReq++
		s.reqAt = s.cycle + 1 + s.rng.Intn(4)
	}
	done := s.epiAcked && s.sentReq >= want && !s.stalling
	return !done
}

// ---------------------------------------------------------------- one run

// Mismatch is a B1 disagreement between CtrlProto.tla's behaviour and what the driver saw.
type Mismatch struct {
	Agent   string  `json:"agent"`
	Run     int     `json:"run"`
	Kind    string  `json:"kind"`
	Verb    string  `json:"verb"`
	Index   int     `json:"index"`
	Want    any     `json:"want"`
	Got     any     `json:"got"`
	History History `json:"history"`
	Slow    bool    `json:"slow"`
	Seed    int64   `json:"seed"`
}

type runResult struct {
	events     int
	mismatches []Mismatch
	panicMsg   string
	sample     []string
	dataRsps   int
	timedOut   bool
	stalls     int
	fullAtAck  int
}

func akitaFrame(stack string) string {
	for _, l := range strings.Split(stack, "\n") {
		l = strings.TrimSpace(l)
		if strings.HasPrefix(l, "github.com/sarchlab/akita") {
			if i := strings.LastIndex(l, "("); i > 0 {
				return l[:i]
			}
			return l
		}
	}
	return ""
}

func runOne(w *bufio.Writer, agent, kind string, runNo int, h History, seed int64, nReq int) (res runResult) {
	rng := rand.New(rand.NewSource(seed))
	slow := rng.Intn(2) == 1
	opts := rigOpts{slow: slow, portBuf: 4}
	if h.Bp {
		opts.topBuf, opts.drvIn = 1+rng.Intn(2), 1+rng.Intn(2)
	}
	r := buildRig(agent, opts)
	tr := &tracer{w: w, r: r, ctlID: map[uint64]int{}, dataID: map[uint64]int{}, byAddr: map[uint64][]int{}, served: map[int]bool{}}
	s := &runState{h: h, rng: rng, tr: tr, nReq: nReq, nAfter: 2, deadline: 6000}
	if !h.Traffic {
		s.nReq, s.nAfter = 0, 0
	}
	n := len(h.Seq)
	s.stallAt, s.sentAt, s.ackAt = make([]bool, n+1), make([]int, n+1), make([]int, n+1)
	if h.Bp {
		s.nReq += 3
		s.adaptive = rng.Intn(4) != 0
		for j := 0; j <= n; j++ {
			// the first verb most of the time, later ones and the epilogue Enable about half of the time;
			// a burst sender keeps one stall open across its verbs
			s.stallAt[j] = (j == 0 && rng.Intn(5) != 0) || (j > 0 && rng.Intn(2) == 0 && (h.Pacing != "burst" || j == n))
		}
	}
	// verbs start while traffic is under way
	s.verbAt = 1 + rng.Intn(14)
	if slow {
		s.verbAt += rng.Intn(20)
	}
	s.reqAt = 1
	r.drv.run = s
	r.ctrl.AcceptHook(tr)
	r.top.AcceptHook(tr)
	r.engine.AcceptHook(tr)
	tr.emit(map[string]any{"e": "begin", "agent": agent, "kind": kind, "run": runNo, "pacing": h.Pacing, "traffic": h.Traffic, "slow": slow, "bp": h.Bp, "seq": h.Seq})
	func() {
		defer func() {
			if p := recover(); p != nil {
				st := string(debug.Stack())
				res.panicMsg = fmt.Sprint(p)
				if os.Getenv("CTRL_STACK") != "" {
					fmt.Fprintln(os.Stderr, st)
				}
				if f := akitaFrame(st); f != "" {
					res.panicMsg += " in " + f
				} else {
					res.panicMsg = "HARNESS: " + res.panicMsg + "\n" + st
				}
			}
		}()
		r.drv.TickLater()
		// hard guard: nothing in these rigs needs more than deadline cycles
		if err := r.engine.RunUntil(timing.VTimeInPicoSec(s.deadline+2000) * 1000); err != nil {
			panic(err)
		}
	}()
	ctl, q := "unknown", false
	if res.panicMsg == "" {
		ctl, q = r.project()
	}
	tr.emit(map[string]any{"e": "end", "ctl": ctl, "q": q, "timeout": s.timedOut, "panic": res.panicMsg != "", "epi": s.epiAcked})
	res.events = tr.events
	res.sample = tr.keep
	res.dataRsps = s.dataRsps
	res.timedOut = s.timedOut
	res.stalls, res.fullAtAck = s.stalls, tr.fullAtAck

	// B1: outcomes and final control state against the model's behaviour
	if res.panicMsg == "" && h.Out != nil {
		mm := func(kind, verb string, i int, want, got any) {
			res.mismatches = append(res.mismatches, Mismatch{Agent: agent, Run: runNo, Kind: kind, Verb: verb, Index: i, Want: want, Got: got, History: h, Slow: slow, Seed: seed})
		}
		for i, v := range h.Seq {
			if i >= len(s.acks) {
				mm("no_response", v.V, i, h.Out[i], "none")
				break
			}
			a := s.acks[i]
			if i < len(s.verbIDs) && a.RspTo != s.verbIDs[i] {
				mm("response_id", v.V, i, s.verbIDs[i], a.RspTo)
			}
			if a.Verb != v.V {
				mm("response_command", v.V, i, v.V, a.Verb)
			}
			if a.Outcome != h.Out[i] {
				mm("outcome", v.V, i, h.Out[i], a.Outcome)
			}
		}
		if len(s.acks) > len(h.Seq) {
			mm("extra_response", s.acks[len(h.Seq)].Verb, len(h.Seq), "none", s.acks[len(h.Seq)].Outcome)
		}
		if s.epiSent && h.Ctl != "" && strings.ToLower(h.Ctl) != s.ctlAtEnd {
			mm("final_state", "", len(h.Seq), strings.ToLower(h.Ctl), s.ctlAtEnd)
		}
	}
	return res
}
