// Package ctrlproto is the C18 driver family: each of the twelve memory agents of
// mem/CONTROL_PROTOCOL.md is built by its real builder on a real serial engine with
// real or stub neighbours, driven through verb sequences interleaved with live data
// traffic, and observed at its own Control and Top ports (CtrlTrace.tla).
package ctrlproto

import (
	"fmt"

	"github.com/sarchlab/akita/v5/mem"
	"github.com/sarchlab/akita/v5/mem/cache/writeback"
	"github.com/sarchlab/akita/v5/mem/cache/writethroughcache"
	"github.com/sarchlab/akita/v5/mem/datamover"
	"github.com/sarchlab/akita/v5/mem/datamoverprotocol"
	"github.com/sarchlab/akita/v5/mem/dram"
	"github.com/sarchlab/akita/v5/mem/idealmemcontroller"
	"github.com/sarchlab/akita/v5/mem/memcontrolprotocol"
	"github.com/sarchlab/akita/v5/mem/memprotocol"
	"github.com/sarchlab/akita/v5/mem/rob"
	"github.com/sarchlab/akita/v5/mem/simplebankedmemory"
	"github.com/sarchlab/akita/v5/mem/vm"
	"github.com/sarchlab/akita/v5/mem/vm/addresstranslator"
	"github.com/sarchlab/akita/v5/mem/vm/gmmu"
	"github.com/sarchlab/akita/v5/mem/vm/mmu"
	"github.com/sarchlab/akita/v5/mem/vm/mmuCache"
	"github.com/sarchlab/akita/v5/mem/vm/tlb"
	"github.com/sarchlab/akita/v5/mem/vm/vmprotocol"
	"github.com/sarchlab/akita/v5/messaging"
	"github.com/sarchlab/akita/v5/modeling"
	"github.com/sarchlab/akita/v5/noc/directconnection"
	"github.com/sarchlab/akita/v5/timing"
)

// AgentNames lists the twelve agents in the order of the support matrix.
var AgentNames = []string{"writeback", "writethroughcache", "tlb", "mmuCache", "mmu", "gmmu", "addresstranslator",
	"rob", "idealmemcontroller", "dram", "simplebankedmemory", "datamover"}

// rig is one agent under test with its neighbours.
type rig struct {
	agent     string
	engine    *timing.SerialEngine
	regr      modeling.Registrar
	name      string         // component name of the agent (its event handler id)
	ctrl, top messaging.Port // the agent's own ports
	traffic   string         // mem | xlat | move
	project   func() (ctl string, quiescent bool)
	drv       *driver
}

func ctlName(s memcontrolprotocol.State) string { return s.String() }

type rigOpts struct {
	slow    bool // slow downstream
	portBuf int
	topBuf  int // capacity of the agent's Top port (0: portBuf); 1-2 under back-pressure
	drvIn   int // capacity of the driver's incoming data buffer (0: 16)
}

func (r *rig) mkPort(comp messaging.Component, name string, n int) messaging.Port {
	return modeling.MakePortBuilder().WithRegistrar(r.regr).WithComponent(comp).
		WithSpec(modeling.PortSpec{BufSize: n}).Build(name)
}

func (r *rig) conn(name string, ports ...messaging.Port) {
	cn := directconnection.MakeBuilder().WithRegistrar(r.regr).Build(name)
	for _, p := range ports {
		cn.PlugIn(p)
	}
}

func (r *rig) idealMem(name string, lat int) *idealmemcontroller.Comp {
	sp := idealmemcontroller.DefaultSpec()
	sp.Latency = lat
	sp.Width = 2
	sp.Capacity = 1 << 20
	m := idealmemcontroller.MakeBuilder().WithRegistrar(r.regr).WithSpec(sp).
		WithResources(idealmemcontroller.Resources{Storage: mem.NewStorage(1 << 20)}).Build(name)
	m.AssignPort("Top", r.mkPort(m, "Top", 8))
	m.AssignPort("Control", r.mkPort(m, "Control", 2))
	return m
}

// xlatStub answers translation requests after a latency; it is the "lower level" of
// the TLB, the MMU cache, the GMMU (remote pages) and the address translator.
type xlatStub struct {
	*modeling.Component[struct{}, struct{}, modeling.None]
	port    messaging.Port
	eng     *timing.SerialEngine
	lat     timing.VTimeInPicoSec
	pending []xlatDue
}

type xlatDue struct {
	at  timing.VTimeInPicoSec
	req vmprotocol.TranslationReq
}

type xlatMW struct{ s *xlatStub }

func pageFor(pid vm.PID, vaddr uint64, dev uint64) vm.Page {
	return vm.Page{PID: pid, VAddr: vaddr, PAddr: 0x40000 + vaddr%0x40000, PageSize: 4096, Valid: true, DeviceID: dev}
}

func (m *xlatMW) Tick() bool {
	s := m.s
	now := s.eng.CurrentTime()
	progress := false
	for {
		msg := s.port.RetrieveIncoming()
		if msg == nil {
			break
		}
		progress = true
		if req, ok := msg.(vmprotocol.TranslationReq); ok {
			s.pending = append(s.pending, xlatDue{at: now + s.lat, req: req})
		}
	}
	for len(s.pending) > 0 && s.pending[0].at <= now && s.port.CanSend() {
		q := s.pending[0].req
		rsp := vmprotocol.TranslationRsp{Page: pageFor(q.PID, q.VAddr, 1)}
		rsp.ID = timing.GetIDGenerator().Generate()
		rsp.Src, rsp.Dst = s.port.AsRemote(), q.Src
		rsp.RspTo = q.ID
		rsp.TrafficClass = "vmprotocol.TranslationRsp"
		s.port.Send(rsp)
		s.pending = s.pending[1:]
		progress = true
	}
	return progress || len(s.pending) > 0
}

func (r *rig) xlat(name string, lat int) *xlatStub {
	s := &xlatStub{eng: r.engine, lat: timing.VTimeInPicoSec(lat) * 1000}
	s.Component = modeling.NewBuilder[struct{}, struct{}, modeling.None]().
		WithEngine(r.engine).WithFreq(1 * timing.GHz).WithSpec(struct{}{}).Build(name)
	s.AddMiddleware(&xlatMW{s: s})
	s.DeclarePort("Port", vmprotocol.Responder)
	s.port = messaging.NewPort(s, 16, 16, name+".Port")
	s.AssignPort("Port", s.port)
	return s
}

func pick(slow bool, fast, slowv int) int {
	if slow {
		return slowv
	}
	return fast
}

func pageTable(n int, remoteOdd bool) vm.PageTable {
	pt := vm.MakePageTableBuilder().WithLog2PageSize(12).Build("PT")
	for i := 0; i < n; i++ {
		dev := uint64(1)
		if remoteOdd && i%2 == 1 {
			dev = 2
		}
		for pid := 1; pid <= 2; pid++ {
			pt.Insert(vm.Page{PID: vm.PID(pid), VAddr: uint64(i) * 4096, PAddr: 0x40000 + uint64(i)*4096, PageSize: 4096, Valid: true, DeviceID: dev})
		}
	}
	return pt
}

// buildRig assembles the named agent. The driver component (ports Data and Ctl) is
// connected to the agent's Top and Control ports through direct connections.
func buildRig(agent string, o rigOpts) *rig {
	r := &rig{agent: agent, engine: timing.NewSerialEngine()}
	r.regr = modeling.NewStandaloneRegistrar(r.engine)
	if o.portBuf == 0 {
		o.portBuf = 4
	}
	pb := o.portBuf
	tb := pb
	if o.topBuf > 0 {
		tb = o.topBuf
	}
	bufOf := func(port string) int {
		if port == "Top" {
			return tb
		}
		return pb
	}
	memLat := pick(o.slow, 3, 17)
	var bottoms [][]messaging.Port // extra links: pairs of ports
	link := func(a, b messaging.Port) { bottoms = append(bottoms, []messaging.Port{a, b}) }
	var upPort messaging.RemotePort = "Driver.Data"

	switch agent {
	case "idealmemcontroller":
		sp := idealmemcontroller.DefaultSpec()
		sp.Latency = pick(o.slow, 4, 19)
		sp.Width = 1
		sp.Capacity = 1 << 20
		c := idealmemcontroller.MakeBuilder().WithRegistrar(r.regr).WithSpec(sp).
			WithResources(idealmemcontroller.Resources{Storage: mem.NewStorage(1 << 20)}).Build("Agent")
		c.AssignPort("Top", r.mkPort(c, "Top", tb))
		c.AssignPort("Control", r.mkPort(c, "Control", pb))
		r.name, r.traffic = c.Name(), "mem"
		r.ctrl, r.top = c.GetPortByName("Control"), c.GetPortByName("Top")
		r.project = func() (string, bool) {
			return ctlName(c.State.ControlState), len(c.State.InflightTransactions) == 0
		}
	case "dram":
		c := dram.MakeBuilder().WithRegistrar(r.regr).
			WithResources(dram.Resources{Storage: mem.NewStorage(1 << 20)}).Build("Agent")
		c.AssignPort("Top", r.mkPort(c, "Top", tb))
		c.AssignPort("Control", r.mkPort(c, "Control", pb))
		r.name, r.traffic = c.Name(), "mem"
		r.ctrl, r.top = c.GetPortByName("Control"), c.GetPortByName("Top")
		r.project = func() (string, bool) {
			return ctlName(c.State.ControlState), len(c.State.Transactions) == 0
		}
	case "simplebankedmemory":
		sp := simplebankedmemory.DefaultSpec()
		sp.StageLatency = pick(o.slow, 3, 11)
		sp.Capacity = 1 << 20
		c := simplebankedmemory.MakeBuilder().WithRegistrar(r.regr).WithSpec(sp).
			WithResources(simplebankedmemory.Resources{Storage: mem.NewStorage(1 << 20)}).Build("Agent")
		c.AssignPort("Top", r.mkPort(c, "Top", tb))
		c.AssignPort("Control", r.mkPort(c, "Control", pb))
		r.name, r.traffic = c.Name(), "mem"
		r.ctrl, r.top = c.GetPortByName("Control"), c.GetPortByName("Top")
		r.project = func() (string, bool) {
			q := true
			for i := range c.State.Banks {
				b := &c.State.Banks[i]
				if len(b.Pipeline.Stages()) != 0 || b.PostPipelineBuf.Size() != 0 {
					q = false
				}
			}
			return ctlName(c.State.ControlState), q
		}
	case "writeback":
		low := r.idealMem("Low", memLat)
		sp := writeback.DefaultSpec()
		sp.TotalByteSize = 2 * 2 * 64
		sp.WayAssociativity = 2
		sp.Log2BlockSize = 6
		sp.NumMSHREntry = 2
		sp.BankLatency = 2
		sp.DirLatency = 2
		sp.NumReqPerCycle = 1
		sp.NumBanks = 1
		sp.WriteBufferCapacity = 4
		sp.MaxInflightFetch = 2
		sp.MaxInflightEviction = 2
		c := writeback.MakeBuilder().WithRegistrar(r.regr).WithSpec(sp).
			WithResources(writeback.Resources{AddressToPortMapper: &mem.SinglePortMapper{Port: low.GetPortByName("Top").AsRemote()}}).Build("Agent")
		for _, n := range []string{"Top", "Bottom", "Control"} {
			c.AssignPort(n, r.mkPort(c, n, bufOf(n)))
		}
		link(c.GetPortByName("Bottom"), low.GetPortByName("Top"))
		r.name, r.traffic = c.Name(), "mem"
		r.ctrl, r.top = c.GetPortByName("Control"), c.GetPortByName("Top")
		r.project = func() (string, bool) {
			st := &c.State
			ctl := "unknown"
			switch st.CacheState { // running=1, preflushing=2, flushing=3, paused=4, draining=5 (comp.go)
			case 1:
				ctl = "enabled"
			case 2, 3:
				ctl = "flushing"
			case 4:
				ctl = "paused"
			case 5:
				ctl = "draining"
			}
			q := st.WriteBufferBuf.Size() == 0
			for i := range st.Transactions {
				if !st.Transactions[i].Removed {
					q = false
				}
			}
			for _, n := range st.BankInflightTransCounts {
				if n > 0 {
					q = false
				}
			}
			for _, n := range st.BankDownwardInflightTransCounts {
				if n > 0 {
					q = false
				}
			}
			return ctl, q
		}
	case "writethroughcache":
		low := r.idealMem("Low", memLat)
		sp := writethroughcache.DefaultSpec()
		sp.TotalByteSize = 2 * 2 * 64
		sp.WayAssociativity = 2
		sp.Log2BlockSize = 6
		sp.NumMSHREntry = 2
		sp.BankLatency = 2
		sp.DirLatency = 2
		sp.NumReqPerCycle = 1
		sp.NumBanks = 1
		sp.MaxNumConcurrentTrans = 4
		c := writethroughcache.MakeBuilder().WithRegistrar(r.regr).WithSpec(sp).
			WithResources(writethroughcache.Resources{AddressMapper: &mem.SinglePortMapper{Port: low.GetPortByName("Top").AsRemote()}}).Build("Agent")
		for _, n := range []string{"Top", "Bottom", "Control"} {
			c.AssignPort(n, r.mkPort(c, n, bufOf(n)))
		}
		link(c.GetPortByName("Bottom"), low.GetPortByName("Top"))
		r.name, r.traffic = c.Name(), "mem"
		r.ctrl, r.top = c.GetPortByName("Control"), c.GetPortByName("Top")
		r.project = func() (string, bool) {
			st := &c.State
			ctl := "enabled"
			if st.IsDraining {
				ctl = "draining"
			} else if st.IsPaused {
				ctl = "paused"
			}
			q := true
			for i := range st.Transactions {
				if !st.Transactions[i].Removed {
					q = false
				}
			}
			return ctl, q
		}
	case "tlb":
		low := r.xlat("Low", pick(o.slow, 3, 14))
		sp := tlb.DefaultSpec() // Latency 4 (>= 2): independent of W2 (1-stage pipeline with delay 1)
		sp.NumWays = 2
		sp.MSHRSize = 2
		sp.NumReqPerCycle = 1
		c := tlb.MakeBuilder().WithRegistrar(r.regr).WithSpec(sp).
			WithResources(tlb.Resources{TranslationProviderMapper: &mem.SinglePortMapper{Port: low.port.AsRemote()}}).Build("Agent")
		for _, n := range []string{"Top", "Bottom", "Control"} {
			c.AssignPort(n, r.mkPort(c, n, bufOf(n)))
		}
		link(c.GetPortByName("Bottom"), low.port)
		r.name, r.traffic = c.Name(), "xlat"
		r.ctrl, r.top = c.GetPortByName("Control"), c.GetPortByName("Top")
		r.project = func() (string, bool) {
			st := &c.State
			ctl := map[string]string{"enable": "enabled", "pause": "paused", "drain": "draining"}[st.TLBState]
			return ctl, len(st.MSHREntries) == 0 && !st.HasRespondingMSHR
		}
	case "mmuCache":
		low := r.xlat("Low", pick(o.slow, 3, 14))
		sp := mmuCache.DefaultSpec()
		sp.NumBlocks = 2
		sp.NumReqPerCycle = 1
		c := mmuCache.MakeBuilder().WithRegistrar(r.regr).WithSpec(sp).
			WithResources(mmuCache.Resources{LowModulePort: low.port.AsRemote(), UpModulePort: upPort}).Build("Agent")
		for _, n := range []string{"Top", "Bottom", "Control"} {
			c.AssignPort(n, r.mkPort(c, n, bufOf(n)))
		}
		link(c.GetPortByName("Bottom"), low.port)
		r.name, r.traffic = c.Name(), "xlat-unique"
		r.ctrl, r.top = c.GetPortByName("Control"), c.GetPortByName("Top")
		r.project = func() (string, bool) {
			st := &c.State
			ctl := map[string]string{"enable": "enabled", "pause": "paused", "drain": "draining"}[st.CurrentState]
			return ctl, len(st.OutstandingBottomReqs) == 0
		}
	case "mmu":
		sp := mmu.DefaultSpec()
		sp.Latency = pick(o.slow, 3, 12)
		sp.MaxRequestsInFlight = 2
		c := mmu.MakeBuilder().WithRegistrar(r.regr).WithSpec(sp).
			WithResources(mmu.Resources{PageTable: pageTable(64, false)}).Build("Agent")
		c.AssignPort("Top", r.mkPort(c, "Top", tb))
		c.AssignPort("Control", r.mkPort(c, "Control", pb))
		r.name, r.traffic = c.Name(), "xlat"
		r.ctrl, r.top = c.GetPortByName("Control"), c.GetPortByName("Top")
		r.project = func() (string, bool) {
			return ctlName(c.State.ControlState), len(c.State.WalkingTranslations) == 0
		}
	case "gmmu":
		low := r.xlat("Low", pick(o.slow, 3, 14))
		sp := gmmu.DefaultSpec()
		sp.DeviceID = 1
		sp.Latency = pick(o.slow, 2, 9)
		sp.MaxRequestsInFlight = 2
		sp.LowModule = low.port.AsRemote()
		c := gmmu.MakeBuilder().WithRegistrar(r.regr).WithSpec(sp).
			WithResources(gmmu.Resources{PageTable: pageTable(64, true)}).Build("Agent")
		for _, n := range []string{"Top", "Bottom", "Control"} {
			c.AssignPort(n, r.mkPort(c, n, bufOf(n)))
		}
		link(c.GetPortByName("Bottom"), low.port)
		r.name, r.traffic = c.Name(), "xlat-unique"
		r.ctrl, r.top = c.GetPortByName("Control"), c.GetPortByName("Top")
		r.project = func() (string, bool) {
			return ctlName(c.State.ControlState), len(c.State.WalkingTranslations) == 0 && len(c.State.RemoteMemReqs) == 0
		}
	case "addresstranslator":
		low := r.idealMem("Low", memLat)
		xl := r.xlat("Xlat", pick(o.slow, 2, 9))
		sp := addresstranslator.DefaultSpec()
		sp.NumReqPerCycle = 1
		c := addresstranslator.MakeBuilder().WithRegistrar(r.regr).WithSpec(sp).
			WithResources(addresstranslator.Resources{
				MemProviderMapper:         &mem.SinglePortMapper{Port: low.GetPortByName("Top").AsRemote()},
				TranslationProviderMapper: &mem.SinglePortMapper{Port: xl.port.AsRemote()},
			}).Build("Agent")
		for _, n := range []string{"Top", "Bottom", "Translation", "Control"} {
			c.AssignPort(n, r.mkPort(c, n, bufOf(n)))
		}
		link(c.GetPortByName("Bottom"), low.GetPortByName("Top"))
		link(c.GetPortByName("Translation"), xl.port)
		r.name, r.traffic = c.Name(), "mem"
		r.ctrl, r.top = c.GetPortByName("Control"), c.GetPortByName("Top")
		r.project = func() (string, bool) {
			return ctlName(c.State.ControlState), len(c.State.Transactions) == 0 && len(c.State.InflightReqToBottom) == 0
		}
	case "rob":
		low := r.idealMem("Low", memLat)
		sp := rob.DefaultSpec()
		sp.BufferSize = 4
		sp.NumReqPerCycle = 1
		sp.BottomUnit = low.GetPortByName("Top").AsRemote()
		c := rob.MakeBuilder().WithRegistrar(r.regr).WithSpec(sp).Build("Agent")
		for _, n := range []string{"Top", "Bottom", "Control"} {
			c.AssignPort(n, r.mkPort(c, n, bufOf(n)))
		}
		link(c.GetPortByName("Bottom"), low.GetPortByName("Top"))
		r.name, r.traffic = c.Name(), "mem"
		r.ctrl, r.top = c.GetPortByName("Control"), c.GetPortByName("Top")
		r.project = func() (string, bool) {
			return ctlName(c.State.ControlState), len(c.State.Transactions) == 0
		}
	case "datamover":
		in := r.idealMem("InsideMem", pick(o.slow, 2, 9))
		out := r.idealMem("OutsideMem", pick(o.slow, 3, 11))
		sp := datamover.DefaultSpec()
		sp.BufferSize = 256
		sp.InsideByteGranularity = 64
		sp.OutsideByteGranularity = 64
		c := datamover.MakeBuilder().WithRegistrar(r.regr).WithSpec(sp).
			WithResources(datamover.Resources{
				InsideMapper:  &mem.SinglePortMapper{Port: in.GetPortByName("Top").AsRemote()},
				OutsideMapper: &mem.SinglePortMapper{Port: out.GetPortByName("Top").AsRemote()},
			}).Build("Agent")
		for _, n := range []string{"Top", "Inside", "Outside", "Control"} {
			c.AssignPort(n, r.mkPort(c, n, bufOf(n)))
		}
		link(c.GetPortByName("Inside"), in.GetPortByName("Top"))
		link(c.GetPortByName("Outside"), out.GetPortByName("Top"))
		r.name, r.traffic = c.Name(), "move"
		r.ctrl, r.top = c.GetPortByName("Control"), c.GetPortByName("Top")
		r.project = func() (string, bool) {
			return ctlName(c.State.ControlState), !c.State.CurrentTransaction.Active
		}
	default:
		panic("unknown agent " + agent)
	}

	r.drv = newDriver(r, o.drvIn)
	r.conn("ConnTop", r.drv.data, r.top)
	r.conn("ConnCtl", r.drv.ctl, r.ctrl)
	for i, l := range bottoms {
		r.conn(fmt.Sprintf("ConnLow%d", i), l...)
	}
	return r
}

// dataReq builds the k-th data request of a run for this rig's kind of traffic.
func (r *rig) dataReq(k int) (messaging.Msg, uint64) {
	src, dst := r.drv.data.AsRemote(), r.top.AsRemote()
	id := timing.GetIDGenerator().Generate()
	switch r.traffic {
	case "mem":
		addr := uint64(64 * ((k * 5) % 7)) // a few lines over two sets: hits, misses, evictions
		pid := vm.PID(1 + k%2)
		if k%3 != 2 {
			w := memprotocol.WriteReq{Address: addr + 4*uint64(k%4), Data: []byte{byte(k), byte(k + 1), byte(k + 2), byte(k + 3)}, PID: pid}
			w.ID, w.Src, w.Dst = id, src, dst
			w.TrafficBytes, w.TrafficClass = 16, "memprotocol.WriteReq"
			return w, 0
		}
		rd := memprotocol.ReadReq{Address: addr, AccessByteSize: 4, PID: pid}
		rd.ID, rd.Src, rd.Dst = id, src, dst
		rd.TrafficBytes, rd.TrafficClass = 12, "memprotocol.ReadReq"
		return rd, 0
	case "xlat", "xlat-unique":
		page := uint64(k % 3)
		if r.traffic == "xlat-unique" {
			page = uint64(k)
		}
		q := vmprotocol.TranslationReq{VAddr: page * 4096, PID: 1, DeviceID: 1}
		q.ID, q.Src, q.Dst = id, src, dst
		q.TrafficClass = "vmprotocol.TranslationReq"
		return q, q.VAddr + 1
	case "move":
		q := datamoverprotocol.DataMoveRequest{SrcAddress: uint64(k%4) * 256, DstAddress: 4096 + uint64(k%4)*256, ByteSize: 64 * uint64(1+k%2),
			SrcSide: "inside", DstSide: "outside"}
		if k%2 == 1 {
			q.SrcSide, q.DstSide = "outside", "inside"
		}
		q.ID, q.Src, q.Dst = id, src, dst
		q.TrafficClass = "datamoverprotocol.DataMoveRequest"
		return q, 0
	}
	panic("no traffic kind")
}
