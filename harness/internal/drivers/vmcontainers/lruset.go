// Package vmcontainers holds the replay drivers of the mem/vm containers:
// lruset.Set (C28) and vm.PageTable (C26).
package vmcontainers

import (
	"encoding/json"
	"fmt"

	"github.com/sarchlab/akita/v5/mem/vm/lruset"

	"verif/harness/internal/reg"
	"verif/harness/internal/replay"
)

// C28: lruset.Set stepped through LRUSet.tla behaviours.
type lruObj struct {
	s       lruset.Set
	n       int
	nkeys   int
	rtEvery bool // JSON round trip (object replaced by the decoded one) after every operation
	drained bool
	snap    []byte // the outstanding encoding (save)
}

// lruKey maps the specification's key index to a real key; index 0 is the
// "no previous key" argument of UpdateKey (the empty string).
func lruKey(k int) string {
	if k == 0 {
		return ""
	}
	return lruset.KeyString(uint64(k), uint64(k)*0x1000)
}

// holder mirrors how the consumers (TLB, mmuCache) keep a Set: as a value field.
type holder struct {
	LRU lruset.Set `json:"lru"`
}

// roundTrip encodes the set and decodes it into a zero Set. Only the behaviour
// of the decoded object is compared afterwards (the statement does not fix the
// encoding). viaField selects the form the consumers (TLB, mmuCache) use: the
// Set as a value field of an enclosing struct.
func roundTrip(s *lruset.Set, viaField bool) (lruset.Set, string) {
	var nb lruset.Set
	if viaField {
		hb, err := json.Marshal(holder{LRU: *s})
		if err != nil {
			return nb, "marshal (value field) error: " + err.Error()
		}
		var h2 holder
		if err := json.Unmarshal(hb, &h2); err != nil {
			return nb, "unmarshal (value field) error: " + err.Error()
		}
		return h2.LRU, ""
	}
	bs, err := json.Marshal(s)
	if err != nil {
		return nb, "marshal error: " + err.Error()
	}
	if err := json.Unmarshal(bs, &nb); err != nil {
		return nb, "unmarshal error: " + err.Error()
	}
	return nb, ""
}

// drain evicts until the set refuses, returning the ways in eviction order.
func drain(s *lruset.Set, limit int) []int {
	rec := []int{}
	for i := 0; i < limit; i++ {
		w, ok := s.Evict()
		if !ok {
			break
		}
		rec = append(rec, w)
	}
	return rec
}

// Project reads the recency order from a decoded copy (Evict until empty, so the
// real object is not disturbed) and the bindings through Lookup on the real object.
func (o *lruObj) Project() any {
	if o.drained {
		return nil
	}
	bs, err := json.Marshal(o.s)
	if err != nil {
		return map[string]any{"error": "marshal: " + err.Error()}
	}
	var c lruset.Set
	if err := json.Unmarshal(bs, &c); err != nil {
		return map[string]any{"error": "unmarshal: " + err.Error()}
	}
	bind := make([]int, o.nkeys)
	for k := 1; k <= o.nkeys; k++ {
		w, ok := o.s.Lookup(lruKey(k))
		if !ok {
			w = -1
		}
		bind[k-1] = w
	}
	return map[string]any{"n": o.n, "rec": drain(&c, o.n+4), "bind": bind}
}

func (o *lruObj) Apply(a map[string]any) any {
	res := o.apply(a)
	if o.rtEvery && replay.Str(a["op"]) != "drain" {
		nb, msg := roundTrip(&o.s, false)
		if msg != "" {
			return "after " + replay.Str(a["op"]) + ": " + msg
		}
		o.s = nb
	}
	return res
}

func (o *lruObj) apply(a map[string]any) any {
	switch replay.Str(a["op"]) {
	case "lookup":
		w, ok := o.s.Lookup(lruKey(replay.Num(a["arg"])))
		if !ok {
			w = 0 // the statement does not say what accompanies a miss
		}
		return map[string]any{"found": ok, "way": w}
	case "rebind":
		o.s.UpdateKey(replay.Num(replay.Field(a["arg"], "way")),
			lruKey(replay.Num(replay.Field(a["arg"], "old"))),
			lruKey(replay.Num(replay.Field(a["arg"], "new"))))
		return "ok"
	case "remove":
		o.s.Remove(lruKey(replay.Num(a["arg"])))
		return "ok"
	case "evict":
		w, ok := o.s.Evict()
		if !ok {
			w = 0
		}
		return map[string]any{"ok": ok, "way": w}
	case "visit":
		o.s.Visit(replay.Num(a["arg"]))
		return "ok"
	case "jsonrt":
		nb, msg := roundTrip(&o.s, true)
		if msg != "" {
			return msg
		}
		o.s = nb
		return "ok"
	case "save":
		bs, err := json.Marshal(o.s)
		if err != nil {
			return "marshal error: " + err.Error()
		}
		o.snap = bs
		return "ok"
	case "rollback":
		// the live object kept operating after the save; the snapshot is decoded into it
		if o.snap == nil {
			return "no snapshot"
		}
		if err := json.Unmarshal(o.snap, &o.s); err != nil {
			return "unmarshal error: " + err.Error()
		}
		return "ok"
	case "load_into_used":
		// another set of the same size, visited, evicted from and bound differently
		// (also to a key the snapshot cannot contain), receives the snapshot
		if o.snap == nil {
			return "no snapshot"
		}
		other := lruset.NewSet(o.n)
		for w := o.n - 1; w >= 0; w-- {
			other.Visit(w)
		}
		other.Evict()
		for k := 1; k <= o.nkeys; k++ {
			other.UpdateKey((k+1)%max(o.n, 1), "", lruKey(k))
		}
		other.UpdateKey(0, "", "decoy")
		if err := json.Unmarshal(o.snap, &other); err != nil {
			return "unmarshal error: " + err.Error()
		}
		if w, found := other.Lookup("decoy"); found {
			return fmt.Sprintf("a key bound before the load survives it (way %d)", w)
		}
		o.s = other
		return "ok"
	case "drain":
		// end of history: read the recency order off the real object itself
		o.drained = true
		return drain(&o.s, o.n+4)
	}
	return "unknown op"
}

func init() {
	reg.Register("lruset", replay.Driver(func(cfg map[string]any, init any) (replay.Object, error) {
		n := replay.Num(replay.Field(init, "n"))
		bind, _ := replay.Field(init, "bind").([]any)
		if n < 0 || n > 64 {
			return nil, fmt.Errorf("bad way count %d", n)
		}
		rt, _ := cfg["rt_every"].(bool)
		return &lruObj{s: lruset.NewSet(n), n: n, nkeys: len(bind), rtEvery: rt}, nil
	}))
}
