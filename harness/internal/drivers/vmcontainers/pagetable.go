package vmcontainers

import (
	"bytes"
	"encoding/json"
	"fmt"
	"io"
	"strings"

	"github.com/sarchlab/akita/v5/mem/vm"

	"verif/harness/internal/reg"
	"verif/harness/internal/replay"
)

// C26: vm.PageTable stepped through PageTable.tla behaviours. Every history is
// executed `runs` times on fresh page tables; besides the comparison with the
// specification, every run leaves a log of the answers the specification leaves
// free (reverse lookups, explicit and around checkpoint round trips) so that
// the check can compare them between runs and between OS processes.

const (
	ptLog2  = 12
	ptVBase = uint64(0x10_0000_0000)
	ptPBase = uint64(0x2_0000_0000)
)

func ptVAddr(v int) uint64 { return ptVBase + uint64(v)<<ptLog2 }
func ptPAddr(a int) uint64 { return ptPBase + uint64(a)<<ptLog2 }

// ptPage builds the real page for the abstract (pid, v, pa, dev); dev decides
// every remaining field so that a lost or mixed-up field is visible.
func ptPage(p, v, pa, dev int) vm.Page {
	return vm.Page{
		PID: vm.PID(p), VAddr: ptVAddr(v), PAddr: ptPAddr(pa), PageSize: 1 << ptLog2,
		Valid: dev == 1, DeviceID: uint64(dev), Unified: dev == 2, IsMigrating: dev == 2, IsPinned: dev == 2,
	}
}

var ptNotFound = map[string]any{"found": false, "pid": 0, "v": 0, "pa": 0, "dev": 0}

// ptAbs converts a lookup result into the specification's shape.
func ptAbs(pg vm.Page, found bool) map[string]any {
	if !found {
		if pg != (vm.Page{}) {
			return map[string]any{"found": false, "bad": fmt.Sprintf("%+v", pg)}
		}
		return ptNotFound
	}
	p, dev := int(pg.PID), int(pg.DeviceID)
	v := int((pg.VAddr - ptVBase) >> ptLog2)
	pa := int((pg.PAddr - ptPBase) >> ptLog2)
	if pg != ptPage(p, v, pa, dev) {
		return map[string]any{"found": true, "bad": fmt.Sprintf("%+v", pg)}
	}
	return map[string]any{"found": true, "pid": p, "v": v, "pa": pa, "dev": dev}
}

func ptAns(m map[string]any) string {
	if m["bad"] != nil {
		return "bad"
	}
	if m["found"] != true {
		return "-"
	}
	return fmt.Sprintf("%v.%v", m["pid"], m["v"])
}

type ptCkpt interface {
	SaveCheckpoint(w io.Writer) error
	LoadCheckpoint(r io.Reader) error
}

type ptObj struct {
	pt          vm.PageTable
	np, nv, npa int
	offs        []int
	log         []string
	step        int
	lastPID     int      // process addressed by the history's most recent operation (0: none yet)
	snap        []byte   // the outstanding checkpoint (save)
	snapRL      []string // reverse-lookup answers at the time of the save, per physical page
}

// pidOrder is the order in which the observer visits the processes: the one the
// history used last comes first, so that whatever the object remembers about
// its most recent client is exercised by the observation instead of being
// overwritten by it; prime() afterwards makes that process the most recently
// used one again, as it is in the history itself.
func (o *ptObj) pidOrder() []int {
	out := make([]int, 0, o.np)
	if o.lastPID >= 1 && o.lastPID <= o.np {
		out = append(out, o.lastPID)
	}
	for p := 1; p <= o.np; p++ {
		if p != o.lastPID {
			out = append(out, p)
		}
	}
	return out
}

func (o *ptObj) prime(pt vm.PageTable) {
	if o.lastPID >= 1 && o.lastPID <= o.np {
		pt.Find(vm.PID(o.lastPID), ptVAddr(1))
	}
}

func newPT() vm.PageTable { return vm.NewPageTable(ptLog2) }

func (o *ptObj) Project() any {
	tbl := make([][]any, o.np)
	defer o.prime(o.pt)
	for _, p := range o.pidOrder() {
		row := make([]any, o.nv)
		for v := 1; v <= o.nv; v++ {
			pg, found := o.pt.Find(vm.PID(p), ptVAddr(v))
			m := ptAbs(pg, found)
			switch {
			case m["bad"] != nil:
				row[v-1] = m
			case !found:
				row[v-1] = map[string]any{"pa": 0, "dev": 0}
			case m["pid"] != p || m["v"] != v:
				row[v-1] = map[string]any{"bad": fmt.Sprintf("find(%d,%d) returned page of (%v,%v)", p, v, m["pid"], m["v"])}
			default:
				row[v-1] = map[string]any{"pa": m["pa"], "dev": m["dev"]}
			}
		}
		tbl[p-1] = row
	}
	return map[string]any{"tbl": tbl}
}

func ptRefusal(f func()) (res any) {
	defer func() {
		if r := recover(); r != nil {
			res = "refused"
		}
	}()
	f()
	return "ok"
}

// lookups is everything a client can ask: every find (all keys, all offsets).
func (o *ptObj) finds(pt vm.PageTable) []any {
	var out []any
	for _, p := range o.pidOrder() {
		for v := 1; v <= o.nv; v++ {
			for _, off := range o.offs {
				pg, found := pt.Find(vm.PID(p), ptVAddr(v)+uint64(off))
				out = append(out, ptAbs(pg, found))
			}
		}
	}
	o.prime(pt)
	return out
}

func (o *ptObj) Apply(a map[string]any) any {
	arg := a["arg"]
	f := func(k string) int { return replay.Num(replay.Field(arg, k)) }
	switch replay.Str(a["op"]) {
	case "insert", "update", "remove", "find":
		o.lastPID = f("pid")
	}
	switch replay.Str(a["op"]) {
	case "insert":
		return ptRefusal(func() { o.pt.Insert(ptPage(f("pid"), f("v"), f("pa"), f("dev"))) })
	case "update":
		return ptRefusal(func() { o.pt.Update(ptPage(f("pid"), f("v"), f("pa"), f("dev"))) })
	case "remove":
		return ptRefusal(func() { o.pt.Remove(vm.PID(f("pid")), ptVAddr(f("v"))) })
	case "find":
		pg, found := o.pt.Find(vm.PID(f("pid")), ptVAddr(f("v"))+uint64(f("off")))
		return ptAbs(pg, found)
	case "reverselookup":
		pa := replay.Num(arg)
		pg, found := o.pt.ReverseLookup(ptPAddr(pa))
		m := ptAbs(pg, found)
		o.log = append(o.log, fmt.Sprintf("%d:rl:%d:%s", o.step, pa, ptAns(m)))
		return m
	case "ckpt":
		c, ok := o.pt.(ptCkpt)
		if !ok {
			return "page table has no SaveCheckpoint/LoadCheckpoint"
		}
		before := o.finds(o.pt)
		rlb := make([]string, o.npa+1)
		for pa := 1; pa <= o.npa; pa++ {
			pg, found := o.pt.ReverseLookup(ptPAddr(pa))
			m := ptAbs(pg, found)
			if m["bad"] != nil {
				return map[string]any{"ckpt": "reverse lookup before save", "pa": pa, "got": m}
			}
			rlb[pa] = ptAns(m)
		}
		var buf bytes.Buffer
		if err := c.SaveCheckpoint(&buf); err != nil {
			return "save error: " + err.Error()
		}
		npt := newPT()
		if err := npt.(ptCkpt).LoadCheckpoint(bytes.NewReader(buf.Bytes())); err != nil {
			return "load error: " + err.Error()
		}
		after := o.finds(npt)
		if !replay.Equal(before, after) {
			return map[string]any{"ckpt": "find results changed", "before": before, "after": after}
		}
		for pa := 1; pa <= o.npa; pa++ {
			pg, found := npt.ReverseLookup(ptPAddr(pa))
			m := ptAbs(pg, found)
			if m["bad"] != nil {
				return map[string]any{"ckpt": "reverse lookup after load", "pa": pa, "got": m}
			}
			o.log = append(o.log, fmt.Sprintf("%d:cb:%d:%s", o.step, pa, rlb[pa]), fmt.Sprintf("%d:ca:%d:%s", o.step, pa, ptAns(m)))
		}
		o.pt = npt
		return "ok"
	case "save":
		c, ok := o.pt.(ptCkpt)
		if !ok {
			return "page table has no SaveCheckpoint/LoadCheckpoint"
		}
		rl, bad := o.reverseAll(o.pt)
		if bad != nil {
			return bad
		}
		var buf bytes.Buffer
		if err := c.SaveCheckpoint(&buf); err != nil {
			return "save error: " + err.Error()
		}
		o.snap, o.snapRL = buf.Bytes(), rl
		for pa := 1; pa <= o.npa; pa++ {
			o.log = append(o.log, fmt.Sprintf("%d:sv:%d:%s", o.step, pa, rl[pa]))
		}
		return "ok"
	case "rollback":
		// the live object kept operating after the save; the snapshot comes back into it
		if o.snap == nil {
			return "no snapshot"
		}
		if err := o.pt.(ptCkpt).LoadCheckpoint(bytes.NewReader(o.snap)); err != nil {
			return "load error: " + err.Error()
		}
		return o.afterRestore(o.pt)
	case "load_into_used":
		// another table object, used with other contents for every process and most
		// recently for process `arg`, receives the snapshot and replaces the table
		if o.snap == nil {
			return "no snapshot"
		}
		last := replay.Num(arg)
		other := newPT()
		order := make([]int, 0, o.np)
		for p := 1; p <= o.np; p++ {
			if p != last {
				order = append(order, p)
			}
		}
		order = append(order, last)
		for _, p := range order {
			for v := 1; v <= o.nv; v++ {
				other.Insert(ptPage(p, v, 1+(p+v)%o.npa, 1+(p+v)%2))
			}
			other.Update(ptPage(p, 1, 2-(p%2), 2))
			other.Find(vm.PID(p), ptVAddr(o.nv))
		}
		// a process the history never uses (hence absent from every snapshot) holds a page at a
		// physical page of its own; used before `last` so that `last` stays the most recently used
		extra := vm.PID(o.np + 1)
		other.Insert(ptPage(int(extra), 1, o.npa+1, 1))
		other.Find(vm.PID(last), ptVAddr(o.nv))
		if err := other.(ptCkpt).LoadCheckpoint(bytes.NewReader(o.snap)); err != nil {
			return "load error: " + err.Error()
		}
		o.pt, o.lastPID = other, last
		// (asked through the reverse lookup, which does not disturb what the table remembers about `last`)
		if pg, found := other.ReverseLookup(ptPAddr(o.npa + 1)); found {
			return fmt.Sprintf("a page of a process that is not in the checkpoint survives the load: %+v", pg)
		}
		return o.afterRestore(o.pt)
	}
	return "unknown op"
}

// reverseAll asks a reverse lookup for every physical page.
func (o *ptObj) reverseAll(pt vm.PageTable) ([]string, any) {
	rl := make([]string, o.npa+1)
	for pa := 1; pa <= o.npa; pa++ {
		pg, found := pt.ReverseLookup(ptPAddr(pa))
		m := ptAbs(pg, found)
		if m["bad"] != nil {
			return nil, map[string]any{"reverse lookup": "malformed page", "pa": pa, "got": m}
		}
		rl[pa] = ptAns(m)
	}
	return rl, nil
}

// afterRestore logs the reverse-lookup answers at save time next to those of the
// restored table (they must agree); the map itself is compared by the caller
// through the projection.
func (o *ptObj) afterRestore(pt vm.PageTable) any {
	rl, bad := o.reverseAll(pt)
	if bad != nil {
		return bad
	}
	for pa := 1; pa <= o.npa; pa++ {
		o.log = append(o.log, fmt.Sprintf("%d:rb:%d:%s", o.step, pa, o.snapRL[pa]), fmt.Sprintf("%d:ra:%d:%s", o.step, pa, rl[pa]))
	}
	return "ok"
}

// ptSame is replay.Equal with a shortcut for the flat records of this driver
// (a positive answer of the shortcut is exact; anything else is decided by
// replay.Equal).
func ptSame(got, want any) bool {
	if g, ok := got.(map[string]any); ok {
		if w, ok := want.(map[string]any); ok && len(g) == len(w) {
			same := true
			for k, gv := range g {
				switch x := gv.(type) {
				case int:
					f, isNum := w[k].(float64)
					same = same && isNum && f == float64(x)
				case bool:
					b, isBool := w[k].(bool)
					same = same && isBool && b == x
				default:
					same = false
				}
			}
			if same {
				return true
			}
		}
	}
	if g, ok := got.(string); ok {
		if w, ok := want.(string); ok {
			return g == w
		}
	}
	return replay.Equal(got, want)
}

// admissible: a reverse lookup may return any of the listed pages.
func ptAdmissible(got, want any) bool {
	if alts, ok := replay.Field(want, "anyof").([]any); ok {
		for _, w := range alts {
			if ptSame(got, w) {
				return true
			}
		}
		return false
	}
	return ptSame(got, want)
}

// projectionIs compares the map read through Find with the specification's
// state without building the projection (shortcut of Equal(Project(), want));
// false only means "use the slow path".
func (o *ptObj) projectionIs(want any) bool {
	tbl, _ := replay.Field(want, "tbl").([]any)
	if len(tbl) != o.np {
		return false
	}
	defer o.prime(o.pt)
	for _, p := range o.pidOrder() {
		row, _ := tbl[p-1].([]any)
		if len(row) != o.nv {
			return false
		}
		for v := 1; v <= o.nv; v++ {
			pa, ok1 := replay.Field(row[v-1], "pa").(float64)
			dev, ok2 := replay.Field(row[v-1], "dev").(float64)
			if !ok1 || !ok2 {
				return false
			}
			pg, found := o.pt.Find(vm.PID(p), ptVAddr(v))
			if pa == 0 && dev == 0 {
				if found || pg != (vm.Page{}) {
					return false
				}
				continue
			}
			if !found || pg != ptPage(p, v, int(pa), int(dev)) {
				return false
			}
		}
	}
	return true
}

type ptOutput struct {
	replay.Output
	Runs      int        `json:"runs"`
	Logs      [][]string `json:"logs"`       // per history, per run: the free answers, ";"-joined
	FreeStops int        `json:"free_stops"` // histories cut at a misuse step whose outcome the statement leaves open
}

func ptRun(raw json.RawMessage) (any, error) {
	var in replay.Input
	if err := json.Unmarshal(raw, &in); err != nil {
		return nil, err
	}
	runs := replay.Num(in.Config["runs"])
	if runs < 1 {
		runs = 1
	}
	npa := replay.Num(in.Config["npa"])
	offs := replay.Ints(in.Config["offs"])
	out := ptOutput{Runs: runs}
	out.Histories = len(in.Histories)
	out.Logs = make([][]string, len(in.Histories))
	for hi, h := range in.Histories {
		tbl, _ := replay.Field(h.Init, "tbl").([]any)
		if len(tbl) == 0 {
			return nil, fmt.Errorf("history %d: no table in the initial state", hi)
		}
		row, _ := tbl[0].([]any)
		bad := false
		for r := 0; r < runs && !bad; r++ {
			o := &ptObj{pt: newPT(), np: len(tbl), nv: len(row), npa: npa, offs: offs}
			if p, _ := replay.Safely(o.Project); !replay.Equal(p, h.Init) {
				out.Mismatches = append(out.Mismatches, replay.Mismatch{History: hi, Step: -1, Kind: "init", Want: h.Init, Got: replay.Norm(p), Init: h.Init})
				break
			}
			for si, st := range h.Steps {
				out.Steps++
				o.step = si
				got, panicked := replay.Safely(func() any { return o.Apply(st.A) })
				want := st.A["res"]
				free, _ := st.A["free"].(bool)
				if !ptAdmissible(got, want) {
					if free && !panicked {
						out.FreeStops++ // the statement does not decide this outcome: stop comparing
						break
					}
					kind := "result"
					if panicked {
						kind = "panic"
					}
					out.Mismatches = append(out.Mismatches, replay.Mismatch{History: hi, Step: si, Kind: kind, Op: st.A, Want: want, Got: replay.Norm(got), Prefix: h.Steps[:si+1], Init: h.Init})
					bad = true
					break
				}
				if fast, _ := replay.Safely(func() any { return o.projectionIs(st.T) }); fast == true {
					continue
				}
				p, _ := replay.Safely(o.Project)
				if st.T != nil && !replay.Equal(p, st.T) {
					out.Mismatches = append(out.Mismatches, replay.Mismatch{History: hi, Step: si, Kind: "state", Op: st.A, Want: st.T, Got: replay.Norm(p), Prefix: h.Steps[:si+1], Init: h.Init})
					bad = true
					break
				}
			}
			out.Logs[hi] = append(out.Logs[hi], strings.Join(o.log, ";"))
		}
		if len(out.Mismatches) >= 50 {
			break
		}
	}
	return out, nil
}

func init() {
	reg.Register("pagetable", ptRun)
}
