// Package monitor drives a real monitoring2.Monitor (HTTP on loopback) next to a real
// SerialEngine simulation for C40.
//
// The simulation's event handlers are gates: the engine's BeforeEvent/AfterEvent hooks
// and the handlers themselves park on a channel the controller owns.  The controller
// walks a schedule (emitted by TLC from spec/monitor/Monitor.tla): "go" lets the run
// loop pass the gate it is parked at, "req ep" issues one HTTP request and waits for the
// complete response.  Every step (handler start/end, request/response, engine
// Pause/Continue as seen by the monitor, and every call the monitor makes into
// simulation state that can be observed at a call) is appended to one log under one
// mutex; spec/monitor/MonTrace.tla judges the log.
//
// Race mode (binary built with -race): the handler parked mid-execution keeps
// rewriting the state the endpoints inspect, an independent timer lets the loop run on
// (no synchronisation with the requester), nothing is logged: the only happens-before
// edges between the HTTP goroutines and the run loop are the ones monitoring2 and the
// engine create themselves, so the race detector reports exactly their absence.
package monitor

import (
	"context"
	"encoding/json"
	"fmt"
	"io"
	"math/rand"
	"net"
	"net/http"
	"net/url"
	"os"
	"strings"
	"sync"
	"sync/atomic"
	"time"

	"github.com/sarchlab/akita/v5/daisen2"
	"github.com/sarchlab/akita/v5/hooking"
	"github.com/sarchlab/akita/v5/messaging"
	"github.com/sarchlab/akita/v5/modeling"
	"github.com/sarchlab/akita/v5/monitoring2"
	"github.com/sarchlab/akita/v5/queueing"
	"github.com/sarchlab/akita/v5/timing"

	"verif/harness/internal/reg"
)

// zero is not a constant for the compiler: "x += zero" stays a store.
var zero uint64

// ------------------------------------------------------------------ run context

type gateWait struct {
	label string
	ch    chan struct{}
}

type rt struct {
	mu      sync.Mutex
	log     []map[string]any
	logging bool // fixed before any goroutine starts

	gating  atomic.Bool
	spin    atomic.Bool // race mode: the parked handler keeps writing
	parked  chan *gateWait
	running atomic.Int32
	held    atomic.Bool  // an engine Pause returned to the monitor and no Continue followed
	inPause atomic.Int32 // the monitor is inside engine.Pause() right now
	pauses  atomic.Int64 // engine.Pause calls seen
	nstart  int          // loop goroutine only
	handled atomic.Int64 // handler executions begun so far
	spinFn  func()
}

func (r *rt) rec(m map[string]any) {
	if !r.logging {
		return
	}
	r.mu.Lock()
	r.log = append(r.log, m)
	r.mu.Unlock()
}

func (r *rt) gate(label string) {
	if !r.gating.Load() {
		return
	}
	w := &gateWait{label: label, ch: make(chan struct{})}
	r.parked <- w
	if label == "mid" && r.spin.Load() {
		for {
			select {
			case <-w.ch:
				return
			default:
				r.spinFn()
			}
		}
	}
	<-w.ch
}

// Func is the engine hook: pre gate, handler start / handler end, post gate.
func (r *rt) Func(ctx hooking.HookCtx) {
	switch ctx.Pos {
	case timing.HookPosBeforeEvent:
		r.gate("pre")
		r.nstart++
		r.handled.Add(1)
		r.rec(map[string]any{"e": "start", "id": r.nstart})
		r.running.Store(1)
	case timing.HookPosAfterEvent:
		r.running.Store(0)
		r.rec(map[string]any{"e": "end", "id": r.nstart})
		r.gate("post")
	}
}

// ------------------------------------------------------------------ the engine the monitor sees

type monEngine struct {
	*timing.SerialEngine
	r *rt
}

func (e *monEngine) Pause() {
	e.r.inPause.Add(1)
	e.SerialEngine.Pause()
	e.r.inPause.Add(-1)
	e.r.pauses.Add(1)
	e.r.held.Store(true)
	e.r.rec(map[string]any{"e": "epause"})
}

func (e *monEngine) Continue() {
	e.r.rec(map[string]any{"e": "econt"})
	e.r.held.Store(false)
	e.SerialEngine.Continue()
}

func (e *monEngine) CurrentTime() timing.VTimeInPicoSec {
	e.r.rec(map[string]any{"e": "acc", "what": "time"})
	return e.SerialEngine.CurrentTime()
}

// ------------------------------------------------------------------ components

type workEvt struct {
	timing.EventBase
	K int
}

// obsBuf is a buffer the hang detector reads through its methods (observable call).
type obsBuf struct {
	name string
	n    int
	r    *rt
}

func (b *obsBuf) Name() string { return b.name }
func (b *obsBuf) Size() int {
	b.r.rec(map[string]any{"e": "acc", "what": "buffer"})
	return b.n
}
func (b *obsBuf) Capacity() int { return 8 }

// Core handles the work events; every field is simulation state.
type Core struct {
	name    string
	Counter uint64
	Vals    []uint64
	Big     []uint64 // a large piece of state: serializing it takes long (overlapping requests)
	Queue   queueing.Buffer[int]
	Level   obsBuf
	// versioned state (C40, content at pause points): event K writes version 2K-1 (transient), parks at the
	// mid gate, then writes version 2K.  A slice behind a map and a slice behind an interface.
	Banks map[string][]uint64
	Box   any // [][]uint64, replaced as a whole
	ver   int
	s     *sim
}

func stateLen(n int) int { return 2 + n%4 }

func stateSlice(n, base int) []uint64 {
	x := make([]uint64, stateLen(n))
	for i := range x {
		x[i] = uint64(n*1000 + base + i)
	}
	return x
}

// setState writes version n of the versioned state; a transient version has no bank "1".
func (c *Core) setState(n int, transient bool) {
	c.ver = n
	if c.Banks == nil {
		c.Banks = map[string][]uint64{}
	}
	c.Banks["0"] = stateSlice(n, 0)
	if transient {
		delete(c.Banks, "1")
	} else {
		c.Banks["1"] = stateSlice(n, 500)
	}
	c.Box = [][]uint64{stateSlice(n, 0)}
	if n > 0 {
		c.s.r.rec(map[string]any{"e": "set", "ver": n})
	}
}

func (c *Core) Name() string { return c.name }

func (c *Core) Handle(e timing.Event) error {
	ev := e.(workEvt)
	s := c.s
	now := uint64(e.Time())
	c.Counter += uint64(ev.K)*7 + 1
	c.Vals[ev.K%len(c.Vals)] += now
	c.Big[ev.K%len(c.Big)] += now + uint64(ev.K)
	c.Queue.PushTyped(ev.K)
	if s.bar != nil {
		s.bar.IncrementInProgress(1)
	}
	c.setState(2*ev.K-1, true)
	s.r.gate("mid")
	if s.freeSpin > 0 {
		for i := 0; i < s.freeSpin; i++ {
			s.spinOnce()
		}
	}
	c.setState(2*ev.K, false)
	c.Level.n = ev.K % 5
	if c.Queue.Size() > 2 {
		c.Queue.Pop()
	}
	if s.bar != nil {
		s.bar.MoveInProgressToFinished(1)
	}
	if ev.K%2 == 1 {
		s.tk.Left += 2
		s.tk.TickingComponent.TickLater()
	}
	s.order = append(s.order, fmt.Sprintf("w%d@%d", ev.K, now))
	if ev.K < s.nwork {
		nxt := workEvt{K: ev.K + 1}
		nxt.ID = timing.GetIDGenerator().Generate()
		nxt.HandlerID_ = c.name
		nxt.Time_ = e.Time() + timing.VTimeInPicoSec(s.gap)*1000
		s.eng.Schedule(nxt)
	}
	return nil
}

// Tk is a ticking component (for /api/tick and the port buffers).
type Tk struct {
	*modeling.TickingComponent
	Left   int
	Done   int
	DoneAt []uint64
	s      *sim
}

func (t *Tk) Tick() bool {
	t.s.r.gate("mid")
	if t.Left == 0 {
		return false
	}
	t.Left--
	t.Done++
	now := uint64(t.CurrentTime())
	t.DoneAt = append(t.DoneAt, now)
	t.s.order = append(t.s.order, fmt.Sprintf("t@%d", now))
	return true
}

// TickLater is what the monitor calls (observable); the simulation itself calls the
// embedded scheduler directly.
func (t *Tk) TickLater() {
	t.s.r.rec(map[string]any{"e": "acc", "what": "tick"})
	t.TickingComponent.TickLater()
}

// ------------------------------------------------------------------ the simulation

type sim struct {
	r        *rt
	eng      *timing.SerialEngine
	core     *Core
	tk       *Tk
	mon      *monitoring2.Monitor
	bar      *daisen2.ProgressBar
	base     string
	client   *http.Client
	nwork    int
	gap      int
	freeSpin int
	order    []string // productive events in handling order (loop goroutine only)
	done     chan struct{}
	started  bool
	at       *gateWait // gate the loop is parked at, as far as the controller knows
	reqN     int
	pending  chan rsp // response of the request in flight, if it did not return yet
	pendEp   string
	pendR    int
	runUntil bool   // drive the engine through RunUntil (time-boundary flow) instead of Run
	nextVar  string // variant of the next field request ("" = rotate)
	bad      []string
	engPanic atomic.Value
	reqMax   time.Duration
	unsure   map[int]bool
}

type rsp struct {
	code int
	body string
	err  error
	v    *fieldVar
}

// fieldVar is one concrete /api/field request of an endpoint class of the model:
//
//	field           plain request (pauseForInspection, then goseth over the entry point)
//	field_paged     slice_offset and/or slice_limit present: the monitor's own reflective walk + page
//	field_missing   the path does not exist in the component's state: 404 after a walk over that state
//	field_badparams malformed paging parameters: 400 from the parameter syntax alone (no simulation state)
type fieldVar struct {
	class, name, field, query string
	code                      int
	base                      int // >= 0: the content identifies a state version (element = ver*1000 + base + index)
}

var fieldVars = []fieldVar{
	{"field", "map_plain", "Banks.0", "", 200, 0},
	{"field", "iface_plain", "Box.0", "", 200, 0},
	{"field_paged", "map_offset", "Banks.0", "?slice_offset=1", 200, 0},
	{"field_paged", "map_limit", "Banks.0", "?slice_limit=2", 200, 0},
	{"field_paged", "map_both", "Banks.0", "?slice_offset=0&slice_limit=10", 200, 0},
	{"field_paged", "iface_both", "Box.0", "?slice_offset=0&slice_limit=10", 200, 0},
	{"field_paged", "key_absent_midevent", "Banks.1", "?slice_offset=0&slice_limit=10", 200, 500},
	{"field_paged", "direct", "Vals", "?slice_offset=0&slice_limit=4", 200, -1},
	{"field_missing", "map_key_paged", "Banks.9", "?slice_offset=0&slice_limit=10", 404, -1},
	{"field_missing", "index_paged", "Vals.99", "?slice_limit=3", 404, -1},
	{"field_missing", "plain", "Nope", "", 404, -1},
	{"field_missing", "map_key_plain", "Banks.9", "", 404, -1},
	{"field_badparams", "offset_syntax", "Banks.0", "?slice_offset=abc", 400, -1},
	{"field_badparams", "limit_zero", "Vals", "?slice_limit=0", 400, -1},
	{"field_badparams", "offset_negative", "Nope", "?slice_offset=-1&slice_limit=3", 400, -1},
}

func pickFieldVar(class, name string, n int) *fieldVar {
	var of []*fieldVar
	for i := range fieldVars {
		v := &fieldVars[i]
		if v.class != class {
			continue
		}
		if v.name == name {
			return v
		}
		of = append(of, v)
	}
	if name != "" || len(of) == 0 || class == "field" {
		return nil
	}
	return of[n%len(of)]
}

// decodeVer maps the content of a page / value response to the state version it shows; -1 = the content is
// no version the simulation ever had between two events of its own (mixture, or an answer for a missing key).
func decodeVer(x rsp) int {
	if x.code != 200 {
		return -1
	}
	var d struct {
		R    any                       `json:"r"`
		Dict map[string]map[string]any `json:"dict"`
	}
	if json.Unmarshal([]byte(x.body), &d) != nil {
		return -1
	}
	root := d.Dict[fmt.Sprint(d.R)]
	total, ok := root["l"].(float64)
	ids, ok2 := root["v"].([]any)
	if !ok || !ok2 || len(ids) == 0 {
		return -1
	}
	off, _ := root["o"].(float64)
	n := -1
	for j, id := range ids {
		v, ok := d.Dict[fmt.Sprint(id)]["v"].(float64)
		if !ok {
			return -1
		}
		e := int(v)
		if e%1000 != x.v.base+int(off)+j {
			return -1
		}
		if j == 0 {
			n = e / 1000
		} else if e/1000 != n {
			return -1
		}
	}
	if int(total) != stateLen(n) {
		return -1
	}
	return n
}

func (s *sim) spinOnce() {
	c := s.core
	c.Counter += zero
	c.Vals[0] += zero
	c.Level.n += int(zero)
	for i, n := 0, c.Queue.Size(); i < n; i++ {
		c.Queue.PushTyped(c.Queue.Pop()) // a full rotation: same contents, real pushes and pops
	}
	s.tk.Left += int(zero)
	if s.bar != nil {
		s.bar.IncrementFinished(zero)
	}
}

// bigN is the length of Core.Big (set by the overlap mode before the simulations are built).
var bigN = 8

func newSim(nwork, gap int, monitored, logging bool) (*sim, error) {
	s := &sim{nwork: nwork, gap: gap, done: make(chan struct{})}
	s.r = &rt{logging: logging, parked: make(chan *gateWait, 1)}
	s.r.spinFn = s.spinOnce
	s.eng = timing.NewSerialEngine()
	s.core = &Core{name: "Core", Vals: make([]uint64, 4), Big: make([]uint64, bigN), s: s}
	s.core.Queue = queueing.NewBuffer[int]("Core.Queue", 16)
	s.core.Level = obsBuf{name: "Core.Level", r: s.r}
	s.core.setState(0, false)
	s.eng.RegisterHandler("Core", s.core)
	s.tk = &Tk{s: s}
	s.tk.TickingComponent = modeling.NewTickingComponent("Tk", s.eng, 1*timing.GHz, s.tk)
	s.tk.DeclarePort("P")
	s.tk.AssignPort("P", messaging.NewPort(s.tk, 2, 2, "Tk.P"))
	first := workEvt{K: 1}
	first.ID = timing.GetIDGenerator().Generate()
	first.HandlerID_ = "Core"
	first.Time_ = 1000
	s.eng.Schedule(first)
	if !monitored {
		return s, nil
	}
	s.eng.AcceptHook(s.r)
	var lastErr any
	for try := 0; try < 30; try++ {
		l, err := net.Listen("tcp", "127.0.0.1:0")
		if err != nil {
			return nil, err
		}
		port := l.Addr().(*net.TCPAddr).Port
		l.Close()
		if port < 1000 {
			continue
		}
		m := monitoring2.NewMonitor().WithPortNumber(port)
		m.RegisterEngine(&monEngine{SerialEngine: s.eng, r: s.r})
		m.RegisterComponent(s.core)
		m.RegisterComponent(s.tk)
		ok := func() (ok bool) {
			defer func() {
				if e := recover(); e != nil {
					lastErr = e
					ok = false
				}
			}()
			m.StartServer()
			return true
		}()
		if ok {
			s.mon = m
			s.bar = m.CreateProgressBar("work", uint64(nwork))
			s.base = fmt.Sprintf("http://127.0.0.1:%d", port)
			s.client = &http.Client{Transport: &http.Transport{MaxIdleConns: 4, IdleConnTimeout: time.Second}, Timeout: 60 * time.Second}
			return s, nil
		}
	}
	return nil, fmt.Errorf("cannot start the monitor server: %v", lastErr)
}

func (s *sim) close() {
	if s.mon != nil {
		s.mon.StopServer()
		s.client.CloseIdleConnections()
	}
}

func (s *sim) startRun() {
	s.started = true
	s.r.rec(map[string]any{"e": "run"})
	go func() {
		defer close(s.done)
		defer func() {
			if e := recover(); e != nil {
				s.engPanic.Store(fmt.Sprint(e))
			}
		}()
		if s.runUntil {
			_ = s.eng.RunUntil(timing.VTimeInPicoSec(1) << 60)
		} else {
			_ = s.eng.Run()
		}
		s.r.rec(map[string]any{"e": "ret"})
	}()
}

var endpointPath = map[string]string{
	"pause":     "/api/pause",
	"continue":  "/api/continue",
	"state":     "/api/engine/state",
	"now":       "/api/now",
	"tick":      "/api/tick/Tk",
	"component": "/api/component/Core",
	"field":     "/api/field/" + url.PathEscape(`{"comp_name":"Core","field_name":"Counter"}`),
	"buffers":   "/api/hangdetector/buffers?sort=level&limit=8",
	"progress":  "/api/progress",
	"list":      "/api/list_components",
}

func (s *sim) getVar(ep, variant string, reqN int) rsp {
	if v := pickFieldVar(ep, variant, reqN); v != nil {
		q, _ := json.Marshal(map[string]string{"comp_name": "Core", "field_name": v.field})
		res, err := s.client.Get(s.base + "/api/field/" + url.PathEscape(string(q)) + v.query)
		if err != nil {
			return rsp{err: err, v: v}
		}
		defer res.Body.Close()
		b, err := io.ReadAll(res.Body)
		return rsp{code: res.StatusCode, body: string(b), err: err, v: v}
	}
	if variant != "" {
		return rsp{err: fmt.Errorf("unknown variant %q of endpoint class %q", variant, ep)}
	}
	p, ok := endpointPath[ep]
	if !ok {
		return rsp{err: fmt.Errorf("unknown endpoint class %q", ep)}
	}
	if ep == "component" && reqN%2 == 0 {
		p = "/api/component/Tk"
	}
	if ep == "field" && reqN%3 == 0 {
		p = "/api/field/" + url.PathEscape(`{"comp_name":"Core","field_name":"Vals"}`) + "?slice_offset=0&slice_limit=4"
	}
	res, err := s.client.Get(s.base + p)
	if err != nil {
		return rsp{err: err}
	}
	defer res.Body.Close()
	b, err := io.ReadAll(res.Body)
	return rsp{code: res.StatusCode, body: string(b), err: err}
}

func (s *sim) finishRsp(ep string, n int, x rsp) {
	m := map[string]any{"e": "rsp", "r": n, "ep": ep, "code": x.code}
	want := 200
	if x.v != nil {
		m["var"] = x.v.name
		want = x.v.code
		if x.v.base >= 0 && x.err == nil && (x.code == 200 || x.code == 404) {
			ver := decodeVer(x)
			m["ver"] = ver
			if ver < 0 {
				m["body"] = fmt.Sprintf("%.300s", x.body)
			}
		}
		if x.v.base >= 0 && x.code == 404 {
			want = 404 // judged as content (the key exists at every pause point), not as a failed request
		}
	}
	s.r.rec(m)
	if x.err != nil || x.code != want {
		s.bad = append(s.bad, fmt.Sprintf("%s: code=%d err=%v body=%.80s", ep, x.code, x.err, x.body))
	}
}

// pollPending collects the response of a request that was found blocked earlier.
func (s *sim) pollPending(wait time.Duration) bool {
	if s.pending == nil {
		return true
	}
	select {
	case x := <-s.pending:
		s.finishRsp(s.pendEp, s.pendR, x)
		s.pending = nil
		return true
	case <-time.After(wait):
		return false
	}
}

// req issues one request and waits for its complete response; a request that does not
// return within blockT is left in flight (the caller goes on releasing the loop).
func (s *sim) req(ep string, blockT time.Duration) {
	for tries := 0; !s.pollPending(0); tries++ {
		// one request at a time: let the simulation move until the blocked one returns
		if tries > 2000 {
			s.bad = append(s.bad, "request "+s.pendEp+" never returned")
			return
		}
		s.goStep(5 * time.Millisecond)
		s.pollPending(2 * time.Millisecond)
	}
	s.reqN++
	n := s.reqN
	s.r.rec(map[string]any{"e": "req", "r": n, "ep": ep})
	ch := make(chan rsp, 1)
	variant := s.nextVar
	s.nextVar = ""
	go func() { ch <- s.getVar(ep, variant, n) }()
	// blocked = the monitor sits inside engine.Pause() for blockT (a slow response is waited for)
	maxWait := 30 * time.Second
	if s.reqMax > 0 {
		maxWait = s.reqMax // overlap mode: a request queued behind the stalled inspection is left pending
	}
	deadline := time.Now().Add(maxWait)
	var since time.Time
	for {
		select {
		case x := <-ch:
			s.finishRsp(ep, n, x)
			return
		case <-time.After(200 * time.Microsecond):
		}
		now := time.Now()
		if s.r.inPause.Load() > 0 {
			if since.IsZero() {
				since = now
			} else if now.Sub(since) > blockT {
				break
			}
		} else {
			since = time.Time{}
		}
		if now.After(deadline) {
			break
		}
		continue
	}
	s.pending, s.pendEp, s.pendR = ch, ep, n
}

// noteArrival records where the loop is if it reached a gate in the meantime.
func (s *sim) noteArrival(wait time.Duration) {
	if s.at != nil {
		return
	}
	if wait <= 0 {
		select {
		case w := <-s.r.parked:
			s.at = w
		default:
		}
		return
	}
	select {
	case w := <-s.r.parked:
		s.at = w
	case <-s.done:
	case <-time.After(wait):
	}
}

// goStep lets the loop pass the gate it is parked at (or starts Run) and waits until it
// parks again, returns, or -- when an engine pause is in effect -- cannot be expected to move.
func (s *sim) goStep(pausedWait time.Duration) {
	s.noteArrival(0)
	if !s.started {
		s.startRun()
	} else if s.at != nil {
		w := s.at
		s.at = nil
		close(w.ch)
	} else {
		// the loop is inside the engine (waiting for Continue) or has returned
		s.noteArrival(pausedWait)
		return
	}
	wait := 10 * time.Second
	if s.r.held.Load() || s.pending != nil {
		wait = pausedWait
	}
	s.noteArrival(wait)
}

// finish opens all gates, leaves the simulation running and waits for its end.
func (s *sim) finish(spinOff bool) string {
	if s.r.gating.Load() {
		// (a store the loop would later load is a happens-before edge; race mode has none here)
		s.r.gating.Store(false)
	}
	s.noteArrival(0)
	if s.at != nil {
		close(s.at.ch)
		s.at = nil
	}
	drain := func(d time.Duration) bool {
		t := time.After(d)
		for {
			select {
			case w := <-s.r.parked:
				close(w.ch)
			case <-s.done:
				return true
			case <-t:
				return false
			}
		}
	}
	if s.pending != nil {
		for t0 := time.Now(); time.Since(t0) < 30*time.Second && !s.pollPending(5*time.Millisecond); {
			drain(5 * time.Millisecond)
		}
		if s.pending != nil {
			return "request " + s.pendEp + " never returned"
		}
	}
	if s.mon != nil && s.r.held.Load() {
		// "once it is left running": a paused monitor is continued by the user
		s.req("continue", 5*time.Second)
		s.pollPending(10 * time.Second)
	}
	if !s.started {
		s.startRun()
	}
	if !drain(60 * time.Second) {
		return "simulation did not finish after the last request"
	}
	if p := s.engPanic.Load(); p != nil {
		return "engine goroutine panicked: " + p.(string)
	}
	return ""
}

type outcome struct {
	Order    []string `json:"order"`
	Counter  uint64   `json:"counter"`
	Vals     []uint64 `json:"vals"`
	Queue    []int    `json:"queue"`
	Level    int      `json:"level"`
	TkLeft   int      `json:"tk_left"`
	TkDone   int      `json:"tk_done"`
	DoneAt   []uint64 `json:"done_at"`
	Finished uint64   `json:"finished"`
	InProg   uint64   `json:"in_progress"`
	BigSum   uint64   `json:"big_sum"`
	StateVer int      `json:"state_ver"`
	Bank0    []uint64 `json:"bank0"`
}

func (s *sim) outcome() outcome {
	o := outcome{Order: s.order, Counter: s.core.Counter, Vals: s.core.Vals, Queue: s.core.Queue.Elements(), Level: s.core.Level.n,
		TkLeft: s.tk.Left, TkDone: s.tk.Done, DoneAt: s.tk.DoneAt, StateVer: s.core.ver, Bank0: s.core.Banks["0"]}
	for i, x := range s.core.Big {
		o.BigSum += x * uint64(i+1)
	}
	if s.bar != nil {
		o.Finished, o.InProg = s.bar.Finished, s.bar.InProgress
	} else {
		// an unmonitored run has no progress bar; every work event finishes once
		o.Finished, o.InProg = uint64(s.nwork), 0
	}
	return o
}

func baseline(nwork, gap int) (outcome, error) {
	s, err := newSim(nwork, gap, false, false)
	if err != nil {
		return outcome{}, err
	}
	s.startRun()
	select {
	case <-s.done:
	case <-time.After(20 * time.Second):
		return outcome{}, fmt.Errorf("unmonitored run did not finish")
	}
	return s.outcome(), nil
}

func same(a, b outcome) bool {
	x, _ := json.Marshal(a)
	y, _ := json.Marshal(b)
	return string(x) == string(y)
}

// ------------------------------------------------------------------ drivers

type step []any

type result struct {
	Scenarios int              `json:"scenarios"`
	Events    int              `json:"events"`
	Requests  int              `json:"requests"`
	Bad       []string         `json:"bad"`
	Outcomes  []map[string]any `json:"outcome_differs"`
	Hangs     []map[string]any `json:"hangs"`
	Blocked   int              `json:"blocked_requests"`
	Sample    []map[string]any `json:"sample"`
	Baseline  outcome          `json:"baseline"`
	Pauses    int64            `json:"engine_pauses"`
	Race      map[string]any   `json:"race,omitempty"`
	Overlap   []map[string]any `json:"overlap,omitempty"`
}

func init() {
	reg.Register("mon_run", func(raw json.RawMessage) (any, error) {
		var in struct {
			Mode       string   `json:"mode"` // gated | free | race
			Seed       int64    `json:"seed"`
			Out        string   `json:"out"`
			NWork      int      `json:"nwork"`
			Gap        int      `json:"gap"`
			Behaviours [][]step `json:"behaviours"`
			BlockMs    int      `json:"block_ms"`
		RunUntil   []int    `json:"run_until"` // gated: scenarios whose engine is driven by RunUntil(far future)
			// free
			Programs  int      `json:"programs"`
			Requests  int      `json:"requests"`
			Spin      int      `json:"spin"`
			Endpoints []string `json:"endpoints"`
			// race
			Endpoint   string `json:"endpoint"`
			Position   string `json:"position"`
			Event      int    `json:"event"`
			UserPaused bool   `json:"user_paused"`
			DelayMs    int    `json:"delay_ms"`
			// overlap
			BigN     int         `json:"big_n"`
			Overlaps []overlapSc `json:"overlaps"`
		}
		if err := json.Unmarshal(raw, &in); err != nil {
			return nil, err
		}
		if in.NWork == 0 {
			in.NWork = 3
		}
		if in.Gap == 0 {
			in.Gap = 4
		}
		if in.BlockMs == 0 {
			in.BlockMs = 5
		}
		res := &result{}
		var enc *json.Encoder
		if in.Out != "" {
			f, err := os.Create(in.Out)
			if err != nil {
				return nil, err
			}
			defer f.Close()
			enc = json.NewEncoder(f)
		}
		flush := func(s *sim, scn int) {
			if enc == nil {
				return
			}
			s.r.mu.Lock()
			for _, m := range s.r.log {
				if e := m["e"]; (e == "bwin" || e == "bclose") && s.unsure[m["r"].(int)] {
					continue // the stalled request may have left the inspection already: no claim
				}
				_ = enc.Encode(m)
			}
			res.Events += len(s.r.log) + 1
			if scn == 0 {
				res.Sample = s.r.log[:min(len(s.r.log), 24)]
			}
			s.r.mu.Unlock()
			_ = enc.Encode(map[string]any{"e": "reset", "scn": scn + 1})
		}
		switch in.Mode {
		case "gated":
			want, err := baseline(in.NWork, in.Gap)
			if err != nil {
				return nil, err
			}
			res.Baseline = want
			for i, b := range in.Behaviours {
				s, err := newSim(in.NWork, in.Gap, true, true)
				if err != nil {
					return nil, err
				}
				s.r.gating.Store(true)
				for _, k := range in.RunUntil {
					s.runUntil = s.runUntil || k == i
				}
				var eps []string
				for _, st := range b {
					switch st[0].(string) {
					case "go":
						s.goStep(3 * time.Millisecond)
						if s.pending != nil {
							s.pollPending(time.Millisecond) // log the response close to its arrival
						}
					case "req":
						ep := st[1].(string)
						eps = append(eps, ep)
						if len(st) > 2 {
							s.nextVar, _ = st[2].(string)
						}
						s.req(ep, time.Duration(in.BlockMs)*time.Millisecond)
						if s.pending != nil {
							res.Blocked++
						}
					}
				}
				hang := s.finish(false)
				res.Requests += s.reqN
				res.Pauses += s.r.pauses.Load()
				for _, x := range s.bad {
					res.Bad = append(res.Bad, fmt.Sprintf("scn %d: %s", i, x))
				}
				if hang != "" {
					res.Hangs = append(res.Hangs, map[string]any{"scn": i, "endpoints": eps, "what": hang})
				} else if got := s.outcome(); !same(got, want) {
					res.Outcomes = append(res.Outcomes, map[string]any{"scn": i, "endpoints": eps, "got": got, "want": want})
				}
				flush(s, i)
				s.close()
				res.Scenarios++
				if len(res.Hangs) >= 3 {
					break // the verdict is settled; every further hang costs a minute
				}
			}
		case "free":
			rng := rand.New(rand.NewSource(in.Seed))
			want, err := baseline(in.NWork, in.Gap)
			if err != nil {
				return nil, err
			}
			res.Baseline = want
			for i := 0; i < in.Programs; i++ {
				s, err := newSim(in.NWork, in.Gap, true, true)
				if err != nil {
					return nil, err
				}
				s.freeSpin = in.Spin
				var eps []string
				nbefore := rng.Intn(3)
				for k := 0; k < in.Requests; k++ {
					if k == nbefore {
						s.startRun()
					}
					ep := in.Endpoints[rng.Intn(len(in.Endpoints))]
					eps = append(eps, ep)
					s.req(ep, 20*time.Second)
					if s.pending != nil {
						s.pollPending(20 * time.Second)
					}
					select {
					case <-s.done:
						k = in.Requests
					default:
					}
				}
				hang := s.finish(false)
				res.Requests += s.reqN
				res.Pauses += s.r.pauses.Load()
				for _, x := range s.bad {
					res.Bad = append(res.Bad, fmt.Sprintf("prog %d: %s", i, x))
				}
				if hang != "" {
					res.Hangs = append(res.Hangs, map[string]any{"scn": i, "endpoints": eps, "what": hang})
				} else if got := s.outcome(); !same(got, want) {
					res.Outcomes = append(res.Outcomes, map[string]any{"scn": i, "endpoints": eps, "got": got, "want": want})
				}
				flush(s, i)
				s.close()
				res.Scenarios++
				if len(res.Hangs) >= 3 {
					break
				}
			}
		case "overlap":
			bigN = in.BigN
			if bigN < 1000 {
				bigN = 400000
			}
			defer func() { bigN = 8 }()
			want, err := baseline(in.NWork, in.Gap)
			if err != nil {
				return nil, err
			}
			res.Baseline = want
			for i, sc := range in.Overlaps {
				s, err := newSim(in.NWork, in.Gap, true, true)
				if err != nil {
					return nil, err
				}
				info, hang := s.overlap(sc)
				info["scn"] = i
				res.Overlap = append(res.Overlap, info)
				if hang == "" {
					hang = s.finish(false)
				}
				res.Requests += s.reqN + 1
				res.Pauses += s.r.pauses.Load()
				for _, x := range s.bad {
					res.Bad = append(res.Bad, fmt.Sprintf("overlap %d: %s", i, x))
				}
				eps := append([]string{"field"}, sc.B...)
				if hang != "" {
					res.Hangs = append(res.Hangs, map[string]any{"scn": i, "endpoints": eps, "what": hang})
				} else if got := s.outcome(); !same(got, want) {
					res.Outcomes = append(res.Outcomes, map[string]any{"scn": i, "endpoints": eps, "got": got, "want": want})
				}
				flush(s, i)
				s.close()
				res.Scenarios++
				if len(res.Hangs) >= 3 {
					break
				}
			}
		case "race":
			want, err := baseline(in.NWork, in.Gap)
			if err != nil {
				return nil, err
			}
			res.Baseline = want
			s, err := newSim(in.NWork, in.Gap, true, false)
			if err != nil {
				return nil, err
			}
			s.r.gating.Store(true)
			s.r.spin.Store(true)
			// walk to the position: the pre / mid / post gate of the Event-th handled event
			if in.Event <= 0 {
				in.Event = 1
			}
			nev := 0
			for steps := 0; steps < 200; steps++ {
				s.goStep(time.Second)
				if s.at == nil {
					break
				}
				if s.at.label == "pre" {
					nev++
				}
				if nev == in.Event && s.at.label == in.Position {
					break
				}
			}
			if s.at == nil || s.at.label != in.Position {
				return nil, fmt.Errorf("loop did not reach the %s gate of event %d", in.Position, in.Event)
			}
			if in.UserPaused {
				s.req("pause", 500*time.Millisecond)
			}
			// from here on nothing the requester does is ordered before the loop's next steps
			w := s.at
			s.at = nil
			s.r.gating.Store(false)
			delay := time.Duration(in.DelayMs) * time.Millisecond
			time.AfterFunc(delay, func() { close(w.ch) })
			p0 := s.r.pauses.Load()
			s.req(in.Endpoint, 20*time.Second)
			if s.pending != nil {
				s.pollPending(20 * time.Second)
			}
			ownPause := s.r.pauses.Load() > p0
			time.Sleep(delay) // let the loop touch what the request touched
			hang := s.finish(true)
			res.Requests = s.reqN
			res.Bad = s.bad
			res.Race = map[string]any{"endpoint": in.Endpoint, "position": in.Position, "event": in.Event, "user_paused": in.UserPaused, "own_pause": ownPause}
			if hang != "" {
				res.Hangs = append(res.Hangs, map[string]any{"scn": 0, "endpoints": []string{in.Endpoint}, "what": hang})
			} else if got := s.outcome(); !same(got, want) {
				res.Outcomes = append(res.Outcomes, map[string]any{"scn": 0, "endpoints": []string{in.Endpoint}, "got": got, "want": want})
			}
			s.close()
			res.Scenarios = 1
		default:
			return nil, fmt.Errorf("unknown mode %q", in.Mode)
		}
		return res, nil
	})
}

// ------------------------------------------------------------------ overlapping requests

// overlapSc: request A inspects Core.Big (tens of megabytes of response) and its client
// stops reading after the first byte, so A's handler stays inside the inspection, blocked
// on the socket; the requests B are issued meanwhile.
type overlapSc struct {
	Event      int      `json:"event"`    // 0: A is issued before Run; else the gate the loop is parked at
	Position   string   `json:"position"` // pre | mid | post
	UserPaused bool     `json:"user_paused"`
	B          []string `json:"b"`
}

type bigRsp struct {
	code      int
	total     int64
	remaining int64 // bytes that arrived only after the client resumed reading
	err       error
}

func tcpWmemMax() int64 {
	b, err := os.ReadFile("/proc/sys/net/ipv4/tcp_wmem")
	if err == nil {
		var a, d, m int64
		if n, _ := fmt.Sscan(string(b), &a, &d, &m); n == 3 && m > 0 {
			return m
		}
	}
	return 16 << 20
}

func (s *sim) overlap(sc overlapSc) (map[string]any, string) {
	info := map[string]any{"b": sc.B, "event": sc.Event, "position": sc.Position, "user_paused": sc.UserPaused}
	s.unsure = map[int]bool{}
	s.r.gating.Store(true)
	if sc.Event > 0 {
		nev := 0
		for steps := 0; steps < 200; steps++ {
			s.goStep(time.Second)
			if s.at == nil {
				break
			}
			if s.at.label == "pre" {
				nev++
			}
			if nev == sc.Event && s.at.label == sc.Position {
				break
			}
		}
		if s.at == nil || s.at.label != sc.Position {
			return info, fmt.Sprintf("loop did not reach the %s gate of event %d", sc.Position, sc.Event)
		}
	}
	if sc.UserPaused {
		s.req("pause", 5*time.Millisecond) // at a gate it waits for the handler: left pending
	}
	// request A
	s.reqN++
	ra := s.reqN
	first := make(chan struct{})
	drain := make(chan struct{})
	done := make(chan bigRsp, 1)
	s.r.rec(map[string]any{"e": "breq", "r": ra, "ep": "field"})
	go func() {
		d := &net.Dialer{}
		tr := &http.Transport{DisableKeepAlives: true, ReadBufferSize: 4096,
			DialContext: func(ctx context.Context, network, addr string) (net.Conn, error) {
				c, err := d.DialContext(ctx, network, addr)
				if tc, ok := c.(*net.TCPConn); ok {
					_ = tc.SetReadBuffer(32 << 10) // a small, fixed receive window
				}
				return c, err
			}}
		defer tr.CloseIdleConnections()
		cl := &http.Client{Transport: tr, Timeout: 300 * time.Second}
		res, err := cl.Get(s.base + "/api/field/" + url.PathEscape(`{"comp_name":"Core","field_name":"Big"}`))
		if err != nil {
			close(first)
			done <- bigRsp{err: err}
			return
		}
		defer res.Body.Close()
		one := make([]byte, 1)
		n, err := io.ReadFull(res.Body, one)
		s.r.rec(map[string]any{"e": "bwin", "r": ra})
		close(first)
		if err != nil {
			done <- bigRsp{code: res.StatusCode, total: int64(n), err: err}
			return
		}
		<-drain
		s.r.rec(map[string]any{"e": "bclose", "r": ra})
		rest, err := io.Copy(io.Discard, res.Body)
		done <- bigRsp{code: res.StatusCode, total: rest + 1, remaining: rest, err: err}
	}()
	// wait until a pause is requested at the engine (A's own, or the user's with A queued behind
	// it), then let the simulation run on: that Pause returns when the handler has left
	p0 := s.r.pauses.Load()
	if sc.UserPaused {
		p0 = -1
	}
	for t0 := time.Now(); time.Since(t0) < 20*time.Second; time.Sleep(100 * time.Microsecond) {
		if s.r.inPause.Load() > 0 || s.r.pauses.Load() > p0 {
			break
		}
	}
	s.r.gating.Store(false)
	s.noteArrival(0)
	if s.at != nil {
		close(s.at.ch)
		s.at = nil
	}
	if !s.started {
		s.startRun()
	}
	select {
	case <-first:
	case <-time.After(120 * time.Second):
		return info, "the large inspection request produced no response byte"
	}
	s.pollPending(5 * time.Second) // the user's pause, if any
	// A is inside its inspection now; the engine must not handle any event until A is drained
	c0 := s.r.handled.Load()
	s.reqMax = 150 * time.Millisecond
	var completed []string
	for _, ep := range sc.B {
		if s.pending != nil {
			break
		}
		s.req(ep, 150*time.Millisecond)
		if s.pending == nil {
			completed = append(completed, ep)
		}
	}
	s.reqMax = 0
	time.Sleep(20 * time.Millisecond)
	c1 := s.r.handled.Load()
	close(drain)
	var a bigRsp
	select {
	case a = <-done:
	case <-time.After(300 * time.Second):
		return info, "the large inspection request never completed"
	}
	bound := tcpWmemMax() + (2 << 20)
	sure := a.err == nil && a.code == 200 && a.remaining > bound
	if !sure {
		s.unsure[ra] = true
	}
	s.r.rec(map[string]any{"e": "brsp", "r": ra, "code": a.code})
	if a.err != nil || a.code != 200 {
		s.bad = append(s.bad, fmt.Sprintf("large field inspection: code=%d err=%v", a.code, a.err))
	}
	s.pollPending(30 * time.Second)
	info["handled_before_b"], info["handled_before_drain"] = c0, c1
	info["b_completed_in_window"] = completed
	info["a_bytes"], info["a_bytes_after_window"], info["window_certain"] = a.total, a.remaining, sure
	return info, ""
}

var _ = strings.TrimSpace
