// Package dramchk is the C22 driver family: real mem/dram controllers (every
// preset, both page policies, several queue configurations) on a real
// timing.SerialEngine, driven by a seeded contended request stream; every
// command the controller issues to a bank is collected through hook H1
// (dram.VerifCmdObserver, build tag verif) and written, together with the
// requester-side view of every request and response, as an ndjson trace that
// spec/mem/DRAMTrace.tla judges.
package dramchk

import (
	"bufio"
	"encoding/json"
	"fmt"
	"math/rand"
	"os"
	"path/filepath"

	"github.com/sarchlab/akita/v5/mem/dram"
	"github.com/sarchlab/akita/v5/mem/memprotocol"
	"github.com/sarchlab/akita/v5/messaging"
	"github.com/sarchlab/akita/v5/modeling"
	"github.com/sarchlab/akita/v5/noc/directconnection"
	"github.com/sarchlab/akita/v5/timing"

	"verif/harness/internal/reg"
)

// hookPresent fails to compile when hook H1 (mem/dram/verifhook_on.go) is not
// applied to the repository: the check reports "hook H1 not applied".
var hookPresent = &dram.VerifCmdObserver

type sysCfg struct {
	Preset   string `json:"preset"`   // DDR4 | DDR5 | HBM2 | HBM3 | GDDR6 | DDR3-default (+ variants)
	Policy   string `json:"policy"`   // open | close
	Queue    string `json:"queue"`    // default | small | split | split-small
	Requests int    `json:"requests"` // number of requests
	TopBuf   int    `json:"top_buf"`  // buffer size of the controller's Top port
	Inflight int    `json:"inflight"` // requester window
	Width    int    `json:"width"`    // requests the requester may send per cycle
	Banks    int    `json:"banks"`    // size of the bank pool
	Rows     int    `json:"rows"`     // rows per bank in the pool
	Cols     int    `json:"cols"`     // access units per row in the pool
	WriteP   int    `json:"write_p"`  // percent writes
	MaskP    int    `json:"mask_p"`   // percent of writes that carry a DirtyMask
	IdleP    int    `json:"idle_p"`   // per-mille chance per cycle of starting an idle gap
	Seed     int64  `json:"seed"`
	Group    int    `json:"group"` // trace file index
}

type input struct {
	Dir     string   `json:"dir"`
	Systems []sysCfg `json:"systems"`
	Groups  int      `json:"groups"`
}

type sysOut struct {
	Index     int            `json:"index"`
	Cfg       sysCfg         `json:"cfg"`
	Group     int            `json:"group"`
	FirstLine int            `json:"first_line"` // 1-based line of the config record in the group's file
	LastLine  int            `json:"last_line"`
	Sent      int            `json:"sent"`
	Completed int            `json:"completed"`
	Cmds      map[string]int `json:"cmds"`
	Cycles    uint64         `json:"cycles"`
	Units     int            `json:"units"` // access units covered by the requests (expected column commands)
	Banks     int            `json:"banks_touched"`
	Masked    int            `json:"masked_writes"`
	Panic     string         `json:"panic,omitempty"`
	Spec      map[string]int `json:"spec"`
}

type output struct {
	Files   []string  `json:"files"`
	Lines   []int     `json:"lines"`
	Systems []sysOut  `json:"systems"`
	Sample  []jsonRec `json:"sample"`
}

type jsonRec = map[string]any

// ---------------------------------------------------------------- presets

func presetSpec(name string) (dram.Spec, string, bool) {
	switch name {
	case "DDR4":
		return dram.DDR4Spec, "ddr", true
	case "DDR5":
		return dram.DDR5Spec, "ddr", true
	case "HBM2":
		return dram.HBM2Spec, "hbm", true
	case "HBM3":
		return dram.HBM3Spec, "hbm", true
	case "GDDR6":
		return dram.GDDR6Spec, "gddr", true
	case "DDR3-default":
		return dram.DefaultSpec(), "ddr", true
	case "DDR4-AL":
		// DDR4 preset with an additive latency (posted CAS, AL = CL - 2)
		s := dram.DDR4Spec
		s.TAL = s.TCL - 2
		return s, "ddr", true
	case "DDR4-2rank":
		s := dram.DDR4Spec
		s.NumRank = 2
		return s, "ddr", true
	}
	return dram.Spec{}, "", false
}

func applyQueue(s *dram.Spec, q string) {
	switch q {
	case "default":
	case "small":
		s.TransactionQueueSize = 4
		s.CommandQueueCapacity = 2
	case "split":
		s.ReadQueueSize = 8
		s.WriteQueueSize = 8
		s.WriteHighWatermark = 6
		s.WriteLowWatermark = 2
	case "split-small":
		s.TransactionQueueSize = 6
		s.ReadQueueSize = 2
		s.WriteQueueSize = 4
		s.WriteHighWatermark = 3
		s.WriteLowWatermark = 1
	default:
		panic("unknown queue configuration " + q)
	}
}

// the Spec numbers the built component reports, under their JSON tag names
func specNumbers(s dram.Spec) map[string]int {
	return map[string]int{
		"t_al": s.TAL, "t_cl": s.TCL, "t_cwl": s.TCWL, "t_rl": s.TRL, "t_wl": s.TWL,
		"read_delay": s.ReadDelay, "write_delay": s.WriteDelay,
		"t_rcd": s.TRCD, "t_rp": s.TRP, "t_ras": s.TRAS, "t_ccds": s.TCCDS, "t_ccdl": s.TCCDL,
		"t_rtrs": s.TRTRS, "t_rtp": s.TRTP, "t_wtrl": s.TWTRL, "t_wtrs": s.TWTRS, "t_wr": s.TWR,
		"t_ppd": s.TPPD, "t_rc": s.TRC, "t_rrds": s.TRRDS, "t_rrdl": s.TRRDL, "t_faw": s.TFAW,
		"t_rcdrd": s.TRCDRD, "t_rcdwr": s.TRCDWR, "t_refi": s.TREFI, "t_rfc": s.TRFC, "t_rfcb": s.TRFCb,
		"t_ckesr": s.TCKESR, "t_xs": s.TXS, "burst_cycle": s.BurstCycle,
		"bus_width": s.BusWidth, "burst_length": s.BurstLength, "device_width": s.DeviceWidth,
		"num_channel": s.NumChannel, "num_rank": s.NumRank, "num_bank_group": s.NumBankGroup,
		"num_bank": s.NumBank, "num_row": s.NumRow, "num_col": s.NumCol,
		"transaction_queue_size": s.TransactionQueueSize, "command_queue_capacity": s.CommandQueueCapacity,
		"read_queue_size": s.ReadQueueSize, "write_queue_size": s.WriteQueueSize,
		"write_high_watermark": s.WriteHighWatermark, "write_low_watermark": s.WriteLowWatermark,
		"log2_access_unit_size": int(s.Log2AccessUnitSize),
	}
}

// ---------------------------------------------------------------- trace writer

type traceFile struct {
	path  string
	f     *os.File
	w     *bufio.Writer
	lines int
}

func (t *traceFile) put(rec jsonRec) {
	b, err := json.Marshal(rec)
	if err != nil {
		panic(err)
	}
	t.w.Write(b)
	t.w.WriteByte('\n')
	t.lines++
}

// ---------------------------------------------------------------- requester

type span struct {
	lo, hi uint64 // [lo, hi)
	write  bool
}

type pending struct {
	id    int
	write bool
	sp    span
}

type requester struct {
	*modeling.Component[struct{}, struct{}, modeling.None]
	c       *sysCfg
	rng     *rand.Rand
	port    messaging.Port
	dst     messaging.RemotePort
	tf      *traceFile
	units   []uint64 // base addresses of the access units in the pool
	unit    uint64
	next    int
	byMsg   map[uint64]*pending
	fly     []*pending
	done    int
	idle    int
	nUnits  int
	nMasked int
	sample  *[]jsonRec
}

func ints(b []byte) []int {
	o := make([]int, len(b))
	for i, x := range b {
		o[i] = int(x)
	}
	return o
}

func (r *requester) conflicts(s span) bool {
	for _, p := range r.fly {
		if p.sp.lo < s.hi && s.lo < p.sp.hi && (p.sp.write || s.write) {
			return true
		}
	}
	return false
}

type reqMW struct{ r *requester }

func (m *reqMW) Tick() bool {
	r := m.r
	progress := false
	for {
		msg := r.port.RetrieveIncoming()
		if msg == nil {
			break
		}
		progress = true
		p := r.byMsg[msg.Meta().RspTo]
		rec := jsonRec{"e": "rsp", "id": 0, "op": "?", "d": []int{}}
		if p != nil {
			rec["id"] = p.id
		}
		switch rsp := msg.(type) {
		case memprotocol.DataReadyRsp:
			rec["op"] = "read"
			rec["d"] = ints(rsp.Data)
		case memprotocol.WriteDoneRsp:
			rec["op"] = "write"
		}
		r.tf.put(rec)
		if p != nil {
			delete(r.byMsg, msg.Meta().RspTo)
			for i, q := range r.fly {
				if q == p {
					r.fly = append(r.fly[:i], r.fly[i+1:]...)
					break
				}
			}
			r.done++
		}
	}
	if r.next >= r.c.Requests {
		return progress
	}
	if r.idle > 0 {
		r.idle--
		return true
	}
	if r.rng.Intn(1000) < r.c.IdleP {
		switch r.rng.Intn(10) {
		case 0:
			r.idle = 2000 + r.rng.Intn(9000) // long enough to let the controller go to sleep and a refresh window pass
		default:
			r.idle = 1 + r.rng.Intn(120)
		}
		return true
	}
	for k := 0; k < r.c.Width && r.next < r.c.Requests; k++ {
		if len(r.fly) >= r.c.Inflight || !r.port.CanSend() {
			break
		}
		sp, ok := r.pick()
		if !ok {
			break
		}
		r.send(sp)
		progress = true
	}
	// keep ticking while requests remain to be sent
	return true
}

// pick chooses an address range in the pool that does not overlap an in-flight
// write (or, for a write, any in-flight request).
func (r *requester) pick() (span, bool) {
	for try := 0; try < 8; try++ {
		u := r.rng.Intn(len(r.units))
		base := r.units[u]
		var off, n uint64
		switch r.rng.Intn(6) {
		case 0:
			off, n = 0, r.unit // the whole access unit
		case 1:
			off, n = 0, 8
		case 2:
			off, n = 8, 8
		case 3:
			off, n = 4, 12
		case 4:
			off, n = 0, 16
		default:
			// spans into the next access unit of the same row (two sub-transactions)
			if (u+1)%r.c.Cols != 0 {
				off, n = r.unit-8, 16
			} else {
				off, n = 0, 4
			}
		}
		s := span{lo: base + off, hi: base + off + n, write: r.rng.Intn(100) < r.c.WriteP}
		if !r.conflicts(s) {
			return s, true
		}
	}
	return span{}, false
}

func (r *requester) send(s span) {
	r.next++
	id := r.next
	n := s.hi - s.lo
	r.nUnits += int((s.hi-1)/r.unit - s.lo/r.unit + 1)
	p := &pending{id: id, write: s.write, sp: s}
	rec := jsonRec{"e": "req", "id": id, "a": s.lo, "n": n}
	var msg messaging.Msg
	if s.write {
		data := make([]byte, n)
		r.rng.Read(data)
		w := memprotocol.WriteReq{Address: s.lo, Data: data}
		mask := []bool{}
		if r.rng.Intn(100) < r.c.MaskP {
			mask = make([]bool, n)
			for i := range mask {
				mask[i] = r.rng.Intn(2) == 0
			}
			w.DirtyMask = mask
			r.nMasked++
		}
		w.ID = timing.GetIDGenerator().Generate()
		w.Src = r.port.AsRemote()
		w.Dst = r.dst
		w.TrafficBytes = len(data) + 12
		w.TrafficClass = "memprotocol.WriteReq"
		msg = w
		rec["op"], rec["d"], rec["m"] = "write", ints(data), mask
	} else {
		rd := memprotocol.ReadReq{Address: s.lo, AccessByteSize: n}
		rd.ID = timing.GetIDGenerator().Generate()
		rd.Src = r.port.AsRemote()
		rd.Dst = r.dst
		rd.TrafficBytes = 12
		rd.TrafficClass = "memprotocol.ReadReq"
		msg = rd
		rec["op"], rec["d"], rec["m"] = "read", []int{}, []bool{}
	}
	r.byMsg[msg.Meta().ID] = p
	r.fly = append(r.fly, p)
	r.tf.put(rec)
	if r.sample != nil && len(*r.sample) < 40 {
		*r.sample = append(*r.sample, rec)
	}
	r.port.Send(msg)
}

// ---------------------------------------------------------------- one system

func runSystem(idx int, c *sysCfg, tf *traceFile, sample *[]jsonRec) (res sysOut) {
	res = sysOut{Index: idx, Cfg: *c, Group: c.Group, Cmds: map[string]int{}}
	res.FirstLine = tf.lines + 1
	defer func() {
		dram.VerifCmdObserver = nil
		if p := recover(); p != nil {
			res.Panic = fmt.Sprint(p)
			tf.put(jsonRec{"e": "end", "out": -1, "t": 0, "panic": res.Panic})
		}
		res.LastLine = tf.lines
	}()

	spec, fam, ok := presetSpec(c.Preset)
	if !ok {
		panic("unknown preset " + c.Preset)
	}
	if c.Policy == "open" {
		spec.PagePolicy = dram.PagePolicyOpen
	} else {
		spec.PagePolicy = dram.PagePolicyClose
	}
	applyQueue(&spec, c.Queue)

	engine := timing.NewSerialEngine()
	regr := modeling.NewStandaloneRegistrar(engine)
	name := fmt.Sprintf("DRAM%d", idx)
	ctrl := dram.MakeBuilder().WithRegistrar(regr).WithSpec(spec).Build(name)
	for _, pn := range []string{"Top", "Control"} {
		size := c.TopBuf
		if pn == "Control" {
			size = 1
		}
		ctrl.AssignPort(pn, modeling.MakePortBuilder().WithRegistrar(regr).WithComponent(ctrl).
			WithSpec(modeling.PortSpec{BufSize: size}).Build(pn))
	}
	built := ctrl.Spec() // what the builder reports: derived fields and address decode included
	res.Spec = specNumbers(built)
	unit := uint64(1) << built.Log2AccessUnitSize
	capacity := ctrl.Resources().Storage.Capacity()

	// ---- the location pool: banks in the same bank group, in other bank groups
	// and (when there are several) other ranks; a few rows per bank; a few
	// access units per row
	type loc struct{ r, g, b int }
	var banks []loc
	add := func(l loc) {
		if l.r >= built.NumRank || l.g >= built.NumBankGroup || l.b >= built.NumBank {
			return
		}
		for _, x := range banks {
			if x == l {
				return
			}
		}
		banks = append(banks, l)
	}
	for _, l := range []loc{{0, 0, 0}, {0, 0, 1}, {0, 1, 0}, {0, 1, 2}, {1, 0, 0}, {0, 2, 1}, {1, 0, 3}, {0, 3, 3}, {0, 0, 2}, {0, 0, 3},
		{0, 0, 4}, {0, 0, 5}, {1, 0, 1}} {
		if len(banks) < c.Banks {
			add(l)
		}
	}
	rowsPick := []int{0, 1, 5, 2, 7, 3}
	compose := func(l loc, row, col int) uint64 {
		return uint64(row)<<built.RowPos | uint64(l.r)<<built.RankPos | uint64(l.g)<<built.BankGroupPos |
			uint64(l.b)<<built.BankPos | uint64(col)<<built.ColPos
	}
	req := &requester{c: c, rng: rand.New(rand.NewSource(c.Seed)), tf: tf, unit: unit, byMsg: map[uint64]*pending{}, sample: sample}
	for _, l := range banks {
		for ri := 0; ri < c.Rows && ri < len(rowsPick); ri++ {
			for col := 0; col < c.Cols; col++ {
				a := compose(l, rowsPick[ri], col)
				if a+2*unit > capacity {
					panic(fmt.Sprintf("pool address %#x beyond storage capacity %#x", a, capacity))
				}
				req.units = append(req.units, a)
			}
		}
	}
	res.Banks = len(banks)

	req.Component = modeling.NewBuilder[struct{}, struct{}, modeling.None]().
		WithEngine(engine).WithFreq(built.Freq).WithSpec(struct{}{}).Build(fmt.Sprintf("Req%d", idx))
	req.AddMiddleware(&reqMW{r: req})
	req.DeclarePort("Mem", memprotocol.Requester)
	req.port = messaging.NewPort(req, 4, 4, fmt.Sprintf("Req%d.Mem", idx))
	req.AssignPort("Mem", req.port)
	req.dst = ctrl.GetPortByName("Top").AsRemote()
	conn := directconnection.MakeBuilder().WithRegistrar(regr).Build(fmt.Sprintf("Conn%d", idx))
	conn.PlugIn(req.port)
	conn.PlugIn(ctrl.GetPortByName("Top"))

	tf.put(jsonRec{"e": "config", "sys": idx, "preset": c.Preset, "fam": fam, "policy": c.Policy, "queue": c.Queue,
		"sp": res.Spec, "unit": unit})

	period := uint64(built.Freq.Period())
	dram.VerifCmdObserver = func(comp string, tick uint64, kind string, rank, bankGroup, bank, row int) {
		if comp != name {
			return
		}
		res.Cmds[kind]++
		rec := jsonRec{"e": "cmd", "t": uint64(engine.CurrentTime()) / period, "tc": tick, "k": kind,
			"r": rank, "g": bankGroup, "b": bank, "row": row}
		tf.put(rec)
		if sample != nil && len(*sample) < 40 {
			*sample = append(*sample, rec)
		}
	}

	req.TickLater()
	if err := engine.Run(); err != nil {
		panic(err)
	}
	res.Sent = req.next
	res.Completed = req.done
	res.Units = req.nUnits
	res.Masked = req.nMasked
	res.Cycles = uint64(engine.CurrentTime()) / period
	tf.put(jsonRec{"e": "end", "out": len(req.fly), "t": res.Cycles, "sent": req.next})
	return res
}

func init() {
	reg.Register("dram_trace", func(raw json.RawMessage) (any, error) {
		var in input
		if err := json.Unmarshal(raw, &in); err != nil {
			return nil, err
		}
		if in.Groups < 1 {
			in.Groups = 1
		}
		var out output
		var tfs []*traceFile
		for g := 0; g < in.Groups; g++ {
			p := filepath.Join(in.Dir, fmt.Sprintf("dram%02d.ndjson", g))
			f, err := os.Create(p)
			if err != nil {
				return nil, err
			}
			tfs = append(tfs, &traceFile{path: p, f: f, w: bufio.NewWriterSize(f, 1<<20)})
			out.Files = append(out.Files, p)
		}
		for i := range in.Systems {
			c := &in.Systems[i]
			c.Group = c.Group % in.Groups
			var smp *[]jsonRec
			if i == 0 {
				smp = &out.Sample
			}
			out.Systems = append(out.Systems, runSystem(i, c, tfs[c.Group], smp))
		}
		for _, t := range tfs {
			if err := t.w.Flush(); err != nil {
				return nil, err
			}
			t.f.Close()
			out.Lines = append(out.Lines, t.lines)
		}
		return out, nil
	})
}
