package jsonmodel

import (
	"fmt"
	"math"
	"reflect"
	"strings"
	"unsafe"
)

// Vector assigns a value class to every field kind (the coordinates of
// JsonVectors.tla): int, uint, float, string, bytes, slice, map, bool, container.
// A missing coordinate means "one"/"ascii"/"true" (the base value).
type Vector map[string]string

// Uniform C43 value classes, expressed as vectors.
var uniformClasses = map[string]Vector{
	"base":    {},
	"empty":   {"int": "zero", "uint": "zero", "float": "zero", "string": "empty", "bytes": "empty", "slice": "empty", "map": "empty", "bool": "false", "custom": "empty", "iface": "nil"},
	"max":     {"int": "max", "uint": "max", "float": "max", "string": "long", "custom": "max"},
	"min":     {"int": "min", "uint": "zero", "float": "min", "custom": "min"},
	"unicode": {"string": "unicode"},
	"nonutf8": {"string": "nonutf8"},
	"nan":     {"float": "nan"},
	"inf":     {"float": "inf"},
	"deep":    {"slice": "two", "map": "two", "bytes": "many", "custom": "deep"},
	"dynint":  {"iface": "int"},
	// collections nested inside k others are empty (not nil), the enclosing ones hold one element: reaches an
	// omitempty collection inside a slice element or a map value
	"empty2": {"emptyFrom": "1"},
	"empty3": {"emptyFrom": "2"},
	"empty4": {"emptyFrom": "3"},
}

// classOrder is the order in which C43 classes are tried and reported.
var classOrder = []string{"base", "zero", "empty", "empty2", "empty3", "empty4", "max", "min", "unicode", "deep", "dynint", "nonutf8", "nan", "inf"}

const (
	strUnicode = "héllo  <>&\x00\"\\世\U0001F600"
	strNonUTF8 = "\xff\xfeA\x80"
)

// Filler builds concrete values by reflection. choose(kind, path) returns the class
// for one position; Skip lists struct fields (by "pkg.Type.Field") that are
// documented as not checkpointed (`json:"-"`) and stay zero; a `json:"-"` field
// that is not listed is filled like any other, so new unsaved state is noticed.
type Filler struct {
	Choose     func(kind, path string) string
	Skip       map[string]bool
	Skipped    map[string]bool
	Containers map[reflect.Type]ContainerMaker
	MissingCtr map[string]bool
}

// ContainerMaker builds an encapsulated container (Buffer, Pipeline, lruset.Set) of
// one concrete type; items builds an element value.
type ContainerMaker func(class string, item func(i int) reflect.Value) reflect.Value

// UniformFiller fills every position of a kind with the vector's class.
func UniformFiller(v Vector) *Filler {
	from, nested := v["emptyFrom"], 0
	if from != "" {
		nested = int(from[0] - '0')
	}
	return &Filler{Choose: func(kind, path string) string {
		if from != "" && (kind == "slice" || kind == "map" || kind == "bytes") {
			if strings.Count(path, "[")+strings.Count(path, "{v") >= nested {
				return "empty"
			}
			return "one"
		}
		return v[kind]
	}}
}

// Make returns a filled value of type t (addressable).
func (f *Filler) Make(t reflect.Type) reflect.Value {
	v := reflect.New(t).Elem()
	f.fill(v, t.String())
	return v
}

func settable(v reflect.Value) reflect.Value {
	if v.CanSet() {
		return v
	}
	// unexported field of an addressable struct: data that encoding/json cannot see
	// must still be present in the original value
	return reflect.NewAt(v.Type(), unsafe.Pointer(v.UnsafeAddr())).Elem()
}

func intBounds(bits int) (int64, int64) {
	switch bits {
	case 8:
		return math.MinInt8, math.MaxInt8
	case 16:
		return math.MinInt16, math.MaxInt16
	case 32:
		return math.MinInt32, math.MaxInt32
	}
	return math.MinInt64, math.MaxInt64
}

func uintMax(bits int) uint64 {
	switch bits {
	case 8:
		return math.MaxUint8
	case 16:
		return math.MaxUint16
	case 32:
		return math.MaxUint32
	}
	return math.MaxUint64
}

// str returns the string of a class; non-empty strings end in the last path component
// so that two string fields of one struct (a message's Src and Dst) differ.
func (f *Filler) str(class, path string) string {
	suffix := path
	if i := strings.LastIndexAny(path, ".{["); i >= 0 {
		suffix = path[i:]
	}
	switch class {
	case "empty", "zero":
		return ""
	case "unicode":
		return strUnicode + suffix
	case "nonutf8":
		return strNonUTF8 + suffix
	case "long":
		return strings.Repeat("x", 300) + "é" + suffix
	}
	return "a" + suffix
}

func (f *Filler) fill(v reflect.Value, path string) {
	v = settable(v)
	t := v.Type()
	if cv, ok := customValue(t, f.Choose("custom", path)); ok {
		v.Set(cv)
		return
	}
	if mk, ok := f.Containers[t]; ok {
		et := containerElem(t)
		v.Set(mk(f.Choose("container", path), func(i int) reflect.Value {
			if et == nil {
				return reflect.Value{}
			}
			x := reflect.New(et).Elem()
			f.fill(x, fmt.Sprintf("%s<%d>", path, i))
			return x
		}))
		return
	}
	switch t.Kind() {
	case reflect.Bool:
		v.SetBool(f.Choose("bool", path) != "false")
	case reflect.Int, reflect.Int8, reflect.Int16, reflect.Int32, reflect.Int64:
		lo, hi := intBounds(t.Bits())
		switch f.Choose("int", path) {
		case "zero":
			v.SetInt(0)
		case "max":
			v.SetInt(hi)
		case "min":
			v.SetInt(lo)
		default:
			v.SetInt(7)
		}
	case reflect.Uint, reflect.Uint8, reflect.Uint16, reflect.Uint32, reflect.Uint64, reflect.Uintptr:
		switch f.Choose("uint", path) {
		case "zero":
			v.SetUint(0)
		case "max":
			v.SetUint(uintMax(t.Bits()))
		default:
			v.SetUint(7)
		}
	case reflect.Float32, reflect.Float64:
		mx := math.MaxFloat64
		if t.Bits() == 32 {
			mx = math.MaxFloat32
		}
		switch f.Choose("float", path) {
		case "zero":
			v.SetFloat(0)
		case "max":
			v.SetFloat(mx)
		case "min":
			v.SetFloat(-mx)
		case "nan":
			v.SetFloat(math.NaN())
		case "inf":
			v.SetFloat(math.Inf(1))
		default:
			v.SetFloat(1.5)
		}
	case reflect.String:
		v.SetString(f.str(f.Choose("string", path), path))
	case reflect.Slice:
		if t.Elem().Kind() == reflect.Uint8 {
			switch f.Choose("bytes", path) {
			case "nil":
				v.Set(reflect.Zero(t))
			case "empty":
				v.Set(reflect.MakeSlice(t, 0, 0))
			case "many":
				s := reflect.MakeSlice(t, 256, 256)
				for i := 0; i < 256; i++ {
					s.Index(i).SetUint(uint64(i))
				}
				v.Set(s)
			default:
				s := reflect.MakeSlice(t, 1, 1)
				f.fill(s.Index(0), path+"[0]")
				v.Set(s)
			}
			return
		}
		n := 1
		switch f.Choose("slice", path) {
		case "nil":
			v.Set(reflect.Zero(t))
			return
		case "empty":
			n = 0
		case "two":
			n = 2
		}
		s := reflect.MakeSlice(t, n, n)
		for i := 0; i < n; i++ {
			f.fill(s.Index(i), fmt.Sprintf("%s[%d]", path, i))
		}
		v.Set(s)
	case reflect.Array:
		for i := 0; i < t.Len(); i++ {
			f.fill(v.Index(i), fmt.Sprintf("%s[%d]", path, i))
		}
	case reflect.Map:
		n := 1
		switch f.Choose("map", path) {
		case "nil":
			v.Set(reflect.Zero(t))
			return
		case "empty":
			n = 0
		case "two":
			n = 2
		}
		m := reflect.MakeMapWithSize(t, n)
		for i := 0; i < n; i++ {
			k := reflect.New(t.Key()).Elem()
			f.fill(k, fmt.Sprintf("%s{k%d}", path, i))
			if i > 0 { // a second, different key
				switch k.Kind() {
				case reflect.String:
					k.SetString(k.String() + "2")
				case reflect.Int, reflect.Int8, reflect.Int16, reflect.Int32, reflect.Int64:
					k.SetInt(k.Int() - 1)
				case reflect.Uint, reflect.Uint8, reflect.Uint16, reflect.Uint32, reflect.Uint64:
					k.SetUint(k.Uint() - 1)
				case reflect.Bool:
					k.SetBool(!k.Bool())
				}
			}
			x := reflect.New(t.Elem()).Elem()
			f.fill(x, fmt.Sprintf("%s{v%d}", path, i))
			m.SetMapIndex(k, x)
		}
		v.Set(m)
	case reflect.Ptr:
		p := reflect.New(t.Elem())
		f.fill(p.Elem(), path+"*")
		v.Set(p)
	case reflect.Interface:
		switch f.Choose("iface", path) {
		case "nil":
			v.Set(reflect.Zero(t))
		case "int":
			if t.NumMethod() == 0 {
				v.Set(reflect.ValueOf(int64(7)))
			}
		default:
			if t.NumMethod() == 0 {
				v.Set(reflect.ValueOf(float64(1.5)))
			}
		}
	case reflect.Struct:
		if f.Containers != nil && isCustomJSON(t) {
			// an encapsulated type the harness has no maker for
			if f.MissingCtr != nil {
				f.MissingCtr[t.String()] = true
			}
			return
		}
		for i := 0; i < t.NumField(); i++ {
			sf := t.Field(i)
			key := t.String() + "." + sf.Name
			if sf.Tag.Get("json") == "-" && f.Skip[key] {
				// documented as not checkpointed: excluded by name
				if f.Skipped != nil {
					f.Skipped[key] = true
				}
				continue
			}
			f.fill(v.Field(i), path+"."+sf.Name)
		}
	}
}

// containerElem returns the element type of a registered container type (nil when
// the container has no element type parameter).
func containerElem(t reflect.Type) reflect.Type { return containerElems[t] }

var containerElems = map[reflect.Type]reflect.Type{}
