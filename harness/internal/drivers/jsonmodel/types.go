package jsonmodel

import (
	"encoding/json"
	"fmt"
	"reflect"
	"sort"

	"github.com/sarchlab/akita/v5/modeling"

	"verif/harness/internal/reg"
)

// checkpointRT is the checkpoint encoding of a component State, taken on a value of
// a type known only at run time: Component.SaveCheckpoint marshals the State by
// value with encoding/json and LoadCheckpoint unmarshals into a fresh value of the
// same type. (The generic Component itself can only be instantiated at compile
// time; the sampled "probe" types go through the real one and must agree.)
func checkpointRT(v reflect.Value) (out reflect.Value, err error) {
	defer func() {
		if r := recover(); r != nil {
			err = fmt.Errorf("panic: %v", r)
		}
	}()
	data, err := json.Marshal(v.Interface())
	if err != nil {
		return reflect.Value{}, fmt.Errorf("save: %w", err)
	}
	p := reflect.New(v.Type())
	if err := json.Unmarshal(data, p.Interface()); err != nil {
		return reflect.Value{}, fmt.Errorf("load: %w", err)
	}
	return p.Elem(), nil
}

func errText(f func() error) (s string) {
	defer func() {
		if r := recover(); r != nil {
			s = fmt.Sprintf("panic: %v", r)
		}
	}()
	if err := f(); err != nil {
		return err.Error()
	}
	return ""
}

type typeResult struct {
	ID            string            `json:"id"`
	GoType        string            `json:"go_type"`
	ValidateState string            `json:"validate_state"` // "" = accepted
	ValidateSpec  string            `json:"validate_spec"`
	Fail          map[string]string `json:"fail"` // value class -> what went wrong ("" entries omitted)
	Classes       int               `json:"classes"`
}

type probeResult struct {
	ID         string            `json:"id"`
	BuildState string            `json:"build_state"` // "" = built
	BuildSpec  string            `json:"build_spec"`
	Fail       map[string]string `json:"fail"`     // through the real component
	Disagree   map[string]string `json:"disagree"` // real component vs checkpointRT
}

func makeClass(t reflect.Type, class string) reflect.Value {
	if class == "zero" {
		return reflect.New(t).Elem()
	}
	return UniformFiller(uniformClasses[class]).Make(t)
}

func outcome(orig reflect.Value, rt func(reflect.Value) (reflect.Value, error)) string {
	got, err := rt(orig)
	if err != nil {
		return "error: " + clip(err.Error())
	}
	if ok, d := Same(orig, got, false); !ok {
		return "changed: " + d
	}
	return ""
}

func init() {
	reg.Register("types", func(raw json.RawMessage) (any, error) {
		var in struct {
			Classes []string `json:"classes"`
		}
		if len(raw) > 0 {
			if err := json.Unmarshal(raw, &in); err != nil {
				return nil, err
			}
		}
		classes := in.Classes
		if len(classes) == 0 {
			classes = classOrder
		}
		byID := map[string]reflect.Type{}
		var out []typeResult
		evals := 0
		for _, g := range genTypes {
			t := reflect.TypeOf(g.P).Elem()
			byID[g.ID] = t
			zero := reflect.New(t).Elem().Interface()
			r := typeResult{ID: g.ID, GoType: t.String(), Fail: map[string]string{}, Classes: len(classes)}
			r.ValidateState = errText(func() error { return modeling.ValidateState(zero) })
			r.ValidateSpec = errText(func() error { return modeling.ValidateSpec(zero) })
			for _, c := range classes {
				evals++
				if o := outcome(makeClass(t, c), checkpointRT); o != "" {
					r.Fail[c] = o
				}
			}
			out = append(out, r)
		}
		var pout []probeResult
		for _, p := range probes {
			t, ok := byID[p.ID]
			if !ok {
				return nil, fmt.Errorf("probe %s has no registered type", p.ID)
			}
			pr := probeResult{ID: p.ID, Fail: map[string]string{}, Disagree: map[string]string{}}
			pr.BuildState = p.BuildAsState()
			pr.BuildSpec = p.BuildAsSpec()
			if pr.BuildState == "" {
				for _, c := range classes {
					evals++
					real := outcome(makeClass(t, c), p.RoundTrip)
					emu := outcome(makeClass(t, c), checkpointRT)
					if real != "" {
						pr.Fail[c] = real
					}
					if (real == "") != (emu == "") {
						pr.Disagree[c] = "component: " + real + " | encoding: " + emu
					}
				}
			}
			pout = append(pout, pr)
		}
		sort.Slice(out, func(i, j int) bool { return out[i].ID < out[j].ID })
		return map[string]any{"types": out, "probes": pout, "evaluations": evals, "classes": classes}, nil
	})
}
