// Package jsonmodel binds spec/ckpt/JsonModel.tla (C43) and JsonVectors.tla (C08)
// to the real validation and checkpoint code of the repository.
package jsonmodel

import (
	"encoding/json"
	"math"
	"reflect"
)

// ---- leaf types with custom JSON (JsonSem!Custom) ---------------------------

// CBoth has only unexported state and a faithful value-receiver/pointer-receiver pair.
type CBoth struct{ values []int64 }

func (c CBoth) MarshalJSON() ([]byte, error)  { return json.Marshal(c.values) }
func (c *CBoth) UnmarshalJSON(b []byte) error { return json.Unmarshal(b, &c.values) }

// CMOnly customizes the save direction only.
type CMOnly struct{ values []int64 }

func (c CMOnly) MarshalJSON() ([]byte, error) { return json.Marshal(c.values) }

// CUOnly customizes the load direction only (it reads the array form).
type CUOnly struct{ X int64 }

func (c *CUOnly) UnmarshalJSON(b []byte) error {
	var a []int64
	if err := json.Unmarshal(b, &a); err != nil {
		return err
	}
	if len(a) > 0 {
		c.X = a[0]
	}
	return nil
}

// CPtr has a faithful pair, both on the pointer receiver; only unexported state.
type CPtr struct{ values []int64 }

func (c *CPtr) MarshalJSON() ([]byte, error) { return json.Marshal(c.values) }
func (c *CPtr) UnmarshalJSON(b []byte) error { return json.Unmarshal(b, &c.values) }

// CPtrMix has a faithful pointer-receiver pair over one exported and one unexported field.
type CPtrMix struct {
	X int64
	y int64
}

func (c *CPtrMix) MarshalJSON() ([]byte, error) { return json.Marshal([2]int64{c.X, c.y}) }
func (c *CPtrMix) UnmarshalJSON(b []byte) error {
	var a [2]int64
	if err := json.Unmarshal(b, &a); err != nil {
		return err
	}
	c.X, c.y = a[0], a[1]
	return nil
}

func customInts(class string) []int64 {
	switch class {
	case "zero":
		return nil
	case "empty":
		return []int64{}
	case "max":
		return []int64{math.MaxInt64}
	case "min":
		return []int64{math.MinInt64}
	case "deep":
		return []int64{1, 0, -1}
	}
	return []int64{1}
}

// customValue builds a value of one of the custom leaf types for a value class.
func customValue(t reflect.Type, class string) (reflect.Value, bool) {
	is := customInts(class)
	var x int64
	if len(is) > 0 {
		x = is[0]
	}
	switch t {
	case reflect.TypeOf(CBoth{}):
		return reflect.ValueOf(CBoth{values: is}), true
	case reflect.TypeOf(CMOnly{}):
		return reflect.ValueOf(CMOnly{values: is}), true
	case reflect.TypeOf(CUOnly{}):
		return reflect.ValueOf(CUOnly{X: x}), true
	case reflect.TypeOf(CPtr{}):
		return reflect.ValueOf(CPtr{values: is}), true
	case reflect.TypeOf(CPtrMix{}):
		return reflect.ValueOf(CPtrMix{X: x, y: x / 2}), true
	}
	return reflect.Value{}, false
}

// ---- registries filled by generated packages --------------------------------

// GenType is one generated type: P is a nil pointer to it.
type GenType struct {
	ID string
	P  any
}

// Probe runs a generated type through the real builder and component checkpoint.
type Probe struct {
	ID string
	// Build constructs a component with the type as State (and, separately, as Spec)
	// through modeling.NewBuilder(...).Build; it reports the recovered panic text.
	BuildAsState func() string
	BuildAsSpec  func() string
	// RoundTrip saves a component holding v and loads it into a rebuilt one.
	RoundTrip func(v reflect.Value) (reflect.Value, error)
}

var (
	genTypes []GenType
	probes   []Probe
)

// RegisterTypes is called from the init function of a generated package.
func RegisterTypes(ts []GenType) { genTypes = append(genTypes, ts...) }
