package jsonmodel

import (
	"bytes"
	"encoding/json"
	"fmt"
	"hash/fnv"
	"io"
	"reflect"
	"sort"
	"strings"
	"unicode/utf8"

	"github.com/sarchlab/akita/v5/hooking"
	"github.com/sarchlab/akita/v5/mem/acceptancetests/memaccessagent"
	"github.com/sarchlab/akita/v5/mem/cache/writeback"
	"github.com/sarchlab/akita/v5/mem/cache/writethroughcache"
	"github.com/sarchlab/akita/v5/mem/datamover"
	"github.com/sarchlab/akita/v5/mem/datamoverprotocol"
	"github.com/sarchlab/akita/v5/mem/dram"
	"github.com/sarchlab/akita/v5/mem/idealmemcontroller"
	"github.com/sarchlab/akita/v5/mem/memcontrolprotocol"
	"github.com/sarchlab/akita/v5/mem/memprotocol"
	"github.com/sarchlab/akita/v5/mem/rob"
	"github.com/sarchlab/akita/v5/mem/simplebankedmemory"
	"github.com/sarchlab/akita/v5/mem/vm/addresstranslator"
	"github.com/sarchlab/akita/v5/mem/vm/gmmu"
	"github.com/sarchlab/akita/v5/mem/vm/lruset"
	"github.com/sarchlab/akita/v5/mem/vm/mmu"
	"github.com/sarchlab/akita/v5/mem/vm/mmuCache"
	"github.com/sarchlab/akita/v5/mem/vm/tlb"
	"github.com/sarchlab/akita/v5/mem/vm/vmprotocol"
	"github.com/sarchlab/akita/v5/messaging"
	"github.com/sarchlab/akita/v5/modeling"
	"github.com/sarchlab/akita/v5/noc/acceptance"
	"github.com/sarchlab/akita/v5/noc/directconnection"
	"github.com/sarchlab/akita/v5/noc/networking/switching/endpoint"
	"github.com/sarchlab/akita/v5/noc/networking/switching/switches"
	"github.com/sarchlab/akita/v5/noc/packetization"
	"github.com/sarchlab/akita/v5/queueing"
	"github.com/sarchlab/akita/v5/timing"

	"verif/harness/internal/reg"
)

// ---- C08: the library's message, event and State types ----------------------

// pair is one value before and after a checkpoint round trip; variant names how the
// restore was done: "fresh" (into a rebuilt object), "dirty_target" (into another
// object of the same type that already holds a different value W — nothing of W may
// survive), "same_live" (saved, the same live object then changed to W, loaded back).
type pair struct {
	variant   string
	want, got reflect.Value
}

type libType struct {
	Name  string // e.g. "msg mem memprotocol.ReadReq"
	Kind  string // msg | event | state
	Path  string // port | engine | component
	Where string // defining call site (file), for the stale-list scan
	T     reflect.Type
	// RT round-trips v; mkW builds a fresh copy of a different value W of the same type.
	RT func(v reflect.Value, mkW func() reflect.Value) ([]pair, error)
}

// protocols lists every DefineProtocol call site of the repository; the message
// types themselves are read from Protocol.Messages() at run time.
var protocols = []struct {
	P     *messaging.Protocol
	Where string
}{
	{packetization.Protocol, "noc/packetization/flit.go"},
	{acceptance.Protocol, "noc/acceptance/test.go"},
	{datamoverprotocol.Protocol, "mem/datamoverprotocol/protocol.go"},
	{memprotocol.Protocol, "mem/memprotocol/protocol.go"},
	{vmprotocol.Protocol, "mem/vm/vmprotocol/protocol.go"},
	{memcontrolprotocol.Protocol, "mem/memcontrolprotocol/protocol.go"},
}

// events lists every timing.RegisterEvent call site (one entry per registered type).
var events = []struct {
	E     timing.Event
	Where string
}{
	{timing.EventBase{}, "timing/eventcodec.go"},
	{modeling.TickEvent{}, "modeling/eventcodec.go"},
	{modeling.TimerFiredEvent{}, "modeling/eventcodec.go"},
}

// notCheckpointed lists the fields documented as not saved (`json:"-"`): they are
// left zero in the generated values. Any other `json:"-"` field is filled.
var notCheckpointed = map[string]bool{
	"memprotocol.ReadReq.Info":  true,
	"memprotocol.WriteReq.Info": true,
}

type stubConn struct{ hooking.HookableBase }

func (c *stubConn) Name() string                     { return "Conn" }
func (c *stubConn) PlugIn(p messaging.Port)          { p.SetConnection(c) }
func (c *stubConn) Unplug(messaging.Port)            {}
func (c *stubConn) NotifySend()                      {}
func (c *stubConn) NotifyAvailable(p messaging.Port) {}

type checkpointable interface {
	SaveCheckpoint(w io.Writer) error
	LoadCheckpoint(r io.Reader) error
}

// withMeta returns a copy of message value w whose Src/Dst are those of v, so that w
// can be sent from the port v is sent from.
func withMeta(w, v reflect.Value) reflect.Value {
	c := reflect.New(w.Type()).Elem()
	c.Set(w)
	mw, mv := c.FieldByName("MsgMeta"), v.FieldByName("MsgMeta")
	if mw.IsValid() && mv.IsValid() {
		mw.FieldByName("Src").Set(mv.FieldByName("Src"))
		mw.FieldByName("Dst").Set(mv.FieldByName("Dst"))
	}
	return c
}

// portRT puts the message into both buffers of a real port (incoming through
// Deliver together with a zero message of the same type; outgoing through Send when
// the message's Src/Dst allow it), saves the port and loads it (a) into a rebuilt
// port, (b) into a port of the same shape whose buffers already hold other messages,
// (c) back into the saved port after its buffers were changed.
func portRT(v reflect.Value, mkW func() reflect.Value) ([]pair, error) {
	m, ok := v.Interface().(messaging.Msg)
	if !ok {
		return nil, fmt.Errorf("harness: %s is not a messaging.Msg", v.Type())
	}
	zero := reflect.Zero(v.Type()).Interface().(messaging.Msg)
	meta := m.Meta()
	name := "PortUnderTest"
	sendable := meta.Src != "" && meta.Dst != "" && meta.Src != meta.Dst
	if sendable {
		name = string(meta.Src)
	}
	mk := func() messaging.Port {
		p := messaging.NewPort(nil, 4, 4, name)
		p.SetConnection(&stubConn{})
		return p
	}
	other := func() messaging.Msg { return withMeta(mkW(), v).Interface().(messaging.Msg) }
	p1 := mk()
	p1.Deliver(m)
	p1.Deliver(zero)
	if sendable {
		p1.Send(m)
	}
	cp1, ok := p1.(checkpointable)
	if !ok {
		return nil, fmt.Errorf("harness: port is not checkpointable")
	}
	var buf bytes.Buffer
	if err := cp1.SaveCheckpoint(&buf); err != nil {
		return nil, fmt.Errorf("save: %w", err)
	}
	data := buf.Bytes()
	var ps []pair
	read := func(variant string, p2 messaging.Port) error {
		if err := p2.(checkpointable).LoadCheckpoint(bytes.NewReader(data)); err != nil {
			return fmt.Errorf("%s: load: %w", variant, err)
		}
		if p2.NumIncoming() != 2 {
			return fmt.Errorf("%s: changed: incoming buffer holds %d messages, want 2", variant, p2.NumIncoming())
		}
		for _, w := range []messaging.Msg{m, zero} {
			ps = append(ps, pair{variant, reflect.ValueOf(w), reflect.ValueOf(p2.RetrieveIncoming())})
		}
		wantOut := 0
		if sendable {
			wantOut = 1
		}
		if p2.NumOutgoing() != wantOut {
			return fmt.Errorf("%s: changed: outgoing buffer holds %d messages, want %d", variant, p2.NumOutgoing(), wantOut)
		}
		if sendable {
			ps = append(ps, pair{variant, reflect.ValueOf(m), reflect.ValueOf(p2.RetrieveOutgoing())})
		}
		return nil
	}
	if err := read("fresh", mk()); err != nil {
		return nil, err
	}
	p3 := mk()
	p3.Deliver(other())
	p3.Deliver(other())
	p3.Deliver(zero)
	if sendable {
		p3.Send(other())
		p3.Send(other())
	}
	if err := read("dirty_target", p3); err != nil {
		return ps, err
	}
	p1.RetrieveIncoming()
	p1.Deliver(other())
	if sendable {
		p1.Send(other())
	}
	if err := read("same_live", p1); err != nil {
		return ps, err
	}
	return ps, nil
}

type captureHandler struct{ got []timing.Event }

func (h *captureHandler) Handle(e timing.Event) error { h.got = append(h.got, e); return nil }

// engineRT schedules the event on a real SerialEngine, saves it, loads it (a) into a
// rebuilt engine, (b) into a rebuilt engine whose clock already stands elsewhere (its
// queue must be empty: LoadCheckpoint refuses otherwise), (c) back into the saved
// engine after it ran; each time the engine is run and what the handler receives is
// collected; the restored clock is compared too.
func engineRT(v reflect.Value, _ func() reflect.Value) ([]pair, error) {
	e, ok := v.Interface().(timing.Event)
	if !ok {
		return nil, fmt.Errorf("harness: %s is not a timing.Event", v.Type())
	}
	e1 := timing.NewSerialEngine()
	h1 := &captureHandler{}
	e1.RegisterHandler(e.HandlerID(), h1)
	e1.Schedule(e)
	var buf bytes.Buffer
	if err := e1.SaveCheckpoint(&buf); err != nil {
		return nil, fmt.Errorf("save: %w", err)
	}
	data := buf.Bytes()
	savedTime := e1.CurrentTime()
	var ps []pair
	read := func(variant string, e2 *timing.SerialEngine, h *captureHandler) error {
		h.got = nil
		if err := e2.LoadCheckpoint(bytes.NewReader(data)); err != nil {
			return fmt.Errorf("%s: load: %w", variant, err)
		}
		ps = append(ps, pair{variant, reflect.ValueOf(savedTime), reflect.ValueOf(e2.CurrentTime())})
		if err := e2.Run(); err != nil {
			return fmt.Errorf("%s: run: %w", variant, err)
		}
		if len(h.got) != 1 {
			return fmt.Errorf("%s: changed: the handler received %d events, want 1", variant, len(h.got))
		}
		ps = append(ps, pair{variant, reflect.ValueOf(e), reflect.ValueOf(h.got[0])})
		return nil
	}
	mk := func() (*timing.SerialEngine, *captureHandler) {
		e2 := timing.NewSerialEngine()
		h := &captureHandler{}
		e2.RegisterHandler(e.HandlerID(), h)
		return e2, h
	}
	e2, h2 := mk()
	if err := read("fresh", e2, h2); err != nil {
		return nil, err
	}
	e3, h3 := mk()
	e3.SetCurrentTime(e.Time()/2 + 3)
	if err := read("dirty_target", e3, h3); err != nil {
		return ps, err
	}
	if err := e1.Run(); err != nil {
		return ps, fmt.Errorf("same_live: run: %w", err)
	}
	if err := read("same_live", e1, h1); err != nil {
		return ps, err
	}
	return ps, nil
}

// stateHolder is what the two component flavours offer to the State round trip.
type stateHolder[T any] struct {
	state *T
	cp    checkpointable
}

// holderRT saves a component holding v and loads the checkpoint (a) into a rebuilt
// component, (b) into a rebuilt component whose State was first set to W, (c) back
// into the saved component after its State was replaced by W.
func holderRT[T any](mk func() (stateHolder[T], string), prefix string) func(v reflect.Value, mkW func() reflect.Value) ([]pair, error) {
	return func(v reflect.Value, mkW func() reflect.Value) ([]pair, error) {
		c1, msg := mk()
		if msg != "" {
			return nil, fmt.Errorf("harness: the builder refuses the library's own types: %s", msg)
		}
		*c1.state = v.Interface().(T)
		var buf bytes.Buffer
		if err := c1.cp.SaveCheckpoint(&buf); err != nil {
			return nil, fmt.Errorf("save: %w", err)
		}
		data := buf.Bytes()
		var ps []pair
		read := func(variant string, c stateHolder[T]) error {
			if err := c.cp.LoadCheckpoint(bytes.NewReader(data)); err != nil {
				return fmt.Errorf("%s: load: %w", variant, err)
			}
			ps = append(ps, pair{variant, v, reflect.ValueOf(*c.state)})
			return nil
		}
		c2, _ := mk()
		if err := read(prefix+"fresh", c2); err != nil {
			return nil, err
		}
		c3, _ := mk()
		*c3.state = mkW().Interface().(T)
		if err := read(prefix+"dirty_target", c3); err != nil {
			return ps, err
		}
		*c1.state = mkW().Interface().(T)
		if err := read(prefix+"same_live", c1); err != nil {
			return ps, err
		}
		return ps, nil
	}
}

// stateRT puts the State into a real modeling.Component built by the real builder
// with the package's own Spec/State/Resources types.
func stateRT[S, T, R any](name string) func(v reflect.Value, mkW func() reflect.Value) ([]pair, error) {
	return holderRT(func() (h stateHolder[T], msg string) {
		msg = recovered(func() {
			var spec S
			c := modeling.NewBuilder[S, T, R]().WithEngine(timing.NewSerialEngine()).WithFreq(1 * timing.GHz).
				WithSpec(spec).Build(strings.ToUpper(name[:1]) + name[1:])
			h = stateHolder[T]{&c.State, c}
		})
		return h, msg
	}, "")
}

// eventDrivenRT does the same with a real modeling.EventDrivenComponent (the library
// builds none; a few library State types are taken through it as well).
func eventDrivenRT[S, T, R any](name string) func(v reflect.Value, mkW func() reflect.Value) ([]pair, error) {
	return holderRT(func() (h stateHolder[T], msg string) {
		msg = recovered(func() {
			var spec S
			c := modeling.NewEventDrivenBuilder[S, T, R]().WithEngine(timing.NewSerialEngine()).
				WithSpec(spec).Build(strings.ToUpper(name[:1]) + name[1:])
			h = stateHolder[T]{&c.State, c}
		})
		return h, msg
	}, "eventdriven_")
}

func regEventDriven[S, T, R any](list *[]libType, name, where string) {
	var z T
	*list = append(*list, libType{Name: "state " + name + " (event-driven component)", Kind: "state", Path: "component", Where: where,
		T: reflect.TypeOf(z), RT: eventDrivenRT[S, T, R](name)})
}

func regState[S, T, R any](list *[]libType, name, where string) {
	var z T
	*list = append(*list, libType{Name: "state " + name, Kind: "state", Path: "component", Where: where,
		T: reflect.TypeOf(z), RT: stateRT[S, T, R](name)})
}

// ---- encapsulated containers embedded in State ---------------------------------

var containers = map[reflect.Type]ContainerMaker{}

func count(class string, full int) int {
	switch class {
	case "empty":
		return 0
	case "full":
		return full
	}
	return (full + 1) / 2
}

// Container classes: zero (zero value), empty, part, full (built by filling only), and
// two "interrupted" ones whose internal cursors are not in their freshly filled
// position: "interrupted" (Buffer after pops and UpdateFront; Pipeline with items in
// flight at several stages with dwell counts left; Set after Evict handed out ways
// that were not visited again, one of them re-bound to a new key) and "drained"
// (Buffer popped empty; Pipeline run empty; Set with every way evicted).

// probes run the same operations on (deep copies of) an original container and its
// restored counterpart and describe the first behavioural difference.
var ctrProbes = map[reflect.Type]func(a, b reflect.Value) string{}

func sameItems[T any](what string, xs, ys []T) string {
	if len(xs) != len(ys) {
		return fmt.Sprintf("%s: %d items, restored %d", what, len(xs), len(ys))
	}
	for i := range xs {
		if ok, d := Same(reflect.ValueOf(xs[i]), reflect.ValueOf(ys[i]), true); !ok {
			return fmt.Sprintf("%s: item %d differs: %s", what, i, d)
		}
	}
	return ""
}

func regBuffer[T any](sample queueing.Buffer[T]) {
	t := reflect.TypeOf(sample)
	var z T
	containerElems[t] = reflect.TypeOf(&z).Elem()
	containers[t] = func(class string, item func(int) reflect.Value) reflect.Value {
		if class == "zero" {
			return reflect.Zero(t)
		}
		b := queueing.NewBuffer[T]("state.buf", 3)
		it := func(i int) T { return item(i).Interface().(T) }
		switch class {
		case "interrupted":
			b.PushTyped(it(0))
			b.PushTyped(it(1))
			b.PushTyped(it(2))
			b.Pop()
			b.UpdateFront(it(3))
			b.PushTyped(it(4))
			b.Pop()
		case "drained":
			b.PushTyped(it(0))
			b.PushTyped(it(1))
			b.Pop()
			b.PushTyped(it(2))
			b.Pop()
			b.Pop()
		default:
			for i := 0; i < count(class, 3); i++ {
				b.PushTyped(it(i))
			}
		}
		return reflect.ValueOf(b)
	}
	ctrProbes[t] = func(av, bv reflect.Value) string {
		a, b := av.Addr().Interface().(*queueing.Buffer[T]), bv.Addr().Interface().(*queueing.Buffer[T])
		if a.Name() != b.Name() || a.Capacity() != b.Capacity() || a.Size() != b.Size() || a.CanPush() != b.CanPush() {
			return fmt.Sprintf("buffer name/capacity/size/canpush %q/%d/%d/%v restored as %q/%d/%d/%v",
				a.Name(), a.Capacity(), a.Size(), a.CanPush(), b.Name(), b.Capacity(), b.Size(), b.CanPush())
		}
		if d := sameItems("buffer Elements()", a.Elements(), b.Elements()); d != "" {
			return d
		}
		var xs, ys []T
		for a.Size() > 0 {
			xs = append(xs, a.Pop())
		}
		for b.Size() > 0 {
			ys = append(ys, b.Pop())
		}
		if d := sameItems("buffer pop order", xs, ys); d != "" {
			return d
		}
		if a.CanPush() != b.CanPush() {
			return "buffer CanPush differs after draining"
		}
		if a.CanPush() && len(xs) > 0 {
			a.PushTyped(xs[0])
			b.PushTyped(xs[0])
			return sameItems("buffer after push", a.Elements(), b.Elements())
		}
		return ""
	}
}

func regPipeline[T any](sample queueing.Pipeline[T]) {
	t := reflect.TypeOf(sample)
	var z T
	containerElems[t] = reflect.TypeOf(&z).Elem()
	containers[t] = func(class string, item func(int) reflect.Value) reflect.Value {
		if class == "zero" {
			return reflect.Zero(t)
		}
		p := queueing.NewPipeline[T](2, 3)
		it := func(i int) T { return item(i).Interface().(T) }
		blocked := queueing.NewBuffer[T]("sink", 0) // nothing leaves the pipeline
		switch class {
		case "interrupted":
			// items at stages 2, 1 and 0, one of them with dwell cycles left, one lane pair occupied
			p.Accept(it(0))
			p.Tick(&blocked)
			p.AcceptWithDelay(it(1), 2)
			p.Accept(it(2))
			p.Tick(&blocked)
			p.Accept(it(3))
			p.Tick(&blocked)
			p.AcceptWithDelay(it(4), 1)
			return reflect.ValueOf(p)
		case "drained":
			open := queueing.NewBuffer[T]("sink", 64)
			p.Accept(it(0))
			p.AcceptWithDelay(it(1), 1)
			for i := 0; i < 16 && len(p.Stages()) > 0; i++ {
				p.Tick(&open)
			}
			return reflect.ValueOf(p)
		}
		n := count(class, 6)
		for i := 0; i < n; i++ {
			for !p.CanAccept() {
				if !p.Tick(&blocked) {
					break
				}
			}
			if !p.CanAccept() {
				break
			}
			if i%2 == 0 {
				p.Accept(it(i))
			} else {
				p.AcceptWithDelay(it(i), 2)
			}
		}
		return reflect.ValueOf(p)
	}
	ctrProbes[t] = func(av, bv reflect.Value) string {
		a, b := av.Addr().Interface().(*queueing.Pipeline[T]), bv.Addr().Interface().(*queueing.Pipeline[T])
		if a.CanAccept() != b.CanAccept() {
			return fmt.Sprintf("pipeline CanAccept %v restored as %v", a.CanAccept(), b.CanAccept())
		}
		sa, sb := queueing.NewBuffer[T]("sink", 1024), queueing.NewBuffer[T]("sink", 1024)
		for tick := 0; tick < 32 && (len(a.Stages()) > 0 || len(b.Stages()) > 0); tick++ {
			ma, mb := a.Tick(&sa), b.Tick(&sb)
			if ma != mb {
				return fmt.Sprintf("pipeline tick %d: moved %v, restored %v", tick, ma, mb)
			}
			if d := sameItems(fmt.Sprintf("pipeline output up to tick %d", tick), sa.Elements(), sb.Elements()); d != "" {
				return d
			}
		}
		return ""
	}
}

func regLRUSet() {
	t := reflect.TypeOf(lruset.Set{})
	key := func(i int) string { return lruset.KeyString(uint64(i), ^uint64(0)-uint64(i)) }
	containers[t] = func(class string, _ func(int) reflect.Value) reflect.Value {
		if class == "zero" {
			return reflect.Zero(t)
		}
		s := lruset.NewSet(4)
		bind := func(i int, visit bool) {
			way, _ := s.Evict()
			s.UpdateKey(way, "", key(i))
			if visit {
				s.Visit(way)
			}
		}
		switch class {
		case "interrupted":
			bind(0, true)
			bind(1, true)
			s.Visit(0)
			s.Evict()      // handed out, not visited again, not re-bound
			bind(2, false) // handed out and re-bound to a new key, not visited
			return reflect.ValueOf(s)
		case "drained":
			bind(0, true)
			bind(1, true)
			for i := 0; i < 4; i++ {
				s.Evict()
			}
			return reflect.ValueOf(s)
		}
		n := count(class, 4)
		for i := 0; i < n; i++ {
			bind(i, true)
		}
		if n > 1 {
			s.Visit(0)
			s.Remove(key(1))
		}
		return reflect.ValueOf(s)
	}
	ctrProbes[t] = func(av, bv reflect.Value) string {
		a, b := av.Addr().Interface().(*lruset.Set), bv.Addr().Interface().(*lruset.Set)
		if reflect.DeepEqual(*a, lruset.Set{}) {
			return "" // the zero Set has no ways to operate on
		}
		for i := 0; i < 6; i++ {
			wa, fa := a.Lookup(key(i))
			wb, fb := b.Lookup(key(i))
			if wa != wb || fa != fb {
				return fmt.Sprintf("lruset Lookup(key %d) = %d,%v restored %d,%v", i, wa, fa, wb, fb)
			}
		}
		drain := func(s *lruset.Set) (out []int) {
			for i := 0; i < 64; i++ {
				w, ok := s.Evict()
				if !ok {
					break
				}
				out = append(out, w)
			}
			return out
		}
		xa, xb := drain(a), drain(b)
		if !reflect.DeepEqual(xa, xb) {
			return fmt.Sprintf("lruset eviction order %v restored as %v", xa, xb)
		}
		// use it again: visits re-enter ways, then the order must still agree
		for _, w := range []int{2, 0, 3} {
			a.Visit(w)
			b.Visit(w)
		}
		if xa, xb = drain(a), drain(b); !reflect.DeepEqual(xa, xb) {
			return fmt.Sprintf("lruset eviction order after re-visits %v restored as %v", xa, xb)
		}
		return ""
	}
}

// deepCopy returns an addressable deep copy of v (unexported fields included), so a
// probe can operate on it without touching the value under comparison.
func deepCopy(v reflect.Value) reflect.Value {
	x := reflect.New(v.Type()).Elem()
	x.Set(v)
	deepCopyInPlace(x)
	return x
}

func deepCopyInPlace(x reflect.Value) {
	x = settable(x)
	switch x.Kind() {
	case reflect.Struct:
		for i := 0; i < x.NumField(); i++ {
			deepCopyInPlace(x.Field(i))
		}
	case reflect.Array:
		for i := 0; i < x.Len(); i++ {
			deepCopyInPlace(x.Index(i))
		}
	case reflect.Slice:
		if x.IsNil() {
			return
		}
		n := reflect.MakeSlice(x.Type(), x.Len(), x.Len())
		reflect.Copy(n, x)
		x.Set(n)
		for i := 0; i < n.Len(); i++ {
			deepCopyInPlace(n.Index(i))
		}
	case reflect.Map:
		if x.IsNil() {
			return
		}
		n := reflect.MakeMapWithSize(x.Type(), x.Len())
		it := x.MapRange()
		for it.Next() {
			e := reflect.New(x.Type().Elem()).Elem()
			e.Set(it.Value())
			deepCopyInPlace(e)
			n.SetMapIndex(it.Key(), e)
		}
		x.Set(n)
	case reflect.Ptr:
		if x.IsNil() {
			return
		}
		n := reflect.New(x.Type().Elem())
		n.Elem().Set(x.Elem())
		deepCopyInPlace(n.Elem())
		x.Set(n)
	case reflect.Interface:
		if x.IsNil() {
			return
		}
		e := reflect.New(x.Elem().Type()).Elem()
		e.Set(x.Elem())
		deepCopyInPlace(e)
		x.Set(e)
	}
}

// probeContainers walks an original value and its (equal) restored counterpart and
// runs the behavioural probe of every encapsulated container found in them.
var probesRun int

func probeContainers(a, b reflect.Value, path string) string {
	if !a.IsValid() || !b.IsValid() || a.Type() != b.Type() {
		return ""
	}
	if pr, ok := ctrProbes[a.Type()]; ok {
		probesRun++
		if d := pr(deepCopy(a), deepCopy(b)); d != "" {
			return path + ": " + d
		}
		return ""
	}
	switch a.Kind() {
	case reflect.Struct:
		for i := 0; i < a.NumField(); i++ {
			if d := probeContainers(a.Field(i), b.Field(i), path+"."+a.Type().Field(i).Name); d != "" {
				return d
			}
		}
	case reflect.Slice, reflect.Array:
		for i := 0; i < a.Len() && i < b.Len(); i++ {
			if d := probeContainers(a.Index(i), b.Index(i), fmt.Sprintf("%s[%d]", path, i)); d != "" {
				return d
			}
		}
	case reflect.Map:
		it := a.MapRange()
		for it.Next() {
			if bv := b.MapIndex(it.Key()); bv.IsValid() {
				if d := probeContainers(it.Value(), bv, fmt.Sprintf("%s{%v}", path, it.Key())); d != "" {
					return d
				}
			}
		}
	case reflect.Ptr, reflect.Interface:
		if !a.IsNil() && !b.IsNil() {
			return probeContainers(a.Elem(), b.Elem(), path)
		}
	}
	return ""
}

func elemOf[T any](s []T) (z T) { return z }

var libTypes []libType

func init() {
	// container instantiations that occur in library State types (type parameters of
	// unexported element types are inferred from zero State values)
	regBuffer(queueing.Buffer[int]{})
	regPipeline(queueing.Pipeline[int]{})
	sw := elemOf(switches.State{}.PortComplexes)
	regBuffer(sw.RouteBuffer)
	regPipeline(sw.Pipeline)
	regBuffer(tlb.State{}.BufferItems)
	regPipeline(tlb.State{}.Pipeline)
	bank := elemOf(simplebankedmemory.State{}.Banks)
	regBuffer(bank.PostPipelineBuf)
	regPipeline(bank.Pipeline)
	regLRUSet()

	for _, p := range protocols {
		for _, m := range p.P.Messages() {
			t := reflect.TypeOf(m)
			libTypes = append(libTypes, libType{Name: "msg " + p.P.Name() + " " + t.String(), Kind: "msg", Path: "port",
				Where: p.Where, T: t, RT: portRT})
		}
	}
	for _, e := range events {
		t := reflect.TypeOf(e.E)
		libTypes = append(libTypes, libType{Name: "event " + t.String(), Kind: "event", Path: "engine", Where: e.Where, T: t, RT: engineRT})
	}
	l := &libTypes
	regState[endpoint.Spec, endpoint.State, modeling.None](l, "endpoint", "noc/networking/switching/endpoint/builder.go")
	regState[switches.Spec, switches.State, modeling.None](l, "switches", "noc/networking/switching/switches/builder.go")
	regState[directconnection.Spec, directconnection.State, modeling.None](l, "directconnection", "noc/directconnection/builder.go")
	regState[memaccessagent.Spec, memaccessagent.State, modeling.None](l, "memaccessagent", "mem/acceptancetests/memaccessagent/builder.go")
	regState[writeback.Spec, writeback.State, writeback.Resources](l, "writeback", "mem/cache/writeback/builder.go")
	regState[writethroughcache.Spec, writethroughcache.State, writethroughcache.Resources](l, "writethroughcache", "mem/cache/writethroughcache/builder.go")
	regState[rob.Spec, rob.State, modeling.None](l, "rob", "mem/rob/builder.go")
	regState[idealmemcontroller.Spec, idealmemcontroller.State, idealmemcontroller.Resources](l, "idealmemcontroller", "mem/idealmemcontroller/builder.go")
	regState[tlb.Spec, tlb.State, tlb.Resources](l, "tlb", "mem/vm/tlb/builder.go")
	regState[gmmu.Spec, gmmu.State, gmmu.Resources](l, "gmmu", "mem/vm/gmmu/builder.go")
	regState[addresstranslator.Spec, addresstranslator.State, addresstranslator.Resources](l, "addresstranslator", "mem/vm/addresstranslator/builder.go")
	regState[mmu.Spec, mmu.State, mmu.Resources](l, "mmu", "mem/vm/mmu/builder.go")
	regState[mmuCache.Spec, mmuCache.State, mmuCache.Resources](l, "mmuCache", "mem/vm/mmuCache/builder.go")
	regState[simplebankedmemory.Spec, simplebankedmemory.State, simplebankedmemory.Resources](l, "simplebankedmemory", "mem/simplebankedmemory/builder.go")
	regState[dram.Spec, dram.State, dram.Resources](l, "dram", "mem/dram/builder.go")
	regState[datamover.Spec, datamover.State, modeling.None](l, "datamover", "mem/datamover/builder.go")
	// the event-driven component has its own SaveCheckpoint/LoadCheckpoint: State types with maps, omitempty
	// fields and embedded containers go through it too
	regEventDriven[memaccessagent.Spec, memaccessagent.State, modeling.None](l, "memaccessagent", "mem/acceptancetests/memaccessagent/builder.go")
	regEventDriven[rob.Spec, rob.State, modeling.None](l, "rob", "mem/rob/builder.go")
	regEventDriven[tlb.Spec, tlb.State, tlb.Resources](l, "tlb", "mem/vm/tlb/builder.go")
	regEventDriven[datamover.Spec, datamover.State, modeling.None](l, "datamover", "mem/datamover/builder.go")
}

// ---- the driver ------------------------------------------------------------------

type libFailure struct {
	Type    string `json:"type"`
	Kind    string `json:"kind"`
	Path    string `json:"path"`
	Variant string `json:"variant"`
	Vector  Vector `json:"vector,omitempty"`
	Seeded  string `json:"seeded,omitempty"`
	Feature string `json:"feature"`
	Detail  string `json:"detail"`
}

func (f *Filler) lib() *Filler {
	f.Skip = notCheckpointed
	f.Containers = containers
	return f
}

// otherClass gives, for the class a position has in V, a different class for W: other
// map keys (ints/strings differ), longer or shorter slices, non-empty omitempty
// collections, other container content.
func otherClass(kind, c string) string {
	switch kind {
	case "int", "uint":
		if c == "max" {
			return "one"
		}
		return "max"
	case "float":
		if c == "fin" || c == "" {
			return "max"
		}
		return "fin"
	case "string":
		if c == "unicode" {
			return "ascii"
		}
		return "unicode"
	case "bytes":
		if c == "many" {
			return "one"
		}
		return "many"
	case "slice", "map":
		if c == "two" {
			return "one"
		}
		return "two"
	case "bool":
		if c == "false" {
			return "true"
		}
		return "false"
	case "container":
		if c == "full" {
			return "part"
		}
		return "full"
	}
	return c
}

// firstFailures returns, per restore variant, the first pair that differs.
func firstFailures(ps []pair) (order []string, kind, detail map[string]string) {
	kind, detail = map[string]string{}, map[string]string{}
	for _, p := range ps {
		if _, done := kind[p.variant]; done {
			continue
		}
		if ok, k, d := SameKind(p.want, p.got); !ok {
			order = append(order, p.variant)
			kind[p.variant], detail[p.variant] = k, d
		} else if d := probeContainers(p.want, p.got, ""); d != "" {
			order = append(order, p.variant)
			kind[p.variant], detail[p.variant] = "container_behaviour", "equal by value, but "+d
		}
	}
	return order, kind, detail
}

// errVariant splits "variant: message" as produced by the round-trip functions.
func errVariant(err error) (string, string) {
	msg := err.Error()
	for _, v := range []string{"eventdriven_fresh", "eventdriven_dirty_target", "eventdriven_same_live", "fresh", "dirty_target", "same_live"} {
		if strings.HasPrefix(msg, v+": ") {
			return v, msg[len(v)+2:]
		}
	}
	return "fresh", msg
}

// SameKind is Same (tolerant inside encapsulated containers) plus the kind of the
// first difference: nonutf8_string, omitempty_collection, nil_vs_empty, type, value.
func SameKind(a, b reflect.Value) (bool, string, string) {
	ok, d := Same(a, b, true)
	if ok {
		return true, "", ""
	}
	return false, diffKind(a, b, false), d
}

func diffKind(a, b reflect.Value, omit bool) string {
	if !a.IsValid() || !b.IsValid() || a.Type() != b.Type() {
		return "type"
	}
	switch a.Kind() {
	case reflect.String:
		if a.String() != b.String() && !utf8.ValidString(a.String()) {
			return "nonutf8_string"
		}
	case reflect.Slice, reflect.Map:
		if a.Len() == 0 && b.Len() == 0 && a.IsNil() != b.IsNil() {
			if omit {
				return "omitempty_collection"
			}
			return "nil_vs_empty"
		}
		if a.Kind() == reflect.Slice && a.Len() == b.Len() {
			for i := 0; i < a.Len(); i++ {
				if ok, _ := Same(a.Index(i), b.Index(i), true); !ok {
					return diffKind(a.Index(i), b.Index(i), false)
				}
			}
		}
		if a.Kind() == reflect.Map {
			it := a.MapRange()
			for it.Next() {
				bv := b.MapIndex(it.Key())
				if !bv.IsValid() {
					if it.Key().Kind() == reflect.String && !utf8.ValidString(it.Key().String()) {
						return "nonutf8_string"
					}
					return "value"
				}
				if ok, _ := Same(it.Value(), bv, true); !ok {
					return diffKind(it.Value(), bv, false)
				}
			}
		}
	case reflect.Array:
		for i := 0; i < a.Len(); i++ {
			if ok, _ := Same(a.Index(i), b.Index(i), true); !ok {
				return diffKind(a.Index(i), b.Index(i), false)
			}
		}
	case reflect.Ptr, reflect.Interface:
		if !a.IsNil() && !b.IsNil() {
			return diffKind(a.Elem(), b.Elem(), false)
		}
	case reflect.Struct:
		for i := 0; i < a.NumField(); i++ {
			if ok, _ := Same(a.Field(i), b.Field(i), true); !ok {
				tag := a.Type().Field(i).Tag.Get("json")
				return diffKind(a.Field(i), b.Field(i), strings.Contains(tag, ",omitempty"))
			}
		}
	}
	return "value"
}

// typeFeatures lists which loss-relevant field kinds a library type contains
// (outside fields documented as not checkpointed and outside containers' internals).
func typeFeatures(t reflect.Type, omit bool, out map[string]bool, seen map[reflect.Type]bool) {
	if _, ok := containers[t]; ok {
		if et := containerElems[t]; et != nil {
			typeFeatures(et, false, out, seen)
		}
		return
	}
	switch t.Kind() {
	case reflect.String:
		out["string"] = true
	case reflect.Slice:
		if omit {
			if t.Elem().Kind() == reflect.Uint8 {
				out["omitempty_bytes"] = true
			} else {
				out["omitempty_slice"] = true
			}
		}
		typeFeatures(t.Elem(), false, out, seen)
	case reflect.Map:
		if omit {
			out["omitempty_map"] = true
		}
		typeFeatures(t.Key(), false, out, seen)
		typeFeatures(t.Elem(), false, out, seen)
	case reflect.Array, reflect.Ptr:
		typeFeatures(t.Elem(), false, out, seen)
	case reflect.Struct:
		if seen[t] {
			return
		}
		seen[t] = true
		for i := 0; i < t.NumField(); i++ {
			sf := t.Field(i)
			tag := sf.Tag.Get("json")
			if tag == "-" && notCheckpointed[t.String()+"."+sf.Name] {
				continue
			}
			typeFeatures(sf.Type, strings.Contains(tag, ",omitempty"), out, seen)
		}
	}
}

func hashPick(seed uint64, path, kind string, n int) int {
	h := fnv.New64a()
	fmt.Fprintf(h, "%d|%s|%s", seed, path, kind)
	return int(h.Sum64() % uint64(n))
}

var seededClasses = map[string][]string{
	"int": {"zero", "one", "max", "min"}, "uint": {"zero", "one", "max"}, "float": {"zero", "fin", "max", "min"},
	"string": {"empty", "ascii", "unicode", "nonutf8", "long"}, "bytes": {"nil", "empty", "one", "many"},
	"slice": {"nil", "empty", "one", "two"}, "map": {"nil", "empty", "one", "two"}, "bool": {"false", "true"},
	"container": {"zero", "empty", "part", "full", "interrupted", "drained"}, "custom": {"base"}, "iface": {"nil"},
}

func init() {
	reg.Register("library", func(raw json.RawMessage) (any, error) {
		var in struct {
			Vectors []Vector `json:"vectors"`
			Seeded  int      `json:"seeded"` // number of per-position random values per type
			Seed    uint64   `json:"seed"`
		}
		if err := json.Unmarshal(raw, &in); err != nil {
			return nil, err
		}
		skipped := map[string]bool{}
		missing := map[string]bool{}
		var fails []libFailure
		evals, failCount, tolerated := 0, 0, 0
		toleratedExample := ""
		perType := map[string]int{}
		run := func(lt libType, choose func(kind, path string) string, vec Vector, seeded string) {
			mk := func(sanitize bool) reflect.Value {
				f := (&Filler{Choose: func(kind, path string) string {
					c := choose(kind, path)
					if sanitize && kind == "string" && c == "nonutf8" {
						return "ascii"
					}
					return c
				}, Skipped: skipped, MissingCtr: missing}).lib()
				return f.Make(lt.T)
			}
			evals++
			perType[lt.Name]++
			mkW := func() reflect.Value {
				f := (&Filler{Choose: func(kind, path string) string { return otherClass(kind, choose(kind, path)) },
					Skipped: skipped, MissingCtr: missing}).lib()
				return f.Make(lt.T)
			}
			var ps []pair
			var err error
			if msg := recovered(func() { ps, err = lt.RT(mk(false), mkW) }); msg != "" {
				err = fmt.Errorf("panic: %s", msg)
			}
			order, kinds, details := firstFailures(ps)
			if err == nil && len(order) == 0 {
				for _, p := range ps {
					if strict, d := Same(p.want, p.got, false); !strict {
						tolerated++
						if toleratedExample == "" {
							toleratedExample = lt.Name + " " + d
						}
						break
					}
				}
				return
			}
			add := func(variant, feature, detail string) {
				failCount++
				if len(fails) < 200000 {
					fails = append(fails, libFailure{Type: lt.Name, Kind: lt.Kind, Path: lt.Path, Variant: variant, Vector: vec,
						Seeded: seeded, Feature: feature, Detail: clipN(detail, 300)})
				}
			}
			freshFailed := false
			for _, v := range order {
				if strings.HasSuffix(v, "fresh") {
					freshFailed = true
				}
			}
			for _, v := range order {
				feature := kinds[v]
				if !strings.HasSuffix(v, "fresh") && !freshFailed && err == nil {
					// exact into a rebuilt object, not exact over a used one: something of the target survived
					feature = "restore_over_used_target_not_exact"
				}
				add(v, feature, details[v])
			}
			if err != nil {
				variant, msg := errVariant(err)
				feature := "error"
				switch {
				case strings.HasPrefix(msg, "harness:"):
					feature = "harness"
				case !strings.HasSuffix(variant, "fresh") && !freshFailed:
					feature = "restore_over_used_target_not_exact"
				default:
					// does it pass once every string is valid UTF-8?
					var ps2 []pair
					var err2 error
					if recovered(func() { ps2, err2 = lt.RT(mk(true), mkW) }) == "" && err2 == nil {
						if o2, _, _ := firstFailures(ps2); len(o2) == 0 {
							feature = "nonutf8_string"
						}
					}
				}
				add(variant, feature, msg)
			}
		}
		for _, lt := range libTypes {
			// the zero value of the type itself
			run(lt, func(kind, _ string) string {
				return map[string]string{"int": "zero", "uint": "zero", "string": "empty", "bytes": "nil", "slice": "nil", "map": "nil",
					"bool": "false", "container": "zero", "float": "zero", "iface": "nil"}[kind]
			}, Vector{"all": "zero"}, "")
			for _, vec := range in.Vectors {
				v := vec
				run(lt, func(kind, _ string) string { return v[kind] }, v, "")
			}
			for i := 0; i < in.Seeded; i++ {
				seed := in.Seed*1000003 + uint64(i)
				run(lt, func(kind, path string) string {
					cs := seededClasses[kind]
					if len(cs) == 0 {
						return ""
					}
					return cs[hashPick(seed, path, kind, len(cs))]
				}, nil, fmt.Sprintf("seed=%d", seed))
			}
		}
		var types []map[string]any
		for _, lt := range libTypes {
			feats := map[string]bool{}
			typeFeatures(lt.T, false, feats, map[reflect.Type]bool{})
			types = append(types, map[string]any{"name": lt.Name, "kind": lt.Kind, "path": lt.Path, "where": lt.Where,
				"go_type": lt.T.String(), "values": perType[lt.Name], "features": keys(feats)})
		}
		return map[string]any{"types": types, "failures": fails, "failure_count": failCount, "evaluations": evals,
			"tolerated_nil_vs_empty_inside_containers": tolerated, "tolerated_example": toleratedExample,
			"not_checkpointed_fields": keys(skipped), "containers_without_maker": keys(missing),
			"container_types": containerNames(), "container_probes": probesRun}, nil
	})
}

func keys(m map[string]bool) []string {
	out := []string{}
	for k := range m {
		out = append(out, k)
	}
	sort.Strings(out)
	return out
}

func containerNames() []string {
	out := []string{}
	for t := range containers {
		out = append(out, t.String())
	}
	sort.Strings(out)
	return out
}

func clipN(s string, n int) string {
	if len(s) > n {
		return s[:n] + "…"
	}
	return s
}
