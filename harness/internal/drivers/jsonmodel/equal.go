package jsonmodel

import (
	"encoding/json"
	"fmt"
	"reflect"
)

var (
	marshalerT   = reflect.TypeOf((*json.Marshaler)(nil)).Elem()
	unmarshalerT = reflect.TypeOf((*json.Unmarshaler)(nil)).Elem()
)

func isCustomJSON(t reflect.Type) bool {
	return t.Kind() == reflect.Struct && (t.Implements(marshalerT) || reflect.PointerTo(t).Implements(marshalerT)) &&
		reflect.PointerTo(t).Implements(unmarshalerT)
}

// Same reports whether b is "an equal value of the same concrete type" as a:
// reflect.DeepEqual semantics (nil and empty collections differ, unexported fields
// count), except that inside an encapsulated container (a struct type with its own
// MarshalJSON/UnmarshalJSON and only unexported state) a nil and an empty internal
// collection are the same value, because no operation of the type tells them apart.
// With tolerant=false it is exactly DeepEqual plus a path to the first difference.
func Same(a, b reflect.Value, tolerant bool) (bool, string) {
	return same(a, b, "", false, tolerant)
}

func same(a, b reflect.Value, path string, encap, tolerant bool) (bool, string) {
	if !a.IsValid() || !b.IsValid() {
		if a.IsValid() == b.IsValid() {
			return true, ""
		}
		return false, path + ": one side is invalid"
	}
	if a.Type() != b.Type() {
		return false, fmt.Sprintf("%s: type %s became %s", path, a.Type(), b.Type())
	}
	switch a.Kind() {
	case reflect.Bool:
		if a.Bool() != b.Bool() {
			return false, fmt.Sprintf("%s: %v became %v", path, a.Bool(), b.Bool())
		}
	case reflect.Int, reflect.Int8, reflect.Int16, reflect.Int32, reflect.Int64:
		if a.Int() != b.Int() {
			return false, fmt.Sprintf("%s: %d became %d", path, a.Int(), b.Int())
		}
	case reflect.Uint, reflect.Uint8, reflect.Uint16, reflect.Uint32, reflect.Uint64, reflect.Uintptr:
		if a.Uint() != b.Uint() {
			return false, fmt.Sprintf("%s: %d became %d", path, a.Uint(), b.Uint())
		}
	case reflect.Float32, reflect.Float64:
		if a.Float() != b.Float() {
			return false, fmt.Sprintf("%s: %v became %v", path, a.Float(), b.Float())
		}
	case reflect.Complex64, reflect.Complex128:
		if a.Complex() != b.Complex() {
			return false, path + ": complex differs"
		}
	case reflect.String:
		if a.String() != b.String() {
			return false, fmt.Sprintf("%s: %q became %q", path, clip(a.String()), clip(b.String()))
		}
	case reflect.Slice:
		if a.IsNil() != b.IsNil() && !(encap && tolerant && a.Len() == 0 && b.Len() == 0) {
			return false, fmt.Sprintf("%s: nil=%v became nil=%v (len %d)", path, a.IsNil(), b.IsNil(), b.Len())
		}
		if a.Len() != b.Len() {
			return false, fmt.Sprintf("%s: len %d became %d", path, a.Len(), b.Len())
		}
		for i := 0; i < a.Len(); i++ {
			if ok, d := same(a.Index(i), b.Index(i), fmt.Sprintf("%s[%d]", path, i), encap, tolerant); !ok {
				return false, d
			}
		}
	case reflect.Array:
		for i := 0; i < a.Len(); i++ {
			if ok, d := same(a.Index(i), b.Index(i), fmt.Sprintf("%s[%d]", path, i), encap, tolerant); !ok {
				return false, d
			}
		}
	case reflect.Map:
		if a.IsNil() != b.IsNil() && !(encap && tolerant && a.Len() == 0 && b.Len() == 0) {
			return false, fmt.Sprintf("%s: nil=%v became nil=%v (len %d)", path, a.IsNil(), b.IsNil(), b.Len())
		}
		if a.Len() != b.Len() {
			return false, fmt.Sprintf("%s: map len %d became %d", path, a.Len(), b.Len())
		}
		it := a.MapRange()
		for it.Next() {
			bv := b.MapIndex(it.Key())
			if !bv.IsValid() {
				return false, fmt.Sprintf("%s: key %v lost", path, clip(fmt.Sprint(it.Key())))
			}
			if ok, d := same(it.Value(), bv, fmt.Sprintf("%s{%v}", path, clip(fmt.Sprint(it.Key()))), encap, tolerant); !ok {
				return false, d
			}
		}
	case reflect.Ptr:
		if a.IsNil() != b.IsNil() {
			return false, path + ": nil pointer differs"
		}
		if !a.IsNil() {
			return same(a.Elem(), b.Elem(), path+"*", encap, tolerant)
		}
	case reflect.Interface:
		if a.IsNil() != b.IsNil() {
			return false, path + ": nil interface differs"
		}
		if !a.IsNil() {
			return same(a.Elem(), b.Elem(), path+"(iface)", encap, tolerant)
		}
	case reflect.Struct:
		e := encap || isCustomJSON(a.Type())
		for i := 0; i < a.NumField(); i++ {
			if ok, d := same(a.Field(i), b.Field(i), path+"."+a.Type().Field(i).Name, e, tolerant); !ok {
				return false, d
			}
		}
	case reflect.Func, reflect.Chan, reflect.UnsafePointer:
		if !(a.IsNil() && b.IsNil()) {
			return false, path + ": func/chan not nil"
		}
	}
	return true, ""
}

func clip(s string) string {
	if len(s) > 40 {
		return s[:40] + "…"
	}
	return s
}
