package jsonmodel

import (
	"bytes"
	"fmt"
	"reflect"

	"github.com/sarchlab/akita/v5/modeling"
	"github.com/sarchlab/akita/v5/timing"
)

type okSpec struct {
	N int `json:"n"`
}

type okState struct {
	N int `json:"n"`
}

func recovered(f func()) (msg string) {
	defer func() {
		if r := recover(); r != nil {
			msg = fmt.Sprint(r)
			if msg == "" {
				msg = "panic"
			}
		}
	}()
	f()
	return ""
}

// buildState constructs a component whose State type is T through the real builder;
// msg is the text of the builder's panic when it refuses the type (such a type has
// no component, so its round trip is only taken through the encoding).
func buildState[T any](name string, eng *timing.SerialEngine) (c *modeling.Component[okSpec, T, modeling.None], msg string) {
	msg = recovered(func() {
		c = modeling.NewBuilder[okSpec, T, modeling.None]().WithEngine(eng).WithFreq(1 * timing.GHz).WithSpec(okSpec{N: 1}).Build(name)
	})
	return c, msg
}

// RegisterProbe is called from generated probe packages: it instantiates the real
// generic builder/component for T (expensive to compile, so only a sample of the
// generated types gets one).
func RegisterProbe[T any](id string) {
	probes = append(probes, Probe{
		ID: id,
		BuildAsState: func() string {
			_, msg := buildState[T]("ProbeS", timing.NewSerialEngine())
			return msg
		},
		BuildAsSpec: func() string {
			return recovered(func() {
				var spec T
				modeling.NewBuilder[T, okState, modeling.None]().WithEngine(timing.NewSerialEngine()).
					WithFreq(1 * timing.GHz).WithSpec(spec).Build("ProbeC")
			})
		},
		RoundTrip: func(v reflect.Value) (reflect.Value, error) {
			eng := timing.NewSerialEngine()
			c1, msg := buildState[T]("Probe", eng)
			if msg != "" {
				return reflect.Value{}, fmt.Errorf("build refused: %s", msg)
			}
			c1.State = v.Interface().(T)
			var buf bytes.Buffer
			if err := c1.SaveCheckpoint(&buf); err != nil {
				return reflect.Value{}, fmt.Errorf("save: %w", err)
			}
			c2, _ := buildState[T]("Probe", timing.NewSerialEngine())
			if err := c2.LoadCheckpoint(&buf); err != nil {
				return reflect.Value{}, fmt.Errorf("load: %w", err)
			}
			return reflect.ValueOf(c2.State), nil
		},
	})
}
