package memhier

// Checkpoint/restore (C06, canonical half of C07) and determinism (C03) on memory-hierarchy
// stacks. Every simulation runs in its OWN OS process (os/exec of this binary, driver
// memhier_ckpt_proc): the repository keeps process-wide tracing side tables keyed by component
// name and message ID that would leak from one simulation into the next inside one process.
//
//	memhier_ckpt  reference run, then for every chosen cut time t: process A RunUntil(t)+Save,
//	              process B rebuild+Load+Run+Save, process C Load+Save (canonical bytes)
//	memhier_det   the full observation stream of seeded stacks as ndjson (compared by Det.tla)

import (
	"archive/tar"
	"bufio"
	"bytes"
	"compress/gzip"
	"crypto/sha256"
	"encoding/hex"
	"encoding/json"
	"fmt"
	"io"
	"math/rand"
	"os"
	"os/exec"
	"path/filepath"
	"regexp"
	"runtime"
	"sort"
	"strconv"
	"strings"
	"sync"

	"github.com/sarchlab/akita/v5/hooking"
	"github.com/sarchlab/akita/v5/mem/memcontrolprotocol"
	"github.com/sarchlab/akita/v5/mem/memprotocol"
	"github.com/sarchlab/akita/v5/mem/vm"
	"github.com/sarchlab/akita/v5/messaging"
	"github.com/sarchlab/akita/v5/modeling"
	"github.com/sarchlab/akita/v5/simulation"
	"github.com/sarchlab/akita/v5/timing"

	"verif/harness/internal/reg"
)

const ckBuildID = "verif-build"

// ---------------------------------------------------------------- the checkpointable requester

// ckSpec is the immutable description of the requester's work (hashed into the checkpoint).
type ckSpec struct {
	Base       uint64   `json:"base"`
	Size       int      `json:"size"`
	Conc       int      `json:"conc"`
	Script     string   `json:"script"` // the request stream as JSON (a Spec may not nest structs)
	Tops       []string `json:"tops"`   // Top ports of the stack, interleaved by address
	Interleave uint64   `json:"interleave"`
}

type ckFlight struct {
	Msg uint64 `json:"msg"` // message ID of the request
	Req int    `json:"req"` // script index + 1
	Lo  uint64 `json:"lo"`
	Hi  uint64 `json:"hi"`
}

// ckState is everything a resumed run needs to continue the same request stream.
type ckState struct {
	Next     int        `json:"next"`
	WaitLeft int        `json:"wait_left"`
	WaitFor  int        `json:"wait_for"`
	Flight   []ckFlight `json:"flight"`
	Answered int        `json:"answered"`
}

// CkAgent is a requester whose progress lives in component State (script position, countdown,
// in-flight set), so that a checkpoint taken at any time boundary resumes the same stream.
type CkAgent struct {
	*modeling.Component[ckSpec, ckState, modeling.None]
	mem    messaging.Port
	script []Req
	recs   []map[string]any
}

// NewCkAgent builds the requester on the stack's registrar and plugs it into the top connection.
func NewCkAgent(st *Stack, w WorkloadCfg) *CkAgent {
	js, _ := json.Marshal(w.Script)
	sp := ckSpec{Base: w.Base, Size: w.Size, Conc: max(w.Concurrency, 1), Script: string(js), Interleave: st.Cfg.Interleave}
	for _, c := range st.Top {
		sp.Tops = append(sp.Tops, string(c.Top.AsRemote()))
	}
	a := &CkAgent{script: w.Script}
	a.Component = modeling.NewBuilder[ckSpec, ckState, modeling.None]().
		WithEngine(st.Registrar.GetEngine()).WithFreq(1 * timing.GHz).WithSpec(sp).Build("Agent")
	a.State = ckState{WaitFor: -1, Flight: []ckFlight{}}
	a.AddMiddleware(ckMW{a})
	a.DeclarePort("Mem", memprotocol.Requester)
	st.Registrar.RegisterComponent(a)
	a.mem = modeling.MakePortBuilder().WithRegistrar(st.Registrar).WithComponent(a).
		WithSpec(modeling.PortSpec{BufSize: max(st.Cfg.PortBuf, 1)}).Build("Mem")
	a.AssignPort("Mem", a.mem)
	st.AttachRequester(a.mem, nil)
	return a
}

type ckMW struct{ a *CkAgent }

func (m ckMW) Tick() bool { return m.a.tick() }

func (a *CkAgent) tstr() string { return strconv.FormatUint(uint64(a.CurrentTime()), 10) }

func (a *CkAgent) tick() bool {
	progress := false
	st := &a.State
	for {
		msg := a.mem.RetrieveIncoming()
		if msg == nil {
			break
		}
		meta := msg.Meta()
		rec := map[string]any{"e": "rsp", "t": a.tstr(), "m": int(meta.ID), "rspto": int(meta.RspTo), "to": 0, "k": "other", "dst": string(meta.Dst), "data": Bytes{}}
		switch m := msg.(type) {
		case memprotocol.DataReadyRsp:
			rec["k"], rec["data"] = "data", append(Bytes{}, m.Data...)
		case memprotocol.WriteDoneRsp:
			rec["k"] = "done"
		}
		for i, f := range st.Flight {
			if f.Msg == meta.RspTo {
				rec["to"] = f.Req
				st.Flight = append(st.Flight[:i], st.Flight[i+1:]...)
				st.Answered++
				break
			}
		}
		a.recs = append(a.recs, rec)
		progress = true
	}
	sp := a.Spec()
	for st.Next < len(a.script) && len(st.Flight) < sp.Conc {
		r := &a.script[st.Next]
		if r.Wait > 0 {
			if st.WaitFor != st.Next {
				st.WaitFor, st.WaitLeft = st.Next, r.Wait
			}
			if st.WaitLeft > 0 {
				st.WaitLeft--
				return true
			}
		}
		lo, hi := r.Addr, r.Addr+uint64(r.Len)
		busy := false
		for _, f := range st.Flight {
			busy = busy || (lo < f.Hi && f.Lo < hi)
		}
		if busy || !a.mem.CanSend() {
			break
		}
		dst := sp.Tops[0]
		if len(sp.Tops) > 1 {
			dst = sp.Tops[r.Addr/sp.Interleave%uint64(len(sp.Tops))]
		}
		meta := messaging.MsgMeta{ID: timing.GetIDGenerator().Generate(), Src: a.mem.AsRemote(), Dst: messaging.RemotePort(dst)}
		rec := map[string]any{"e": "issue", "t": a.tstr(), "m": int(meta.ID), "id": st.Next + 1, "k": r.Kind, "addr": int(r.Addr - sp.Base), "len": r.Len}
		if r.Kind == "read" {
			meta.TrafficBytes, meta.TrafficClass = 12, "memprotocol.ReadReq"
			a.mem.Send(memprotocol.ReadReq{MsgMeta: meta, Address: r.Addr, AccessByteSize: uint64(r.Len), PID: vm.PID(r.PID)})
		} else {
			meta.TrafficBytes, meta.TrafficClass = len(r.Data)+12, "memprotocol.WriteReq"
			w := memprotocol.WriteReq{MsgMeta: meta, Address: r.Addr, Data: append([]byte{}, r.Data...), PID: vm.PID(r.PID)}
			if r.Mask != nil {
				w.DirtyMask = append([]bool{}, r.Mask...)
			}
			a.mem.Send(w)
		}
		st.Flight = append(st.Flight, ckFlight{Msg: meta.ID, Req: st.Next + 1, Lo: lo, Hi: hi})
		a.recs = append(a.recs, rec)
		st.Next++
		progress = true
	}
	return progress
}

// ---------------------------------------------------------------- one simulation in this process

type ckSim struct {
	sim   *simulation.Simulation
	eng   *timing.SerialEngine
	st    *Stack
	agent *CkAgent
}

// Func observes every handled event: time, handler, event ID.
func (s *ckSim) Func(ctx hooking.HookCtx) {
	if ctx.Pos != timing.HookPosBeforeEvent {
		return
	}
	evt := ctx.Item.(timing.Event)
	rec := map[string]any{"e": "act", "t": strconv.FormatUint(uint64(evt.Time()), 10), "c": evt.HandlerID(), "id": eventID(evt)}
	s.agent.recs = append(s.agent.recs, rec)
}

func eventID(evt timing.Event) int {
	if te, ok := evt.(modeling.TickEvent); ok {
		return int(te.ID)
	}
	var x struct {
		ID uint64 `json:"id"`
	}
	if b, err := json.Marshal(evt); err == nil && json.Unmarshal(b, &x) == nil {
		return int(x.ID)
	}
	return 0
}

func resetIDs(start uint64) {
	timing.ResetIDGenerator()
	timing.UseSequentialIDGenerator()
	if start > 0 {
		timing.SetIDGeneratorNextID(start)
	}
}

var ckSimCount int

func newCkSim(dir string, c Case, muts []string) (*ckSim, error) {
	ckSimCount++
	sim := simulation.MakeBuilder().WithoutMonitoring().WithOutputFileName(filepath.Join(dir, fmt.Sprintf("rec%d_%d", os.Getpid(), ckSimCount))).Build()
	st, err := BuildStackOn(sim, c.Stack.Clone())
	if err != nil {
		sim.Terminate()
		return nil, err
	}
	eng, ok := sim.GetEngine().(*timing.SerialEngine)
	if !ok {
		return nil, fmt.Errorf("simulation engine is %T", sim.GetEngine())
	}
	s := &ckSim{sim: sim, eng: eng, st: st}
	s.agent = NewCkAgent(st, c.Work)
	eng.AcceptHook(s)
	return s, nil
}

// msgInPortBuffer: does any port of the simulation hold a message (incoming or outgoing)?
func (s *ckSim) msgInPortBuffer() bool {
	ps := []messaging.Port{s.agent.mem}
	for _, c := range s.st.Comps {
		ps = append(ps, c.Top, c.Control)
		if c.Bottom != nil {
			ps = append(ps, c.Bottom)
		}
	}
	for _, p := range ps {
		if p.NumIncoming() > 0 || p.NumOutgoing() > 0 {
			return true
		}
	}
	return false
}

func (s *ckSim) quiesce() {
	s.agent.recs = append(s.agent.recs, map[string]any{"e": "quiesce", "t": strconv.FormatUint(uint64(s.eng.CurrentTime()), 10),
		"outstanding": len(s.agent.State.Flight), "unissued": len(s.agent.script) - s.agent.State.Next, "answered": s.agent.State.Answered})
}

// ---------------------------------------------------------------- child process protocol

type ckProcIn struct {
	Mode  string `json:"mode"` // ref | a | b | canon | flushdet
	Reps  int    `json:"reps"` // flushdet: repetitions on fresh simulations inside this process
	Case  Case   `json:"case"`
	T     uint64 `json:"t"`
	Ck    string `json:"ck"`
	Final string `json:"final"`
	Dir   string `json:"dir"`
}

type ckProcOut struct {
	Recs     []map[string]any   `json:"recs"`
	RepRecs  [][]map[string]any `json:"rep_recs,omitempty"` // flushdet: one stream per repetition
	Err      string             `json:"err"`
	Rejected string             `json:"rejected"` // the builders refused the stack
	Panicked string             `json:"panicked"`
	InBuf    bool               `json:"in_buf"`
	InFlight int                `json:"in_flight"`
}

func safely(f func() error) (err error, panicked string) {
	defer func() {
		if r := recover(); r != nil {
			panicked = fmt.Sprint(r)
		}
	}()
	return f(), ""
}

func runCkProc(in ckProcIn) (out ckProcOut) {
	if in.Mode == "flushdet" {
		return runFlushDet(in)
	}
	start := map[string]uint64{"ref": 0, "a": 0, "b": 777777, "canon": 424242}[in.Mode]
	resetIDs(start) // a different process starts with its own counter: the restore must set it
	s, err := newCkSim(in.Dir, in.Case, nil)
	if err != nil {
		out.Rejected = err.Error()
		return out
	}
	defer s.sim.Terminate()
	switch in.Mode {
	case "ref":
		_, out.Panicked = safely(func() error { s.agent.TickLater(); return s.eng.Run() })
		s.quiesce()
		if err := s.sim.SaveCheckpoint(in.Final, ckBuildID); err != nil {
			out.Err = err.Error()
		}
		out.Recs = s.agent.recs
	case "a":
		_, out.Panicked = safely(func() error { s.agent.TickLater(); return s.eng.RunUntil(timing.VTimeInPicoSec(in.T)) })
		out.InBuf = s.msgInPortBuffer()
		out.InFlight = len(s.agent.State.Flight)
		if err := s.sim.SaveCheckpoint(in.Ck, ckBuildID); err != nil {
			out.Err = "save: " + err.Error()
		}
		out.Recs = s.agent.recs
	case "b":
		err, panicked := safely(func() error { return s.sim.LoadCheckpoint(in.Ck, ckBuildID) })
		if err != nil || panicked != "" {
			if err != nil {
				out.Err = "load: " + err.Error()
			}
			out.Panicked = panicked
			return out
		}
		_, out.Panicked = safely(func() error { return s.eng.Run() })
		s.quiesce()
		if err := s.sim.SaveCheckpoint(in.Final, ckBuildID); err != nil {
			out.Err = "save after resume: " + err.Error()
		}
		out.Recs = s.agent.recs
	case "canon":
		err, panicked := safely(func() error { return s.sim.LoadCheckpoint(in.Ck, ckBuildID) })
		if err != nil || panicked != "" {
			if err != nil {
				out.Err = "load: " + err.Error()
			}
			out.Panicked = panicked
			return out
		}
		if err := s.sim.SaveCheckpoint(in.Final, ckBuildID); err != nil {
			out.Err = err.Error()
		}
	}
	return out
}

type ckRunner struct {
	dir string
	mu  sync.Mutex
	n   int
}

func (k *ckRunner) exec(in ckProcIn, env ...string) (ckProcOut, error) {
	in.Dir = k.dir
	k.mu.Lock()
	k.n++
	n := k.n
	k.mu.Unlock()
	inF := filepath.Join(k.dir, fmt.Sprintf("p%d.in", n))
	outF := filepath.Join(k.dir, fmt.Sprintf("p%d.out", n))
	b, _ := json.Marshal(in)
	if err := os.WriteFile(inF, b, 0o644); err != nil {
		return ckProcOut{}, err
	}
	self, err := os.Executable()
	if err != nil {
		self = os.Args[0]
	}
	cmd := exec.Command(self, "memhier_ckpt_proc", "-in", inF, "-out", outF)
	cmd.Dir = k.dir
	cmd.Env = append(os.Environ(), env...)
	if o, err := cmd.CombinedOutput(); err != nil {
		return ckProcOut{}, fmt.Errorf("child process failed: %v: %s", err, clipS(string(o), 2000))
	}
	var out ckProcOut
	ob, err := os.ReadFile(outF)
	if err != nil {
		return out, err
	}
	dec := json.NewDecoder(bytes.NewReader(ob))
	dec.UseNumber()
	if err := dec.Decode(&out); err != nil {
		return out, err
	}
	for _, r := range out.Recs {
		for key, v := range r {
			if num, ok := v.(json.Number); ok {
				i, _ := num.Int64()
				r[key] = int(i)
			}
		}
	}
	_ = os.Remove(inF)
	_ = os.Remove(outF)
	return out, nil
}

func clipS(s string, n int) string {
	if len(s) > n {
		return s[:n] + "…"
	}
	return s
}

// ---------------------------------------------------------------- archives and comparisons

func readCkArchive(path string) (map[string][]byte, error) {
	f, err := os.Open(path)
	if err != nil {
		return nil, err
	}
	defer f.Close()
	gz, err := gzip.NewReader(f)
	if err != nil {
		return nil, err
	}
	tr := tar.NewReader(gz)
	out := map[string][]byte{}
	for {
		h, err := tr.Next()
		if err == io.EOF {
			break
		}
		if err != nil {
			return nil, err
		}
		b, err := io.ReadAll(tr)
		if err != nil {
			return nil, err
		}
		out[h.Name] = b
	}
	return out, nil
}

// generated IDs inside entity payloads (message, event, transaction and task IDs, the counter)
var ckIDMask = regexp.MustCompile(`"(id|ID|RspTo|rsp_to|next_id|current_cmd_id|req_id|recv_task_id|req_to_bottom_id|req_from_top_id|` +
	`pipeline_task_id|tx_id|dir_pipeline_task_id|dir_pipeline_pid|bank_task_id|bank_pid|task_id|top_req_id|bottom_req_id|msg)":\s*\d+`)

var ckHandler = regexp.MustCompile(`"handler_id":"([^"]+)"`)

func maskCkIDs(b []byte) []byte { return ckIDMask.ReplaceAll(b, []byte(`"$1":0`)) }

// canonCkIDs renames event and message IDs by order of first appearance.
func canonCkIDs(recs []map[string]any) []map[string]any {
	ev, ms := map[any]int{}, map[any]int{}
	ren := func(tab map[any]int, v any) int {
		if v == 0 {
			return 0
		}
		if _, seen := tab[v]; !seen {
			tab[v] = len(tab) + 1
		}
		return tab[v]
	}
	out := make([]map[string]any, len(recs))
	for i, r := range recs {
		c := map[string]any{}
		for k, v := range r {
			c[k] = v
		}
		switch r["e"] {
		case "act":
			c["id"] = ren(ev, r["id"])
		case "issue":
			c["m"] = ren(ms, r["m"])
		case "rsp":
			c["m"] = ren(ms, r["m"])
			c["rspto"] = ren(ms, r["rspto"])
		}
		out[i] = c
	}
	return out
}

func recJSON(r map[string]any) string {
	b, _ := json.Marshal(r)
	return string(b)
}

func firstCkDiff(want, got []map[string]any) string {
	for i := range want {
		if i >= len(got) {
			return fmt.Sprintf("resumed run stops after %d records, uninterrupted run goes on with %s", len(got), clipS(recJSON(want[i]), 300))
		}
		if a, b := recJSON(want[i]), recJSON(got[i]); a != b {
			return fmt.Sprintf("record %d after the cut: uninterrupted %s, resumed %s", i, clipS(a, 300), clipS(b, 300))
		}
	}
	if len(got) > len(want) {
		return fmt.Sprintf("resumed run has %d extra records, first %s", len(got)-len(want), clipS(recJSON(got[len(want)]), 300))
	}
	return ""
}

func recTime(r map[string]any) uint64 {
	t, _ := strconv.ParseUint(fmt.Sprint(r["t"]), 10, 64)
	return t
}

// suffixAfterCk returns the records of the uninterrupted run that belong to times after t.
func suffixAfterCk(recs []map[string]any, t uint64) []map[string]any {
	for i, r := range recs {
		if r["e"] == "quiesce" || recTime(r) > t {
			return recs[i:]
		}
	}
	return nil
}

// cutTimes lists the distinct event times of a run and tells at which of them requests are in flight.
func cutTimes(recs []map[string]any) (times []uint64, inflight map[uint64]bool) {
	inflight = map[uint64]bool{}
	open := 0
	var last uint64
	seen := false
	for _, r := range recs {
		if r["e"] == "quiesce" {
			break
		}
		t := recTime(r)
		if !seen || t != last {
			if seen {
				inflight[last] = open > 0
			}
			times = append(times, t)
			last, seen = t, true
		}
		switch r["e"] {
		case "issue":
			open++
		case "rsp":
			if r["to"] != 0 {
				open--
			}
		}
	}
	if seen {
		inflight[last] = open > 0
	}
	return times, inflight
}

// CkMismatch is one difference between a resumed run and the uninterrupted one.
type CkMismatch struct {
	Stack    int    `json:"stack"`
	Desc     string `json:"desc"`
	Cut      uint64 `json:"cut"`
	Kind     string `json:"kind"`  // suffix | final | load_error | save_error | panic | canonical
	Class    string `json:"class"` // ids_only: equal once generated IDs are erased; real: differs beyond IDs
	InBuf    bool   `json:"msg_in_buffer_at_cut"`
	InFlight int    `json:"requests_in_flight_at_cut"`
	// Work: some component other than the requester still had an event queued at the cut, i.e. a
	// request, response, fetch or write-back was being handled somewhere in the hierarchy
	Work       bool   `json:"work_in_flight_at_cut"`
	Entity     string `json:"entity,omitempty"`
	EntityKind string `json:"entity_kind,omitempty"`
	What       string `json:"what,omitempty"` // first differing top-level state field of the entity
	Detail     string `json:"detail"`
	Case       *Case  `json:"case,omitempty"`
}

// entityKinds maps archive entry names to what they are.
func entityKinds(c *Case) map[string]string {
	cfg := c.Stack.Clone()
	_ = assignNames(&cfg)
	out := map[string]string{"Agent": "requester", "Agent.Mem": "port"}
	walk(cfg.Top, func(n *Node, _ int) {
		out[n.Name] = n.Kind
		out[n.Name+".Storage"] = n.Kind + "-storage"
		for _, p := range []string{"Top", "Bottom", "Control"} {
			out[n.Name+"."+p] = "port"
		}
		out["Conn."+n.Name] = "connection"
	})
	out["Conn.Top"], out["Conn.Ctl"] = "connection", "connection"
	return out
}

func kindOfEntity(kinds map[string]string, entry string) string {
	name := strings.TrimPrefix(entry, "entities/")
	if k, ok := kinds[name]; ok {
		return k
	}
	l := strings.ToLower(name)
	switch {
	case strings.Contains(l, "idgen"):
		return "idgenerator"
	case strings.Contains(l, "engine"):
		return "engine"
	}
	return "other"
}

// whatDiffers names what differs in an entity's payload once generated IDs are erased: the first
// top-level state field and, for a list of records (transaction tables ...), the fields of the first
// differing element; "[removed]" marks an element that is flagged removed (a dead slot).
func whatDiffers(a, b []byte) string {
	var x, y struct {
		State     map[string]json.RawMessage `json:"state"`
		Scheduler json.RawMessage            `json:"scheduler"`
	}
	if json.Unmarshal(maskCkIDs(a), &x) != nil || json.Unmarshal(maskCkIDs(b), &y) != nil || x.State == nil {
		return ""
	}
	var keys []string
	for k := range x.State {
		keys = append(keys, k)
	}
	sort.Strings(keys)
	for _, k := range keys {
		if bytes.Equal(x.State[k], y.State[k]) {
			continue
		}
		what := "state." + k
		var xs, ys []map[string]json.RawMessage
		if json.Unmarshal(x.State[k], &xs) == nil && json.Unmarshal(y.State[k], &ys) == nil && len(xs) == len(ys) {
			for i := range xs {
				var fields []string
				for f, v := range xs[i] {
					if !bytes.Equal(v, ys[i][f]) {
						fields = append(fields, f)
					}
				}
				if len(fields) == 0 {
					continue
				}
				sort.Strings(fields)
				tag := "[]"
				if string(xs[i]["removed"]) == "true" && string(ys[i]["removed"]) == "true" {
					tag = "[removed]"
				}
				return what + tag + "." + strings.Join(fields, "+")
			}
		}
		return what
	}
	if !bytes.Equal(x.Scheduler, y.Scheduler) {
		return "scheduler"
	}
	return ""
}

// cutResult is what one cut produced.
type cutResult struct {
	mm     []CkMismatch
	suffix int
	inBuf  bool
	work   bool
	infl   int
	exact  bool // the resumed run was equal to the uninterrupted one, IDs included
}

// cutAt: process A runs to t and saves, process B loads, finishes and saves, process C
// (canon) loads and saves again.
func (k *ckRunner) cutAt(si int, c *Case, ref []map[string]any, refFinal map[string][]byte, kinds map[string]string, t uint64, canon bool) cutResult {
	var res cutResult
	add := func(m CkMismatch) {
		m.Stack, m.Cut, m.Desc, m.InBuf, m.InFlight, m.Work = si, t, c.Stack.Describe(), res.inBuf, res.infl, res.work
		res.mm = append(res.mm, m)
	}
	tag := fmt.Sprintf("s%d_t%d", si, t)
	ck := filepath.Join(k.dir, tag+".ckpt")
	fb := filepath.Join(k.dir, tag+".final")
	defer os.Remove(ck)
	defer os.Remove(fb)
	a, err := k.exec(ckProcIn{Mode: "a", Case: *c, T: t, Ck: ck})
	if err != nil {
		add(CkMismatch{Kind: "harness", Detail: err.Error()})
		return res
	}
	res.inBuf, res.infl = a.InBuf, a.InFlight
	if a.Panicked != "" {
		add(CkMismatch{Kind: "panic", Detail: "run to the cut: " + a.Panicked})
		return res
	}
	if a.Err != "" {
		add(CkMismatch{Kind: "save_error", Detail: a.Err})
		return res
	}
	if arch, err := readCkArchive(ck); err == nil {
		for _, h := range ckHandler.FindAllSubmatch(arch["entities/Engine"], -1) {
			if string(h[1]) != "Agent" {
				res.work = true
			}
		}
	}
	b, err := k.exec(ckProcIn{Mode: "b", Case: *c, Ck: ck, Final: fb})
	if err != nil {
		add(CkMismatch{Kind: "harness", Detail: err.Error()})
		return res
	}
	if b.Panicked != "" {
		add(CkMismatch{Kind: "panic", Detail: b.Panicked})
		return res
	}
	if b.Err != "" {
		add(CkMismatch{Kind: "load_error", Detail: b.Err})
		return res
	}
	want := suffixAfterCk(ref, t)
	res.suffix = len(b.Recs)
	res.exact = true
	if d := firstCkDiff(want, b.Recs); d != "" {
		res.exact = false
		class := "real"
		if dc := firstCkDiff(canonCkIDs(want), canonCkIDs(b.Recs)); dc == "" {
			class = "ids_only"
		} else {
			d = dc + " (generated IDs renamed by order of appearance)"
		}
		add(CkMismatch{Kind: "suffix", Class: class, Detail: d})
	}
	final, err := readCkArchive(fb)
	if err != nil {
		add(CkMismatch{Kind: "save_error", Detail: "final archive of the resumed run: " + err.Error()})
		return res
	}
	var names []string
	for n := range refFinal {
		names = append(names, n)
	}
	sort.Strings(names)
	idsOnly := 0
	for _, name := range names {
		data := refFinal[name]
		if bytes.Equal(data, final[name]) {
			continue
		}
		res.exact = false
		if bytes.Equal(maskCkIDs(data), maskCkIDs(final[name])) {
			idsOnly++
			if idsOnly == 1 {
				add(CkMismatch{Kind: "final", Class: "ids_only", Entity: name, EntityKind: kindOfEntity(kinds, name),
					Detail: fmt.Sprintf("uninterrupted %s, resumed %s", clipS(string(data), 200), clipS(string(final[name]), 200))})
			}
			continue
		}
		add(CkMismatch{Kind: "final", Class: "real", Entity: name, EntityKind: kindOfEntity(kinds, name), What: whatDiffers(data, final[name]),
			Detail: fmt.Sprintf("uninterrupted %s, resumed %s", clipS(string(data), 300), clipS(string(final[name]), 300))})
		break
	}
	if len(final) != len(refFinal) {
		add(CkMismatch{Kind: "final", Class: "real", Entity: "<entity set>", Detail: "different entity sets"})
	}
	if canon {
		again := filepath.Join(k.dir, tag+".again")
		defer os.Remove(again)
		co, err := k.exec(ckProcIn{Mode: "canon", Case: *c, Ck: ck, Final: again})
		switch {
		case err != nil:
			add(CkMismatch{Kind: "harness", Detail: err.Error()})
		case co.Panicked != "" || co.Err != "":
			add(CkMismatch{Kind: "load_error", Detail: "canonical reload: " + co.Err + co.Panicked})
		default:
			x, _ := os.ReadFile(ck)
			y, _ := os.ReadFile(again)
			if !bytes.Equal(x, y) {
				ax, _ := readCkArchive(ck)
				ay, _ := readCkArchive(again)
				d := "archive bytes differ"
				var ns []string
				for n := range ax {
					ns = append(ns, n)
				}
				sort.Strings(ns)
				for _, n := range ns {
					if !bytes.Equal(ax[n], ay[n]) {
						d = fmt.Sprintf("entry %s differs after load+save: %s vs %s", n, clipS(string(ax[n]), 200), clipS(string(ay[n]), 200))
						add(CkMismatch{Kind: "canonical", Class: "real", Entity: n, EntityKind: kindOfEntity(kinds, n), What: whatDiffers(ax[n], ay[n]), Detail: d})
						d = ""
						break
					}
				}
				if d != "" {
					add(CkMismatch{Kind: "canonical", Class: "real", Detail: d})
				}
			}
		}
	}
	return res
}

// reference runs the case uninterrupted in its own process.
func (k *ckRunner) reference(si int, c *Case, env ...string) (recs []map[string]any, final map[string][]byte, rejected string, err error) {
	fp := filepath.Join(k.dir, fmt.Sprintf("s%d_ref.final", si))
	defer os.Remove(fp)
	out, err := k.exec(ckProcIn{Mode: "ref", Case: *c, Final: fp}, env...)
	if err != nil {
		return nil, nil, "", err
	}
	if out.Rejected != "" {
		return nil, nil, out.Rejected, nil
	}
	if out.Panicked != "" {
		return nil, nil, "", fmt.Errorf("reference run panicked: %s", out.Panicked)
	}
	if out.Err != "" {
		return out.Recs, nil, "", fmt.Errorf("%s", out.Err)
	}
	final, err = readCkArchive(fp)
	return out.Recs, final, "", err
}

// ---------------------------------------------------------------- case generation

type ckGenIn struct {
	Seed     int64    `json:"seed"`
	Stacks   int      `json:"stacks"`
	Requests int      `json:"requests"`
	Leaves   []string `json:"leaves"`
	Cases    []Case   `json:"cases"`
}

// ckCases draws small stacks (all cache kinds, ROB, every controller kind, single and
// interleaved) with short request streams.
func ckCases(in *ckGenIn) []Case {
	out := append([]Case{}, in.Cases...)
	for i := 0; i < in.Stacks; i++ {
		rng := rand.New(rand.NewSource(in.Seed*999_983 + int64(i)*104_729 + 5))
		o := GenOpts{MaxDepth: 2 + i%2}
		if len(in.Leaves) > 0 {
			o.Leaf = in.Leaves[i%len(in.Leaves)]
		}
		c := Case{Stack: RandomStack(rng, o)}
		c.Work = RandomWorkload(rng, &c.Stack, WorkOpts{Requests: in.Requests})
		if c.Work.Concurrency > 8 {
			c.Work.Concurrency = 1 + c.Work.Concurrency%8
		}
		out = append(out, c)
	}
	return out
}

func parallelDo(n int, f func(i int)) {
	workers := max(runtime.NumCPU(), 2)
	var wg sync.WaitGroup
	ch := make(chan int)
	for w := 0; w < workers; w++ {
		wg.Add(1)
		go func() {
			defer wg.Done()
			for i := range ch {
				f(i)
			}
		}()
	}
	for i := 0; i < n; i++ {
		ch <- i
	}
	close(ch)
	wg.Wait()
}

// pickCuts: all cuts (maxCuts = 0) or a seeded sample that always contains one cut with
// requests in flight (when there is one), the first and the last instant.
func pickCuts(rng *rand.Rand, times []uint64, inflight map[uint64]bool, maxCuts int) []uint64 {
	if maxCuts <= 0 || len(times) <= maxCuts {
		return times
	}
	chosen := map[uint64]bool{}
	var busy []uint64
	for _, t := range times {
		if inflight[t] {
			busy = append(busy, t)
		}
	}
	if len(busy) > 0 {
		chosen[busy[rng.Intn(len(busy))]] = true
	}
	chosen[times[len(times)-1]] = true
	for len(chosen) < maxCuts {
		chosen[times[rng.Intn(len(times))]] = true
	}
	var out []uint64
	for _, t := range times {
		if chosen[t] {
			out = append(out, t)
		}
	}
	return out
}

func registerCkpt() {
	reg.Register("memhier_ckpt_proc", func(raw json.RawMessage) (any, error) {
		var in ckProcIn
		if err := json.Unmarshal(raw, &in); err != nil {
			return nil, err
		}
		return runCkProc(in), nil
	})

	// memhier_ckpt: C06 on stacks + the canonical-archive half of C07
	reg.Register("memhier_ckpt", func(raw json.RawMessage) (any, error) {
		var in struct {
			ckGenIn
			MaxCuts    int `json:"max_cuts"`    // 0 = every distinct event time
			CanonEvery int `json:"canon_every"` // canonical reload on every k-th cut (0 = never)
			Minimise   int `json:"minimise"`    // evaluation budget for minimising a real mismatch
		}
		if err := json.Unmarshal(raw, &in); err != nil {
			return nil, err
		}
		dir, _ := os.MkdirTemp("", "mhckpt-")
		defer os.RemoveAll(dir)
		k := &ckRunner{dir: dir}
		cases := ckCases(&in.ckGenIn)
		type job struct {
			si    int
			t     uint64
			canon bool
		}
		type refData struct {
			recs  []map[string]any
			final map[string][]byte
			kinds map[string]string
			err   string
			rej   string
			cuts  int
		}
		refs := make([]refData, len(cases))
		parallelDo(len(cases), func(i int) {
			recs, final, rej, err := k.reference(i, &cases[i])
			refs[i] = refData{recs: recs, final: final, rej: rej, kinds: entityKinds(&cases[i])}
			if err != nil {
				refs[i].err = err.Error()
			}
		})
		var mm []CkMismatch
		var jobs []job
		rejected, entities, stacks := 0, 0, 0
		var descs []string
		for i := range cases {
			if refs[i].rej != "" {
				rejected++
				continue
			}
			if refs[i].err != "" {
				cc := cases[i]
				mm = append(mm, CkMismatch{Stack: i, Desc: cases[i].Stack.Describe(), Kind: "save_error", Detail: "uninterrupted run: " + refs[i].err, Case: &cc})
				continue
			}
			stacks++
			descs = append(descs, cases[i].Stack.Describe())
			entities += len(refs[i].final)
			rng := rand.New(rand.NewSource(in.Seed + int64(i)*31))
			times, infl := cutTimes(refs[i].recs)
			for n, t := range pickCuts(rng, times, infl, in.MaxCuts) {
				jobs = append(jobs, job{i, t, in.CanonEvery > 0 && n%in.CanonEvery == 0})
			}
			refs[i].cuts = len(times)
		}
		results := make([]cutResult, len(jobs))
		parallelDo(len(jobs), func(j int) {
			jb := jobs[j]
			results[j] = k.cutAt(jb.si, &cases[jb.si], refs[jb.si].recs, refs[jb.si].final, refs[jb.si].kinds, jb.t, jb.canon)
		})
		events, exact, exactNoBuf, withBuf, withFlight, canons, withWork, exactIdle := 0, 0, 0, 0, 0, 0, 0, 0
		var sample map[string]any
		idsOnlyKept := 0
		for j, r := range results {
			events += r.suffix
			if r.exact {
				exact++
				if !r.inBuf {
					exactNoBuf++
				}
			}
			if r.inBuf {
				withBuf++
			}
			if r.work {
				withWork++
			}
			if r.exact && !r.work && !r.inBuf {
				exactIdle++
			}
			if r.infl > 0 {
				withFlight++
			}
			if jobs[j].canon {
				canons++
			}
			for _, m := range r.mm {
				if m.Kind == "harness" {
					return nil, fmt.Errorf("stack %d cut %d: %s", m.Stack, m.Cut, m.Detail)
				}
				// keep every mismatch that goes beyond generated IDs, and a bounded number of the others
				if m.Class == "ids_only" {
					if idsOnlyKept >= 200 {
						continue
					}
					idsOnlyKept++
				} else if len(mm)-idsOnlyKept >= 200 {
					continue
				}
				cc := cases[m.Stack]
				m.Case = &cc
				mm = append(mm, m)
			}
			if sample == nil && r.suffix > 3 && r.infl > 0 {
				sample = map[string]any{"stack": cases[jobs[j].si].Stack.Describe(), "cut_ps": jobs[j].t, "requests_in_flight_at_cut": r.infl,
					"records_after_cut": r.suffix, "equal_ids_included": r.exact, "msg_in_port_buffer_at_cut": r.inBuf}
			}
		}
		// minimise the real mismatches (one per distinct entity kind / what)
		if in.Minimise > 0 {
			seen := map[string]bool{}
			for i := range mm {
				m := &mm[i]
				if m.Class != "real" && m.Kind != "panic" && m.Kind != "load_error" && m.Kind != "canonical" {
					continue
				}
				sig := m.Kind + "/" + m.EntityKind + "/" + m.What
				if seen[sig] {
					continue
				}
				seen[sig] = true
				if mc, mt, ok := k.minimiseCk(*m.Case, m, in.Minimise); ok {
					m.Case, m.Cut = &mc, mt
					m.Desc = mc.Stack.Describe()
				}
			}
		}
		return map[string]any{"stacks": stacks, "rejected": rejected, "cuts": len(jobs), "events": events, "entities": entities,
			"exact": exact, "exact_without_buffered_msg": exactNoBuf, "cuts_with_buffered_msg": withBuf, "cuts_with_requests_in_flight": withFlight,
			"canonical_reloads": canons, "cuts_with_work_in_flight": withWork, "exact_at_idle_cuts": exactIdle, "idle_cuts": len(jobs) - withWorkOrBuf(results), "mismatches": mm, "sample": sample, "descs": descs, "processes": k.n}, nil
	})

	// memhier_det: the observation stream of seeded stacks (C03), one child process per stack
	reg.Register("memhier_det", func(raw json.RawMessage) (any, error) {
		var in struct {
			ckGenIn
			Out string `json:"out"`
		}
		if err := json.Unmarshal(raw, &in); err != nil {
			return nil, err
		}
		dir, _ := os.MkdirTemp("", "mhdet-")
		defer os.RemoveAll(dir)
		k := &ckRunner{dir: dir}
		cases := ckCases(&in.ckGenIn)
		type one struct {
			recs  []map[string]any
			final map[string][]byte
			rej   string
			err   error
		}
		outs := make([]one, len(cases))
		parallelDo(len(cases), func(i int) {
			r, f, rej, err := k.reference(i, &cases[i])
			outs[i] = one{r, f, rej, err}
		})
		f, err := os.Create(in.Out)
		if err != nil {
			return nil, err
		}
		defer f.Close()
		enc := json.NewEncoder(f)
		n, stacks := 0, 0
		for i, o := range outs {
			if o.rej != "" {
				continue
			}
			if o.err != nil {
				return nil, o.err
			}
			stacks++
			_ = enc.Encode(map[string]any{"e": "stack", "sys": i, "desc": cases[i].Stack.Describe()})
			n++
			for _, r := range o.recs {
				r["sys"] = i
				_ = enc.Encode(r)
				n++
			}
			var names []string
			for nme := range o.final {
				names = append(names, nme)
			}
			sort.Strings(names)
			for _, nme := range names {
				sum := sha256.Sum256(o.final[nme])
				_ = enc.Encode(map[string]any{"e": "final", "sys": i, "entity": nme, "sha": hex.EncodeToString(sum[:8])})
				n++
			}
		}
		return map[string]any{"stacks": stacks, "records": n}, nil
	})
}

// minimiseCk shrinks a case with a real mismatch: simpler stacks, then a shorter request
// stream, keeping a cut at which a mismatch of the same kind on the same kind of entity shows.
func (k *ckRunner) minimiseCk(c Case, m *CkMismatch, budget int) (Case, uint64, bool) {
	evals := 0
	// fails reports a cut at which the same (kind, entity kind) mismatch appears
	fails := func(x Case) (uint64, bool) {
		if evals >= budget {
			return 0, false
		}
		evals++
		recs, final, rej, err := k.reference(9000+evals, &x)
		if rej != "" || err != nil {
			return 0, false
		}
		times, infl := cutTimes(recs)
		rng := rand.New(rand.NewSource(int64(evals)))
		kinds := entityKinds(&x)
		cuts := pickCuts(rng, times, infl, 8)
		found := make([]bool, len(cuts))
		parallelDo(len(cuts), func(i int) {
			r := k.cutAt(9000+evals, &x, recs, final, kinds, cuts[i], m.Kind == "canonical")
			for _, mm := range r.mm {
				if mm.Kind == m.Kind && (mm.Class == m.Class) && mm.EntityKind == m.EntityKind {
					found[i] = true
				}
			}
		})
		for i, f := range found {
			if f {
				return cuts[i], true
			}
		}
		return 0, false
	}
	best, bestT := c, m.Cut
	for changed := true; changed; {
		changed = false
		for _, cand := range stackReductions(best.Stack) {
			x := Case{Stack: cand, Work: best.Work}
			if t, ok := fails(x); ok {
				best, bestT, changed = x, t, true
				break
			}
		}
	}
	for n := len(best.Work.Script) / 2; n >= 1; n /= 2 {
		x := best
		x.Work.Script = best.Work.Script[:n]
		if t, ok := fails(x); ok {
			best, bestT = x, t
		} else {
			break
		}
	}
	return best, bestT, evals > 0
}

func withWorkOrBuf(rs []cutResult) int {
	n := 0
	for _, r := range rs {
		if r.work || r.inBuf {
			n++
		}
	}
	return n
}

// ---------------------------------------------------------------- control histories (C03)

// flushObs merges, in engine order, every handled event (chunked), every message that crosses
// the Bottom port of a cache (with its ID and address), every control request the requester
// sends, and the requester's own records (issue / response / control acks / flush records).
type flushObs struct {
	eng   *timing.SerialEngine
	agent *Agent
	pos   int
	recs  []map[string]any
	acts  []string
}

func (o *flushObs) flushActs() {
	if len(o.acts) > 0 {
		o.recs = append(o.recs, map[string]any{"e": "acts", "ev": o.acts})
		o.acts = nil
	}
}

// drain moves the requester's new records into the stream.
func (o *flushObs) drain() {
	for ; o.pos < len(o.agent.recs); o.pos++ {
		o.flushActs()
		b, _ := json.Marshal(o.agent.recs[o.pos])
		var m map[string]any
		_ = json.Unmarshal(b, &m)
		delete(m, "t") // nanoseconds; the handled events carry the exact time
		o.recs = append(o.recs, m)
	}
}

func (o *flushObs) Func(ctx hooking.HookCtx) {
	switch ctx.Pos {
	case timing.HookPosBeforeEvent:
		o.drain()
		evt := ctx.Item.(timing.Event)
		o.acts = append(o.acts, fmt.Sprintf("%d|%s|%d", uint64(evt.Time()), evt.HandlerID(), eventID(evt)))
		if len(o.acts) >= 32 {
			o.flushActs()
		}
	case messaging.HookPosPortMsgSend, messaging.HookPosPortMsgRecvd:
		o.drain()
		o.flushActs()
		msg, ok := ctx.Item.(messaging.Msg)
		if !ok {
			return
		}
		meta := msg.Meta()
		dir := "send"
		if ctx.Pos == messaging.HookPosPortMsgRecvd {
			dir = "recv"
		}
		rec := map[string]any{"e": "msg", "port": ctx.Domain.(messaging.Port).Name(), "dir": dir, "m": int(meta.ID), "rspto": int(meta.RspTo),
			"dst": string(meta.Dst), "k": fmt.Sprintf("%T", msg), "t": strconv.FormatUint(uint64(o.eng.CurrentTime()), 10)}
		switch m := msg.(type) {
		case memprotocol.ReadReq:
			rec["addr"] = strconv.FormatUint(m.Address, 10)
		case memprotocol.WriteReq:
			rec["addr"] = strconv.FormatUint(m.Address, 10)
		case memcontrolprotocol.Req:
			rec["cmd"], rec["filter"], rec["pid"] = cmdName[m.Command], len(m.Addresses), int(m.PID)
		case memcontrolprotocol.Rsp:
			rec["cmd"], rec["ok"] = cmdName[m.Command], m.Success
		}
		o.recs = append(o.recs, rec)
	}
}

// runFlushDet runs one control history Reps times on fresh simulations (IDs reset each time).
func runFlushDet(in ckProcIn) (out ckProcOut) {
	for rep := 0; rep < max(in.Reps, 1); rep++ {
		resetIDs(0)
		ckSimCount++
		sim := simulation.MakeBuilder().WithoutMonitoring().WithOutputFileName(filepath.Join(in.Dir, fmt.Sprintf("rec%d_%d", os.Getpid(), ckSimCount))).Build()
		st, err := BuildStackOn(sim, in.Case.Stack.Clone())
		if err != nil {
			sim.Terminate()
			out.Rejected = err.Error()
			return out
		}
		eng := sim.GetEngine().(*timing.SerialEngine)
		st.Engine = eng
		a := NewAgent(st, in.Case.Work)
		obs := &flushObs{eng: eng, agent: a}
		eng.AcceptHook(obs)
		for _, c := range st.Caches() {
			c.Bottom.AcceptHook(obs)
		}
		a.ctl.AcceptHook(obs)
		var livelock bool
		_, out.Panicked = safely(func() error { a.Start(); livelock = runGuarded(st, a); return nil })
		obs.drain()
		obs.flushActs()
		obs.recs = append(obs.recs, map[string]any{"e": "quiesce", "t": strconv.FormatUint(uint64(eng.CurrentTime()), 10),
			"outstanding": len(a.inflight), "unissued": a.Unissued(), "answered": a.answered, "livelock": livelock})
		fp := filepath.Join(in.Dir, fmt.Sprintf("fd%d_%d.final", os.Getpid(), rep))
		if err := sim.SaveCheckpoint(fp, ckBuildID); err != nil {
			out.Err = err.Error()
		} else if final, err := readCkArchive(fp); err == nil {
			var names []string
			for n := range final {
				names = append(names, n)
			}
			sort.Strings(names)
			for _, n := range names {
				sum := sha256.Sum256(final[n])
				obs.recs = append(obs.recs, map[string]any{"e": "final", "entity": n, "sha": hex.EncodeToString(sum[:8])})
			}
		}
		_ = os.Remove(fp)
		sim.Terminate()
		out.RepRecs = append(out.RepRecs, obs.recs)
		if out.Panicked != "" || out.Err != "" {
			return out
		}
	}
	return out
}

// flushCases draws stacks with at least one write-back cache and a workload interrupted by the
// drain / filtered flushes / full flush / enable programme.
func flushCases(in *ckGenIn, filters int) []Case {
	out := append([]Case{}, in.Cases...)
	for i := 0; i < in.Stacks; i++ {
		rng := rand.New(rand.NewSource(in.Seed*999_983 + int64(i)*104_729 + 77))
		o := GenOpts{MaxDepth: 2 + i%2, NeedWriteBack: true}
		if len(in.Leaves) > 0 {
			o.Leaf = in.Leaves[i%len(in.Leaves)]
		}
		c := Case{Stack: RandomStack(rng, o)}
		// more ways than the generator's default so that several dirty lines are resident at the flush
		walk(c.Stack.Top, func(n *Node, _ int) {
			if n.Kind == "writeback" && n.Sets*n.Ways < 4 {
				n.Ways = 4
			}
		})
		c.Work = RandomWorkload(rng, &c.Stack, WorkOpts{Requests: in.Requests})
		n := len(c.Work.Script)
		c.Work.Flush = &FlushCfg{At: n - n/4, InFlight: i%2 == 1, Filters: filters, Seed: in.Seed*3 + int64(i)*3} // seed%3 == 0: the first filter is an address list
		out = append(out, c)
	}
	return out
}

func init() {
	registerCkpt()
	// memhier_det_flush: control histories (C17 scenarios) for C03; every scenario runs Reps times in one
	// child process. Out: the repetitions in order 0,1,2..; OutRot: the same stream with the repetitions
	// rotated by one (equal to Out iff all repetitions are equal).
	reg.Register("memhier_det_flush", func(raw json.RawMessage) (any, error) {
		var in struct {
			ckGenIn
			Filters int    `json:"filters"`
			Reps    int    `json:"reps"`
			Out     string `json:"out"`
			OutRot  string `json:"out_rot"`
		}
		if err := json.Unmarshal(raw, &in); err != nil {
			return nil, err
		}
		dir, _ := os.MkdirTemp("", "mhdetf-")
		defer os.RemoveAll(dir)
		k := &ckRunner{dir: dir}
		cases := flushCases(&in.ckGenIn, in.Filters)
		outs := make([]ckProcOut, len(cases))
		errs := make([]error, len(cases))
		parallelDo(len(cases), func(i int) {
			outs[i], errs[i] = k.exec(ckProcIn{Mode: "flushdet", Case: cases[i], Reps: max(in.Reps, 1)})
		})
		write := func(path string, shift int) (int, error) {
			f, err := os.Create(path)
			if err != nil {
				return 0, err
			}
			defer f.Close()
			w := bufio.NewWriterSize(f, 1<<20)
			defer w.Flush()
			enc := json.NewEncoder(w)
			n := 0
			for i, o := range outs {
				if o.Rejected != "" {
					continue
				}
				_ = enc.Encode(map[string]any{"e": "stack", "sys": i, "desc": cases[i].Stack.Describe()})
				n++
				for r := range o.RepRecs {
					for _, rec := range o.RepRecs[(r+shift)%len(o.RepRecs)] {
						rec["sys"], rec["rep"] = i, r
						_ = enc.Encode(rec)
						n++
					}
				}
			}
			return n, nil
		}
		stacks, flushes, multi := 0, 0, 0
		for i, o := range outs {
			if errs[i] != nil {
				return nil, errs[i]
			}
			if o.Rejected != "" {
				continue
			}
			if o.Panicked != "" || o.Err != "" {
				return nil, fmt.Errorf("stack %d (%s): %s %s", i, cases[i].Stack.Describe(), o.Panicked, o.Err)
			}
			stacks++
			for _, rec := range o.RepRecs[0] {
				if rec["e"] == "flush" {
					flushes++
					if w, ok := rec["wrote"].([]any); ok && len(w) >= 2 {
						if a, ok := rec["addrs"].([]any); ok && len(a) > 0 {
							multi++
						}
					}
				}
			}
		}
		n, err := write(in.Out, 0)
		if err != nil {
			return nil, err
		}
		if in.OutRot != "" {
			if _, err := write(in.OutRot, 1); err != nil {
				return nil, err
			}
		}
		return map[string]any{"stacks": stacks, "records": n, "flushes": flushes, "address_flushes_of_several_dirty_lines": multi, "reps": max(in.Reps, 1)}, nil
	})
}
