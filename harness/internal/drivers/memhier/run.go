package memhier

import (
	"fmt"
	"runtime/debug"
	"strings"

	"github.com/sarchlab/akita/v5/timing"
)

// Case is one stack with one workload.
type Case struct {
	Stack StackCfg    `json:"stack"`
	Work  WorkloadCfg `json:"work"`
}

// Outcome is what running a case produced.
type Outcome struct {
	Records []any
	// Err is set when the builders rejected the stack (not a finding).
	Err string
	// Panic is set when the real code panicked while running; PanicInAkita tells where.
	Panic        string
	PanicInAkita bool
	Outstanding  []int
	Unissued     int
	Livelock     bool
	Issued       int
	Answered     int
	EndTimeNs    uint64
	// Verdict of the in-driver flat-memory oracle (used for minimisation and keys only; the
	// check's verdict comes from the trace specification).
	Symptoms []Symptom
	// Overlaps: components that had overlapping read/write requests in flight below them.
	Overlaps []Overlap
	// Internals: State projections for CacheInternals.tla (RunCaseInternals only); Drifts: State
	// fields the projection needs and did not find.
	Internals []any
	Drifts    []Drift
	IntStats  map[string]int
}

// Symptom is one failure seen by the in-driver oracle.
type Symptom struct {
	Class string `json:"class"`
	ReqID int    `json:"id"`
	// ReqClass is the class of the request the symptom is about (read/full/partial/masked).
	ReqClass string `json:"req_class,omitempty"`
	Detail   string `json:"detail,omitempty"`
}

type untilRunner interface {
	RunUntil(t timing.VTimeInPicoSec) error
}

// RunCase builds the stack, runs the workload to quiescence and returns the records.
func RunCase(run int, c Case) Outcome { return RunCaseInternals(run, c, 0) }

// RunCaseInternals is RunCase that also projects every component's State after every
// `every`-th handled engine event and at the end (every = 0: no projection).
func RunCaseInternals(run int, c Case, every int) (out Outcome) {
	st, err := BuildStack(c.Stack.Clone())
	if err != nil {
		out.Err = err.Error()
		return out
	}
	a := NewAgent(st, c.Work)
	var overlaps []Overlap
	st.WatchInterfaces(&overlaps)
	var ir *intRecorder
	if every > 0 {
		ir = newIntRecorder(st, a, c.Work.Base, every, run)
	}
	a.recs = append(a.recs, evConfig{E: "config", Run: run, Size: c.Work.Size, Requester: string(a.mem.AsRemote()), Desc: st.Cfg.Describe()})
	func() {
		defer func() {
			if p := recover(); p != nil {
				stack := string(debug.Stack())
				out.Panic = fmt.Sprint(p)
				out.PanicInAkita = panicInAkita(stack)
				if !out.PanicInAkita {
					out.Panic += "\n" + stack
				}
			}
		}()
		a.Start()
		out.Livelock = runGuarded(st, a)
	}()
	out.Records = a.recs
	out.Overlaps = overlaps
	out.Outstanding = a.Outstanding()
	out.Unissued = a.Unissued()
	out.Issued = a.next
	out.Answered = a.answered
	out.EndTimeNs = a.now()
	if pc := a.prog.pendingCtl(); pc != nil {
		out.Records = append(out.Records, *pc)
	}
	if out.Panic != "" {
		out.Records = append(out.Records, evPanic{E: "panic", Msg: firstLine(out.Panic)})
	}
	out.Records = append(out.Records, evQuiesce{E: "quiesce", Unissued: out.Unissued, Livelock: out.Livelock, T: out.EndTimeNs})
	out.Symptoms = oracle(&c.Work, out)
	if ir != nil && out.Panic == "" {
		// the engine has stopped; the structures must be empty when every request was answered
		// and no control programme left a component paused
		ir.sample(true, len(out.Outstanding) == 0 && out.Unissued == 0 && !out.Livelock && c.Work.Flush == nil)
		out.Internals, out.Drifts = ir.recs, ir.drifts()
		out.IntStats = map[string]int{}
		ir.stats(out.IntStats)
	}
	return out
}

func firstLine(s string) string {
	if i := strings.IndexByte(s, '\n'); i >= 0 {
		return s[:i]
	}
	return s
}

// panicInAkita: the first frame below the panic that is neither runtime nor this harness
// belongs to the repository.
func panicInAkita(stack string) bool {
	lines := strings.Split(stack, "\n")
	seenPanic := false
	for _, l := range lines {
		l = strings.TrimSpace(l)
		if strings.HasPrefix(l, "panic(") {
			seenPanic = true
			continue
		}
		if !seenPanic || l == "" || strings.HasPrefix(l, "/") || strings.HasPrefix(l, "runtime") || strings.HasPrefix(l, "log.") {
			continue
		}
		if strings.HasPrefix(l, "github.com/sarchlab/akita") {
			return true
		}
		return false
	}
	return false
}

const (
	slicePs    = 50_000_000 // 50 us
	idleSlices = 6          // 300 us without any requester-side progress while the engine still runs
	farHorizon = 1_000_000_000_000
)

// runGuarded runs the engine until its queue is empty. A stack that keeps ticking
// without ever answering is stopped and reported as a livelock.
func runGuarded(st *Stack, a *Agent) (livelock bool) {
	ur, ok := st.Engine.(untilRunner)
	if !ok {
		_ = st.Engine.Run()
		return false
	}
	idle := 0
	last := a.progress
	for {
		before := st.Engine.CurrentTime()
		_ = ur.RunUntil(before + slicePs)
		after := st.Engine.CurrentTime()
		if after == before {
			// nothing within the slice: either empty, or something far away
			_ = ur.RunUntil(after + farHorizon)
			if st.Engine.CurrentTime() == after {
				return false
			}
			continue
		}
		if after < before+slicePs-2_000_000 {
			// the queue ran dry inside the slice
			_ = ur.RunUntil(after + farHorizon)
			if st.Engine.CurrentTime() == after {
				return false
			}
		}
		if a.progress != last {
			last, idle = a.progress, 0
			continue
		}
		idle++
		if idle >= idleSlices {
			return true
		}
	}
}

// oracle is the in-driver flat memory (zero-initial, writes applied at acknowledgment).
func oracle(w *WorkloadCfg, out Outcome) []Symptom {
	var sy []Symptom
	add := func(class string, id int, detail string) {
		rc := ""
		if id >= 1 && id <= len(w.Script) {
			rc = w.Script[id-1].Class
		}
		if len(sy) < 50 {
			sy = append(sy, Symptom{Class: class, ReqID: id, ReqClass: rc, Detail: detail})
		}
	}
	if out.Panic != "" {
		add("panic", 0, out.Panic)
	}
	flat := map[int]byte{}
	open := map[int]*evIssue{}
	done := map[int]bool{}
	requester := ""
	var backingSeen bool
	for _, r := range out.Records {
		switch e := r.(type) {
		case evConfig:
			requester = e.Requester
		case evIssue:
			ee := e
			open[e.ID] = &ee
		case evRsp:
			is, ok := open[e.To]
			if !ok {
				if done[e.To] {
					add("duplicate_response", e.To, "")
				} else {
					add("response_to_unknown_request", e.To, "")
				}
				continue
			}
			delete(open, e.To)
			done[e.To] = true
			// one class per response, in the order of MemHier!Class
			want := "done"
			if is.K == "read" {
				want = "data"
			}
			switch {
			case e.K != want:
				add("wrong_kind", e.To, e.K)
			case e.Dst != requester:
				add("wrong_destination", e.To, e.Dst)
			case is.K == "read" && len(e.Data) != is.Len:
				add("wrong_length", e.To, fmt.Sprintf("%d bytes for a read of %d", len(e.Data), is.Len))
			case is.K == "read":
				for i := 0; i < is.Len; i++ {
					if e.Data[i] != flat[is.Addr+i] {
						add("wrong_data", e.To, fmt.Sprintf("byte %d of read @%d+%d: got %d want %d", i, is.Addr, is.Len, e.Data[i], flat[is.Addr+i]))
						break
					}
				}
			default:
				for i := 0; i < is.Len; i++ {
					if len(is.Mask) == 0 || is.Mask[i] {
						flat[is.Addr+i] = is.Data[i]
					}
				}
			}
		case evCtl:
			if !e.OK {
				add("control_"+e.Cmd+"_failed", 0, e.Comp+": "+e.Err)
			}
		case evFlush:
			if !e.OK {
				add("flush_refused", 0, e.Comp)
			} else if d := flushRule(&e); d != "" {
				add("flush_rule", 0, e.Comp+": "+d)
			}
		case evBacking:
			backingSeen = true
			busy := map[int]bool{}
			for _, is := range open {
				if is.K == "write" {
					for i := 0; i < is.Len; i++ {
						busy[is.Addr+i] = true
					}
				}
			}
			for a2, v := range e.Vals {
				if _, written := flat[a2]; !written {
					continue // the statement speaks about written addresses
				}
				if !busy[a2] && v != flat[a2] {
					add("backing_stale", 0, fmt.Sprintf("backing[%d] = %d, flat memory %d", a2, v, flat[a2]))
					break
				}
			}
		}
	}
	_ = backingSeen
	for id := range open {
		if out.Livelock {
			add("never_answered_livelock", id, "")
		} else {
			add("never_answered", id, "")
		}
	}
	return sy
}

// flushRule is the in-driver version of FlushFiltered (keys/minimisation only).
func flushRule(e *evFlush) string {
	match := func(b evBlock) bool {
		if e.PID != 0 && b.PID != e.PID {
			return false
		}
		if len(e.Addrs) == 0 {
			return true
		}
		for _, a := range e.Addrs {
			if floorDiv(a, e.BS)*e.BS == b.Tag {
				return true
			}
		}
		return false
	}
	want := map[int]int{}
	for i, b := range e.Before {
		a := e.After[i]
		if b.Valid && (!a.Valid || a.Tag != b.Tag || a.PID != b.PID) {
			return fmt.Sprintf("slot %d no longer holds its valid line", i)
		}
		if !b.Valid && a.Valid {
			return fmt.Sprintf("slot %d became valid", i)
		}
		if !b.Valid {
			continue
		}
		m := b.Dirty && match(b)
		if m {
			want[b.Tag]++
		}
		if a.Dirty != (b.Dirty && !m) {
			return fmt.Sprintf("slot %d (tag %d pid %d): dirty %v -> %v, matches filter: %v", i, b.Tag, b.PID, b.Dirty, a.Dirty, m)
		}
	}
	got := map[int]int{}
	for _, t := range e.Wrote {
		got[t]++
	}
	for _, t := range e.Pending { // queued before the flush: not the flush's doing
		if got[t] > 0 {
			got[t]--
			if got[t] == 0 {
				delete(got, t)
			}
		}
	}
	for t, n := range want {
		if got[t] != n {
			return fmt.Sprintf("line %d written back %d times, expected %d", t, got[t], n)
		}
	}
	for t, n := range got {
		if want[t] != n {
			return fmt.Sprintf("line %d written back %d times, expected %d", t, n, want[t])
		}
	}
	return ""
}

func floorDiv(a, b int) int {
	q := a / b
	if a%b != 0 && (a < 0) != (b < 0) {
		q--
	}
	return q
}
