package memhier

import (
	"encoding/json"
	"fmt"
	"math/rand"
	"sort"

	"github.com/sarchlab/akita/v5/hooking"
	"github.com/sarchlab/akita/v5/mem/memcontrolprotocol"
	"github.com/sarchlab/akita/v5/mem/memprotocol"
	"github.com/sarchlab/akita/v5/mem/vm"
	"github.com/sarchlab/akita/v5/messaging"
	"github.com/sarchlab/akita/v5/modeling"
	"github.com/sarchlab/akita/v5/timing"
)

// Bytes is a byte slice that travels as a JSON array of numbers (TLC reads it as a sequence).
type Bytes []byte

// MarshalJSON writes [1,2,3].
func (b Bytes) MarshalJSON() ([]byte, error) {
	out := make([]byte, 0, 2+4*len(b))
	out = append(out, '[')
	for i, v := range b {
		if i > 0 {
			out = append(out, ',')
		}
		out = appendInt(out, int(v))
	}
	return append(out, ']'), nil
}

func appendInt(out []byte, v int) []byte {
	if v >= 100 {
		out = append(out, byte('0'+v/100))
	}
	if v >= 10 {
		out = append(out, byte('0'+v/10%10))
	}
	return append(out, byte('0'+v%10))
}

// UnmarshalJSON reads [1,2,3].
func (b *Bytes) UnmarshalJSON(raw []byte) error {
	var xs []int
	if err := json.Unmarshal(raw, &xs); err != nil {
		return err
	}
	*b = make([]byte, len(xs))
	for i, x := range xs {
		(*b)[i] = byte(x)
	}
	return nil
}

// Req is one scripted request of the requester. Addresses are absolute.
type Req struct {
	Kind string `json:"k"` // read | write
	Addr uint64 `json:"addr"`
	Len  int    `json:"len"`
	Data Bytes  `json:"data,omitempty"`
	Mask []bool `json:"mask,omitempty"` // nil: every byte written
	Wait int    `json:"wait,omitempty"` // requester ticks to idle before issuing
	// Class: read | full | partial | masked (for reports only)
	Class string `json:"class,omitempty"`
	PID   uint32 `json:"pid"`
}

// WorkloadCfg configures an Agent.
type WorkloadCfg struct {
	Base        uint64 `json:"base"` // first byte of the footprint
	Size        int    `json:"size"` // bytes
	Concurrency int    `json:"conc"`
	Script      []Req  `json:"script"`
	// Flush, when set, makes the agent run the drain/flush programme of C17 after
	// the first FlushAt requests have been issued.
	Flush *FlushCfg `json:"flush,omitempty"`
	// Sweep: length of the initial sweep of the "slow lower level" family (0 otherwise); the drain/flush
	// programme of such a case starts right after it.
	Sweep int `json:"sweep,omitempty"`
}

// FlushCfg configures the drain/flush programme.
type FlushCfg struct {
	At       int   `json:"at"`       // script index at which the programme starts
	InFlight bool  `json:"inflight"` // start it while requests are still in flight
	Filters  int   `json:"filters"`  // filtered flushes per cache before the full flush
	Seed     int64 `json:"seed"`
}

// ---- trace records (every field always present: the trace specification reads them all)

type evConfig struct {
	E         string `json:"e"`
	Run       int    `json:"run"`
	Size      int    `json:"size"`
	Requester string `json:"requester"`
	Desc      string `json:"desc"`
}
type evIssue struct {
	E    string `json:"e"`
	ID   int    `json:"id"`
	K    string `json:"k"`
	Addr int    `json:"addr"` // relative to the footprint base
	Len  int    `json:"len"`
	Data Bytes  `json:"data"`
	Mask []bool `json:"mask"` // empty: every byte written
	T    uint64 `json:"t"`
}
type evRsp struct {
	E    string `json:"e"`
	To   int    `json:"to"` // request id, 0 when the response names no request of this run
	K    string `json:"k"`  // data | done | other
	Dst  string `json:"dst"`
	Data Bytes  `json:"data"`
	T    uint64 `json:"t"`
}
type evQuiesce struct {
	E        string `json:"e"`
	Unissued int    `json:"unissued"`
	Livelock bool   `json:"livelock"`
	T        uint64 `json:"t"`
}
type evCtl struct {
	E    string `json:"e"`
	Comp string `json:"comp"`
	Kind string `json:"kind"`
	Cmd  string `json:"cmd"`
	OK   bool   `json:"ok"`
	Err  string `json:"err"`
	// answered tells whether an acknowledgment arrived at all before the engine stopped
	Answered bool `json:"answered"`
}
type evBlock struct {
	Tag   int  `json:"tag"` // relative to the footprint base; 0 for an invalid slot
	PID   int  `json:"pid"`
	Valid bool `json:"valid"`
	Dirty bool `json:"dirty"`
}
type evFlush struct {
	E      string    `json:"e"`
	Comp   string    `json:"comp"`
	Kind   string    `json:"kind"`
	BS     int       `json:"bs"`
	Addrs  []int     `json:"addrs"` // filter addresses, relative
	PID    int       `json:"pid"`
	OK     bool      `json:"ok"`
	Before []evBlock `json:"before"`
	After  []evBlock `json:"after"`
	// Pending: lines whose eviction write-back was already queued in the cache's write buffer
	// when the flush was requested (they go out during the flush but are not its doing)
	Pending []int `json:"pending"`
	Wrote   []int `json:"wrote"` // line addresses written through the Bottom port during the flush
	Reads   int   `json:"reads"` // read requests sent through the Bottom port during the flush
}
type evPanic struct {
	E   string `json:"e"`
	Msg string `json:"msg"`
}
type evBacking struct {
	E    string `json:"e"`
	Vals Bytes  `json:"vals"` // backing storage over the whole footprint
}

// Agent is the requester: a ticking component owning a data port and a control port.
type Agent struct {
	*modeling.Component[struct{}, struct{}, modeling.None]
	st   *Stack
	cfg  WorkloadCfg
	mem  messaging.Port
	ctl  messaging.Port
	recs []any

	next     int
	waitLeft int
	waitFor  int            // script index the countdown belongs to
	inflight map[uint64]int // msg id -> request id (script index + 1)
	issued   map[uint64]int // every msg id ever issued -> request id
	busy     [][2]uint64    // byte ranges of in-flight requests, parallel to busyID
	busyID   []int
	answered int

	// control programme
	phase    string // work | control | done
	prog     *flushProg
	progress uint64 // counts issues and responses (livelock watchdog)
}

// NewAgent builds the requester and attaches it to the stack.
func NewAgent(st *Stack, cfg WorkloadCfg) *Agent {
	a := &Agent{st: st, cfg: cfg, inflight: map[uint64]int{}, issued: map[uint64]int{}, phase: "work", waitFor: -1}
	if a.cfg.Concurrency <= 0 {
		a.cfg.Concurrency = 1
	}
	a.Component = modeling.NewBuilder[struct{}, struct{}, modeling.None]().
		WithEngine(st.Registrar.GetEngine()).WithFreq(1 * timing.GHz).WithSpec(struct{}{}).Build("Agent")
	a.AddMiddleware(agentMW{a})
	a.DeclarePort("Mem", memprotocol.Requester)
	a.DeclarePort("Ctl", memcontrolprotocol.Requester)
	a.mem = modeling.MakePortBuilder().WithRegistrar(st.Registrar).WithComponent(a).
		WithSpec(modeling.PortSpec{BufSize: max(st.Cfg.PortBuf, 1)}).Build("Mem")
	a.ctl = modeling.MakePortBuilder().WithRegistrar(st.Registrar).WithComponent(a).
		WithSpec(modeling.PortSpec{BufSize: 2}).Build("Ctl")
	a.AssignPort("Mem", a.mem)
	a.AssignPort("Ctl", a.ctl)
	st.AttachRequester(a.mem, a.ctl)
	st.Registrar.RegisterComponent(a)
	return a
}

// MemPort is the requester's data port.
func (a *Agent) MemPort() messaging.Port { return a.mem }

// Records returns the trace records in engine order.
func (a *Agent) Records() []any { return a.recs }

// Start schedules the first tick.
func (a *Agent) Start() { a.TickLater() }

// Outstanding returns the ids of the requests not answered yet.
func (a *Agent) Outstanding() []int {
	var out []int
	for _, id := range a.inflight {
		out = append(out, id)
	}
	sort.Ints(out)
	return out
}

// Unissued is the number of scripted requests not issued yet.
func (a *Agent) Unissued() int { return len(a.cfg.Script) - a.next }

type agentMW struct{ a *Agent }

func (m agentMW) Tick() bool { return m.a.tick() }

// now is the engine time in ns (TLC integers are 32 bit; picoseconds would overflow).
func (a *Agent) now() uint64 { return uint64(a.CurrentTime()) / 1000 }

func (a *Agent) tick() bool {
	progress := false
	for {
		msg := a.mem.RetrieveIncoming()
		if msg == nil {
			break
		}
		a.response(msg)
		progress = true
	}
	if a.prog != nil {
		progress = a.prog.step() || progress
	}
	switch a.phase {
	case "work":
		progress = a.issue() || progress
		if f := a.cfg.Flush; f != nil && a.prog == nil && a.next >= min(f.At, len(a.cfg.Script)) {
			if f.InFlight || len(a.inflight) == 0 {
				a.phase = "control"
				a.prog = newFlushProg(a, f)
				progress = true
			}
		}
	case "control":
		if a.prog.done {
			a.phase = "work2"
			progress = true
		}
	case "work2":
		progress = a.issue() || progress
	}
	return progress
}

func (a *Agent) response(msg messaging.Msg) {
	meta := msg.Meta()
	rec := evRsp{E: "rsp", K: "other", Dst: string(meta.Dst), Data: Bytes{}, T: a.now()}
	switch m := msg.(type) {
	case memprotocol.DataReadyRsp:
		rec.K = "data"
		rec.Data = append(Bytes{}, m.Data...)
	case memprotocol.WriteDoneRsp:
		rec.K = "done"
	}
	if id, ok := a.issued[meta.RspTo]; ok {
		rec.To = id
	}
	if id, ok := a.inflight[meta.RspTo]; ok {
		delete(a.inflight, meta.RspTo)
		for i, b := range a.busyID {
			if b == id {
				a.busy = append(a.busy[:i], a.busy[i+1:]...)
				a.busyID = append(a.busyID[:i], a.busyID[i+1:]...)
				break
			}
		}
		a.answered++
	}
	a.recs = append(a.recs, rec)
	a.progress++
}

func (a *Agent) overlaps(lo, hi uint64) bool {
	for _, b := range a.busy {
		if lo < b[1] && b[0] < hi {
			return true
		}
	}
	return false
}

// issue sends the next scripted requests, in order, while the concurrency limit,
// the port and the no-overlap rule allow.
func (a *Agent) issue() bool {
	progress := false
	limit := len(a.cfg.Script)
	if f := a.cfg.Flush; f != nil && a.phase == "work" {
		limit = min(f.At, limit)
	}
	for a.next < limit && len(a.inflight) < a.cfg.Concurrency {
		r := &a.cfg.Script[a.next]
		if r.Wait > 0 {
			if a.waitFor != a.next {
				a.waitFor, a.waitLeft = a.next, r.Wait
			}
			if a.waitLeft > 0 {
				a.waitLeft--
				return true
			}
		}
		lo, hi := r.Addr, r.Addr+uint64(r.Len)
		if a.overlaps(lo, hi) || !a.mem.CanSend() {
			break
		}
		id := a.next + 1
		var msg messaging.Msg
		rec := evIssue{E: "issue", ID: id, K: r.Kind, Addr: int(r.Addr - a.cfg.Base), Len: r.Len, Data: Bytes{}, Mask: []bool{}, T: a.now()}
		meta := messaging.MsgMeta{ID: timing.GetIDGenerator().Generate(), Src: a.mem.AsRemote(), Dst: a.st.TopPortFor(r.Addr)}
		if r.Kind == "read" {
			meta.TrafficBytes, meta.TrafficClass = 12, "memprotocol.ReadReq"
			msg = memprotocol.ReadReq{MsgMeta: meta, Address: r.Addr, AccessByteSize: uint64(r.Len), PID: vm.PID(r.PID)}
		} else {
			meta.TrafficBytes, meta.TrafficClass = len(r.Data)+12, "memprotocol.WriteReq"
			w := memprotocol.WriteReq{MsgMeta: meta, Address: r.Addr, Data: append([]byte{}, r.Data...), PID: vm.PID(r.PID)}
			if r.Mask != nil {
				w.DirtyMask = append([]bool{}, r.Mask...)
				rec.Mask = r.Mask
			}
			rec.Data = r.Data
			msg = w
		}
		a.mem.Send(msg)
		a.inflight[meta.ID] = id
		a.issued[meta.ID] = id
		a.busy = append(a.busy, [2]uint64{lo, hi})
		a.busyID = append(a.busyID, id)
		a.recs = append(a.recs, rec)
		a.next++
		a.progress++
		progress = true
	}
	return progress
}

// ---------------------------------------------------------------- drain / flush programme

type bottomWatch struct {
	on     bool
	wrote  []uint64
	reads  int
	others int
}

func (w *bottomWatch) Func(ctx hooking.HookCtx) {
	if !w.on || ctx.Pos != messaging.HookPosPortMsgSend {
		return
	}
	switch m := ctx.Item.(type) {
	case memprotocol.WriteReq:
		w.wrote = append(w.wrote, m.Address)
	case memprotocol.ReadReq:
		w.reads++
	default:
		w.others++
	}
}

type ctlStep struct {
	comp   *Comp
	cmd    memcontrolprotocol.Command
	addrs  []uint64
	pid    uint32
	filter bool
}

type flushProg struct {
	a       *Agent
	f       *FlushCfg
	rng     *rand.Rand
	queue   []ctlStep
	cur     *ctlStep
	curID   uint64
	before  []DirBlock
	pending []uint64
	watch   map[*Comp]*bottomWatch
	done    bool
	compIdx int
	stage   int // per component: 0 drain, 1.. filtered flushes, then full flush
	enable  bool
}

func newFlushProg(a *Agent, f *FlushCfg) *flushProg {
	p := &flushProg{a: a, f: f, rng: rand.New(rand.NewSource(f.Seed)), watch: map[*Comp]*bottomWatch{}}
	for _, c := range a.st.Caches() {
		w := &bottomWatch{}
		c.Bottom.AcceptHook(w)
		p.watch[c] = w
	}
	return p
}

var cmdName = map[memcontrolprotocol.Command]string{memcontrolprotocol.CmdPause: "pause", memcontrolprotocol.CmdDrain: "drain",
	memcontrolprotocol.CmdEnable: "enable", memcontrolprotocol.CmdReset: "reset", memcontrolprotocol.CmdInvalidate: "invalidate",
	memcontrolprotocol.CmdFlush: "flush"}

// plan produces the next control step, or nil when the programme is finished.
// Order: every component that is not a memory controller, top-down: Drain, then (caches)
// Filters filtered flushes and one unfiltered flush; then the backing storage is
// compared; then everything is enabled again bottom-up.
func (p *flushProg) plan() *ctlStep {
	comps := p.targets()
	for !p.enable {
		if p.compIdx >= len(comps) {
			p.backing()
			p.enable = true
			p.compIdx = len(comps) - 1
			break
		}
		c := comps[p.compIdx]
		nflush := 0
		if IsCache(c.Kind) {
			nflush = p.f.Filters + 1
		}
		if p.stage == 0 {
			p.stage++
			return &ctlStep{comp: c, cmd: memcontrolprotocol.CmdDrain}
		}
		if p.stage <= nflush {
			k := p.stage
			p.stage++
			if k == nflush {
				return &ctlStep{comp: c, cmd: memcontrolprotocol.CmdFlush}
			}
			return p.filtered(c, k)
		}
		p.compIdx++
		p.stage = 0
	}
	if p.compIdx < 0 {
		return nil
	}
	c := comps[p.compIdx]
	p.compIdx--
	return &ctlStep{comp: c, cmd: memcontrolprotocol.CmdEnable}
}

func (p *flushProg) targets() []*Comp {
	var out []*Comp
	for _, c := range p.a.st.Comps {
		if !IsController(c.Kind) {
			out = append(out, c)
		}
	}
	return out
}

// filtered draws a filter from the present contents of the directory: an address list
// (dirty, clean and absent lines, line-aligned or not), a process id, or both.
func (p *flushProg) filtered(c *Comp, k int) *ctlStep {
	dir := c.SnapshotDirectory()
	bs := c.BlockSize()
	s := &ctlStep{comp: c, cmd: memcontrolprotocol.CmdFlush, filter: true}
	var dirty, clean []DirBlock
	pids := map[uint32]bool{}
	for _, b := range dir {
		if !b.Valid {
			continue
		}
		pids[b.PID] = true
		if b.Dirty {
			dirty = append(dirty, b)
		} else {
			clean = append(clean, b)
		}
	}
	mode := (k - 1 + int(uint64(p.f.Seed)%3)) % 3 // 0 addresses, 1 pid, 2 both
	if mode == 0 || mode == 2 {
		for _, b := range dirty {
			if p.rng.Intn(2) == 0 {
				s.addrs = append(s.addrs, b.Tag+uint64(p.rng.Intn(2))*uint64(p.rng.Intn(int(bs))))
			}
		}
		for _, b := range clean {
			if p.rng.Intn(3) == 0 {
				s.addrs = append(s.addrs, b.Tag)
			}
		}
		// a line of the footprint that may be absent
		s.addrs = append(s.addrs, p.a.cfg.Base+uint64(p.rng.Intn(max(p.a.cfg.Size, 1))))
		p.rng.Shuffle(len(s.addrs), func(i, j int) { s.addrs[i], s.addrs[j] = s.addrs[j], s.addrs[i] })
	}
	if mode == 1 || mode == 2 {
		var ps []uint32
		for q := range pids {
			if q != 0 {
				ps = append(ps, q)
			}
		}
		sort.Slice(ps, func(i, j int) bool { return ps[i] < ps[j] })
		switch {
		case len(ps) > 0 && p.rng.Intn(5) != 0:
			s.pid = ps[p.rng.Intn(len(ps))]
		default:
			s.pid = 7 // a process that owns no line
		}
	}
	return s
}

func (p *flushProg) step() bool {
	if p.done {
		return false
	}
	a := p.a
	progress := false
	if p.cur != nil {
		msg := a.ctl.PeekIncoming()
		if msg == nil {
			return false
		}
		a.ctl.RetrieveIncoming()
		rsp, ok := msg.(memcontrolprotocol.Rsp)
		if !ok || rsp.RspTo != p.curID {
			a.recs = append(a.recs, evCtl{E: "ctl", Comp: p.cur.comp.Name, Kind: p.cur.comp.Kind, Cmd: "unexpected:" + fmt.Sprintf("%T", msg), Answered: true})
			return true
		}
		p.finish(rsp)
		p.cur = nil
		a.progress++
		progress = true
	}
	if !a.ctl.CanSend() {
		return progress
	}
	s := p.plan()
	if s == nil {
		p.done = true
		return true
	}
	req := memcontrolprotocol.Req{Command: s.cmd, Addresses: s.addrs, PID: vm.PID(s.pid)}
	req.ID = timing.GetIDGenerator().Generate()
	req.Src = a.ctl.AsRemote()
	req.Dst = s.comp.Control.AsRemote()
	req.TrafficClass = "memcontrolprotocol.Req"
	if s.cmd == memcontrolprotocol.CmdFlush {
		p.before = s.comp.SnapshotDirectory()
		p.pending = s.comp.PendingEvictions()
		if w := p.watch[s.comp]; w != nil {
			*w = bottomWatch{on: true}
		}
	}
	a.ctl.Send(req)
	p.cur, p.curID = s, req.ID
	return true
}

func (p *flushProg) rel(x uint64) int { return int(int64(x) - int64(p.a.cfg.Base)) }

func (p *flushProg) blocks(d []DirBlock) []evBlock {
	out := make([]evBlock, len(d))
	for i, b := range d {
		out[i] = evBlock{PID: int(b.PID), Valid: b.Valid, Dirty: b.Dirty}
		if b.Valid {
			out[i].Tag = p.rel(b.Tag)
		}
	}
	return out
}

func (p *flushProg) finish(rsp memcontrolprotocol.Rsp) {
	s := p.cur
	a := p.a
	if s.cmd != memcontrolprotocol.CmdFlush {
		a.recs = append(a.recs, evCtl{E: "ctl", Comp: s.comp.Name, Kind: s.comp.Kind, Cmd: cmdName[s.cmd], OK: rsp.Success && rsp.Command == s.cmd,
			Err: rsp.Error, Answered: true})
		return
	}
	rec := evFlush{E: "flush", Comp: s.comp.Name, Kind: s.comp.Kind, BS: int(s.comp.BlockSize()), Addrs: []int{}, PID: int(s.pid),
		OK: rsp.Success && rsp.Command == s.cmd, Before: p.blocks(p.before), After: p.blocks(s.comp.SnapshotDirectory()), Wrote: []int{}}
	for _, x := range s.addrs {
		rec.Addrs = append(rec.Addrs, p.rel(x))
	}
	rec.Pending = []int{}
	for _, x := range p.pending {
		rec.Pending = append(rec.Pending, p.rel(x))
	}
	if w := p.watch[s.comp]; w != nil {
		w.on = false
		for _, x := range w.wrote {
			rec.Wrote = append(rec.Wrote, p.rel(x))
		}
		rec.Reads = w.reads
	}
	a.recs = append(a.recs, rec)
}

// backing reads the controllers' storages over the whole footprint.
func (p *flushProg) backing() {
	a := p.a
	vals, err := a.st.ReadBacking(a.cfg.Base, uint64(a.cfg.Size))
	if err != nil {
		panic(fmt.Sprintf("reading the backing storage: %v", err))
	}
	a.recs = append(a.recs, evBacking{E: "backing", Vals: vals})
}

// pendingCtl reports the control command that was never acknowledged (engine stopped).
func (p *flushProg) pendingCtl() *evCtl {
	if p == nil || p.done || p.cur == nil {
		return nil
	}
	return &evCtl{E: "ctl", Comp: p.cur.comp.Name, Kind: p.cur.comp.Kind, Cmd: cmdName[p.cur.cmd], OK: false, Err: "never acknowledged", Answered: false}
}
