package memhier

import (
	"fmt"
	"strings"

	"github.com/sarchlab/akita/v5/messaging"
)

// AttachRequester plugs a requester's data port into the top connection and its
// control port (may be nil) into the control connection.
func (st *Stack) AttachRequester(data, ctl messaging.Port) {
	st.TopConn.PlugIn(data)
	if ctl != nil {
		st.CtlConn.PlugIn(ctl)
	}
}

// TopPortFor returns the port a requester must address for addr.
func (st *Stack) TopPortFor(addr uint64) messaging.RemotePort {
	return pick(st.Top, st.Cfg.Interleave, addr).Top.AsRemote()
}

func pick(cs []*Comp, interleave uint64, addr uint64) *Comp {
	if len(cs) == 1 {
		return cs[0]
	}
	return cs[addr/interleave%uint64(len(cs))]
}

// Path returns the components an access to addr goes through, top-down, ending
// with the memory controller that owns the address.
func (st *Stack) Path(addr uint64) []*Comp {
	var path []*Comp
	c := pick(st.Top, st.Cfg.Interleave, addr)
	for {
		path = append(path, c)
		if len(c.Lower) == 0 {
			return path
		}
		c = pick(c.Lower, c.Interleave, addr)
	}
}

// Controller returns the memory controller owning addr (honouring every interleaving).
func (st *Stack) Controller(addr uint64) *Comp {
	p := st.Path(addr)
	return p[len(p)-1]
}

// ReadBacking reads one byte range directly from the storage of the owning
// memory controller(s). The library's controllers store at the raw address.
func (st *Stack) ReadBacking(addr, n uint64) ([]byte, error) {
	out := make([]byte, 0, n)
	for i := uint64(0); i < n; i++ {
		b, err := st.Controller(addr+i).Storage.Read(addr+i, 1)
		if err != nil {
			return nil, err
		}
		out = append(out, b[0])
	}
	return out, nil
}

// Caches lists the caches top-down.
func (st *Stack) Caches() []*Comp {
	var cs []*Comp
	for _, c := range st.Comps {
		if IsCache(c.Kind) {
			cs = append(cs, c)
		}
	}
	return cs
}

// Granule is the largest power-of-two block inside which a request of a
// requester must stay: the smallest cache line of the stack (64 without caches).
func (cfg *StackCfg) Granule() uint64 {
	g := uint64(64)
	walk(cfg.Top, func(n *Node, _ int) {
		if IsCache(n.Kind) && uint64(1)<<uint(n.Log2Block) < g {
			g = 1 << uint(n.Log2Block)
		}
	})
	return g
}

// MaxBlock is the largest cache line of the stack (64 without caches).
func (cfg *StackCfg) MaxBlock() uint64 {
	g := uint64(64)
	walk(cfg.Top, func(n *Node, _ int) {
		if IsCache(n.Kind) && uint64(1)<<uint(n.Log2Block) > g {
			g = 1 << uint(n.Log2Block)
		}
	})
	return g
}

func walk(ns []Node, f func(n *Node, level int)) {
	var rec func(ns []Node, level int)
	rec = func(ns []Node, level int) {
		for i := range ns {
			f(&ns[i], level)
			rec(ns[i].Lower, level+1)
		}
	}
	rec(ns, 0)
}

// Kinds returns the distinct component kinds of the stack, in first-seen top-down order
// (dram kinds carry their preset).
func (cfg *StackCfg) Kinds() []string {
	var out []string
	seen := map[string]bool{}
	walk(cfg.Top, func(n *Node, _ int) {
		k := n.Kind
		if !seen[k] {
			seen[k] = true
			out = append(out, k)
		}
	})
	return out
}

// Chain returns the kinds along the first branch, top-down (multiplicity kept), e.g.
// ["writeevict", "writeevict", "ideal"].
func (cfg *StackCfg) Chain() []string {
	var out []string
	ns := cfg.Top
	for len(ns) > 0 {
		out = append(out, ns[0].Kind)
		ns = ns[0].Lower
	}
	return out
}

// Describe renders the tree compactly, e.g. "writeback>rob>[ideal|ideal]/4096".
func (cfg *StackCfg) Describe() string {
	var rec func(ns []Node, il uint64) string
	rec = func(ns []Node, il uint64) string {
		var parts []string
		for i := range ns {
			n := &ns[i]
			s := n.Kind
			if n.Kind == "dram" {
				p := n.Preset
				if p == "" {
					p = "default"
				}
				s += ":" + p
			}
			if len(n.Lower) > 0 {
				s += ">" + rec(n.Lower, n.Interleave)
			}
			parts = append(parts, s)
		}
		if len(parts) == 1 {
			return parts[0]
		}
		return fmt.Sprintf("[%s]/%d", strings.Join(parts, "|"), il)
	}
	return rec(cfg.Top, cfg.Interleave)
}

// Clone deep-copies a configuration.
func (cfg StackCfg) Clone() StackCfg {
	out := cfg
	out.Top = cloneNodes(cfg.Top)
	return out
}

func cloneNodes(ns []Node) []Node {
	if ns == nil {
		return nil
	}
	out := make([]Node, len(ns))
	for i := range ns {
		out[i] = ns[i]
		out[i].Lower = cloneNodes(ns[i].Lower)
	}
	return out
}

// DirBlock is the projection of one directory slot used by the C17 rule.
type DirBlock struct {
	Set   int    `json:"set"`
	Way   int    `json:"way"`
	Tag   uint64 `json:"tag"`
	PID   uint32 `json:"pid"`
	Valid bool   `json:"valid"`
	Dirty bool   `json:"dirty"`
}

// SnapshotDirectory projects the directory of a cache (slot order: set-major).
func (c *Comp) SnapshotDirectory() []DirBlock {
	d := c.Directory()
	if d == nil {
		return nil
	}
	var out []DirBlock
	for s := range d.Sets {
		for w := range d.Sets[s].Blocks {
			b := &d.Sets[s].Blocks[w]
			out = append(out, DirBlock{Set: s, Way: w, Tag: b.Tag, PID: b.PID, Valid: b.IsValid, Dirty: b.IsValid && b.IsDirty})
		}
	}
	return out
}

// PendingEvictions lists the lines whose eviction write-back a write-back cache has queued in
// its write buffer but not sent yet (nil for other components).
func (c *Comp) PendingEvictions() []uint64 {
	if c.WB == nil {
		return nil
	}
	var out []uint64
	st := &c.WB.State
	for _, idx := range st.PendingEvictionIndices {
		if idx >= 0 && idx < len(st.Transactions) {
			out = append(out, st.Transactions[idx].EvictingAddr)
		}
	}
	return out
}
