// Package memhier builds memory hierarchies ("stacks") out of the real akita
// components from a JSON description, drives them with a requester agent that
// records every requester-side event, and runs the control-protocol
// drain/flush programme of C17.
//
// # Reusable part (C03, C06, C32, C33 import this)
//
//	st, err := memhier.BuildStack(cfg)            // fresh timing.SerialEngine + standalone registrar
//	st, err := memhier.BuildStackOn(reg, cfg)     // any modeling.Registrar (e.g. *simulation.Simulation)
//	ag := memhier.NewAgent(st, memhier.WorkloadCfg{...})   // requester owning ports "Agent.Mem"/"Agent.Ctl"
//	ag.Start(); st.Engine.Run(); ag.Events() ...
//
// # JSON stack description
//
// A stack is a tree. The requester talks to the Top node(s); every node that is
// not a memory controller has one or more Lower nodes. With more than one
// node in Top/Lower the addresses are interleaved over them
// (mem.InterleavedAddressPortMapper semantics: module = addr / Interleave % n).
//
//	{
//	  "port_buf": 4,              // default capacity of every port buffer (in and out)
//	  "interleave": 4096,         // bytes, used when len(top) > 1
//	  "top": [ NODE, ... ]
//	}
//
//	NODE = {
//	  "kind": "writeback" | "writearound" | "writeevict" | "writethrough" | "rob"
//	        | "ideal" | "banked" | "dram",
//	  "name": "L1",               // optional; default "<KIND><level>[.<index>]"
//	  "freq_mhz": 1000,           // component frequency (default 1000; dram: preset's)
//	  "port_buf": 0,              // overrides the stack default when > 0
//	  "interleave": 4096,         // interleaving of "lower" when len(lower) > 1
//	  "lower": [ NODE, ... ],     // caches: >= 1; rob: exactly 1; controllers: none
//
//	  // caches (writeback + the three writethroughcache policies)
//	  "log2_block": 6, "sets": 2, "ways": 2, "mshr": 2, "req_per_cycle": 1,
//	  "banks": 1, "bank_latency": 2, "dir_latency": 1,
//	  "wb_cap": 2, "max_fetch": 2, "max_evict": 2,     // writeback only
//	  "max_trans": 4,                                  // writethroughcache only
//
//	  // rob
//	  "buffer_size": 4,  (+ "req_per_cycle")
//
//	  // ideal (idealmemcontroller)
//	  "latency": 10, "width": 1,
//
//	  // banked (simplebankedmemory)
//	  "banks": 2, "pipe_width": 1, "pipe_depth": 1, "stage_latency": 2, "post_buf": 1,
//	  "log2_bank_interleave": 6,
//
//	  // dram
//	  "preset": "default" | "DDR4" | "DDR5" | "HBM2" | "HBM3" | "GDDR6",
//	  "open_page": false, "trans_queue": 32, "cmd_queue": 8,
//
//	  "capacity": 0               // controllers: storage capacity in bytes (0 = builder default)
//	}
//
// Zero-valued numeric fields take the builder defaults of the component, except
// the cache geometry, which must be given (sets, ways, log2_block).
package memhier

import (
	"fmt"

	"github.com/sarchlab/akita/v5/mem"
	"github.com/sarchlab/akita/v5/mem/cache"
	"github.com/sarchlab/akita/v5/mem/cache/writeback"
	"github.com/sarchlab/akita/v5/mem/cache/writethroughcache"
	"github.com/sarchlab/akita/v5/mem/dram"
	"github.com/sarchlab/akita/v5/mem/idealmemcontroller"
	"github.com/sarchlab/akita/v5/mem/rob"
	"github.com/sarchlab/akita/v5/mem/simplebankedmemory"
	"github.com/sarchlab/akita/v5/messaging"
	"github.com/sarchlab/akita/v5/modeling"
	"github.com/sarchlab/akita/v5/noc/directconnection"
	"github.com/sarchlab/akita/v5/timing"
)

// Node is one component of a stack (see the package comment).
type Node struct {
	Kind       string `json:"kind"`
	Name       string `json:"name,omitempty"`
	FreqMHz    int    `json:"freq_mhz,omitempty"`
	PortBuf    int    `json:"port_buf,omitempty"`
	Interleave uint64 `json:"interleave,omitempty"`
	Lower      []Node `json:"lower,omitempty"`

	Log2Block   int `json:"log2_block,omitempty"`
	Sets        int `json:"sets,omitempty"`
	Ways        int `json:"ways,omitempty"`
	MSHR        int `json:"mshr,omitempty"`
	ReqPerCycle int `json:"req_per_cycle,omitempty"`
	Banks       int `json:"banks,omitempty"`
	BankLatency int `json:"bank_latency"`
	DirLatency  int `json:"dir_latency"`
	WBCap       int `json:"wb_cap,omitempty"`
	MaxFetch    int `json:"max_fetch,omitempty"`
	MaxEvict    int `json:"max_evict,omitempty"`
	MaxTrans    int `json:"max_trans,omitempty"`

	BufferSize int `json:"buffer_size,omitempty"`

	Latency int `json:"latency"`
	Width   int `json:"width,omitempty"`

	PipeWidth          int `json:"pipe_width,omitempty"`
	PipeDepth          int `json:"pipe_depth"`
	StageLatency       int `json:"stage_latency,omitempty"`
	PostBuf            int `json:"post_buf,omitempty"`
	Log2BankInterleave int `json:"log2_bank_interleave,omitempty"`

	Preset     string `json:"preset,omitempty"`
	OpenPage   bool   `json:"open_page,omitempty"`
	TransQueue int    `json:"trans_queue,omitempty"`
	CmdQueue   int    `json:"cmd_queue,omitempty"`

	Capacity uint64 `json:"capacity,omitempty"`
}

// StackCfg is the JSON description of a whole stack.
type StackCfg struct {
	PortBuf    int    `json:"port_buf,omitempty"`
	Interleave uint64 `json:"interleave,omitempty"`
	Top        []Node `json:"top"`
}

// IsCache tells whether the kind is one of the four cache flavours.
func IsCache(kind string) bool {
	switch kind {
	case "writeback", "writearound", "writeevict", "writethrough":
		return true
	}
	return false
}

// IsController tells whether the kind is a memory controller (a leaf).
func IsController(kind string) bool {
	return kind == "ideal" || kind == "banked" || kind == "dram"
}

// Comp is one built component of a stack.
type Comp struct {
	Name    string
	Kind    string
	Node    *Node
	Level   int // 0 = directly below the requester
	Top     messaging.Port
	Bottom  messaging.Port // nil for controllers
	Control messaging.Port
	Lower   []*Comp
	// Interleave is the interleaving size over Lower (bytes).
	Interleave uint64

	WB     *writeback.Comp
	WT     *writethroughcache.Comp
	ROB    *rob.Comp
	Ideal  *idealmemcontroller.Comp
	Banked *simplebankedmemory.Comp
	DRAM   *dram.Comp

	// Storage is the backing storage of a controller, or the data array of a cache.
	Storage *mem.Storage
	// Model is the component as a messaging.Component (for hooks, TickLater, checkpoints).
	Model messaging.Component
	// Tick schedules the component's next tick.
	Tick func()
}

// Directory returns the live directory of a cache (nil otherwise).
func (c *Comp) Directory() *cache.DirectoryState {
	switch {
	case c.WB != nil:
		return &c.WB.State.DirectoryState
	case c.WT != nil:
		return &c.WT.State.DirectoryState
	}
	return nil
}

// BlockSize returns the line size of a cache (0 otherwise).
func (c *Comp) BlockSize() uint64 {
	if IsCache(c.Kind) {
		return 1 << uint(c.Node.Log2Block)
	}
	return 0
}

// Stack is a built hierarchy.
type Stack struct {
	Cfg       StackCfg
	Engine    timing.Engine
	Registrar modeling.Registrar
	// Comps lists every component top-down (breadth first): a component always
	// comes after everything above it.
	Comps []*Comp
	Top   []*Comp
	Conns []*directconnection.Comp
	// TopConn carries the requester's traffic to Top; CtlConn reaches every Control port.
	TopConn *directconnection.Comp
	CtlConn *directconnection.Comp

	connOfChild map[*Node]*directconnection.Comp
}

// BuildStack builds cfg on a fresh serial engine.
func BuildStack(cfg StackCfg) (*Stack, error) {
	engine := timing.NewSerialEngine()
	st, err := BuildStackOn(modeling.NewStandaloneRegistrar(engine), cfg)
	if st != nil {
		st.Engine = engine
	}
	return st, err
}

// BuildStackOn builds cfg with the given registrar (its engine is used). Builder
// panics are returned as errors (a configuration the builders reject).
func BuildStackOn(reg modeling.Registrar, cfg StackCfg) (st *Stack, err error) {
	defer func() {
		if p := recover(); p != nil {
			st, err = nil, fmt.Errorf("builder rejected the configuration: %v", p)
		}
	}()
	if len(cfg.Top) == 0 {
		return nil, fmt.Errorf("empty stack")
	}
	if cfg.PortBuf <= 0 {
		cfg.PortBuf = 4
	}
	st = &Stack{Cfg: cfg, Registrar: reg, connOfChild: map[*Node]*directconnection.Comp{}}
	if e, ok := reg.GetEngine().(timing.Engine); ok {
		st.Engine = e
	}
	if err := assignNames(&st.Cfg); err != nil {
		return nil, err
	}
	st.TopConn = st.newConn("Conn.Top")
	st.CtlConn = st.newConn("Conn.Ctl")
	// breadth first, so that Comps is top-down
	type job struct {
		node  *Node
		level int
		out   **Comp
	}
	st.Top = make([]*Comp, len(st.Cfg.Top))
	var queue []job
	for i := range st.Cfg.Top {
		queue = append(queue, job{&st.Cfg.Top[i], 0, &st.Top[i]})
	}
	for len(queue) > 0 {
		j := queue[0]
		queue = queue[1:]
		c, err := st.buildNode(j.node, j.level)
		if err != nil {
			return nil, err
		}
		*j.out = c
		st.Comps = append(st.Comps, c)
		c.Lower = make([]*Comp, len(j.node.Lower))
		for i := range j.node.Lower {
			queue = append(queue, job{&j.node.Lower[i], j.level + 1, &c.Lower[i]})
		}
	}
	return st, nil
}

// assignNames gives every node a unique name (kept when given) and checks the shape.
func assignNames(cfg *StackCfg) error {
	seen := map[string]bool{}
	type item struct {
		n     *Node
		level int
	}
	var queue []item
	for i := range cfg.Top {
		queue = append(queue, item{&cfg.Top[i], 0})
	}
	count := map[string]int{}
	for len(queue) > 0 {
		it := queue[0]
		queue = queue[1:]
		n := it.n
		if n.Name == "" {
			base := fmt.Sprintf("%s%d", kindTag(n.Kind), it.level)
			n.Name = base
			if count[base] > 0 {
				n.Name = fmt.Sprintf("%sX%d", base, count[base])
			}
			count[base]++
		}
		if seen[n.Name] {
			return fmt.Errorf("duplicate component name %s", n.Name)
		}
		seen[n.Name] = true
		switch {
		case IsController(n.Kind):
			if len(n.Lower) != 0 {
				return fmt.Errorf("%s: a memory controller has no lower module", n.Name)
			}
		case n.Kind == "rob":
			if len(n.Lower) != 1 {
				return fmt.Errorf("%s: a rob has exactly one lower module", n.Name)
			}
		case IsCache(n.Kind):
			if len(n.Lower) == 0 {
				return fmt.Errorf("%s (%s) has no lower module", n.Name, n.Kind)
			}
		default:
			return fmt.Errorf("unknown component kind %q", n.Kind)
		}
		if len(n.Lower) > 1 && n.Interleave == 0 {
			return fmt.Errorf("%s: interleave size missing", n.Name)
		}
		for i := range n.Lower {
			queue = append(queue, item{&n.Lower[i], it.level + 1})
		}
	}
	if len(cfg.Top) > 1 && cfg.Interleave == 0 {
		return fmt.Errorf("top: interleave size missing")
	}
	return nil
}

func kindTag(kind string) string {
	return map[string]string{"writeback": "WB", "writearound": "WA", "writeevict": "WE", "writethrough": "WT",
		"rob": "ROB", "ideal": "IDEAL", "banked": "BANKED", "dram": "DRAM"}[kind]
}

// TopPortName is the name of the Top port of the component built from n.
func TopPortName(n *Node) messaging.RemotePort { return messaging.RemotePort(n.Name + ".Top") }

// mapperFor builds the address-to-port mapper over the lower nodes of n.
func mapperFor(lower []Node, interleave uint64) mem.AddressToPortMapper {
	if len(lower) == 1 {
		return &mem.SinglePortMapper{Port: TopPortName(&lower[0])}
	}
	m := mem.NewInterleavedAddressPortMapper(interleave)
	for i := range lower {
		m.LowModules = append(m.LowModules, TopPortName(&lower[i]))
	}
	return m
}

func (st *Stack) newConn(name string) *directconnection.Comp {
	c := directconnection.MakeBuilder().WithRegistrar(st.Registrar).Build(name)
	st.Conns = append(st.Conns, c)
	return c
}

func (st *Stack) port(comp messaging.Component, name string, n *Node) messaging.Port {
	sz := st.Cfg.PortBuf
	if n != nil && n.PortBuf > 0 {
		sz = n.PortBuf
	}
	return modeling.MakePortBuilder().WithRegistrar(st.Registrar).WithComponent(comp).
		WithSpec(modeling.PortSpec{BufSize: sz}).Build(name)
}

func freq(n *Node) timing.Freq {
	if n.FreqMHz > 0 {
		return timing.Freq(n.FreqMHz) * timing.MHz
	}
	return 1 * timing.GHz
}

func or(v, d int) int {
	if v > 0 {
		return v
	}
	return d
}

// DRAMPreset returns the named preset spec ("default" = dram.DefaultSpec()).
func DRAMPreset(name string) (dram.Spec, error) {
	switch name {
	case "", "default", "DDR3":
		return dram.DefaultSpec(), nil
	case "DDR4":
		return dram.DDR4Spec, nil
	case "DDR5":
		return dram.DDR5Spec, nil
	case "HBM2":
		return dram.HBM2Spec, nil
	case "HBM3":
		return dram.HBM3Spec, nil
	case "GDDR6":
		return dram.GDDR6Spec, nil
	}
	return dram.Spec{}, fmt.Errorf("unknown dram preset %q", name)
}

// DRAMPresets lists the preset names BuildStack understands.
var DRAMPresets = []string{"default", "DDR4", "DDR5", "HBM2", "HBM3", "GDDR6"}

// buildNode builds the component of one node and plugs its ports.
func (st *Stack) buildNode(n *Node, level int) (*Comp, error) {
	name := n.Name
	c := &Comp{Name: name, Kind: n.Kind, Node: n, Level: level, Interleave: n.Interleave}
	switch n.Kind {
	case "ideal":
		sp := idealmemcontroller.DefaultSpec()
		sp.Freq = freq(n)
		sp.Latency = n.Latency
		sp.Width = or(n.Width, sp.Width)
		if n.Capacity > 0 {
			sp.Capacity = n.Capacity
		}
		m := idealmemcontroller.MakeBuilder().WithRegistrar(st.Registrar).WithSpec(sp).Build(name)
		c.Ideal, c.Model, c.Tick, c.Storage = m, m, m.TickLater, m.Resources().Storage
	case "banked":
		sp := simplebankedmemory.DefaultSpec()
		sp.Freq = freq(n)
		sp.NumBanks = or(n.Banks, sp.NumBanks)
		sp.BankPipelineWidth = or(n.PipeWidth, sp.BankPipelineWidth)
		sp.BankPipelineDepth = n.PipeDepth
		sp.StageLatency = or(n.StageLatency, sp.StageLatency)
		sp.PostPipelineBufSize = or(n.PostBuf, sp.PostPipelineBufSize)
		if n.Log2BankInterleave > 0 {
			sp.BankSelectorLog2InterleaveSize = uint64(n.Log2BankInterleave)
		}
		if n.Capacity > 0 {
			sp.Capacity = n.Capacity
		}
		m := simplebankedmemory.MakeBuilder().WithRegistrar(st.Registrar).WithSpec(sp).Build(name)
		c.Banked, c.Model, c.Tick, c.Storage = m, m, m.TickLater, m.Resources().Storage
	case "dram":
		sp, err := DRAMPreset(n.Preset)
		if err != nil {
			return nil, err
		}
		if n.FreqMHz > 0 {
			sp.Freq = freq(n)
		}
		if n.OpenPage {
			sp.PagePolicy = dram.PagePolicyOpen
		}
		sp.TransactionQueueSize = or(n.TransQueue, sp.TransactionQueueSize)
		sp.CommandQueueCapacity = or(n.CmdQueue, sp.CommandQueueCapacity)
		m := dram.MakeBuilder().WithRegistrar(st.Registrar).WithSpec(sp).Build(name)
		c.DRAM, c.Model, c.Tick, c.Storage = m, m, m.TickLater, m.Resources().Storage
	case "rob":
		sp := rob.DefaultSpec()
		sp.Freq = freq(n)
		sp.BufferSize = or(n.BufferSize, sp.BufferSize)
		sp.NumReqPerCycle = or(n.ReqPerCycle, sp.NumReqPerCycle)
		sp.BottomUnit = TopPortName(&n.Lower[0])
		m := rob.MakeBuilder().WithRegistrar(st.Registrar).WithSpec(sp).Build(name)
		c.ROB, c.Model, c.Tick = m, m, m.TickLater
	case "writeback":
		if n.Sets <= 0 || n.Ways <= 0 || n.Log2Block <= 0 {
			return nil, fmt.Errorf("%s: cache geometry missing", name)
		}
		sp := writeback.DefaultSpec()
		sp.Freq = freq(n)
		sp.Log2BlockSize = uint64(n.Log2Block)
		sp.WayAssociativity = n.Ways
		sp.TotalByteSize = uint64(n.Sets*n.Ways) << uint(n.Log2Block)
		sp.NumMSHREntry = or(n.MSHR, sp.NumMSHREntry)
		sp.NumReqPerCycle = or(n.ReqPerCycle, sp.NumReqPerCycle)
		sp.NumBanks = or(n.Banks, sp.NumBanks)
		sp.BankLatency = n.BankLatency
		sp.DirLatency = n.DirLatency
		sp.WriteBufferCapacity = or(n.WBCap, sp.WriteBufferCapacity)
		sp.MaxInflightFetch = or(n.MaxFetch, sp.MaxInflightFetch)
		sp.MaxInflightEviction = or(n.MaxEvict, sp.MaxInflightEviction)
		m := writeback.MakeBuilder().WithRegistrar(st.Registrar).WithSpec(sp).
			WithResources(writeback.Resources{AddressToPortMapper: mapperFor(n.Lower, n.Interleave)}).Build(name)
		if m.Spec().NumSets != n.Sets {
			return nil, fmt.Errorf("%s: built with %d sets, wanted %d", name, m.Spec().NumSets, n.Sets)
		}
		c.WB, c.Model, c.Tick, c.Storage = m, m, m.TickLater, m.Resources().Storage
	case "writearound", "writeevict", "writethrough":
		if n.Sets <= 0 || n.Ways <= 0 || n.Log2Block <= 0 {
			return nil, fmt.Errorf("%s: cache geometry missing", name)
		}
		sp := writethroughcache.DefaultSpec()
		sp.Freq = freq(n)
		sp.WritePolicyType = map[string]string{"writearound": "write-around", "writeevict": "write-evict",
			"writethrough": "write-through"}[n.Kind]
		sp.Log2BlockSize = uint64(n.Log2Block)
		sp.WayAssociativity = n.Ways
		sp.TotalByteSize = uint64(n.Sets*n.Ways) << uint(n.Log2Block)
		sp.NumMSHREntry = or(n.MSHR, sp.NumMSHREntry)
		sp.NumReqPerCycle = or(n.ReqPerCycle, sp.NumReqPerCycle)
		sp.NumBanks = or(n.Banks, sp.NumBanks)
		sp.BankLatency = n.BankLatency
		sp.DirLatency = n.DirLatency
		sp.MaxNumConcurrentTrans = or(n.MaxTrans, sp.MaxNumConcurrentTrans)
		m := writethroughcache.MakeBuilder().WithRegistrar(st.Registrar).WithSpec(sp).
			WithResources(writethroughcache.Resources{AddressMapper: mapperFor(n.Lower, n.Interleave)}).Build(name)
		if m.Spec().NumSets != n.Sets {
			return nil, fmt.Errorf("%s: built with %d sets, wanted %d", name, m.Spec().NumSets, n.Sets)
		}
		c.WT, c.Model, c.Tick, c.Storage = m, m, m.TickLater, m.Resources().Storage
	default:
		return nil, fmt.Errorf("unknown component kind %q", n.Kind)
	}
	type assigner interface {
		AssignPort(name string, p messaging.Port)
	}
	as := c.Model.(assigner)
	c.Top = st.port(c.Model, "Top", n)
	as.AssignPort("Top", c.Top)
	c.Control = st.port(c.Model, "Control", n)
	as.AssignPort("Control", c.Control)
	st.CtlConn.PlugIn(c.Control)
	if !IsController(n.Kind) {
		c.Bottom = st.port(c.Model, "Bottom", n)
		as.AssignPort("Bottom", c.Bottom)
	}
	// plug Top into the connection of the parent: the top connection for level 0,
	// otherwise the parent's own connection, created when the parent was built.
	if level == 0 {
		st.TopConn.PlugIn(c.Top)
	} else {
		st.connOfChild[n].PlugIn(c.Top)
	}
	if !IsController(n.Kind) {
		cn := st.newConn("Conn." + name)
		cn.PlugIn(c.Bottom)
		for i := range n.Lower {
			st.connOfChild[&n.Lower[i]] = cn
		}
	}
	return c, nil
}
