package memhier

import (
	"bufio"
	"encoding/json"
	"fmt"
	"math/rand"
	"os"

	"github.com/sarchlab/akita/v5/timing"

	"verif/harness/internal/reg"
)

// runIn is the input of the memhier_run driver.
type runIn struct {
	Seed             int64      `json:"seed"`
	First            int        `json:"first"`              // index of the first generated case (shards of one campaign)
	Count            int        `json:"count"`              // number of generated cases
	Requests         int        `json:"requests"`           // requests per generated case
	Leaves           []string   `json:"leaves"`             // controller kinds to cycle through ("" = drawn)
	ZeroLatencyEvery int        `json:"zero_latency_every"` // every k-th case may use 0-latency writethroughcache pipelines
	Chains           [][]string `json:"chains"`             // forced chains above the controller to cycle through
	NoMaskEvery      int        `json:"no_mask_every"`      // every k-th case has no masked writes
	SlowEvery        int        `json:"slow_every"`         // every k-th case is of the family "slow lower level"
	Flush            bool       `json:"flush"`              // C17: run the drain/flush programme
	Filters          int        `json:"filters"`
	Cases            []Case     `json:"cases"`    // explicit cases (replays), run before the generated ones
	Out              string     `json:"out"`      // trace file (ndjson)
	MinOut           string     `json:"min_out"`  // trace file of the minimised failing cases
	Minimise         int        `json:"minimise"` // run budget of the minimiser per failing case (0 = off)
	MaxMinimised     int        `json:"max_minimised"`
	KeepScripts      bool       `json:"keep_scripts"`
	InternalsEvery   int        `json:"internals_every"` // project every component State after every k-th handled event (0 = off)
	IntOut           string     `json:"int_out"`         // trace file of the projections (CacheInternals.tla)
}

type runInfo struct {
	Run          int          `json:"run"`
	Index        int          `json:"index"` // generator index, -1 for explicit cases
	Line         int          `json:"line"`  // first line (1-based) of the run in the trace file
	Lines        int          `json:"lines"`
	Desc         string       `json:"desc"`
	Kinds        []string     `json:"kinds"`
	Conc         int          `json:"conc"`
	Size         int          `json:"size"`
	Requests     int          `json:"requests"`
	Issued       int          `json:"issued"`
	Answered     int          `json:"answered"`
	EndNs        uint64       `json:"end_ns"`
	Err          string       `json:"err,omitempty"`
	Panic        string       `json:"panic,omitempty"`
	PanicInAkita bool         `json:"panic_in_akita,omitempty"`
	Symptoms     []Symptom    `json:"symptoms,omitempty"`
	Class        string       `json:"class,omitempty"`
	Stack        *StackCfg    `json:"stack,omitempty"`
	Work         *WorkloadCfg `json:"work,omitempty"`
	// minimised version (when the in-driver oracle saw a symptom and minimisation is on)
	MinRun          int            `json:"min_run,omitempty"` // run number inside the min_out trace
	MinLine         int            `json:"min_line,omitempty"`
	MinLines        int            `json:"min_lines,omitempty"`
	MinCase         *Case          `json:"min_case,omitempty"`
	MinSymptoms     []Symptom      `json:"min_symptoms,omitempty"`
	MinRuns         int            `json:"min_runs,omitempty"`
	Features        map[string]any `json:"features,omitempty"`
	Flushes         int            `json:"flushes,omitempty"`
	FilteredFlushes int            `json:"filtered_flushes,omitempty"`
	DirtyFlushed    int            `json:"dirty_flushed,omitempty"`
	IntLine         int            `json:"int_line,omitempty"` // first line of the run's projections in int_out
	IntLines        int            `json:"int_lines,omitempty"`
}

// GenCase draws the idx-th case of the campaign identified by seed.
func GenCase(seed int64, idx int, in *runIn) Case {
	rng := rand.New(rand.NewSource(seed*1_000_003 + int64(idx)*7919 + 17))
	o := GenOpts{NeedWriteBack: in.Flush && idx%4 != 3}
	if len(in.Leaves) > 0 {
		o.Leaf = in.Leaves[idx%len(in.Leaves)]
	}
	if in.ZeroLatencyEvery > 0 && idx%in.ZeroLatencyEvery == in.ZeroLatencyEvery-1 {
		o.ZeroLatency = true
	}
	if len(in.Chains) > 0 {
		o.Chain = in.Chains[idx%len(in.Chains)]
		if o.Chain == nil {
			o.Chain = []string{}
		}
	}
	var c Case
	if in.SlowEvery > 0 && idx%in.SlowEvery == in.SlowEvery-1 {
		// family "slow lower level": victims' write-backs queue up while slots are recycled
		c = SlowLowerCase(rng, in.Requests)
	} else {
		c = Case{Stack: RandomStack(rng, o)}
		c.Work = RandomWorkload(rng, &c.Stack, WorkOpts{Requests: in.Requests,
			NoMasks: in.NoMaskEvery > 0 && idx%in.NoMaskEvery == 0})
	}
	if in.Flush {
		n := len(c.Work.Script)
		// the last fifth of the script runs after everything has been enabled again
		c.Work.Flush = &FlushCfg{At: n - n/5, InFlight: idx%2 == 1, Filters: in.Filters, Seed: seed + int64(idx)}
		if c.Work.Sweep > 0 {
			c.Work.Flush.At = c.Work.Sweep
			c.Work.Flush.InFlight = (idx/max(in.SlowEvery, 1))%2 == 1
		}
	}
	return c
}

type traceWriter struct {
	f    *os.File
	w    *bufio.Writer
	line int
}

func newTraceWriter(path string) (*traceWriter, error) {
	f, err := os.Create(path)
	if err != nil {
		return nil, err
	}
	return &traceWriter{f: f, w: bufio.NewWriterSize(f, 1<<20), line: 1}, nil
}

func (t *traceWriter) write(recs []any) (first, n int, err error) {
	first = t.line
	for _, r := range recs {
		b, err := json.Marshal(r)
		if err != nil {
			return 0, 0, err
		}
		t.w.Write(b)
		t.w.WriteByte('\n')
		t.line++
	}
	return first, len(recs), nil
}

func (t *traceWriter) close() error {
	if err := t.w.Flush(); err != nil {
		return err
	}
	return t.f.Close()
}

func init() {
	reg.Register("memhier_run", func(raw json.RawMessage) (any, error) {
		var in runIn
		if err := json.Unmarshal(raw, &in); err != nil {
			return nil, err
		}
		timing.UseSequentialIDGenerator()
		tw, err := newTraceWriter(in.Out)
		if err != nil {
			return nil, err
		}
		var mw *traceWriter
		if in.Minimise > 0 && in.MinOut != "" {
			if mw, err = newTraceWriter(in.MinOut); err != nil {
				return nil, err
			}
		}
		var iw *traceWriter
		if in.InternalsEvery > 0 && in.IntOut != "" {
			if iw, err = newTraceWriter(in.IntOut); err != nil {
				return nil, err
			}
		}
		driftSet := map[Drift]bool{}
		intStats := map[string]int{}
		var infos []runInfo
		events := 0
		minimised := 0
		one := func(run, idx int, c Case) error {
			every := 0
			if iw != nil {
				every = in.InternalsEvery
			}
			out := RunCaseInternals(run, c, every)
			info := runInfo{Run: run, Index: idx, Desc: c.Stack.Describe(), Kinds: c.Stack.Kinds(), Conc: c.Work.Concurrency, Size: c.Work.Size,
				Requests: len(c.Work.Script), Issued: out.Issued, Answered: out.Answered, EndNs: out.EndTimeNs, Err: out.Err,
				Panic: out.Panic, PanicInAkita: out.PanicInAkita, Symptoms: out.Symptoms}
			if out.Err != "" {
				infos = append(infos, info)
				return nil
			}
			if out.Panic != "" && !out.PanicInAkita {
				return fmt.Errorf("harness panic in run %d (%s): %s", run, info.Desc, out.Panic)
			}
			for _, r := range out.Records {
				if f, ok := r.(evFlush); ok {
					info.Flushes++
					if len(f.Addrs) > 0 || f.PID != 0 {
						info.FilteredFlushes++
					}
					info.DirtyFlushed += len(f.Wrote)
				}
			}
			info.Line, info.Lines, err = tw.write(out.Records)
			if err != nil {
				return err
			}
			events += info.Lines
			if iw != nil {
				if info.IntLine, info.IntLines, err = iw.write(out.Internals); err != nil {
					return err
				}
				for _, d := range out.Drifts {
					driftSet[d] = true
				}
				for k, v := range out.IntStats {
					intStats[k] += v
				}
			}
			if in.KeepScripts {
				cc := c
				info.Stack, info.Work = &cc.Stack, &cc.Work
			}
			if len(out.Symptoms) > 0 {
				info.Class = firstClass(out.Symptoms, in.Flush)
				cc := c
				info.Stack = &cc.Stack
				w := c.Work
				info.Work = &w
				if mw != nil && (in.MaxMinimised == 0 || minimised < in.MaxMinimised) {
					minimised++
					mc, _, runs := Minimise(c, info.Class, in.Minimise)
					// the records of the minimised case, as run number `minimised`
					mo2 := RunCase(minimised, mc)
					info.MinRun = minimised
					info.MinLine, info.MinLines, err = mw.write(mo2.Records)
					if err != nil {
						return err
					}
					info.MinCase, info.MinSymptoms, info.MinRuns = &mc, mo2.Symptoms, runs
					info.Features = Features(&mc, info.Class, &mo2)
				} else {
					info.Features = Features(&c, info.Class, &out)
					info.Features["minimised"] = false
				}
			}
			infos = append(infos, info)
			return nil
		}
		run := 0
		for _, c := range in.Cases {
			run++
			if err := one(run, -1, c); err != nil {
				return nil, err
			}
		}
		for i := 0; i < in.Count; i++ {
			run++
			idx := in.First + i
			if err := one(run, idx, GenCase(in.Seed, idx, &in)); err != nil {
				return nil, err
			}
		}
		if err := tw.close(); err != nil {
			return nil, err
		}
		if mw != nil {
			if err := mw.close(); err != nil {
				return nil, err
			}
		}
		var drifts []Drift
		if iw != nil {
			if err := iw.close(); err != nil {
				return nil, err
			}
			for d := range driftSet {
				drifts = append(drifts, d)
			}
		}
		return map[string]any{"runs": infos, "events": events, "minimised": minimised, "drifts": drifts, "int_stats": intStats}, nil
	})
}
