package memhier

import (
	"sort"
	"strings"
)

// IsFlushClass tells whether a symptom class belongs to C17 (control/flush/backing).
func IsFlushClass(c string) bool {
	return strings.HasPrefix(c, "control_") || strings.HasPrefix(c, "flush_") || strings.HasPrefix(c, "backing_")
}

// firstClass is the class a case is minimised for: the most severe symptom. With
// flushFirst the C17 classes come before the C16 ones.
func firstClass(sy []Symptom, flushFirst bool) string {
	if flushFirst {
		var fs []Symptom
		for _, s := range sy {
			if IsFlushClass(s.Class) {
				fs = append(fs, s)
			}
		}
		if len(fs) > 0 {
			sy = fs
		}
	}
	if len(sy) == 0 {
		return ""
	}
	rank := func(c string) int {
		switch {
		case c == "panic":
			return 0
		case strings.HasPrefix(c, "never_answered"):
			return 1
		case strings.HasPrefix(c, "control_"):
			return 2
		case c == "duplicate_response" || c == "response_to_unknown_request" || c == "wrong_kind" || c == "wrong_destination" || c == "wrong_length":
			return 3
		case c == "wrong_data":
			return 4
		case c == "flush_rule":
			return 5
		}
		return 6
	}
	best := sy[0]
	for _, s := range sy[1:] {
		if rank(s.Class) < rank(best.Class) {
			best = s
		}
	}
	return best.Class
}

func hasClass(sy []Symptom, class string) bool {
	for _, s := range sy {
		if s.Class == class {
			return true
		}
	}
	return false
}

// Minimise shrinks a failing case (stack, then request stream, then concurrency) while the
// in-driver oracle still sees a symptom of the same class. budget bounds the number of runs.
func Minimise(c Case, class string, budget int) (Case, Outcome, int) {
	runs := 0
	fails := func(x Case) (bool, Outcome) {
		runs++
		o := RunCase(0, x)
		return o.Err == "" && hasClass(o.Symptoms, class), o
	}
	best := c
	_, bestOut := fails(best)
	// ---- stack
	for changed := true; changed && runs < budget; {
		changed = false
		for _, cand := range stackReductions(best.Stack) {
			x := Case{Stack: cand, Work: best.Work}
			if ok, o := fails(x); ok {
				best, bestOut, changed = x, o, true
				break
			}
			if runs >= budget {
				break
			}
		}
	}
	// ---- the flush programme: fewer filters, quiesced start
	if f := best.Work.Flush; f != nil {
		for _, g := range []FlushCfg{{At: f.At, InFlight: false, Filters: 0, Seed: f.Seed}, {At: f.At, InFlight: false, Filters: f.Filters, Seed: f.Seed},
			{At: f.At, InFlight: f.InFlight, Filters: 0, Seed: f.Seed}} {
			if g == *f {
				continue
			}
			gg := g
			x := best
			x.Work.Flush = &gg
			if ok, o := fails(x); ok {
				best, bestOut = x, o
				break
			}
		}
	}
	// ---- script: ddmin over the indices of the original script; the flush programme
	// keeps its place between the requests that surrounded it
	orig := best.Work.Script
	origAt := -1
	if best.Work.Flush != nil {
		origAt = best.Work.Flush.At
	}
	build := func(keep []int) Case {
		x := best
		x.Work.Script = make([]Req, len(keep))
		at := 0
		for k, i := range keep {
			x.Work.Script[k] = orig[i]
			if i < origAt {
				at++
			}
		}
		if best.Work.Flush != nil {
			f := *best.Work.Flush
			f.At = at
			x.Work.Flush = &f
		}
		return x
	}
	keep := make([]int, len(orig))
	for i := range keep {
		keep[i] = i
	}
	n := 2
	for len(keep) >= 1 && runs < budget {
		chunk := (len(keep) + n - 1) / n
		reduced := false
		for lo := 0; lo < len(keep) && runs < budget; lo += chunk {
			hi := min(lo+chunk, len(keep))
			cand := append(append([]int{}, keep[:lo]...), keep[hi:]...)
			x := build(cand)
			if ok, o := fails(x); ok {
				best, bestOut, keep = x, o, cand
				n = max(n-1, 2)
				reduced = true
				break
			}
		}
		if !reduced {
			if chunk == 1 {
				break
			}
			n = min(n*2, len(keep))
		}
	}
	// ---- concurrency
	for _, k := range []int{1, 2, 4} {
		if k >= best.Work.Concurrency || runs >= budget {
			break
		}
		x := best
		x.Work.Concurrency = k
		if ok, o := fails(x); ok {
			best, bestOut = x, o
			break
		}
	}
	// ---- waits
	if runs < budget {
		x := best
		x.Work.Script = append([]Req{}, best.Work.Script...)
		for i := range x.Work.Script {
			x.Work.Script[i].Wait = 0
		}
		if ok, o := fails(x); ok {
			best, bestOut = x, o
		}
	}
	return best, bestOut, runs
}

// stackReductions lists simpler stacks: a level spliced out, an interleaved set cut to
// one of its modules, the controller replaced by an ideal one.
func stackReductions(cfg StackCfg) []StackCfg {
	var out []StackCfg
	// paths to nodes: index sequences
	var paths [][]int
	var rec func(ns []Node, p []int)
	rec = func(ns []Node, p []int) {
		for i := range ns {
			q := append(append([]int{}, p...), i)
			paths = append(paths, q)
			rec(ns[i].Lower, q)
		}
	}
	rec(cfg.Top, nil)
	slot := func(c *StackCfg, p []int) (*[]Node, *uint64) {
		ns, il := &c.Top, &c.Interleave
		for _, i := range p[:len(p)-1] {
			n := &(*ns)[i]
			ns, il = &n.Lower, &n.Interleave
		}
		return ns, il
	}
	for i := 0; len(cfg.Top) > 1 && i < len(cfg.Top); i++ {
		c := cfg.Clone()
		c.Top = c.Top[i : i+1]
		c.Interleave = 0
		clearNames(&c)
		out = append(out, c)
	}
	for _, p := range paths {
		c := cfg.Clone()
		ns, _ := slot(&c, p)
		n := &(*ns)[p[len(p)-1]]
		for i := 0; len(n.Lower) > 1 && i < len(n.Lower); i++ {
			d := cfg.Clone()
			ns2, _ := slot(&d, p)
			m := &(*ns2)[p[len(p)-1]]
			m.Lower = m.Lower[i : i+1]
			m.Interleave = 0
			clearNames(&d)
			out = append(out, d)
		}
		if len(n.Lower) == 1 {
			(*ns)[p[len(p)-1]] = n.Lower[0]
			clearNames(&c)
			out = append(out, c)
		}
		if n.Kind == "dram" || n.Kind == "banked" {
			e := cfg.Clone()
			ns3, _ := slot(&e, p)
			(*ns3)[p[len(p)-1]] = Node{Kind: "ideal", Latency: 2, Width: 1, Capacity: 1 << 34}
			clearNames(&e)
			out = append(out, e)
		}
	}
	return out
}

func clearNames(c *StackCfg) {
	walk(c.Top, func(n *Node, _ int) { n.Name = "" })
}

// Features are the key features of a (minimised) failing case.
func Features(c *Case, class string, o *Outcome) map[string]any {
	f := map[string]any{"symptom": class}
	f["components"] = strings.Join(c.Stack.Chain(), ">")
	leaf := ""
	inter := len(c.Stack.Top) > 1
	zero := ""
	walk(c.Stack.Top, func(n *Node, _ int) {
		if IsController(n.Kind) {
			leaf = n.Kind
		}
		if len(n.Lower) > 1 {
			inter = true
		}
		if n.Kind == "writearound" || n.Kind == "writeevict" || n.Kind == "writethrough" {
			if n.DirLatency == 0 {
				zero = "dir_latency"
			} else if n.BankLatency == 0 {
				zero = "bank_latency"
			}
		}
	})
	f["leaf"] = leaf
	f["interleaved"] = inter
	f["zero_latency"] = zero
	ws := map[string]bool{}
	masked := false
	for _, r := range c.Work.Script {
		if r.Kind == "write" {
			ws[r.Class] = true
			for _, m := range r.Mask {
				if !m {
					masked = true
				}
			}
		}
	}
	var wl []string
	for k := range ws {
		wl = append(wl, k)
	}
	sort.Strings(wl)
	f["writes"] = strings.Join(wl, "+")
	f["masked_write"] = masked
	f["requests"] = len(c.Work.Script)
	req := ""
	for _, s := range o.Symptoms {
		if s.Class == class {
			req = s.ReqClass
			break
		}
	}
	f["request"] = req
	ov := ""
	if len(o.Overlaps) > 0 {
		ov = o.Overlaps[0].Kind + ":" + o.Overlaps[0].First + "_then_" + o.Overlaps[0].Second
	}
	f["overlap_below"] = ov
	return f
}
