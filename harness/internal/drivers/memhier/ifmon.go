package memhier

import (
	"github.com/sarchlab/akita/v5/hooking"
	"github.com/sarchlab/akita/v5/mem/memprotocol"
	"github.com/sarchlab/akita/v5/messaging"
)

// Overlap records that a component had two requests in flight on its Bottom port that
// touch a common byte, at least one of them a write: the component itself breaks, towards
// its lower module, the precondition under which that module is transparent.
type Overlap struct {
	Comp   string `json:"comp"`
	Kind   string `json:"kind"`
	First  string `json:"first"`  // read | write: the request already in flight
	Second string `json:"second"` // the request sent while it was
	Addr   uint64 `json:"addr"`   // first common byte
}

type ifReq struct {
	id    uint64
	write bool
	lo    uint64
	bytes []bool // touched bytes from lo (reads: all)
}

type ifMon struct {
	c        *Comp
	inflight []ifReq
	out      *[]Overlap
	seen     bool
}

func (m *ifMon) Func(ctx hooking.HookCtx) {
	switch ctx.Pos {
	case messaging.HookPosPortMsgSend:
		var r ifReq
		switch q := ctx.Item.(type) {
		case memprotocol.ReadReq:
			r = ifReq{id: q.ID, lo: q.Address, bytes: make([]bool, q.AccessByteSize)}
			for i := range r.bytes {
				r.bytes[i] = true
			}
		case memprotocol.WriteReq:
			r = ifReq{id: q.ID, write: true, lo: q.Address, bytes: make([]bool, len(q.Data))}
			for i := range r.bytes {
				r.bytes[i] = q.DirtyMask == nil || q.DirtyMask[i]
			}
		default:
			return
		}
		if !m.seen {
			for _, o := range m.inflight {
				if !o.write && !r.write {
					continue
				}
				if a, ok := common(o, r); ok {
					m.seen = true
					*m.out = append(*m.out, Overlap{Comp: m.c.Name, Kind: m.c.Kind, First: rw(o.write), Second: rw(r.write), Addr: a})
					break
				}
			}
		}
		m.inflight = append(m.inflight, r)
	case messaging.HookPosPortMsgRecvd:
		msg, ok := ctx.Item.(messaging.Msg)
		if !ok {
			return
		}
		to := msg.Meta().RspTo
		for i := range m.inflight {
			if m.inflight[i].id == to {
				m.inflight = append(m.inflight[:i], m.inflight[i+1:]...)
				break
			}
		}
	}
}

func rw(w bool) string {
	if w {
		return "write"
	}
	return "read"
}

func common(a, b ifReq) (uint64, bool) {
	lo := max(a.lo, b.lo)
	hi := min(a.lo+uint64(len(a.bytes)), b.lo+uint64(len(b.bytes)))
	for x := lo; x < hi; x++ {
		if a.bytes[x-a.lo] && b.bytes[x-b.lo] {
			return x, true
		}
	}
	return 0, false
}

// WatchInterfaces installs the monitor on the Bottom port of every component that has one.
func (st *Stack) WatchInterfaces(out *[]Overlap) {
	for _, c := range st.Comps {
		if c.Bottom != nil {
			c.Bottom.AcceptHook(&ifMon{c: c, out: out})
		}
	}
}
