package memhier

// Projection of the components' State for spec/mem/CacheInternals.tla.
//
// The State of every component of a stack is marshalled to JSON (the form a checkpoint
// stores) after every N-th handled engine event and when the engine has stopped, and
// projected to a small, uniform record per component. The projection reads the State
// through its JSON field names only: when a field it needs is missing (the State schema
// changed), the part is reported as DRIFT and the rules that need it are skipped for
// that component kind — never a failure.
//
// Record (one per sample):
//
//	{"e":"state","run":r,"n":events handled,"final":bool,"settled":bool,"comps":[COMP...]}
//
//	COMP = {"name","kind","have":[parts present],
//	  "mshr":{"cap","entries":[{"pid","line","nwait","wait":[slot...],"fetch"}]},
//	  "slots":[removed...],                         transaction table: removed flags
//	  "bufs":[{"name","cap","items":[...],"refs"}]   refs: the items are transaction-slot indices
//	  "pipes":[{"name","width","stages","items":[{"lane","stage","item"}],"refs"}],
//	  "pending":[idx],"inflight_evict":[idx],"inflight_fetch":[idx],   write-back only
//	  "evicting":[line],"valid_clean":[line],                          write-back only
//	  "max_active":n,                                                  writethroughcache only
//	  "rob":{"cap","entries":[{"bottom","read","has_rsp","rsp_len"}]},
//	  "banks":{"n","per_4k":4096/interleave,"items":[{"bank","hi","lo","div"}]},
//	  "dram":{"tq_cap","sub":n,"cq_cap","queues":[count per queue],"tx":[ids],"refs":[tx ids]}}
//
// Lines are relative to the footprint base (in bytes).

import (
	"encoding/json"
	"fmt"
	"sort"

	"github.com/sarchlab/akita/v5/hooking"
	"github.com/sarchlab/akita/v5/timing"
)

type jmap = map[string]any

// Drift is one field of a State the projection needs and did not find.
type Drift struct {
	Kind  string `json:"kind"`
	Part  string `json:"part"`
	Field string `json:"field"`
}

type intRecorder struct {
	st      *Stack
	agent   *Agent
	base    uint64
	every   int
	run     int
	n       int
	recs    []any
	drift   map[Drift]bool
	maxRecs int
}

func newIntRecorder(st *Stack, a *Agent, base uint64, every, run int) *intRecorder {
	r := &intRecorder{st: st, agent: a, base: base, every: every, run: run, drift: map[Drift]bool{}, maxRecs: 32}
	if h, ok := st.Engine.(hooking.Hookable); ok {
		h.AcceptHook(r)
	}
	return r
}

// Func samples after every N-th handled event.
func (r *intRecorder) Func(ctx hooking.HookCtx) {
	if ctx.Pos != timing.HookPosAfterEvent {
		return
	}
	r.n++
	if r.n%r.every == 0 {
		if len(r.recs) >= r.maxRecs {
			// thin out: keep every other sample and sample half as often from now on
			kept := r.recs[:0]
			for i, rec := range r.recs {
				if i%2 == 1 {
					kept = append(kept, rec)
				}
			}
			r.recs = kept
			r.every *= 2
			if r.n%r.every != 0 {
				return
			}
		}
		r.sample(false, false)
	}
}

func (r *intRecorder) sample(final, settled bool) {
	rec := jmap{"e": "state", "run": r.run, "n": r.n, "final": final, "settled": settled}
	var comps []any
	for _, c := range r.st.Comps {
		if p := r.project(c); p != nil {
			comps = append(comps, p)
		}
	}
	rec["comps"] = comps
	r.recs = append(r.recs, rec)
}

func toMap(v any) jmap {
	b, err := json.Marshal(v)
	if err != nil {
		return nil
	}
	var m jmap
	if json.Unmarshal(b, &m) != nil {
		return nil
	}
	return m
}

// getter reads fields by JSON name and remembers what is missing.
type getter struct {
	r    *intRecorder
	kind string
	part string
	ok   bool
}

func (g *getter) miss(field string) {
	if !g.ok {
		return // only the first missing field of a part is reported
	}
	g.ok = false
	g.r.drift[Drift{Kind: g.kind, Part: g.part, Field: field}] = true
}

func (g *getter) get(m jmap, field string) any {
	v, ok := m[field]
	if !ok {
		g.miss(field)
		return nil
	}
	return v
}

func (g *getter) num(m jmap, field string) int {
	v := g.get(m, field)
	f, ok := v.(float64)
	if v != nil && !ok {
		g.miss(field + " (not a number)")
	}
	return int(f)
}

func (g *getter) boolean(m jmap, field string) bool {
	v := g.get(m, field)
	b, ok := v.(bool)
	if v != nil && !ok {
		g.miss(field + " (not a boolean)")
	}
	return b
}

func (g *getter) obj(m jmap, field string) jmap {
	v := g.get(m, field)
	if v == nil {
		return jmap{}
	}
	o, ok := v.(jmap)
	if !ok {
		g.miss(field + " (not an object)")
		return jmap{}
	}
	return o
}

// list accepts null as the empty list.
func (g *getter) list(m jmap, field string) []any {
	v, ok := m[field]
	if !ok {
		g.miss(field)
		return nil
	}
	if v == nil {
		return []any{}
	}
	l, isList := v.([]any)
	if !isList {
		g.miss(field + " (not a list)")
		return nil
	}
	return l
}

func ints(l []any) []int {
	out := make([]int, 0, len(l))
	for _, x := range l {
		if f, ok := x.(float64); ok {
			out = append(out, int(f))
		}
	}
	return out
}

func (r *intRecorder) rel(addr float64) int { return int(int64(addr) - int64(r.base)) }

// buffer projects a queueing.Buffer (or the write-back post-pipeline buffer) of slot indices.
func (g *getter) buffer(name string, b jmap, refs bool) jmap {
	capKey, itemKey := "cap", "elements"
	if _, ok := b["items"]; ok {
		itemKey = "items"
	}
	items := g.list(b, itemKey)
	out := jmap{"name": name, "cap": g.num(b, capKey), "refs": refs}
	if refs {
		out["items"] = ints(items)
	} else {
		out["items"] = make([]int, len(items)) // only the occupancy matters
	}
	return out
}

func (g *getter) pipeline(name string, p jmap, refs bool) jmap {
	out := jmap{"name": name, "width": g.num(p, "width"), "stages": g.num(p, "num_stages"), "refs": refs}
	items := []any{}
	for _, s := range g.list(p, "stages") {
		sm, ok := s.(jmap)
		if !ok {
			continue
		}
		it := jmap{"lane": g.num(sm, "lane"), "stage": g.num(sm, "stage"), "item": 0}
		if refs {
			it["item"] = g.num(sm, "item")
		}
		items = append(items, it)
	}
	out["items"] = items
	return out
}

func (g *getter) buffers(prefix string, l []any, refs bool) []any {
	var out []any
	for i, b := range l {
		if bm, ok := b.(jmap); ok {
			out = append(out, g.buffer(fmt.Sprintf("%s[%d]", prefix, i), bm, refs))
		}
	}
	return out
}

func (g *getter) pipelines(prefix string, l []any, refs bool) []any {
	var out []any
	for i, b := range l {
		if bm, ok := b.(jmap); ok {
			out = append(out, g.pipeline(fmt.Sprintf("%s[%d]", prefix, i), bm, refs))
		}
	}
	return out
}

func emptyComp(name, kind string) jmap {
	return jmap{"name": name, "kind": kind, "have": []string{},
		"mshr": jmap{"cap": 0, "entries": []any{}}, "slots": []bool{}, "bufs": []any{}, "pipes": []any{},
		"pending": []int{}, "inflight_evict": []int{}, "inflight_fetch": []int{}, "evicting": []int{}, "valid_clean": []int{},
		"max_active": 0, "rob": jmap{"cap": 0, "entries": []any{}},
		"banks": jmap{"n": 1, "per_4k": 1, "items": []any{}},
		"dram":  jmap{"tq_cap": 0, "sub": 0, "cq_cap": 0, "queues": []int{}, "tx": []int{}, "refs": []int{}}}
}

// part runs f with a getter for one part of the projection; the part counts as present
// only when every field was found.
func (r *intRecorder) part(out jmap, kind, part string, f func(g *getter)) {
	g := &getter{r: r, kind: kind, part: part, ok: true}
	f(g)
	if g.ok {
		out["have"] = append(out["have"].([]string), part)
	}
}

func (r *intRecorder) mshr(g *getter, out, state jmap, capacity int, fetchField string) {
	ms := g.obj(state, "mshr_state")
	var entries []any
	for _, e := range g.list(ms, "entries") {
		em, ok := e.(jmap)
		if !ok {
			continue
		}
		wait := ints(g.list(em, "transaction_indices"))
		ent := jmap{"pid": g.num(em, "pid"), "line": 0, "nwait": len(wait), "wait": wait, "fetch": false}
		if a, ok := g.get(em, "address").(float64); ok {
			ent["line"] = r.rel(a)
		}
		if fetchField != "" {
			ent["fetch"] = g.boolean(em, fetchField)
		}
		entries = append(entries, ent)
	}
	if entries == nil {
		entries = []any{}
	}
	out["mshr"] = jmap{"cap": capacity, "entries": entries}
}

func (r *intRecorder) slots(g *getter, out, state jmap) {
	fl := []bool{}
	for _, t := range g.list(state, "transactions") {
		if tm, ok := t.(jmap); ok {
			fl = append(fl, g.boolean(tm, "removed"))
		}
	}
	out["slots"] = fl
}

func (r *intRecorder) project(c *Comp) jmap {
	out := emptyComp(c.Name, c.Kind)
	switch {
	case c.WB != nil:
		state, spec := toMap(c.WB.State), toMap(c.WB.Spec())
		r.part(out, c.Kind, "mshr", func(g *getter) { r.mshr(g, out, state, g.num(spec, "num_mshr_entry"), "") })
		r.part(out, c.Kind, "slots", func(g *getter) { r.slots(g, out, state) })
		r.part(out, c.Kind, "bufs", func(g *getter) {
			bufs := []any{g.buffer("dir_stage_buf", g.obj(state, "dir_stage_buf"), true),
				g.buffer("mshr_stage_buf", g.obj(state, "mshr_stage_buf"), true),
				g.buffer("write_buffer_buf", g.obj(state, "write_buffer_buf"), true),
				g.buffer("dir_post_pipeline_buf", g.obj(state, "dir_post_pipeline_buf"), true)}
			bufs = append(bufs, g.buffers("dir_to_bank_bufs", g.list(state, "dir_to_bank_bufs"), true)...)
			bufs = append(bufs, g.buffers("write_buffer_to_bank_bufs", g.list(state, "write_buffer_to_bank_bufs"), true)...)
			bufs = append(bufs, g.buffers("bank_post_pipeline_bufs", g.list(state, "bank_post_pipeline_bufs"), true)...)
			out["bufs"] = bufs
		})
		r.part(out, c.Kind, "pipes", func(g *getter) {
			pipes := []any{g.pipeline("dir_pipeline", g.obj(state, "dir_pipeline"), true)}
			pipes = append(pipes, g.pipelines("bank_pipelines", g.list(state, "bank_pipelines"), true)...)
			out["pipes"] = pipes
		})
		r.part(out, c.Kind, "evictions", func(g *getter) {
			out["pending"] = ints(g.list(state, "pending_eviction_indices"))
			out["inflight_evict"] = ints(g.list(state, "inflight_eviction_indices"))
			out["inflight_fetch"] = ints(g.list(state, "inflight_fetch_indices"))
			ev := []int{}
			if m, ok := g.get(state, "evicting_list").(jmap); ok {
				for k, v := range m {
					var a uint64
					if b, isB := v.(bool); isB && b {
						if _, err := fmt.Sscan(k, &a); err == nil {
							ev = append(ev, r.rel(float64(a)))
						}
					}
				}
			}
			sort.Ints(ev)
			out["evicting"] = ev
			vc := []int{}
			for _, s := range g.list(g.obj(state, "directory_state"), "sets") {
				sm, _ := s.(jmap)
				for _, b := range g.list(sm, "blocks") {
					bm, _ := b.(jmap)
					if g.boolean(bm, "is_valid") && !g.boolean(bm, "is_dirty") {
						if t, ok := g.get(bm, "tag").(float64); ok {
							vc = append(vc, r.rel(t))
						}
					}
				}
			}
			sort.Ints(vc)
			out["valid_clean"] = vc
		})
	case c.WT != nil:
		state, spec := toMap(c.WT.State), toMap(c.WT.Spec())
		r.part(out, c.Kind, "mshr", func(g *getter) { r.mshr(g, out, state, g.num(spec, "num_mshr_entry"), "has_read_req") })
		r.part(out, c.Kind, "slots", func(g *getter) {
			r.slots(g, out, state)
			out["max_active"] = g.num(spec, "max_num_concurrent_trans")
		})
		r.part(out, c.Kind, "bufs", func(g *getter) {
			bufs := []any{g.buffer("dir_buf", g.obj(state, "dir_buf"), true), g.buffer("dir_post_buf", g.obj(state, "dir_post_buf"), true)}
			bufs = append(bufs, g.buffers("bank_bufs", g.list(state, "bank_bufs"), true)...)
			bufs = append(bufs, g.buffers("bank_post_bufs", g.list(state, "bank_post_bufs"), true)...)
			out["bufs"] = bufs
		})
		r.part(out, c.Kind, "pipes", func(g *getter) {
			pipes := []any{g.pipeline("dir_pipeline", g.obj(state, "dir_pipeline"), true)}
			pipes = append(pipes, g.pipelines("bank_pipelines", g.list(state, "bank_pipelines"), true)...)
			out["pipes"] = pipes
		})
	case c.ROB != nil:
		state, spec := toMap(c.ROB.State), toMap(c.ROB.Spec())
		r.part(out, c.Kind, "rob", func(g *getter) {
			ents := []any{}
			for _, t := range g.list(state, "transactions") {
				tm, _ := t.(jmap)
				n := 0
				if d, ok := tm["rsp_data"].(string); ok { // omitted when empty; base64 otherwise
					n = len(d)
				}
				ents = append(ents, jmap{"bottom": g.num(tm, "req_to_bottom_id"), "read": g.boolean(tm, "is_read"), "has_rsp": g.boolean(tm, "has_rsp"), "rsp_len": n})
			}
			out["rob"] = jmap{"cap": g.num(spec, "buffer_size"), "entries": ents}
		})
	case c.Banked != nil:
		state, spec := toMap(c.Banked.State), toMap(c.Banked.Spec())
		r.part(out, c.Kind, "banks", func(g *getter) {
			if k, ok := g.get(spec, "bank_addr_conv_kind").(string); !ok || k != "" {
				g.ok = false // bank selection goes through an address conversion the rule does not model
				return
			}
			log2 := g.num(spec, "bank_selector_log2_interleave_size")
			if log2 > 12 {
				g.ok = false
				return
			}
			items, bufs, pipes := []any{}, []any{}, []any{}
			addrOf := func(it jmap) (float64, bool) {
				msg := "write_msg"
				if g.boolean(it, "is_read") {
					msg = "read_msg"
				}
				a, ok := g.get(g.obj(it, msg), "Address").(float64)
				return a, ok
			}
			add := func(bank int, it jmap) {
				if a, ok := addrOf(it); ok {
					u := uint64(a)
					items = append(items, jmap{"bank": bank, "hi": int(u / 4096), "lo": int(u % 4096), "div": 1 << uint(log2)})
				}
			}
			for i, b := range g.list(state, "banks") {
				bm, _ := b.(jmap)
				pb := g.obj(bm, "post_pipeline_buf")
				for _, e := range g.list(pb, "elements") {
					if em, ok := e.(jmap); ok {
						add(i, em)
					}
				}
				bufs = append(bufs, g.buffer(fmt.Sprintf("banks[%d].post_pipeline_buf", i), pb, false))
				pp := g.obj(bm, "pipeline")
				for _, s := range g.list(pp, "stages") {
					if sm, ok := s.(jmap); ok {
						add(i, g.obj(sm, "item"))
					}
				}
				pipes = append(pipes, g.pipeline(fmt.Sprintf("banks[%d].pipeline", i), pp, false))
			}
			out["banks"] = jmap{"n": g.num(spec, "num_banks"), "per_4k": 4096 >> uint(log2), "items": items}
			out["bufs"], out["pipes"] = bufs, pipes
		})
	case c.DRAM != nil:
		state, spec := toMap(c.DRAM.State), toMap(c.DRAM.Spec())
		r.part(out, c.Kind, "dram", func(g *getter) {
			tx, refs := []int{}, []int{}
			for _, t := range g.list(state, "transactions") {
				tm, _ := t.(jmap)
				tx = append(tx, g.num(tm, "id"))
			}
			for _, e := range g.list(g.obj(state, "sub_trans_queue"), "entries") {
				em, _ := e.(jmap)
				refs = append(refs, g.num(em, "tx_id"))
			}
			cq := g.obj(state, "command_queues")
			queues := make([]int, max(g.num(cq, "num_queues"), 0))
			for _, e := range g.list(cq, "entries") {
				em, _ := e.(jmap)
				qi := g.num(em, "queue_index")
				if qi >= 0 && qi < len(queues) {
					queues[qi]++
				} else {
					queues = append(queues, 1<<20) // out of range: shows as an over-full queue
				}
				refs = append(refs, g.num(g.obj(g.obj(em, "command"), "sub_trans_ref"), "tx_id"))
			}
			out["dram"] = jmap{"tq_cap": g.num(spec, "transaction_queue_size"), "sub": len(g.list(g.obj(state, "sub_trans_queue"), "entries")),
				"cq_cap": g.num(spec, "command_queue_capacity"), "queues": queues, "tx": tx, "refs": refs}
		})
	case c.Ideal != nil:
		state := toMap(c.Ideal.State)
		r.part(out, c.Kind, "slots", func(g *getter) {
			// the in-flight list of the ideal controller: every entry is live
			out["slots"] = make([]bool, len(g.list(state, "inflight_transactions")))
		})
	default:
		return nil
	}
	return out
}

// stats counts what the kept samples contained (evidence that the rules had something to judge).
func (r *intRecorder) stats(into map[string]int) {
	for _, rec := range r.recs {
		into["samples"]++
		for _, c := range rec.(jmap)["comps"].([]any) {
			cm := c.(jmap)
			into["components"]++
			into["mshr_entries"] += len(cm["mshr"].(jmap)["entries"].([]any))
			for _, b := range cm["bufs"].([]any) {
				if items, ok := b.(jmap)["items"].([]int); ok {
					into["buffer_items"] += len(items)
				}
			}
			for _, p := range cm["pipes"].([]any) {
				into["pipeline_items"] += len(p.(jmap)["items"].([]any))
			}
			into["eviction_list_entries"] += len(cm["pending"].([]int)) + len(cm["inflight_evict"].([]int)) + len(cm["inflight_fetch"].([]int)) + len(cm["evicting"].([]int))
			into["rob_entries"] += len(cm["rob"].(jmap)["entries"].([]any))
			into["bank_items"] += len(cm["banks"].(jmap)["items"].([]any))
			into["dram_refs"] += len(cm["dram"].(jmap)["refs"].([]int))
		}
		if rec.(jmap)["settled"] == true {
			into["settled_samples"]++
		}
	}
}

func (r *intRecorder) drifts() []Drift {
	var out []Drift
	for d := range r.drift {
		out = append(out, d)
	}
	sort.Slice(out, func(i, j int) bool {
		return out[i].Kind+out[i].Part+out[i].Field < out[j].Kind+out[j].Part+out[j].Field
	})
	return out
}
