package memhier

import (
	"math/rand"
)

// GenOpts steers the random stack generator.
type GenOpts struct {
	// Leaf forces the controller kind ("ideal", "banked", "dram:<preset>"); "" draws one.
	Leaf string
	// MaxDepth bounds the number of levels above the controllers (default 3).
	MaxDepth int
	// NeedWriteBack makes sure at least one write-back cache is in the stack (C17).
	NeedWriteBack bool
	// Chain forces the kinds above the controller, top-down (nil = drawn).
	Chain []string
	// ZeroLatency allows latency 0 for the writethroughcache pipelines and 0-stage banked
	// memories (configurations the builders accept).
	ZeroLatency bool
}

func pickInt(rng *rand.Rand, xs ...int) int { return xs[rng.Intn(len(xs))] }

// RandomStack draws a stack: any chain of write-around / write-evict / write-through /
// write-back caches and ROBs over a controller, single or interleaved lower modules,
// small geometries (few sets and ways, small MSHRs and buffers) so that evictions,
// MSHR merges and write-buffer activity happen within a few hundred requests.
func RandomStack(rng *rand.Rand, o GenOpts) StackCfg {
	if o.MaxDepth <= 0 {
		o.MaxDepth = 3
	}
	depth := rng.Intn(o.MaxDepth + 1)
	if o.NeedWriteBack && depth == 0 {
		depth = 1 + rng.Intn(o.MaxDepth)
	}
	cfg := StackCfg{PortBuf: pickInt(rng, 1, 2, 4, 8)}
	// kinds of the chain, top-down
	kinds := make([]string, depth)
	for i := range kinds {
		kinds[i] = []string{"writeback", "writeback", "writearound", "writeevict", "writethrough", "rob"}[rng.Intn(6)]
	}
	if o.Chain != nil {
		kinds = append([]string{}, o.Chain...)
		depth = len(kinds)
	}
	if o.NeedWriteBack && o.Chain == nil {
		has := false
		for _, k := range kinds {
			has = has || k == "writeback"
		}
		if !has {
			kinds[rng.Intn(depth)] = "writeback"
		}
	}
	// block sizes must not shrink downwards (a line fetch must fit one lower line)
	log2 := pickInt(rng, 4, 5, 6, 6, 6)
	blocks := make([]int, depth)
	for i := range blocks {
		blocks[i] = log2
		if log2 < 7 && rng.Intn(4) == 0 {
			log2++
		}
	}
	maxBlock := uint64(64)
	if depth > 0 && uint64(1)<<uint(blocks[depth-1]) > maxBlock {
		maxBlock = 1 << uint(blocks[depth-1])
	}
	interleave := func() uint64 {
		return maxBlock * uint64(pickInt(rng, 1, 2, 4, 64))
	}
	// where the tree fans out: -1 nowhere, 0 at the requester, i>0 below chain element i-1
	fanAt, fanN := -1, 1
	if rng.Intn(3) == 0 {
		fanN = pickInt(rng, 2, 2, 3, 4)
		fanAt = rng.Intn(depth + 1)
		for fanAt > 0 && kinds[fanAt-1] == "rob" { // a rob has one lower module
			fanAt--
		}
	}
	leaf := o.Leaf
	if leaf == "" {
		leaf = []string{"ideal", "ideal", "banked", "banked", "dram:default", "dram:DDR4", "dram:DDR5", "dram:HBM2", "dram:HBM3", "dram:GDDR6"}[rng.Intn(10)]
	}
	var build func(level int) []Node
	build = func(level int) []Node {
		n := 1
		if level == fanAt {
			n = fanN
		}
		out := make([]Node, n)
		for i := range out {
			if level == depth {
				out[i] = randomController(rng, leaf, o)
				continue
			}
			out[i] = randomMiddle(rng, kinds[level], blocks[level], o)
			out[i].Lower = build(level + 1)
			if len(out[i].Lower) > 1 {
				out[i].Interleave = interleave()
			}
		}
		return out
	}
	cfg.Top = build(0)
	if len(cfg.Top) > 1 {
		cfg.Interleave = interleave()
	}
	return cfg
}

func randomMiddle(rng *rand.Rand, kind string, log2 int, o GenOpts) Node {
	n := Node{Kind: kind, FreqMHz: pickInt(rng, 1000, 1000, 1000, 500, 2000)}
	if rng.Intn(4) == 0 {
		n.PortBuf = pickInt(rng, 1, 2, 4)
	}
	if kind == "rob" {
		n.BufferSize = pickInt(rng, 1, 2, 4, 8, 16)
		n.ReqPerCycle = pickInt(rng, 1, 2, 4)
		return n
	}
	n.Log2Block = log2
	n.Sets = pickInt(rng, 1, 2, 2, 4)
	n.Ways = pickInt(rng, 1, 2, 2, 4)
	n.MSHR = pickInt(rng, 1, 2, 2, 4)
	n.ReqPerCycle = pickInt(rng, 1, 1, 2, 4)
	n.Banks = pickInt(rng, 1, 1, 2)
	if kind == "writeback" {
		n.BankLatency = pickInt(rng, 0, 1, 2, 5)
		n.DirLatency = pickInt(rng, 0, 0, 1, 2)
		n.WBCap = pickInt(rng, 1, 2, 4)
		n.MaxFetch = pickInt(rng, 1, 2, 4)
		n.MaxEvict = pickInt(rng, 1, 2, 4)
		return n
	}
	n.BankLatency = pickInt(rng, 1, 2, 5)
	n.DirLatency = pickInt(rng, 1, 1, 2)
	if o.ZeroLatency && rng.Intn(2) == 0 {
		if rng.Intn(2) == 0 {
			n.BankLatency = 0
		} else {
			n.DirLatency = 0
		}
	}
	n.MaxTrans = pickInt(rng, 1, 2, 4, 8, 16)
	return n
}

func randomController(rng *rand.Rand, leaf string, o GenOpts) Node {
	switch {
	case leaf == "ideal":
		return Node{Kind: "ideal", Latency: pickInt(rng, 0, 1, 3, 10, 40), Width: pickInt(rng, 1, 1, 2, 4),
			FreqMHz: pickInt(rng, 1000, 1000, 500, 2000), Capacity: 1 << 34}
	case leaf == "banked":
		n := Node{Kind: "banked", Banks: pickInt(rng, 1, 2, 4), PipeWidth: pickInt(rng, 1, 1, 2), PipeDepth: pickInt(rng, 0, 1, 2),
			StageLatency: pickInt(rng, 1, 2, 5), PostBuf: pickInt(rng, 1, 2), Log2BankInterleave: pickInt(rng, 4, 6, 6, 8),
			FreqMHz: pickInt(rng, 1000, 1000, 500, 2000), Capacity: 1 << 34}
		return n
	}
	n := Node{Kind: "dram", Preset: leaf[len("dram:"):], OpenPage: rng.Intn(2) == 0, TransQueue: pickInt(rng, 4, 8, 32), CmdQueue: pickInt(rng, 1, 2, 8)}
	return n
}

// hasKind reports whether the stack contains a component of the kind.
func hasKind(cfg *StackCfg, kind string) bool {
	found := false
	walk(cfg.Top, func(n *Node, _ int) { found = found || n.Kind == kind })
	return found
}

// WorkOpts steers the request-stream generator.
type WorkOpts struct {
	Requests int
	// NoMasks leaves masked writes out (used by checks that want a defect-free baseline).
	NoMasks bool
}

// RandomWorkload draws a footprint, a concurrency level and a request script for cfg:
// reads, full-line, partial and masked writes over a footprint of a few lines, so that
// conflicts are frequent. No request crosses a granule (the smallest cache line of the
// stack); the process id is a function of the address (one per largest cache line).
func RandomWorkload(rng *rand.Rand, cfg *StackCfg, o WorkOpts) WorkloadCfg {
	g := cfg.Granule()
	mb := cfg.MaxBlock()
	lines := pickInt(rng, 4, 8, 16, 16, 32, 64)
	w := WorkloadCfg{Size: lines * int(g), Concurrency: 1 + rng.Intn(16)}
	if w.Size < int(mb) {
		w.Size = int(mb)
	}
	switch rng.Intn(4) {
	case 0:
		w.Base = 0
	case 1:
		w.Base = 1 << 20
	case 2:
		w.Base = 3<<20 + 4096*uint64(rng.Intn(64))
	default:
		w.Base = 1<<32 + 1<<16 // beyond 4 GiB where every controller can hold it
		if hasKind(cfg, "dram") {
			w.Base = 24 << 20 // HBM3 preset: 32 MiB of storage
		}
	}
	pidMode := rng.Intn(3) // 0: all zero, 1..: per line
	pidTab := []uint32{1, 2, 1, 3, 2, 1, 3, 3}
	pidOf := func(addr uint64) uint32 {
		if pidMode == 0 {
			return 0
		}
		return pidTab[(addr/mb)%uint64(len(pidTab))]
	}
	readPct := pickInt(rng, 30, 45, 45, 60)
	for i := 0; i < o.Requests; i++ {
		line := uint64(rng.Intn(w.Size / int(g)))
		var off, n int
		if rng.Intn(5) == 0 { // arbitrary range inside the granule
			off = rng.Intn(int(g))
			n = 1 + rng.Intn(int(g)-off)
		} else { // aligned power of two
			n = 1 << uint(rng.Intn(log2of(g)+1))
			off = rng.Intn(int(g)/n) * n
		}
		r := Req{Addr: w.Base + line*g + uint64(off), Len: n}
		r.PID = pidOf(r.Addr)
		if rng.Intn(8) == 0 {
			r.Wait = 1 + rng.Intn(4)
		}
		switch x := rng.Intn(100); {
		case x < readPct:
			r.Kind, r.Class = "read", "read"
		default:
			r.Kind = "write"
			kind := rng.Intn(10)
			if kind < 3 { // full line of the granule
				r.Addr, r.Len = w.Base+line*g, int(g)
				r.PID = pidOf(r.Addr)
				r.Class = "full"
				if rng.Intn(3) == 0 {
					r.Mask = make([]bool, r.Len)
					for j := range r.Mask {
						r.Mask[j] = true
					}
				}
			} else if kind < 7 || o.NoMasks {
				r.Class = "partial"
			} else {
				r.Class = "masked"
				r.Mask = make([]bool, r.Len)
				any := false
				for j := range r.Mask {
					r.Mask[j] = rng.Intn(2) == 0
					any = any || r.Mask[j]
				}
				if !any {
					r.Mask[rng.Intn(r.Len)] = true
				}
			}
			r.Data = make(Bytes, r.Len)
			for j := range r.Data {
				r.Data[j] = byte(1 + rng.Intn(255)) // never zero: a lost write is visible
			}
		}
		w.Script = append(w.Script, r)
	}
	return w
}

func log2of(x uint64) int {
	n := 0
	for x > 1 {
		x >>= 1
		n++
	}
	return n
}

// SlowLowerCase draws a case of the family "slow lower level": write-back caches with very few
// lines (1-2 sets x 2 ways), at most 1-2 evictions in flight, small MSHR and write buffer, over a
// lower level that answers after 100-400 cycles (an ideal controller with a large latency, a deep
// banked pipeline, or the same behind 1-entry port buffers for back-pressure). The workload is
// dominated by full-line write misses to a handful of lines at high concurrency, so that victims'
// write-backs queue up in the write buffer (PendingEvictionIndices) while further requests
// recycle the transaction slots.
func SlowLowerCase(rng *rand.Rand, requests int) Case {
	log2 := pickInt(rng, 5, 6, 6)
	wb := func() Node {
		return Node{Kind: "writeback", FreqMHz: 1000, Log2Block: log2, Sets: pickInt(rng, 1, 1, 2), Ways: 2, MSHR: pickInt(rng, 1, 2),
			ReqPerCycle: pickInt(rng, 1, 2, 4), Banks: 1, BankLatency: pickInt(rng, 0, 1, 2), DirLatency: pickInt(rng, 0, 0, 1),
			WBCap: pickInt(rng, 2, 4, 8), MaxFetch: pickInt(rng, 1, 2), MaxEvict: pickInt(rng, 1, 1, 2)}
	}
	var leaf Node
	switch rng.Intn(3) {
	case 0, 1:
		leaf = Node{Kind: "ideal", Latency: 100 + rng.Intn(301), Width: pickInt(rng, 1, 1, 2), Capacity: 1 << 34}
	default:
		leaf = Node{Kind: "banked", Banks: pickInt(rng, 1, 2), PipeWidth: 1, PipeDepth: 2, StageLatency: 50 + rng.Intn(150), PostBuf: 1,
			Log2BankInterleave: 6, Capacity: 1 << 34}
	}
	if rng.Intn(3) == 0 {
		leaf.PortBuf = 1 // back-pressure on the cache's Bottom traffic
	}
	top := wb()
	switch rng.Intn(4) {
	case 0: // a second small write-back level
		mid := wb()
		mid.Lower = []Node{leaf}
		top.Lower = []Node{mid}
	case 1: // a ROB between cache and memory
		top.Lower = []Node{{Kind: "rob", BufferSize: pickInt(rng, 2, 4, 8), ReqPerCycle: pickInt(rng, 1, 2), Lower: []Node{leaf}}}
	default:
		top.Lower = []Node{leaf}
	}
	if rng.Intn(4) == 0 {
		top.PortBuf = 1
	}
	c := Case{Stack: StackCfg{PortBuf: pickInt(rng, 2, 4, 8), Top: []Node{top}}}
	g := uint64(1) << uint(log2)
	lines := pickInt(rng, 12, 16, 24, 32)
	w := WorkloadCfg{Base: pickUint(rng, 0, 1<<20, 1<<32+1<<16), Size: lines * int(g), Concurrency: 6 + rng.Intn(11)}
	pid := uint32(rng.Intn(3))
	// phase 1: one sweep over all lines in random order, mostly full-line writes: every miss evicts a
	// dirty victim that is not touched again before the sweep ends (so a lost write-back stays silent
	// until the backing storage is inspected); phase 2: random re-accesses of few lines
	order := rng.Perm(lines)
	hot := pickInt(rng, 3, 4, 6)
	for i := 0; i < requests; i++ {
		var line uint64
		sweep := i < lines
		if sweep {
			line = uint64(order[i])
		} else {
			line = uint64(order[rng.Intn(hot)])
		}
		r := Req{Addr: w.Base + line*g, Len: int(g), PID: pid}
		x := rng.Intn(100)
		switch {
		case x < 65 || (sweep && x < 85):
			r.Kind, r.Class = "write", "full"
		case x < 85:
			r.Kind, r.Class = "read", "read"
			if rng.Intn(2) == 0 {
				r.Len = 1 << uint(rng.Intn(log2+1))
				r.Addr += uint64(rng.Intn(int(g)/r.Len) * r.Len)
			}
		default:
			r.Kind, r.Class = "write", "partial"
			r.Len = 1 << uint(rng.Intn(log2))
			r.Addr += uint64(rng.Intn(int(g)/r.Len) * r.Len)
		}
		if r.Kind == "write" {
			r.Data = make(Bytes, r.Len)
			for j := range r.Data {
				r.Data[j] = byte(1 + rng.Intn(255))
			}
		}
		if !sweep && rng.Intn(12) == 0 {
			r.Wait = 1 + rng.Intn(3)
		}
		w.Script = append(w.Script, r)
	}
	w.Sweep = min(lines, requests)
	c.Work = w
	return c
}

func pickUint(rng *rand.Rand, xs ...uint64) uint64 { return xs[rng.Intn(len(xs))] }
