package ports

import (
	"encoding/json"
	"math/rand"
	"sort"

	"verif/harness/internal/replay"
)

// Replay against a NON-DETERMINISTIC specification graph: the real object is
// stepped through scripts of operation labels (op, arg); after every step the
// observed result and observable state must match at least one specification
// edge leaving one of the specification states the history may currently be in.
// (Where the property statement leaves a choice open, the specification has
// several edges with the same label; the real code may take any of them.)

// fObject is a real object under follow-replay.
type fObject interface {
	Apply(op string, arg any) any // observable result, in the shape of a.res
	Observe() any                 // observable state, in the shape of obsOf(node)
	// Diagnose is called once after a mismatch, with the alternatives the
	// specification allowed; it may run the object further to classify the failure.
	Diagnose(op string, arg any, allowed []fAlt, got any) any
	Context() any
}

type fAlt struct {
	Res any `json:"res"`
	T   any `json:"t"`
}

type fEdge struct {
	S int            `json:"s"`
	A map[string]any `json:"a"`
	T int            `json:"t"`
}

type fLabel struct {
	Op  string `json:"op"`
	Arg any    `json:"arg"`
}

type fScript struct {
	Init   int      `json:"init"`
	Labels []fLabel `json:"labels"`
}

type fInput struct {
	Config   map[string]any `json:"config"`
	Nodes    []any          `json:"nodes"`
	Inits    []int          `json:"inits"`
	Edges    []fEdge        `json:"edges"`
	Scripts  []fScript      `json:"scripts"`
	Walks    int            `json:"walks"`
	WalkLen  int            `json:"walk_len"`
	Seed     int64          `json:"seed"`
	MaxMis   int            `json:"max_mismatches"`
	Explore  bool           `json:"explore"`       // breadth-first exploration of the real-reachable part
	ExploreN int            `json:"explore_limit"` // bound on explored transitions (0 = none)
}

type fStep struct {
	A   map[string]any `json:"a"`
	Obs any            `json:"obs"`
}

type fMismatch struct {
	History int            `json:"history"`
	Step    int            `json:"step"`
	Kind    string         `json:"kind"`
	Op      map[string]any `json:"op"`
	Want    any            `json:"want"`
	Got     any            `json:"got"`
	Prefix  []fStep        `json:"prefix"`
	Init    any            `json:"init"`
	Diag    any            `json:"diag,omitempty"`
	Ctx     any            `json:"ctx,omitempty"`
}

type fOutput struct {
	Histories    int         `json:"histories"`
	Steps        int         `json:"steps"`
	Truncated    int         `json:"truncated"`
	Mismatches   []fMismatch `json:"mismatches"`
	CoveredEdges []int       `json:"covered_edges"`
	// explore mode
	ExploredStates int   `json:"explored_states"`
	ExploredSteps  int   `json:"explored_transitions"`
	ExploreCut     bool  `json:"explore_cut"`
	Samples        []any `json:"samples"`
}

// canonStr is the canonical JSON text of a value with empty arrays/objects and null
// identified (the equality replay.Equal uses).
func canonStr(v any) string {
	b, _ := json.Marshal(squashEmpty(replay.Norm(v)))
	return string(b)
}

func squashEmpty(v any) any {
	switch x := v.(type) {
	case []any:
		if len(x) == 0 {
			return nil
		}
		out := make([]any, len(x))
		for i := range x {
			out[i] = squashEmpty(x[i])
		}
		return out
	case map[string]any:
		if len(x) == 0 {
			return nil
		}
		out := map[string]any{}
		for k, e := range x {
			out[k] = squashEmpty(e)
		}
		return out
	}
	return v
}

func labelKey(op string, arg any) string {
	b, _ := json.Marshal([]any{op, replay.Norm(arg)})
	return string(b)
}

type follower struct {
	in      *fInput
	out     map[int]map[string][]int // node -> label -> edge indices
	labels  map[int][]fLabel         // node -> distinct labels (sorted)
	obsOf   func(node any) any
	obs     []any    // cached observable projection of every node
	obsC    []string // ... and its canonical text
	resC    []string // canonical text of every edge's result
	covered map[int]bool
}

func newFollower(in *fInput, obsOf func(any) any) *follower {
	f := &follower{in: in, out: map[int]map[string][]int{}, labels: map[int][]fLabel{}, obsOf: obsOf, covered: map[int]bool{}}
	for i, e := range in.Edges {
		k := labelKey(replay.Str(e.A["op"]), e.A["arg"])
		if f.out[e.S] == nil {
			f.out[e.S] = map[string][]int{}
		}
		if _, seen := f.out[e.S][k]; !seen {
			f.labels[e.S] = append(f.labels[e.S], fLabel{Op: replay.Str(e.A["op"]), Arg: e.A["arg"]})
		}
		f.out[e.S][k] = append(f.out[e.S][k], i)
	}
	for _, ls := range f.labels {
		sort.Slice(ls, func(i, j int) bool { return labelKey(ls[i].Op, ls[i].Arg) < labelKey(ls[j].Op, ls[j].Arg) })
	}
	f.obs = make([]any, len(in.Nodes))
	f.obsC = make([]string, len(in.Nodes))
	for i, nd := range in.Nodes {
		f.obs[i] = obsOf(nd)
		f.obsC[i] = canonStr(f.obs[i])
	}
	f.resC = make([]string, len(in.Edges))
	for i, e := range in.Edges {
		f.resC[i] = canonStr(e.A["res"])
	}
	return f
}

// enabled returns the labels enabled in every node of cur.
func (f *follower) enabled(cur []int) []fLabel {
	if len(cur) == 0 {
		return nil
	}
	var res []fLabel
	for _, l := range f.labels[cur[0]] {
		k := labelKey(l.Op, l.Arg)
		all := true
		for _, c := range cur[1:] {
			if _, ok := f.out[c][k]; !ok {
				all = false
				break
			}
		}
		if all {
			res = append(res, l)
		}
	}
	return res
}

// run follows one script (labels given) and then `extend` random steps.
// It returns a mismatch or nil.
func (f *follower) run(hi int, mk func(cfg map[string]any, init any) (fObject, error), init int, labels []fLabel,
	extend int, rng *rand.Rand, o *fOutput) *fMismatch {
	m, _, _ := f.runTo(hi, mk, init, labels, extend, rng, o)
	return m
}

// runTo is run that also returns the specification states the history may be in at
// the end and whether every given label was executed.
func (f *follower) runTo(hi int, mk func(cfg map[string]any, init any) (fObject, error), init int, labels []fLabel,
	extend int, rng *rand.Rand, o *fOutput) (*fMismatch, []int, bool) {
	complete := true
	obj, err := mk(f.in.Config, f.in.Nodes[init])
	if err != nil {
		return &fMismatch{History: hi, Step: -1, Kind: "init", Want: f.in.Nodes[init], Got: err.Error()}, nil, false
	}
	if ob, _ := replay.Safely(obj.Observe); !replay.Equal(ob, f.obs[init]) {
		return &fMismatch{History: hi, Step: -1, Kind: "init", Want: f.obs[init], Got: replay.Norm(ob), Init: f.in.Nodes[init]}, nil, false
	}
	cur := []int{init}
	var prefix []fStep
	step := 0
	for {
		var l fLabel
		if step < len(labels) {
			l = labels[step]
		} else if step < len(labels)+extend {
			en := f.enabled(cur)
			if len(en) == 0 {
				break
			}
			l = en[rng.Intn(len(en))]
		} else {
			break
		}
		k := labelKey(l.Op, l.Arg)
		var cand []int
		okAll := true
		for _, c := range cur {
			es, ok := f.out[c][k]
			if !ok {
				okAll = false
				break
			}
			cand = append(cand, es...)
		}
		if !okAll {
			// the real object took another allowed branch earlier and this label is
			// not enabled here: the rest of the script does not apply
			o.Truncated++
			complete = false
			break
		}
		o.Steps++
		got, panicked := replay.Safely(func() any { return obj.Apply(l.Op, l.Arg) })
		obs, p2 := replay.Safely(obj.Observe)
		a := map[string]any{"op": l.Op, "arg": l.Arg, "res": replay.Norm(got)}
		prefix = append(prefix, fStep{A: a, Obs: replay.Norm(obs)})
		seen := map[int]bool{}
		var next []int
		gotC, obsC := canonStr(got), canonStr(obs)
		for _, ei := range cand {
			e := f.in.Edges[ei]
			if gotC == f.resC[ei] && obsC == f.obsC[e.T] {
				f.covered[ei] = true
				if !seen[e.T] {
					seen[e.T] = true
					next = append(next, e.T)
				}
			}
		}
		if len(next) == 0 {
			kind := "result"
			if panicked || p2 {
				kind = "panic"
			}
			var alts []fAlt
			resOK := false
			dedup := map[string]bool{}
			for _, ei := range cand {
				e := f.in.Edges[ei]
				alt := fAlt{Res: e.A["res"], T: f.obs[e.T]}
				b, _ := json.Marshal(alt)
				if dedup[string(b)] {
					continue
				}
				dedup[string(b)] = true
				alts = append(alts, alt)
				if replay.Equal(got, e.A["res"]) {
					resOK = true
				}
			}
			if resOK && kind == "result" {
				kind = "state"
			}
			m := &fMismatch{History: hi, Step: step, Kind: kind, Op: map[string]any{"op": l.Op, "arg": l.Arg}, Want: alts,
				Got: map[string]any{"res": replay.Norm(got), "obs": replay.Norm(obs)}, Prefix: prefix, Init: f.in.Nodes[init], Ctx: replay.Norm(obj.Context())}
			d, _ := replay.Safely(func() any { return obj.Diagnose(l.Op, l.Arg, alts, got) })
			m.Diag = replay.Norm(d)
			return m, nil, false
		}
		sort.Ints(next)
		cur = next
		step++
	}
	if len(o.Samples) < 3 && len(prefix) > 3 {
		n := len(prefix)
		if n > 12 {
			n = 12
		}
		o.Samples = append(o.Samples, map[string]any{"init": f.in.Nodes[init], "steps": prefix[:n]})
	}
	return nil, cur, complete
}

// explore walks the part of the specification graph that the (deterministic) real
// object can reach, breadth first: every state set reached is expanded with every
// label enabled there, each time on a fresh object replaying the first-found path.
// A history that ends in a mismatch is not expanded further.
func (f *follower) explore(mk func(cfg map[string]any, init any) (fObject, error), rng *rand.Rand, o *fOutput, hi *int, limit int) {
	type item struct {
		init int
		path []fLabel
		cur  []int
	}
	key := func(init int, cur []int) string {
		b, _ := json.Marshal([]any{init, cur})
		return string(b)
	}
	seen := map[string]bool{}
	var queue []item
	for _, in := range f.in.Inits {
		seen[key(in, []int{in})] = true
		queue = append(queue, item{init: in, cur: []int{in}})
	}
	for len(queue) > 0 {
		it := queue[0]
		queue = queue[1:]
		o.ExploredStates++
		for _, l := range f.enabled(it.cur) {
			if limit > 0 && o.ExploredSteps >= limit {
				o.ExploreCut = true
				return
			}
			path := append(append([]fLabel{}, it.path...), l)
			m, cur, complete := f.runTo(*hi, mk, it.init, path, 0, rng, o)
			*hi++
			o.ExploredSteps++
			if m != nil {
				if len(o.Mismatches) < f.in.MaxMis {
					o.Mismatches = append(o.Mismatches, *m)
				}
				continue
			}
			if !complete {
				continue
			}
			if k := key(it.init, cur); !seen[k] {
				seen[k] = true
				queue = append(queue, item{init: it.init, path: path, cur: cur})
			}
		}
	}
}

func followDriver(mk func(cfg map[string]any, init any) (fObject, error), obsOf func(any) any) func(json.RawMessage) (any, error) {
	return func(raw json.RawMessage) (any, error) {
		var in fInput
		if err := json.Unmarshal(raw, &in); err != nil {
			return nil, err
		}
		if in.MaxMis == 0 {
			in.MaxMis = 200
		}
		f := newFollower(&in, obsOf)
		out := &fOutput{}
		rng := rand.New(rand.NewSource(in.Seed))
		hi := 0
		if in.Explore {
			f.explore(mk, rng, out, &hi, in.ExploreN)
		}
		for _, sc := range in.Scripts {
			if m := f.run(hi, mk, sc.Init, sc.Labels, 0, rng, out); m != nil && len(out.Mismatches) < in.MaxMis {
				out.Mismatches = append(out.Mismatches, *m)
			}
			hi++
		}
		for i := 0; i < in.Walks && len(in.Inits) > 0; i++ {
			init := in.Inits[rng.Intn(len(in.Inits))]
			if m := f.run(hi, mk, init, nil, in.WalkLen, rng, out); m != nil && len(out.Mismatches) < in.MaxMis {
				out.Mismatches = append(out.Mismatches, *m)
			}
			hi++
		}
		out.Histories = hi
		for e := range f.covered {
			out.CoveredEdges = append(out.CoveredEdges, e)
		}
		sort.Ints(out.CoveredEdges)
		return out, nil
	}
}
