package ports

import (
	"encoding/json"
	"fmt"

	"github.com/sarchlab/akita/v5/hooking"
	"github.com/sarchlab/akita/v5/mem"
	"github.com/sarchlab/akita/v5/mem/vm"
	"github.com/sarchlab/akita/v5/mem/vm/tlb"
	"github.com/sarchlab/akita/v5/mem/vm/vmprotocol"
	"github.com/sarchlab/akita/v5/messaging"
	"github.com/sarchlab/akita/v5/modeling"
	"github.com/sarchlab/akita/v5/noc/directconnection"
	"github.com/sarchlab/akita/v5/timing"

	"verif/harness/internal/reg"
	"verif/harness/internal/replay"
)

// ---- C15 on the route used by the TLB: mem/vm/tlb puts every translation request
// through queueing.Pipeline(width = NumReqPerCycle, stages = Latency) with
// AcceptWithDelay(item, 1).  A request must be answered once the lower level
// responds, whatever the latency. ----

type tlbCase struct {
	Mode     string `json:"mode"` // "manual" (the driver ticks the TLB) | "engine" (serial engine + direct connection)
	Latency  int    `json:"latency"`
	Width    int    `json:"width"`     // NumReqPerCycle
	Requests []int  `json:"requests"`  // page numbers, one request each
	LowDelay int    `json:"low_delay"` // manual mode: ticks the lower level takes to answer
	Budget   int    `json:"budget"`    // manual mode: ticks
}

type tlbResult struct {
	Case       tlbCase          `json:"case"`
	Answered   map[string]any   `json:"answered"` // request index -> tick (manual) / time in ps (engine) / "never"
	WrongPage  []int            `json:"wrong_page"`
	Unanswered []int            `json:"unanswered"`
	InPipeline []map[string]int `json:"in_pipeline"` // what is still inside the TLB's pipeline at the end
	InBuffer   int              `json:"in_pipeline_sink_buffer"`
	TopIn      int              `json:"top_incoming_left"`
	Panic      string           `json:"panic,omitempty"`
}

type noopConn struct {
	hooking.HookableBase
}

func (c *noopConn) Name() string                   { return "NoopConn" }
func (c *noopConn) PlugIn(p messaging.Port)        { p.SetConnection(c) }
func (c *noopConn) Unplug(messaging.Port)          {}
func (c *noopConn) NotifyAvailable(messaging.Port) {}
func (c *noopConn) NotifySend()                    {}

// endpoint is a minimal component owning one real port.
type endpoint struct {
	hooking.HookableBase
	*messaging.PortOwnerBase
	name      string
	port      messaging.Port
	onDeliver func(msg messaging.Msg)
}

func newEndpoint(name string, buf int) *endpoint {
	ep := &endpoint{name: name, PortOwnerBase: messaging.NewPortOwnerBase()}
	ep.port = messaging.NewPort(ep, buf, buf, name+".Port")
	ep.DeclarePort("Port")
	ep.AssignPort("Port", ep.port)
	return ep
}

func (ep *endpoint) Name() string { return ep.name }
func (ep *endpoint) NotifyRecv(port messaging.Port) {
	for msg := port.RetrieveIncoming(); msg != nil; msg = port.RetrieveIncoming() {
		if ep.onDeliver != nil {
			ep.onDeliver(msg)
		}
	}
}

// The endpoint ports are large enough for the whole run, so nothing has to wait for
// NotifyPortFree (which the port raises while holding its own lock).
func (ep *endpoint) send(m messaging.Msg)            { ep.port.Send(m) }
func (ep *endpoint) NotifyPortFree(_ messaging.Port) {}

func pageOf(n int) vm.Page {
	return vm.Page{PID: 1, VAddr: uint64(n) * 4096, PAddr: uint64(n)*4096 + 0x100000, PageSize: 4096, Valid: true}
}

func buildTLB(c tlbCase, engine timing.Engine, low messaging.RemotePort, buf int) *tlb.Comp {
	spec := tlb.DefaultSpec()
	spec.Latency = c.Latency
	spec.NumReqPerCycle = c.Width
	r := modeling.NewStandaloneRegistrar(engine)
	comp := tlb.MakeBuilder().WithRegistrar(r).WithSpec(spec).
		WithResources(tlb.Resources{TranslationProviderMapper: &mem.SinglePortMapper{Port: low}}).
		Build("TLB")
	for _, n := range []string{"Top", "Bottom", "Control"} {
		p := modeling.MakePortBuilder().WithRegistrar(r).WithComponent(comp).WithSpec(modeling.PortSpec{BufSize: buf}).Build(n)
		comp.AssignPort(n, p)
	}
	return comp
}

func mkReq(i, pageNo int, src, dst messaging.RemotePort) vmprotocol.TranslationReq {
	req := vmprotocol.TranslationReq{}
	req.ID = uint64(1000000 + i)
	req.Src, req.Dst = src, dst
	req.PID = 1
	req.VAddr = uint64(pageNo) * 4096
	req.DeviceID = 1
	req.TrafficClass = "vmprotocol.TranslationReq"
	return req
}

func mkRsp(to vmprotocol.TranslationReq, src messaging.RemotePort) vmprotocol.TranslationRsp {
	rsp := vmprotocol.TranslationRsp{Page: pageOf(int(to.VAddr / 4096))}
	rsp.ID = timing.GetIDGenerator().Generate()
	rsp.Src, rsp.Dst = src, to.Src
	rsp.RspTo = to.ID
	rsp.TrafficClass = "vmprotocol.TranslationRsp"
	return rsp
}

func (r *tlbResult) finish(c tlbCase, comp *tlb.Comp, answered map[int]any, pages map[int]vm.Page) {
	r.Answered = map[string]any{}
	for i, pn := range c.Requests {
		if a, ok := answered[i]; ok {
			r.Answered[fmt.Sprint(i)] = a
			if pages[i] != pageOf(pn) {
				r.WrongPage = append(r.WrongPage, i)
			}
		} else {
			r.Answered[fmt.Sprint(i)] = "never"
			r.Unanswered = append(r.Unanswered, i)
		}
	}
	for _, st := range comp.State.Pipeline.Stages() {
		r.InPipeline = append(r.InPipeline, map[string]int{"lane": st.Lane, "stage": st.Stage, "cycle_left": st.CycleLeft})
	}
	r.InBuffer = comp.State.BufferItems.Size()
	r.TopIn = comp.GetPortByName("Top").NumIncoming()
}

// manual: the driver is the requester, the lower level and the clock.
func runTLBManual(c tlbCase) (res tlbResult) {
	res.Case = c
	comp := buildTLB(c, timing.NewSerialEngine(), "Low.Port", 4)
	conn := &noopConn{}
	top, bottom := comp.GetPortByName("Top"), comp.GetPortByName("Bottom")
	conn.PlugIn(top)
	conn.PlugIn(bottom)
	conn.PlugIn(comp.GetPortByName("Control"))
	answered := map[int]any{}
	pages := map[int]vm.Page{}
	next := 0
	type due struct {
		at  int
		req vmprotocol.TranslationReq
	}
	var lower []due
	for t := 1; t <= c.Budget; t++ {
		for next < len(c.Requests) && top.CanDeliver() {
			top.Deliver(mkReq(next, c.Requests[next], "Agent.Port", top.AsRemote()))
			next++
		}
		for len(lower) > 0 && lower[0].at <= t && bottom.CanDeliver() {
			bottom.Deliver(mkRsp(lower[0].req, "Low.Port"))
			lower = lower[1:]
		}
		comp.Tick()
		for m := bottom.RetrieveOutgoing(); m != nil; m = bottom.RetrieveOutgoing() {
			lower = append(lower, due{at: t + c.LowDelay, req: m.(vmprotocol.TranslationReq)})
		}
		for m := top.RetrieveOutgoing(); m != nil; m = top.RetrieveOutgoing() {
			rsp := m.(vmprotocol.TranslationRsp)
			i := int(rsp.RspTo - 1000000)
			answered[i] = t
			pages[i] = rsp.Page
		}
		if len(answered) == len(c.Requests) {
			break
		}
	}
	res.finish(c, comp, answered, pages)
	return res
}

// engine: serial engine, one direct connection, a requester and a lower-level endpoint.
func runTLBEngine(c tlbCase) (res tlbResult) {
	res.Case = c
	engine := timing.NewSerialEngine()
	conn := directconnection.MakeBuilder().WithRegistrar(modeling.NewStandaloneRegistrar(engine)).Build("Conn")
	low := newEndpoint("Low", 2*len(c.Requests)+4)
	agent := newEndpoint("Agent", 2*len(c.Requests)+4)
	comp := buildTLB(c, engine, low.port.AsRemote(), 4)
	top := comp.GetPortByName("Top")
	conn.PlugIn(agent.port)
	conn.PlugIn(low.port)
	conn.PlugIn(top)
	conn.PlugIn(comp.GetPortByName("Bottom"))
	conn.PlugIn(comp.GetPortByName("Control"))
	answered := map[int]any{}
	pages := map[int]vm.Page{}
	low.onDeliver = func(m messaging.Msg) { low.send(mkRsp(m.(vmprotocol.TranslationReq), low.port.AsRemote())) }
	agent.onDeliver = func(m messaging.Msg) {
		rsp := m.(vmprotocol.TranslationRsp)
		i := int(rsp.RspTo - 1000000)
		answered[i] = uint64(engine.CurrentTime())
		pages[i] = rsp.Page
	}
	for i, pn := range c.Requests {
		agent.send(mkReq(i, pn, agent.port.AsRemote(), top.AsRemote()))
	}
	engine.Run()
	res.finish(c, comp, answered, pages)
	return res
}

func runTLB(raw json.RawMessage) (any, error) {
	var in struct {
		Cases []tlbCase `json:"cases"`
	}
	if err := json.Unmarshal(raw, &in); err != nil {
		return nil, err
	}
	var out []tlbResult
	for _, c := range in.Cases {
		c := c
		r, panicked := replay.Safely(func() any {
			if c.Mode == "engine" {
				return runTLBEngine(c)
			}
			return runTLBManual(c)
		})
		if panicked {
			out = append(out, tlbResult{Case: c, Panic: fmt.Sprint(r)})
			continue
		}
		out = append(out, r.(tlbResult))
	}
	return map[string]any{"results": out}, nil
}

func init() {
	reg.Register("tlb", runTLB)
}
