// Package ports holds the drivers for messaging ports (C11) and queueing
// pipelines (C15).
package ports

import (
	"encoding/json"
	"fmt"
	"sync/atomic"

	"github.com/sarchlab/akita/v5/hooking"
	"github.com/sarchlab/akita/v5/messaging"

	"verif/harness/internal/reg"
	"verif/harness/internal/replay"
)

// ---- C11: the real messaging.Port stepped through Port.tla behaviours ----

const portName = "Owner.P"

// stubOwner is the owner component of the port under test; it only counts.
type stubOwner struct {
	hooking.HookableBase
	*messaging.PortOwnerBase
	recv, free atomic.Int64
	badPort    atomic.Int64
	port       messaging.Port
	onNotify   func(kind string) // optional (concurrent mode): called inside every notification, after counting
}

func (o *stubOwner) Name() string { return "Owner" }
func (o *stubOwner) NotifyRecv(p messaging.Port) {
	o.recv.Add(1)
	if o.onNotify != nil {
		defer o.onNotify("recv")
	}
	if p != o.port {
		o.badPort.Add(1)
	}
}
func (o *stubOwner) NotifyPortFree(p messaging.Port) {
	o.free.Add(1)
	if o.onNotify != nil {
		defer o.onNotify("free")
	}
	if p != o.port {
		o.badPort.Add(1)
	}
}

// stubConn is the connection plugged into the port under test; it only counts.
type stubConn struct {
	hooking.HookableBase
	send, available atomic.Int64
	badPort         atomic.Int64
	port            messaging.Port
	onNotify        func(kind string) // optional (concurrent mode), as in stubOwner
}

func (c *stubConn) Name() string            { return "Conn" }
func (c *stubConn) PlugIn(p messaging.Port) { p.SetConnection(c) }
func (c *stubConn) Unplug(messaging.Port)   {}
func (c *stubConn) NotifySend() {
	c.send.Add(1)
	if c.onNotify != nil {
		c.onNotify("send")
	}
}
func (c *stubConn) NotifyAvailable(p messaging.Port) {
	c.available.Add(1)
	if c.onNotify != nil {
		defer c.onNotify("available")
	}
	if p != c.port {
		c.badPort.Add(1)
	}
}

type portObj struct {
	p     messaging.Port
	owner *stubOwner
	conn  *stubConn
}

func newPortObj(ic, oc int) *portObj {
	o := &portObj{owner: &stubOwner{PortOwnerBase: messaging.NewPortOwnerBase()}, conn: &stubConn{}}
	o.p = messaging.NewPort(o.owner, ic, oc, portName)
	o.owner.port = o.p
	o.conn.port = o.p
	o.conn.PlugIn(o.p)
	return o
}

// msg builds a message whose ID is the specification's value v.
func (o *portObj) msg(v int, outbound bool) messaging.Msg {
	m := messaging.MsgMeta{ID: uint64(v)}
	if outbound {
		m.Src, m.Dst = messaging.RemotePort(portName), "Peer.P"
	} else {
		m.Src, m.Dst = "Peer.P", messaging.RemotePort(portName)
	}
	return m
}

func val(m messaging.Msg) int {
	if m == nil {
		return 0
	}
	return int(m.Meta().ID)
}

func refused(f func()) (res string) {
	defer func() {
		if r := recover(); r != nil {
			res = "refused"
		}
	}()
	f()
	return "ok"
}

// apply performs one operation and returns {val, need}: need is the subset of the
// REQUIRED notifications (a.res.need) that were observed during the operation.
func (o *portObj) apply(a map[string]any) any {
	r0, f0, s0, a0 := o.owner.recv.Load(), o.owner.free.Load(), o.conn.send.Load(), o.conn.available.Load()
	var v any
	switch replay.Str(a["op"]) {
	case "cansend":
		v = o.p.CanSend()
	case "candeliver":
		v = o.p.CanDeliver()
	case "numin":
		v = o.p.NumIncoming()
	case "numout":
		v = o.p.NumOutgoing()
	case "peekin":
		v = val(o.p.PeekIncoming())
	case "peekout":
		v = val(o.p.PeekOutgoing())
	case "send":
		can := o.p.CanSend()
		r := refused(func() { o.p.Send(o.msg(replay.Num(a["arg"]), true)) })
		if (r == "ok") != can {
			r = fmt.Sprintf("CanSend=%v but Send %s", can, r)
		}
		v = r
	case "deliver":
		can := o.p.CanDeliver()
		r := refused(func() { o.p.Deliver(o.msg(replay.Num(a["arg"]), false)) })
		if (r == "ok") != can {
			r = fmt.Sprintf("CanDeliver=%v but Deliver %s", can, r)
		}
		v = r
	case "retrievein":
		v = val(o.p.RetrieveIncoming())
	case "retrieveout":
		v = val(o.p.RetrieveOutgoing())
	default:
		v = "unknown op"
	}
	seen := map[string]bool{
		"recv":      o.owner.recv.Load() > r0,
		"free":      o.owner.free.Load() > f0,
		"send":      o.conn.send.Load() > s0,
		"available": o.conn.available.Load() > a0,
	}
	need := []string{}
	if res, ok := a["res"].(map[string]any); ok {
		if nd, ok := res["need"].([]any); ok {
			for _, n := range nd {
				if seen[replay.Str(n)] {
					need = append(need, replay.Str(n))
				}
			}
		}
	}
	if o.owner.badPort.Load()+o.conn.badPort.Load() > 0 {
		return map[string]any{"val": v, "need": need, "error": "notification carried a different port"}
	}
	return map[string]any{"val": v, "need": need}
}

// observable part of a specification state: sizes and heads (the port has no
// content accessor; the contents are compared by draining at the end).
func obsOfSpec(t any) map[string]any {
	inq := replay.Ints(replay.Field(t, "inq"))
	outq := replay.Ints(replay.Field(t, "outq"))
	h := func(q []int) int {
		if len(q) == 0 {
			return 0
		}
		return q[0]
	}
	return map[string]any{"nin": len(inq), "nout": len(outq), "headin": h(inq), "headout": h(outq),
		"cansend": len(outq) < replay.Num(replay.Field(t, "oc")), "candeliver": len(inq) < replay.Num(replay.Field(t, "ic"))}
}

func (o *portObj) obs() map[string]any {
	return map[string]any{"nin": o.p.NumIncoming(), "nout": o.p.NumOutgoing(),
		"headin": val(o.p.PeekIncoming()), "headout": val(o.p.PeekOutgoing()),
		"cansend": o.p.CanSend(), "candeliver": o.p.CanDeliver()}
}

func (o *portObj) drain() map[string]any {
	in, out := []int{}, []int{}
	for i := 0; i < 1000; i++ {
		m := o.p.RetrieveIncoming()
		if m == nil {
			break
		}
		in = append(in, val(m))
	}
	for i := 0; i < 1000; i++ {
		m := o.p.RetrieveOutgoing()
		if m == nil {
			break
		}
		out = append(out, val(m))
	}
	return map[string]any{"inq": in, "outq": out}
}

func runPort(raw json.RawMessage) (any, error) {
	var in replay.Input
	if err := json.Unmarshal(raw, &in); err != nil {
		return nil, err
	}
	out := replay.Output{Histories: len(in.Histories)}
	for hi, h := range in.Histories {
		o := newPortObj(replay.Num(replay.Field(h.Init, "ic")), replay.Num(replay.Field(h.Init, "oc")))
		if got := o.obs(); !replay.Equal(got, obsOfSpec(h.Init)) {
			out.Mismatches = append(out.Mismatches, replay.Mismatch{History: hi, Step: -1, Kind: "init", Want: obsOfSpec(h.Init), Got: replay.Norm(got), Init: h.Init})
			continue
		}
		bad := false
		var lastT any = h.Init
		for si, st := range h.Steps {
			out.Steps++
			got, panicked := replay.Safely(func() any { return o.apply(st.A) })
			if !replay.Equal(got, st.A["res"]) {
				kind := "result"
				if panicked {
					kind = "panic"
				}
				out.Mismatches = append(out.Mismatches, replay.Mismatch{History: hi, Step: si, Kind: kind, Op: st.A, Want: st.A["res"], Got: replay.Norm(got), Prefix: h.Steps[:si+1], Init: h.Init})
				bad = true
				break
			}
			obs, _ := replay.Safely(func() any { return o.obs() })
			if want := obsOfSpec(st.T); !replay.Equal(obs, want) {
				out.Mismatches = append(out.Mismatches, replay.Mismatch{History: hi, Step: si, Kind: "state", Op: st.A, Want: want, Got: replay.Norm(obs), Prefix: h.Steps[:si+1], Init: h.Init})
				bad = true
				break
			}
			lastT = st.T
		}
		if !bad {
			// contents, in order: drain both buffers through the public API
			got, _ := replay.Safely(func() any { return o.drain() })
			want := map[string]any{"inq": replay.Field(lastT, "inq"), "outq": replay.Field(lastT, "outq")}
			if !replay.Equal(got, want) {
				out.Mismatches = append(out.Mismatches, replay.Mismatch{History: hi, Step: len(h.Steps), Kind: "state",
					Op: map[string]any{"op": "drain"}, Want: want, Got: replay.Norm(got), Prefix: h.Steps, Init: h.Init})
			}
		}
		if len(out.Mismatches) >= 50 {
			break
		}
	}
	return out, nil
}

func init() {
	reg.Register("port", runPort)
}
