package ports

import (
	"fmt"
	"sort"

	"github.com/sarchlab/akita/v5/queueing"

	"verif/harness/internal/reg"
	"verif/harness/internal/replay"
)

// ---- C15: the real queueing.Pipeline[int] followed through Pipeline.tla ----

// budgetSink is a queueing.Sink with room for `room` items per tick.
type budgetSink struct {
	room int
	got  []int
}

func (s *budgetSink) CanPush() bool { return len(s.got) < s.room }
func (s *budgetSink) PushTyped(v int) {
	if len(s.got) >= s.room {
		panic("pipeline pushed into a sink that reported no room")
	}
	s.got = append(s.got, v)
}

type pipeObj struct {
	p      queueing.Pipeline[int]
	w, s   int
	n      int
	delays map[int]int
	sink   budgetSink
	left   map[int]int // id -> how often it reached the sink
}

func newPipeObj(cfg map[string]any, init any) (fObject, error) {
	w, s := replay.Num(replay.Field(init, "w")), replay.Num(replay.Field(init, "s"))
	return &pipeObj{p: queueing.NewPipeline[int](w, s), w: w, s: s, delays: map[int]int{}, left: map[int]int{}}, nil
}

func (o *pipeObj) tick(room int) []int {
	o.sink = budgetSink{room: room}
	o.p.Tick(&o.sink)
	got := append([]int{}, o.sink.got...)
	for _, v := range got {
		o.left[v]++
	}
	sort.Ints(got)
	return got
}

func (o *pipeObj) Apply(op string, arg any) any {
	switch op {
	case "canaccept":
		return o.p.CanAccept()
	case "accept", "acceptd":
		if !o.p.CanAccept() {
			return "CanAccept()=false although a lane of the first stage is free"
		}
		o.n++
		d := replay.Num(arg)
		o.delays[o.n] = d
		if op == "accept" {
			o.p.Accept(o.n)
		} else {
			o.p.AcceptWithDelay(o.n, d)
		}
		return "ok"
	case "tick":
		return o.tick(replay.Num(arg))
	}
	return "unknown op"
}

func (o *pipeObj) Observe() any {
	st := o.p.Stages()
	sort.Slice(st, func(i, j int) bool { return st[i].Item < st[j].Item })
	items := make([]any, 0, len(st))
	for _, x := range st {
		items = append(items, map[string]any{"id": x.Item, "lane": x.Lane, "stage": x.Stage})
	}
	return map[string]any{"w": o.w, "s": o.s, "n": o.n, "items": items}
}

func (o *pipeObj) Context() any {
	d := map[string]int{}
	for k, v := range o.delays {
		d[fmt.Sprint(k)] = v
	}
	return map[string]any{"w": o.w, "s": o.s, "delays": d}
}

// Diagnose classifies a failed tick: did the real pipeline send fewer items to the sink
// than every allowed alternative (and do the withheld items ever come out when the
// pipeline is ticked further with a sink that has room for everything), or did it
// send an item no alternative allows.
func (o *pipeObj) Diagnose(op string, arg any, allowed []fAlt, got any) any {
	if op != "tick" {
		return nil
	}
	gotSet := map[int]bool{}
	if g, ok := got.([]int); ok {
		for _, v := range g {
			gotSet[v] = true
		}
	}
	anyAllowed := map[int]bool{}
	minCount := -1
	for _, a := range allowed {
		vs := replay.Ints(replay.Norm(a.Res))
		if minCount < 0 || len(vs) < minCount {
			minCount = len(vs)
		}
		for _, v := range vs {
			anyAllowed[v] = true
		}
	}
	var withheld, unexpected []int
	for v := range anyAllowed {
		if !gotSet[v] {
			withheld = append(withheld, v)
		}
	}
	for v := range gotSet {
		if !anyAllowed[v] {
			unexpected = append(unexpected, v)
		}
	}
	sort.Ints(withheld)
	sort.Ints(unexpected)
	res := map[string]any{"unexpected": unexpected, "under_emission": len(gotSet) < minCount}
	if len(gotSet) < minCount && len(withheld) > 0 {
		const probe = 64
		res["withheld"] = withheld
		after := map[string]any{}
		pending := map[int]bool{}
		for _, v := range withheld {
			pending[v] = true
		}
		for t := 1; t <= probe && len(pending) > 0; t++ {
			for _, v := range o.tick(o.w) {
				if pending[v] {
					after[fmt.Sprint(v)] = t
					delete(pending, v)
				}
			}
		}
		never, neverDelays := []int{}, []int{}
		for v := range pending {
			after[fmt.Sprint(v)] = "never"
			never = append(never, v)
		}
		sort.Ints(never)
		for _, v := range never {
			neverDelays = append(neverDelays, o.delays[v])
		}
		wd := []int{}
		for _, v := range withheld {
			wd = append(wd, o.delays[v])
		}
		res["withheld_delays"] = wd
		res["never_emitted"] = never
		res["never_emitted_delays"] = neverDelays
		res["emitted_after_further_full_room_ticks"] = after
		res["probe_ticks"] = probe
		res["still_inside"] = o.Observe()
	}
	return res
}

func pipeObsOf(node any) any {
	items := []any{}
	if xs, ok := replay.Field(node, "items").([]any); ok {
		for _, x := range xs {
			items = append(items, map[string]any{"id": replay.Field(x, "id"), "lane": replay.Field(x, "lane"), "stage": replay.Field(x, "stage")})
		}
	}
	return map[string]any{"w": replay.Field(node, "w"), "s": replay.Field(node, "s"), "n": replay.Field(node, "n"), "items": items}
}

func init() {
	reg.Register("pipeline", followDriver(newPipeObj, pipeObsOf))
}
