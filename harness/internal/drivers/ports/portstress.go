package ports

import (
	"encoding/json"
	"fmt"
	"math/rand"
	"runtime"
	"sync"
	"sync/atomic"
	"time"

	"github.com/sarchlab/akita/v5/messaging"

	"verif/harness/internal/reg"
)

// ---- C11, free-running mode: four goroutines on one real port, no gates.  The owner sends N numbered messages
// (waiting for NotifyPortFree when CanSend is false) while the connection side drains the outgoing buffer every time it
// is told NotifySend (retrieving until the buffer answers nil, then going idle) — and, in the other direction, the
// connection side delivers N numbered messages (waiting for NotifyAvailable when CanDeliver is false) while the owner
// drains the incoming buffer on NotifyRecv.  Every party relies on nothing but the four notifications the statement
// promises, so a lost notification shows as a STUCK run: every goroutine is parked waiting for a notification, no
// notification is pending, and messages are left.  That verdict involves no timing: if the consumer's last retrieve
// answered nil, the buffer was empty then, the next message entered an empty buffer and the statement requires a
// notification after it (symmetrically for full -> not full).  Also checked: FIFO order and completeness of what
// arrives, sizes never above the capacity, Send/Deliver never refused after CanSend/CanDeliver answered true to the
// only producer. ----

type sInput struct {
	Caps    [][2]int `json:"caps"`
	Msgs    int      `json:"msgs"`
	Rounds  int      `json:"rounds"`
	Seed    int64    `json:"seed"`
	Yield   int      `json:"yield_permille"` // probability of a scheduler yield inside Meta() and between operations
	MaxMis  int      `json:"max_mismatches"`
	Budget  int      `json:"budget_ms"`
	Workers int      `json:"workers"`
}

type sMismatch struct {
	Kind     string         `json:"kind"` // stuck | order | capacity | refused
	Missing  []string       `json:"missing,omitempty"`
	Caps     [2]int         `json:"caps"`
	Round    int            `json:"round"`
	Observed map[string]any `json:"observed"`
}

type sOutput struct {
	Rounds        int         `json:"rounds"`
	Messages      int64       `json:"messages"`
	Notifications [4]int64    `json:"notifications"` // recv, free, send, available
	WaitsFree     int64       `json:"producer_waited_for_free"`
	WaitsAvail    int64       `json:"producer_waited_for_available"`
	IdleSend      int64       `json:"consumer_idled_until_send"`
	IdleRecv      int64       `json:"consumer_idled_until_recv"`
	Mismatches    []sMismatch `json:"mismatches"`
	MismatchesN   int         `json:"mismatch_count"`
	Truncated     bool        `json:"stopped_by_budget"`
}

// yieldMsg yields the processor inside Meta() now and then: the port reads the message through the interface while it
// works, so this moves the scheduling points into the middle of Send.
type yieldMsg struct {
	meta messaging.MsgMeta
	y    *atomic.Uint64
	pm   uint64
}

func (m *yieldMsg) Meta() messaging.MsgMeta {
	if m.pm > 0 && m.y.Add(0x9E3779B97F4A7C15)>>32%1000 < m.pm {
		runtime.Gosched()
	}
	return m.meta
}

type party struct {
	waiting atomic.Bool
	wakeups atomic.Int64
	done    atomic.Bool
	sig     chan struct{}
}

func (p *party) wait(stop chan struct{}) bool {
	p.waiting.Store(true)
	select {
	case <-p.sig:
		p.wakeups.Add(1)
		p.waiting.Store(false)
		return true
	case <-stop:
		return false
	}
}

func (p *party) signal() {
	select {
	case p.sig <- struct{}{}:
	default:
	}
}

func stressRound(ic, oc, n, round int, pm uint64, rng *rand.Rand, out *sOutput, mu *sync.Mutex) *sMismatch {
	o := newPortObj(ic, oc)
	sender, drainer, deliverer, receiver := &party{sig: make(chan struct{}, 1)}, &party{sig: make(chan struct{}, 1)},
		&party{sig: make(chan struct{}, 1)}, &party{sig: make(chan struct{}, 1)}
	f := func(kind string) {
		switch kind {
		case "send":
			drainer.signal()
		case "free":
			sender.signal()
		case "recv":
			receiver.signal()
		case "available":
			deliverer.signal()
		}
	}
	o.owner.onNotify, o.conn.onNotify = f, f
	stop := make(chan struct{})
	var progress atomic.Int64
	var mis atomic.Pointer[sMismatch]
	fail := func(kind string, obs map[string]any) {
		mis.CompareAndSwap(nil, &sMismatch{Kind: kind, Caps: [2]int{ic, oc}, Round: round, Observed: obs})
	}
	var ys atomic.Uint64
	ys.Store(rng.Uint64())
	maybeYield := func() {
		if pm > 0 && ys.Add(0x9E3779B97F4A7C15)>>32%1000 < pm {
			runtime.Gosched()
		}
	}
	var waitsFree, waitsAvail, idleSend, idleRecv atomic.Int64
	var wg sync.WaitGroup
	produce := func(p *party, outbound bool, can func() bool, put func(messaging.Msg), size func() int, capacity int, waits *atomic.Int64) {
		defer wg.Done()
		defer p.done.Store(true)
		for i := 1; i <= n; i++ {
			for !can() {
				waits.Add(1)
				if !p.wait(stop) {
					return
				}
			}
			m := &yieldMsg{meta: o.msg(i, outbound).Meta(), y: &ys, pm: pm}
			if r := refused(func() { put(m) }); r != "ok" {
				fail("refused", map[string]any{"outbound": outbound, "message": i, "note": "the only producer was refused right after the capacity query answered true"})
				return
			}
			if s := size(); s > capacity {
				fail("capacity", map[string]any{"outbound": outbound, "size": s, "capacity": capacity})
				return
			}
			progress.Add(1)
			maybeYield()
		}
	}
	consume := func(p *party, outbound bool, get func() messaging.Msg, idles *atomic.Int64) {
		defer wg.Done()
		defer p.done.Store(true)
		next := 1
		for next <= n {
			idles.Add(1)
			if !p.wait(stop) {
				return
			}
			for {
				m := get()
				if m == nil {
					break
				}
				if val(m) != next {
					fail("order", map[string]any{"outbound": outbound, "got": val(m), "want": next})
					return
				}
				next++
				progress.Add(1)
				maybeYield()
			}
		}
	}
	wg.Add(4)
	go produce(sender, true, o.p.CanSend, o.p.Send, o.p.NumOutgoing, oc, &waitsFree)
	go consume(drainer, true, o.p.RetrieveOutgoing, &idleSend)
	go produce(deliverer, false, o.p.CanDeliver, o.p.Deliver, o.p.NumIncoming, ic, &waitsAvail)
	go consume(receiver, false, o.p.RetrieveIncoming, &idleRecv)
	finished := make(chan struct{})
	go func() { wg.Wait(); close(finished) }()

	parties := []*party{sender, drainer, deliverer, receiver}
	type snap struct {
		quiet    bool
		progress int64
		wake     [4]int64
	}
	take := func() snap {
		s := snap{quiet: true, progress: progress.Load()}
		for i, p := range parties {
			s.wake[i] = p.wakeups.Load()
			if !p.done.Load() && (!p.waiting.Load() || len(p.sig) > 0) {
				s.quiet = false
			}
		}
		return s
	}
	var res *sMismatch
	quietSince := 0
	var last snap
loop:
	for {
		select {
		case <-finished:
			break loop
		case <-time.After(100 * time.Millisecond):
		}
		if mis.Load() != nil {
			break
		}
		s := take()
		if s.quiet && (quietSince == 0 || s == last) {
			quietSince++
		} else {
			quietSince = 0
		}
		last = s
		if quietSince >= 5 { // half a second in which nobody ran, nobody was signalled and every live party waits for a notification
			var missing []string
			nout, nin := o.p.NumOutgoing(), o.p.NumIncoming()
			if !drainer.done.Load() && nout > 0 {
				missing = append(missing, "send")
			}
			if !sender.done.Load() && o.p.CanSend() {
				missing = append(missing, "free")
			}
			if !receiver.done.Load() && nin > 0 {
				missing = append(missing, "recv")
			}
			if !deliverer.done.Load() && o.p.CanDeliver() {
				missing = append(missing, "available")
			}
			res = &sMismatch{Kind: "stuck", Missing: missing, Caps: [2]int{ic, oc}, Round: round, Observed: map[string]any{
				"note":        "every party waits for a notification, none is pending, and the transfer is not complete",
				"transferred": s.progress, "of": 4 * n, "num_outgoing": nout, "num_incoming": nin,
				"head_outgoing": val(o.p.PeekOutgoing()), "head_incoming": val(o.p.PeekIncoming()),
				"notifications": map[string]int64{"recv": o.owner.recv.Load(), "free": o.owner.free.Load(),
					"send": o.conn.send.Load(), "available": o.conn.available.Load()},
				"waiting": map[string]bool{"sender_for_free": !sender.done.Load(), "connection_for_send": !drainer.done.Load(),
					"deliverer_for_available": !deliverer.done.Load(), "owner_for_recv": !receiver.done.Load()}}}
			break
		}
	}
	close(stop)
	<-finished
	if res == nil {
		res = mis.Load()
	}
	mu.Lock()
	out.Rounds++
	out.Messages += progress.Load() / 2
	out.Notifications[0] += o.owner.recv.Load()
	out.Notifications[1] += o.owner.free.Load()
	out.Notifications[2] += o.conn.send.Load()
	out.Notifications[3] += o.conn.available.Load()
	out.WaitsFree += waitsFree.Load()
	out.WaitsAvail += waitsAvail.Load()
	out.IdleSend += idleSend.Load()
	out.IdleRecv += idleRecv.Load()
	mu.Unlock()
	if res == nil && (o.owner.badPort.Load()+o.conn.badPort.Load() > 0) {
		res = &sMismatch{Kind: "order", Caps: [2]int{ic, oc}, Round: round, Observed: map[string]any{"note": "a notification carried a different port"}}
	}
	return res
}

func runPortStress(raw json.RawMessage) (any, error) {
	var in sInput
	if err := json.Unmarshal(raw, &in); err != nil {
		return nil, err
	}
	if in.Msgs <= 0 || in.Rounds <= 0 || len(in.Caps) == 0 {
		return nil, fmt.Errorf("portstress: msgs, rounds and caps are required")
	}
	if in.MaxMis <= 0 {
		in.MaxMis = 20
	}
	if in.Workers <= 0 {
		in.Workers = 4
	}
	out := &sOutput{}
	var mu sync.Mutex
	deadline := time.Now().Add(time.Duration(in.Budget) * time.Millisecond)
	type job struct {
		c     [2]int
		round int
	}
	jobs := make(chan job)
	var wg sync.WaitGroup
	for w := 0; w < in.Workers; w++ {
		wg.Add(1)
		rng := rand.New(rand.NewSource(in.Seed*1000 + int64(w)))
		go func() {
			defer wg.Done()
			for j := range jobs {
				m := stressRound(j.c[0], j.c[1], in.Msgs, j.round, uint64(in.Yield), rng, out, &mu)
				if m != nil {
					mu.Lock()
					out.MismatchesN++
					if len(out.Mismatches) < in.MaxMis {
						out.Mismatches = append(out.Mismatches, *m)
					}
					mu.Unlock()
				}
			}
		}()
	}
feed:
	for r := 0; r < in.Rounds; r++ {
		for _, c := range in.Caps {
			mu.Lock()
			n := out.MismatchesN
			mu.Unlock()
			if n >= in.MaxMis || (in.Budget > 0 && time.Now().After(deadline)) {
				out.Truncated = in.Budget > 0 && time.Now().After(deadline)
				break feed
			}
			jobs <- job{c, r}
		}
	}
	close(jobs)
	wg.Wait()
	return out, nil
}

func init() {
	reg.Register("portstress", runPortStress)
}
