package ports

import (
	"encoding/json"
	"fmt"
	"sort"
	"sync"
	"sync/atomic"
	"time"

	"github.com/sarchlab/akita/v5/hooking"
	"github.com/sarchlab/akita/v5/messaging"

	"verif/harness/internal/reg"
	"verif/harness/internal/replay"
)

// ---- C11, concurrent mode: from a state of Port.tla's graph, operation A runs on
// one goroutine and is parked inside the port (a hook registered on the port blocks at
// A's own hook position) while the short operation sequence B runs on a second
// goroutine; if B blocks on the port it is let through after A is released.  The
// outcome (every result, the final contents obtained by draining, the notification
// counters) must be explained by SOME position of A inside the sequence B in the
// sequential graph, with the required notifications contained in the observed ones
// (linearizability of the pair; the graph TLC emitted is the oracle). ----

type cOp struct {
	Op  string `json:"op"`
	Arg int    `json:"arg"`
	// Gate (operation A only) names the point inside the operation at which A is parked:
	//   "" / "hook"  A's own port hook position (send: under the port lock after the push; deliver: under the lock
	//                before the push; retrievein/retrieveout: after the lock was released)
	//   "meta<k>"    the k-th call of Meta() on the message A sends (Send validates the message through the
	//                messaging.Msg interface before it touches the buffer: under the port lock in the pinned tree)
	//   "notify"     inside the notification A itself must issue (send: NotifySend, deliver: NotifyRecv — both after
	//                the lock was released; retrievein: NotifyAvailable, retrieveout: NotifyPortFree — both under the lock)
	Gate string `json:"gate,omitempty"`
}

type cState struct {
	Node int   `json:"node"`
	Path []cOp `json:"path"` // operations that bring a fresh port into this state
}

type cInput struct {
	Nodes   []any    `json:"nodes"`
	Edges   []fEdge  `json:"edges"`
	States  []cState `json:"states"`
	AOps    []cOp    `json:"a_ops"`
	BSeqs   [][]cOp  `json:"b_seqs"`
	WaitUS  int      `json:"wait_us"`
	Workers int      `json:"workers"`
	MaxMis  int      `json:"max_mismatches"`
	// SameBufferOnly keeps only the B sequences whose operations all work on the buffer A works on
	SameBufferOnly bool `json:"same_buffer_only"`
	// Record returns, for every case in which A was parked at its gate (at most RecordMax of them, every RecordEvery-th),
	// the run as a record for the trace specification PortPairTrace.tla
	Record      bool `json:"record"`
	RecordEvery int  `json:"record_every"`
}

var bufferOf = map[string]string{"send": "out", "retrieveout": "out", "numout": "out", "peekout": "out", "cansend": "out",
	"deliver": "in", "retrievein": "in", "numin": "in", "peekin": "in", "candeliver": "in"}

func sameBuffer(a cOp, b []cOp) bool {
	for _, op := range b {
		if bufferOf[op.Op] != bufferOf[a.Op] {
			return false
		}
	}
	return true
}

type cMismatch struct {
	Kind     string         `json:"kind"` // not_linearizable | missing_notification | deadlock | setup
	State    any            `json:"state"`
	Path     []cOp          `json:"path"`
	A        cOp            `json:"a"`
	B        []cOp          `json:"b"`
	Observed map[string]any `json:"observed"`
	Orders   []any          `json:"sequential_orders"`
	Missing  []string       `json:"missing,omitempty"`
	ID       int            `json:"case_id"`
}

type cOutput struct {
	Cases       int            `json:"cases"`
	Parked      int64          `json:"a_parked_inside_port"`
	BBlocked    int64          `json:"b_blocked_until_release"`
	BRanInside  int64          `json:"b_completed_while_a_parked"`
	Mismatches  []cMismatch    `json:"mismatches"`
	Samples     []any          `json:"samples"`
	MismatchesN int            `json:"mismatch_count"`
	ByPair      map[string]int `json:"cases_by_pair"`
	// per "op@gate": cases, A parked at the gate, B completed while A was parked, B blocked until the release
	ByGate  map[string]*[4]int `json:"by_gate"`
	Records []any              `json:"records,omitempty"`
}

func gateName(a cOp) string {
	if a.Gate == "" {
		return a.Op + "@hook"
	}
	return a.Op + "@" + a.Gate
}

var gatePos = map[string]*hooking.HookPos{
	"deliver":     messaging.HookPosPortMsgRecvd,
	"send":        messaging.HookPosPortMsgSend,
	"retrievein":  messaging.HookPosPortMsgRetrieveIncoming,
	"retrieveout": messaging.HookPosPortMsgRetrieveOutgoing,
}

// gate parks the first goroutine that reaches it while it is armed (one shot).
type gate struct {
	armed   atomic.Bool
	parked  chan struct{}
	release chan struct{}
}

func newGate() *gate {
	g := &gate{parked: make(chan struct{}), release: make(chan struct{})}
	g.armed.Store(true)
	return g
}

func (g *gate) park() {
	if !g.armed.CompareAndSwap(true, false) {
		return
	}
	close(g.parked)
	<-g.release
}

type gateHook struct {
	pos *hooking.HookPos
	g   *gate
}

func (h *gateHook) Func(ctx hooking.HookCtx) {
	if ctx.Pos == h.pos {
		h.g.park()
	}
}

// gatedMsg is a message whose k-th Meta() call parks on the gate: the port reads a message only through
// the messaging.Msg interface, so the harness message is a legitimate place to stop an operation.
type gatedMsg struct {
	meta  messaging.MsgMeta
	at    int64
	calls atomic.Int64
	g     *gate
}

func (m *gatedMsg) Meta() messaging.MsgMeta {
	if m.calls.Add(1) == m.at {
		m.g.park()
	}
	return m.meta
}

var notifyOf = map[string]string{"send": "send", "deliver": "recv", "retrievein": "available", "retrieveout": "free"}

// install places the gate for operation a on the port object and returns the operation to run.
func (o *portObj) install(a cOp, g *gate) func() any {
	switch {
	case a.Gate == "" || a.Gate == "hook":
		o.p.AcceptHook(&gateHook{pos: gatePos[a.Op], g: g})
	case a.Gate == "notify":
		kind := notifyOf[a.Op]
		f := func(k string) {
			if k == kind {
				g.park()
			}
		}
		o.owner.onNotify, o.conn.onNotify = f, f
	case len(a.Gate) > 4 && a.Gate[:4] == "meta" && a.Op == "send":
		at := int64(0)
		fmt.Sscanf(a.Gate[4:], "%d", &at)
		m := &gatedMsg{meta: o.msg(a.Arg, true).Meta(), at: at, g: g}
		return func() (v any) {
			defer func() {
				if r := recover(); r != nil {
					v = "refused"
				}
			}()
			o.p.Send(m)
			return "ok"
		}
	}
	return func() any { return o.val1(a) }
}

// val1 performs one operation without any cross-check and returns its value.
func (o *portObj) val1(op cOp) (v any) {
	defer func() {
		if r := recover(); r != nil {
			v = "refused"
		}
	}()
	switch op.Op {
	case "cansend":
		return o.p.CanSend()
	case "candeliver":
		return o.p.CanDeliver()
	case "numin":
		return o.p.NumIncoming()
	case "numout":
		return o.p.NumOutgoing()
	case "peekin":
		return val(o.p.PeekIncoming())
	case "peekout":
		return val(o.p.PeekOutgoing())
	case "send":
		o.p.Send(o.msg(op.Arg, true))
		return "ok"
	case "deliver":
		o.p.Deliver(o.msg(op.Arg, false))
		return "ok"
	case "retrievein":
		return val(o.p.RetrieveIncoming())
	case "retrieveout":
		return val(o.p.RetrieveOutgoing())
	}
	return "unknown op"
}

func resAIfDone(done chan struct{}, res *any) any {
	select {
	case <-done:
		return *res
	default:
		return "(not returned)"
	}
}

// watchdog bounds how long an operation may stay blocked after the gate was released.
const watchdog = 10 * time.Second

type seqGraph struct {
	nodes []any
	next  map[int]map[string]int // node -> label -> edge index
	edges []fEdge
}

func (g *seqGraph) step(node int, op cOp) (fEdge, bool) {
	ei, ok := g.next[node][labelKey(op.Op, op.Arg)]
	if !ok {
		return fEdge{}, false
	}
	return g.edges[ei], true
}

func runPair(g *seqGraph, st cState, a cOp, b []cOp, wait time.Duration, out *cOutput, mu *sync.Mutex, id, recordEvery int) (mis *cMismatch) {
	defer func() {
		if mis != nil {
			mis.ID = id
		}
	}()
	node := g.nodes[st.Node]
	o := newPortObj(replay.Num(replay.Field(node, "ic")), replay.Num(replay.Field(node, "oc")))
	for _, op := range st.Path {
		o.val1(op)
	}
	if got := o.obs(); !replay.Equal(got, obsOfSpec(node)) {
		return &cMismatch{Kind: "setup", State: node, Path: st.Path, A: a, B: b, Observed: map[string]any{"obs": got}}
	}
	r0, f0, s0, a0 := o.owner.recv.Load(), o.owner.free.Load(), o.conn.send.Load(), o.conn.available.Load()
	gate := newGate()
	runA := o.install(a, gate)

	var resA any
	resB := make([]any, len(b))
	doneA, doneB := make(chan struct{}), make(chan struct{})
	go func() { resA = runA(); close(doneA) }()
	parked := false
	select {
	case <-gate.parked:
		parked = true
	case <-doneA: // A returned without reaching its hook (refused / nothing to retrieve)
		gate.armed.Store(false)
	}
	go func() {
		for i, op := range b {
			resB[i] = o.val1(op)
		}
		close(doneB)
	}()
	bInside := false
	if parked {
		select {
		case <-doneB:
			bInside = true
		case <-time.After(wait):
		}
	}
	gate.armed.Store(false)
	close(gate.release)
	dead := false
	for _, ch := range []chan struct{}{doneA, doneB} {
		select {
		case <-ch:
		case <-time.After(watchdog):
			dead = true
		}
	}
	// notifications of the two racing operations only: taken before the final drain, whose own retrieves may notify too
	seen := map[string]int64{"recv": o.owner.recv.Load() - r0, "free": o.owner.free.Load() - f0,
		"send": o.conn.send.Load() - s0, "available": o.conn.available.Load() - a0}
	var final map[string]any
	if !dead {
		// a panic inside the port while it holds its lock leaves the port locked: drain under a watchdog too
		dch := make(chan map[string]any, 1)
		go func() { dch <- o.drain() }()
		select {
		case final = <-dch:
		case <-time.After(watchdog):
			dead = true
		}
	}
	mu.Lock()
	bg := out.ByGate[gateName(a)]
	if bg == nil {
		bg = &[4]int{}
		out.ByGate[gateName(a)] = bg
	}
	bg[0]++
	if parked {
		out.Parked++
		bg[1]++
		if bInside {
			out.BRanInside++
			bg[2]++
		} else {
			out.BBlocked++
			bg[3]++
		}
	}
	mu.Unlock()
	if dead {
		return &cMismatch{Kind: "deadlock", State: node, Path: st.Path, A: a, B: b,
			Observed: map[string]any{"note": "an operation (or the final drain) did not return within 10 s after the gate was released: the port is left locked or blocked",
				"a": fmt.Sprint(resAIfDone(doneA, &resA)), "a_parked": parked}}
	}
	if recordEvery > 0 && parked && id%recordEvery == 0 {
		rb := make([]any, len(b))
		for i, op := range b {
			rb[i] = map[string]any{"op": op.Op, "arg": op.Arg, "val": replay.Norm(resB[i])}
		}
		rec := map[string]any{"id": id, "gate": gateName(a), "init": node, "a": map[string]any{"op": a.Op, "arg": a.Arg, "val": replay.Norm(resA)},
			"b": rb, "final": replay.Norm(final), "seen": seen, "b_completed_while_a_parked": bInside}
		mu.Lock()
		out.Records = append(out.Records, rec)
		mu.Unlock()
	}
	observed := map[string]any{"a": replay.Norm(resA), "b": replay.Norm(resB), "final": replay.Norm(final), "notifications": seen,
		"a_parked": parked, "b_completed_while_a_parked": bInside}

	// every position of A within B
	var orders []any
	var bestMissing []string
	stateOK := false
	for p := 0; p <= len(b); p++ {
		seq := append(append(append([]cOp{}, b[:p]...), a), b[p:]...)
		cur := st.Node
		ok := true
		need := map[string]int64{}
		var trace []any
		for i, op := range seq {
			e, found := g.step(cur, op)
			if !found {
				ok = false
				break
			}
			res, _ := e.A["res"].(map[string]any)
			var got any
			switch {
			case i == p:
				got = resA
			case i < p:
				got = resB[i]
			default:
				got = resB[i-1]
			}
			trace = append(trace, map[string]any{"op": op, "res": res})
			if !replay.Equal(got, res["val"]) {
				ok = false
			}
			if nd, isList := res["need"].([]any); isList {
				for _, n := range nd {
					need[replay.Str(n)]++
				}
			}
			cur = e.T
		}
		fin := map[string]any{"inq": replay.Field(g.nodes[cur], "inq"), "outq": replay.Field(g.nodes[cur], "outq")}
		orders = append(orders, map[string]any{"a_at": p, "steps": trace, "final": fin, "need": need})
		if !ok || !replay.Equal(final, fin) {
			continue
		}
		stateOK = true
		var missing []string
		for k, n := range need {
			if seen[k] < n {
				missing = append(missing, k)
			}
		}
		sort.Strings(missing)
		if len(missing) == 0 {
			mu.Lock()
			if len(out.Samples) < 4 && parked && len(need) > 0 {
				out.Samples = append(out.Samples, map[string]any{"state": node, "a": a, "b": b, "observed": observed, "explained_by_a_at": p})
			}
			mu.Unlock()
			return nil
		}
		bestMissing = missing
	}
	if stateOK {
		return &cMismatch{Kind: "missing_notification", State: node, Path: st.Path, A: a, B: b, Observed: observed, Orders: orders, Missing: bestMissing}
	}
	return &cMismatch{Kind: "not_linearizable", State: node, Path: st.Path, A: a, B: b, Observed: observed, Orders: orders}
}

func runPortConc(raw json.RawMessage) (any, error) {
	var in cInput
	if err := json.Unmarshal(raw, &in); err != nil {
		return nil, err
	}
	if in.Workers <= 0 {
		in.Workers = 16
	}
	if in.WaitUS <= 0 {
		in.WaitUS = 2000
	}
	if in.MaxMis <= 0 {
		in.MaxMis = 200
	}
	g := &seqGraph{nodes: in.Nodes, edges: in.Edges, next: map[int]map[string]int{}}
	for i, e := range in.Edges {
		if g.next[e.S] == nil {
			g.next[e.S] = map[string]int{}
		}
		g.next[e.S][labelKey(replay.Str(e.A["op"]), e.A["arg"])] = i
	}
	type job struct {
		st cState
		a  cOp
		b  []cOp
		id int
	}
	out := &cOutput{ByPair: map[string]int{}, ByGate: map[string]*[4]int{}}
	jobs := make(chan job, 256)
	var mu sync.Mutex
	var wg sync.WaitGroup
	for w := 0; w < in.Workers; w++ {
		wg.Add(1)
		go func() {
			defer wg.Done()
			for j := range jobs {
				every := 0
				if in.Record {
					every = max(in.RecordEvery, 1)
				}
				m := runPair(g, j.st, j.a, j.b, time.Duration(in.WaitUS)*time.Microsecond, out, &mu, j.id, every)
				if m != nil && m.Kind == "deadlock" {
					// confirm on a fresh port before reporting (a stalled machine must not look like a blocked port)
					m = runPair(g, j.st, j.a, j.b, time.Duration(in.WaitUS)*time.Microsecond, out, &mu, j.id, 0)
				}
				if m != nil {
					mu.Lock()
					out.MismatchesN++
					if len(out.Mismatches) < in.MaxMis {
						out.Mismatches = append(out.Mismatches, *m)
					}
					mu.Unlock()
				}
			}
		}()
	}
	for _, st := range in.States {
		for _, a := range in.AOps {
			for _, b := range in.BSeqs {
				if in.SameBufferOnly && !sameBuffer(a, b) {
					continue
				}
				out.Cases++
				k := gateName(a) + " || "
				for i, op := range b {
					if i > 0 {
						k += ";"
					}
					k += op.Op
				}
				out.ByPair[k]++
				jobs <- job{st, a, b, out.Cases}
			}
		}
	}
	close(jobs)
	wg.Wait()
	rank := map[string]int{"missing_notification": 0, "not_linearizable": 1, "deadlock": 2}
	sort.SliceStable(out.Mismatches, func(i, j int) bool {
		a, b := out.Mismatches[i], out.Mismatches[j]
		if rank[a.Kind] != rank[b.Kind] {
			return rank[a.Kind] < rank[b.Kind]
		}
		return len(a.Path)+len(a.B) < len(b.Path)+len(b.B)
	})
	return out, nil
}

func init() {
	reg.Register("portconc", runPortConc)
}
