package engine

import (
	"encoding/json"
	"fmt"
	"math/rand"
	"os"
	"runtime"
	"sync"
	"sync/atomic"
	"time"

	"github.com/sarchlab/akita/v5/hooking"
	"github.com/sarchlab/akita/v5/timing"

	"verif/harness/internal/reg"
)

// ctl is the schedule controller: every gate passage and every logged step is
// ordered by one mutex (never by wall-clock time).
type ctl struct {
	mu      sync.Mutex
	log     []map[string]any
	parked  []*waiter
	gating  bool
	arrived int64
	nextID  int
	pending int // scheduled (logged) and not yet started, under mu
	// seq numbers every logged step (taken inside mu for steps logged under it). The pause storm logs its own two
	// steps with nothing but this counter — an atomic increment after Pause returned and one before Continue is
	// called — and merges them into the log by number afterwards: sequentially consistent increments order the
	// steps exactly as the mutex would, without putting a mutex hand-over between Pause and Continue.
	seq    int64
	logSeq []int64
}

func (c *ctl) add(m map[string]any) { // under mu
	c.log = append(c.log, m)
	c.logSeq = append(c.logSeq, atomic.AddInt64(&c.seq, 1))
}

// merged returns the log with the steps recorded by sequence number only put in their place.
func (c *ctl) merged(extra []int64, kinds []string) []map[string]any {
	c.mu.Lock()
	defer c.mu.Unlock()
	out := make([]map[string]any, 0, len(c.log)+len(extra))
	i, j := 0, 0
	for i < len(c.log) || j < len(extra) {
		if j >= len(extra) || (i < len(c.log) && c.logSeq[i] < extra[j]) {
			out = append(out, c.log[i])
			i++
		} else {
			out = append(out, map[string]any{"e": kinds[j]})
			j++
		}
	}
	return out
}

type waiter struct {
	key   int
	label string
	ch    chan struct{}
}

func (c *ctl) rec(m map[string]any) {
	c.mu.Lock()
	c.add(m)
	c.mu.Unlock()
}

func (c *ctl) gate(key int, label string) {
	if !c.gating {
		return
	}
	w := &waiter{key: key, label: label, ch: make(chan struct{})}
	c.mu.Lock()
	c.parked = append(c.parked, w)
	c.mu.Unlock()
	atomic.AddInt64(&c.arrived, 1)
	<-w.ch
}

type parEngine interface {
	timing.Engine
	timing.HandlerRegistrar
}

type parRun struct {
	c    *ctl
	eng  parEngine
	prog program
	spin int // free-running mode: busy iterations inside handlers
	rng  *rand.Rand
	rmu  sync.Mutex
}

func (r *parRun) Func(ctx hooking.HookCtx) {
	if ctx.Pos == timing.HookPosBeforeEvent {
		evt := ctx.Item.(progEvt)
		r.c.gate(evt.Key, "prebegin")
	}
}

func (r *parRun) schedule(key, t int, sec bool, byT int, bySec bool) {
	c := r.c
	c.mu.Lock()
	c.nextID++
	id := c.nextID
	c.add(map[string]any{"e": "sched", "id": id, "t": t, "sec": sec, "byT": byT, "bySec": bySec})
	c.pending++
	c.mu.Unlock()
	r.eng.Schedule(progEvt{timing.EventBase{ID: uint64(id), Time_: timing.VTimeInPicoSec(t), HandlerID_: "H", Secondary: sec}, key})
}

func (r *parRun) Handle(e timing.Event) error {
	evt := e.(progEvt)
	r.c.mu.Lock()
	r.c.add(map[string]any{"e": "start", "id": int(evt.ID)})
	r.c.pending--
	r.c.mu.Unlock()
	if r.spin > 0 {
		r.rmu.Lock()
		n := r.rng.Intn(r.spin)
		r.rmu.Unlock()
		for i := 0; i < n; i++ {
			runtime.Gosched()
		}
	}
	for _, ch := range r.prog.kids[evt.Key] {
		r.c.gate(evt.Key, "sched")
		r.schedule(ch.id, int(evt.Time())+ch.dt, ch.sec, int(evt.Time()), evt.IsSecondary())
	}
	r.c.gate(evt.Key, "prefinish")
	r.c.rec(map[string]any{"e": "end", "id": int(evt.ID)})
	return nil
}

type parOpts struct {
	Engine   string // serial | parallel
	Procs    int
	Gated    bool
	Policy   string // random | lowkey
	Pauses   int
	PauseMid bool // directed: issue the pause only while a handler is parked mid-handler
	Spin     int
	RunUntil bool // serial engine only: drive the run through RunUntil(t) boundaries, then Run
	Double   bool // every pause is issued by two goroutines at once (overlapping Pause calls)
	MinFirst int  // directed scenarios: wait until this many handlers are parked before the first release
	// SchedInPause: while the engine is held paused (Pause returned, Continue not yet called) the pausing goroutine
	// schedules one more primary event at the engine's current instant, as a controller inspecting a paused
	// simulation may (monitoring2 ticks components this way). Only done when events are still queued, so that Run
	// cannot have decided to return concurrently.
	SchedInPause bool
	// Storm (free-running only): Pause immediately followed by Continue, as many times as fit into the run, and
	// after every Continue the run must make progress again (a step is logged or Run returns) within 3 s.
	Storm bool
}

// runPar executes one program and returns its log (ending with ret).
func runPar(p program, o parOpts, rng *rand.Rand) []map[string]any {
	if o.Procs > 0 {
		defer runtime.GOMAXPROCS(runtime.GOMAXPROCS(o.Procs))
	}
	var eng parEngine
	if o.Engine == "serial" {
		eng = timing.NewSerialEngine()
	} else {
		eng = timing.NewParallelEngine()
	}
	c := &ctl{gating: o.Gated}
	r := &parRun{c: c, eng: eng, prog: p, spin: o.Spin, rng: rng}
	eng.RegisterHandler("H", r)
	eng.AcceptHook(r)
	for _, root := range p.roots {
		r.schedule(root.id, root.dt, root.sec, -1, false)
	}
	done := make(chan struct{})
	go func() {
		if se, ok := eng.(*timing.SerialEngine); ok && o.RunUntil {
			// the time-boundary flow (mid-run checkpoints): a few RunUntil calls, then Run
			for b := timing.VTimeInPicoSec(0); b < 6; b += 2 {
				_ = se.RunUntil(b)
			}
		}
		_ = eng.Run()
		c.rec(map[string]any{"e": "ret"})
		close(done)
	}()
	var pauser sync.WaitGroup
	var pausing int32
	pausesLeft := o.Pauses
	extraKey := -1000
	startPause := func() {
		pausesLeft--
		atomic.StoreInt32(&pausing, 1)
		n := 1
		if o.Double {
			n = 2
		}
		hold := time.Duration(1+rng.Intn(3)) * time.Millisecond
		var left int32 = int32(n)
		for k := 0; k < n; k++ {
			pauser.Add(1)
			go func(k int) {
				defer pauser.Done()
				eng.Pause()
				c.rec(map[string]any{"e": "pause_ret"})
				if o.SchedInPause && k == 0 {
					// give the run loop time to come back to the pause lock, as it would while a user looks at the paused run
					time.Sleep(300 * time.Microsecond)
					c.mu.Lock()
					queued := c.pending
					c.mu.Unlock()
					if queued > 0 {
						extraKey--
						r.schedule(extraKey, int(eng.CurrentTime()), false, -1, false)
					}
				}
				// stay paused while the controller keeps releasing parked handlers
				if !o.Storm {
					time.Sleep(hold + time.Duration(k)*time.Millisecond)
				}
				c.rec(map[string]any{"e": "continue"})
				eng.Continue()
				if atomic.AddInt32(&left, -1) == 0 {
					atomic.StoreInt32(&pausing, 0)
				}
			}(k)
		}
	}
	if !o.Gated && o.Storm {
		steps := func() int64 { return atomic.LoadInt64(&c.seq) }
		var extra []int64
		var kinds []string
		finish := func(hang bool) []map[string]any {
			if hang {
				c.rec(map[string]any{"e": "hang"})
			}
			return c.merged(extra, kinds)
		}
		for pausesLeft > 0 {
			select {
			case <-done:
				return finish(false)
			default:
			}
			pausesLeft--
			spin := 0
			if rng.Intn(3) == 0 {
				spin = rng.Intn(40)
			}
			eng.Pause()
			s1 := atomic.AddInt64(&c.seq, 1)
			if o.SchedInPause {
				time.Sleep(300 * time.Microsecond)
				c.mu.Lock()
				queued := c.pending
				c.mu.Unlock()
				if queued > 0 {
					extraKey--
					r.schedule(extraKey, int(eng.CurrentTime()), false, -1, false)
				}
			}
			for i := 0; i < spin; i++ {
				_ = atomic.LoadInt64(&c.seq)
			}
			s2 := atomic.AddInt64(&c.seq, 1)
			eng.Continue()
			extra = append(extra, s1, s2)
			kinds = append(kinds, "pause_ret", "continue")
			at := steps()
			deadline := time.Now().Add(3 * time.Second)
			for n := 0; ; n++ {
				if steps() > at {
					break
				}
				select {
				case <-done:
					return finish(false)
				default:
				}
				if n%1024 == 1023 && time.Now().After(deadline) {
					return finish(true)
				}
				runtime.Gosched()
			}
		}
		select {
		case <-done:
		case <-time.After(20 * time.Second):
			return finish(true)
		}
		return finish(false)
	}
	if !o.Gated {
		// free-running: pauses at random wall-clock moments (only affects which schedule is seen)
		for pausesLeft > 0 {
			select {
			case <-done:
				pausesLeft = 0
			case <-time.After(time.Duration(rng.Intn(300)) * time.Microsecond):
				startPause()
				pauser.Wait()
			}
		}
		select {
		case <-done:
		case <-time.After(20 * time.Second):
			c.rec(map[string]any{"e": "hang"})
			return c.log
		}
		pauser.Wait()
		return c.log
	}
	// gated: release one parked handler at a time once the system is stable
	finished := false
	released := 0
	lastProgress := time.Now()
	lastLen := -1
	for !finished {
		c.mu.Lock()
		if len(c.log) != lastLen {
			lastLen, lastProgress = len(c.log), time.Now()
		}
		c.mu.Unlock()
		if time.Since(lastProgress) > 4*time.Second {
			// no step for 4 s although nothing is parked: the run does not proceed
			c.rec(map[string]any{"e": "hang"})
			return c.log
		}
		last := atomic.LoadInt64(&c.arrived)
		stable := 0
		for stable < 2 {
			select {
			case <-done:
				finished = true
			case <-time.After(150 * time.Microsecond):
			}
			if finished {
				break
			}
			now := atomic.LoadInt64(&c.arrived)
			if now == last {
				stable++
			} else {
				stable, last = 0, now
			}
		}
		if finished {
			break
		}
		c.mu.Lock()
		n := len(c.parked)
		mid := false
		for _, w := range c.parked {
			if w.label != "prebegin" {
				mid = true
			}
		}
		if pausesLeft > 0 && atomic.LoadInt32(&pausing) == 0 && ((o.PauseMid && mid) || (!o.PauseMid && rng.Intn(4) == 0)) {
			c.mu.Unlock()
			startPause()
			continue
		}
		if n == 0 {
			c.mu.Unlock()
			continue
		}
		if released == 0 && n < o.MinFirst && time.Since(lastProgress) < 2*time.Second {
			c.mu.Unlock()
			continue
		}
		released++
		pick := rng.Intn(n)
		if o.Policy == "lowkey" {
			pick = 0
			for i, w := range c.parked {
				if w.key < c.parked[pick].key {
					pick = i
				}
			}
		}
		w := c.parked[pick]
		c.parked = append(c.parked[:pick], c.parked[pick+1:]...)
		c.mu.Unlock()
		close(w.ch)
	}
	pauser.Wait()
	return c.log
}

func init() {
	// par_trace: programs on a real engine under gated/free schedules, logged for ParTrace.tla
	reg.Register("par_trace", func(raw json.RawMessage) (any, error) {
		var in struct {
			Seed      int64   `json:"seed"`
			Programs  int     `json:"programs"`
			MaxEvents int     `json:"max_events"`
			Given     [][]Rec `json:"given"` // EngineGen behaviours used as programs
			Scenario  string  `json:"scenario"`
			Out       string  `json:"out"`
			parOptsJSON
		}
		if err := json.Unmarshal(raw, &in); err != nil {
			return nil, err
		}
		o := parOpts{Engine: in.Engine, Procs: in.Procs, Gated: in.Gated, Policy: in.Policy, Pauses: in.Pauses, PauseMid: in.PauseMid, Spin: in.Spin, RunUntil: in.RunUntil, Double: in.Double, MinFirst: in.MinFirst,
			SchedInPause: in.SchedInPause, Storm: in.Storm}
		rng := rand.New(rand.NewSource(in.Seed))
		f, err := os.Create(in.Out)
		if err != nil {
			return nil, err
		}
		defer f.Close()
		enc := json.NewEncoder(f)
		var progs []program
		switch in.Scenario {
		case "w18":
			// two same-instant secondaries; the first schedules a same-instant primary
			progs = append(progs, program{roots: []child{{1, 0, true}, {2, 0, true}}, kids: map[int][]child{1: {{3, 0, false}}}})
		case "chain":
			// one long chain of primaries, each scheduling its successor one time unit later (pause storms need a long run)
			for i := 0; i < max(in.Programs, 1); i++ {
				p := program{roots: []child{{1, 0, false}}, kids: map[int][]child{}}
				for k := 1; k < in.MaxEvents; k++ {
					p.kids[k] = []child{{k + 1, 1, rng.Intn(8) == 0}}
				}
				progs = append(progs, p)
			}
		case "w11":
			progs = append(progs, program{roots: []child{{1, 0, false}}, kids: map[int][]child{1: {{2, 1, false}}}})
		default:
			for _, h := range in.Given {
				progs = append(progs, parse(h))
			}
			for i := 0; i < in.Programs; i++ {
				p, _ := randomProgram(rng, in.MaxEvents, false)
				progs = append(progs, p)
			}
		}
		events := 0
		var sample []map[string]any
		for i, p := range progs {
			oo := o
			if in.ProcsCycle {
				oo.Procs = []int{1, 2, 4, 16}[i%4]
			}
			log := runPar(p, oo, rng)
			for _, m := range log {
				_ = enc.Encode(m)
			}
			_ = enc.Encode(map[string]any{"e": "reset"})
			events += len(log) + 1
			if i == 0 {
				sample = log[:min(len(log), 20)]
			}
		}
		return map[string]any{"programs": len(progs), "events": events, "sample": sample}, nil
	})
}

type parOptsJSON struct {
	Engine       string `json:"engine"`
	Procs        int    `json:"procs"`
	ProcsCycle   bool   `json:"procs_cycle"`
	Gated        bool   `json:"gated"`
	Policy       string `json:"policy"`
	Pauses       int    `json:"pauses"`
	PauseMid     bool   `json:"pause_mid"`
	RunUntil     bool   `json:"run_until"`
	Double       bool   `json:"double"`
	MinFirst     int    `json:"min_first"`
	Spin         int    `json:"spin"`
	SchedInPause bool   `json:"sched_in_pause"`
	Storm        bool   `json:"storm"`
}

var _ = fmt.Sprint
