// Package engine drives the real timing engines.
package engine

import (
	"bytes"
	"encoding/json"
	"fmt"
	"math/rand"
	"os"

	"github.com/sarchlab/akita/v5/hooking"
	"github.com/sarchlab/akita/v5/timing"

	"verif/harness/internal/reg"
	"verif/harness/internal/replay"
)

const infBound = 2000000000

// Rec is one record of an Engine.tla behaviour / trace.
type Rec struct {
	E    string `json:"e"`
	ID   int    `json:"id,omitempty"`
	T    int    `json:"t"`
	Sec  bool   `json:"sec"`
	B    int    `json:"b,omitempty"`
	Time int    `json:"time"`
	NP   int    `json:"np"`
	NS   int    `json:"ns"`
}

func (r Rec) canon() string {
	switch r.E {
	case "sched":
		return fmt.Sprintf("sched id=%d t=%d sec=%v", r.ID, r.T, r.Sec)
	case "call":
		return fmt.Sprintf("call b=%d", r.B)
	case "start":
		return fmt.Sprintf("start id=%d t=%d", r.ID, r.T)
	case "end":
		return "end"
	case "ret":
		return fmt.Sprintf("ret time=%d np=%d ns=%d", r.Time, r.NP, r.NS)
	}
	return r.E
}

func (r Rec) out() map[string]any {
	switch r.E {
	case "sched":
		return map[string]any{"e": r.E, "id": r.ID, "t": r.T, "sec": r.Sec}
	case "call":
		return map[string]any{"e": r.E, "b": r.B}
	case "start":
		return map[string]any{"e": r.E, "id": r.ID, "t": r.T}
	case "ret":
		return map[string]any{"e": r.E, "time": r.Time, "np": r.NP, "ns": r.NS}
	}
	return map[string]any{"e": r.E}
}

type child struct {
	id  int
	dt  int
	sec bool
}

type progEvt struct {
	timing.EventBase
	Key int `json:"key"` // index into the program table (equals ID unless renumbering)
}

// program is a table-driven handler program.
type program struct {
	roots []child // dt = absolute time
	kids  map[int][]child
	calls []int
}

func parse(h []Rec) program {
	p := program{kids: map[int][]child{}}
	cur, curT := 0, 0
	for _, r := range h {
		switch r.E {
		case "sched":
			if cur == 0 {
				p.roots = append(p.roots, child{r.ID, r.T, r.Sec})
			} else {
				p.kids[cur] = append(p.kids[cur], child{r.ID, r.T - curT, r.Sec})
			}
		case "start":
			cur, curT = r.ID, r.T
		case "end":
			cur = 0
		case "call":
			p.calls = append(p.calls, r.B)
		}
	}
	return p
}

type runner struct {
	eng      *timing.SerialEngine
	log      []Rec
	prog     program
	nHandler int
	problems []string
	running  int
	renumber bool // assign IDs in scheduling order (random programs)
	nextID   int
}

func (r *runner) Func(ctx hooking.HookCtx) {
	evt, _ := ctx.Item.(progEvt)
	switch ctx.Pos {
	case timing.HookPosBeforeEvent:
		r.log = append(r.log, Rec{E: "start", ID: int(evt.ID), T: int(r.eng.CurrentTime())})
	case timing.HookPosAfterEvent:
		r.log = append(r.log, Rec{E: "end"})
	}
}

type handler struct {
	r   *runner
	idx int
}

func (h handler) Handle(e timing.Event) error {
	r := h.r
	evt := e.(progEvt)
	r.running++
	if r.running != 1 {
		r.problems = append(r.problems, "two handlers running at once")
	}
	if int(evt.ID)%r.nHandler != h.idx {
		r.problems = append(r.problems, fmt.Sprintf("event %d dispatched to handler %d", evt.ID, h.idx))
	}
	if evt.Time() != r.eng.CurrentTime() {
		r.problems = append(r.problems, fmt.Sprintf("event %d: Time()=%d but CurrentTime()=%d", evt.ID, evt.Time(), r.eng.CurrentTime()))
	}
	for _, c := range r.prog.kids[evt.Key] {
		r.schedule(c.id, int(r.eng.CurrentTime())+c.dt, c.sec)
	}
	r.running--
	return nil
}

func (r *runner) schedule(key, t int, sec bool) {
	id := key
	if r.renumber {
		r.nextID++
		id = r.nextID
	}
	r.eng.Schedule(progEvt{timing.EventBase{ID: uint64(id), Time_: timing.VTimeInPicoSec(t),
		HandlerID_: fmt.Sprintf("H%d", id%r.nHandler), Secondary: sec}, key})
	r.log = append(r.log, Rec{E: "sched", ID: id, T: t, Sec: sec})
}

func (r *runner) queueLens() (int, int) {
	var buf bytes.Buffer
	if err := r.eng.SaveCheckpoint(&buf); err != nil {
		// event type not registered with the codec: count through a drain-free path is impossible
		return -1, -1
	}
	var dto struct {
		Primary   json.RawMessage `json:"primary"`
		Secondary json.RawMessage `json:"secondary"`
	}
	_ = json.Unmarshal(buf.Bytes(), &dto)
	cnt := func(raw json.RawMessage) int {
		var arr []json.RawMessage
		if err := json.Unmarshal(raw, &arr); err != nil {
			return -1
		}
		return len(arr)
	}
	return cnt(dto.Primary), cnt(dto.Secondary)
}

// execute runs the program on a fresh real engine with the given call sequence.
func execute(p program, calls []int, nHandler int, renumber bool) (log []Rec, problems []string) {
	r := &runner{eng: timing.NewSerialEngine(), prog: p, nHandler: nHandler, renumber: renumber}
	for i := 0; i < nHandler; i++ {
		r.eng.RegisterHandler(fmt.Sprintf("H%d", i), handler{r, i})
	}
	r.eng.AcceptHook(r)
	defer func() {
		if x := recover(); x != nil {
			problems = append(r.problems, fmt.Sprintf("panic: %v", x))
			log = r.log
		}
	}()
	for _, c := range p.roots {
		r.schedule(c.id, c.dt, c.sec)
	}
	for _, b := range calls {
		r.log = append(r.log, Rec{E: "call", B: b})
		if b >= infBound {
			if err := r.eng.Run(); err != nil {
				r.problems = append(r.problems, "Run error: "+err.Error())
			}
		} else {
			if err := r.eng.RunUntil(timing.VTimeInPicoSec(b)); err != nil {
				r.problems = append(r.problems, "RunUntil error: "+err.Error())
			}
		}
		np, ns := r.queueLens()
		r.log = append(r.log, Rec{E: "ret", Time: int(r.eng.CurrentTime()), NP: np, NS: ns})
	}
	return r.log, r.problems
}

func handledOrder(l []Rec) []int {
	var out []int
	for _, r := range l {
		if r.E == "start" {
			out = append(out, r.ID)
		}
	}
	return out
}

type replayIn struct {
	Behaviours [][]Rec `json:"behaviours"`
	Handlers   int     `json:"handlers"`
}

type engMismatch struct {
	Index    int      `json:"index"`
	Kind     string   `json:"kind"` // order | return | schedule | problem | boundary
	At       int      `json:"at"`
	Want     string   `json:"want"`
	Got      string   `json:"got"`
	Problems []string `json:"problems,omitempty"`
	Hist     []Rec    `json:"hist"`
}

func init() {
	timing.RegisterEvent(progEvt{})

	// engine_replay: Engine.tla behaviours on the real serial engine
	reg.Register("engine_replay", func(raw json.RawMessage) (any, error) {
		var in replayIn
		if err := json.Unmarshal(raw, &in); err != nil {
			return nil, err
		}
		if in.Handlers == 0 {
			in.Handlers = 3
		}
		var mm []engMismatch
		steps, multi := 0, 0
		for i, h := range in.Behaviours {
			p := parse(h)
			got, problems := execute(p, p.calls, in.Handlers, false)
			steps += len(got)
			if m := compare(i, h, got, problems); m != nil {
				mm = append(mm, *m)
			} else if len(p.calls) > 1 {
				// C02: the same program under one Run handles the same events in the same order
				multi++
				single, problems2 := execute(p, []int{infBound}, in.Handlers, false)
				a, b := handledOrder(got), handledOrder(single)
				if fmt.Sprint(a) != fmt.Sprint(b) || len(problems2) > 0 {
					mm = append(mm, engMismatch{Index: i, Kind: "boundary", Want: fmt.Sprint(b), Got: fmt.Sprint(a), Problems: problems2, Hist: h})
				}
			}
			if len(mm) >= 30 {
				break
			}
		}
		return map[string]any{"behaviours": len(in.Behaviours), "steps": steps, "with_boundaries": multi, "mismatches": mm}, nil
	})

	// engine_trace: seeded random programs on the real engine, recorded as a trace for EngineTrace.tla
	reg.Register("engine_trace", func(raw json.RawMessage) (any, error) {
		var in struct {
			Seed       int64  `json:"seed"`
			Programs   int    `json:"programs"`
			MaxEvents  int    `json:"max_events"`
			Boundaries bool   `json:"boundaries"`
			Out        string `json:"out"`
		}
		if err := json.Unmarshal(raw, &in); err != nil {
			return nil, err
		}
		rng := rand.New(rand.NewSource(in.Seed))
		f, err := os.Create(in.Out)
		if err != nil {
			return nil, err
		}
		defer f.Close()
		enc := json.NewEncoder(f)
		total, progs := 0, 0
		var problemsAll []string
		var sample []map[string]any
		for pi := 0; pi < in.Programs; pi++ {
			p, calls := randomProgram(rng, in.MaxEvents, in.Boundaries)
			log, problems := execute(p, calls, 1+rng.Intn(8), true)
			for _, pr := range problems {
				problemsAll = append(problemsAll, fmt.Sprintf("program %d: %s", pi, pr))
			}
			for _, r := range log {
				_ = enc.Encode(r.out())
			}
			_ = enc.Encode(map[string]any{"e": "reset"})
			total += len(log) + 1
			progs++
			if pi == 0 {
				for _, r := range log[:min(len(log), 25)] {
					sample = append(sample, r.out())
				}
			}
		}
		return map[string]any{"programs": progs, "events": total, "problems": problemsAll, "sample": sample}, nil
	})
}

func compare(i int, want, got []Rec, problems []string) *engMismatch {
	n := min(len(want), len(got))
	for k := 0; k < n; k++ {
		if want[k].canon() != got[k].canon() {
			kind := "order"
			switch want[k].E {
			case "ret":
				kind = "return"
			case "sched":
				kind = "schedule"
			}
			if got[k].E == "ret" && want[k].E != "ret" {
				kind = "return"
			}
			return &engMismatch{Index: i, Kind: kind, At: k, Want: want[k].canon(), Got: got[k].canon(), Problems: problems, Hist: want}
		}
	}
	if len(want) != len(got) {
		w, g := "<end>", "<end>"
		if len(want) > n {
			w = want[n].canon()
		}
		if len(got) > n {
			g = got[n].canon()
		}
		return &engMismatch{Index: i, Kind: "order", At: n, Want: w, Got: g, Problems: problems, Hist: want}
	}
	if len(problems) > 0 {
		return &engMismatch{Index: i, Kind: "problem", Problems: problems, Hist: want}
	}
	return nil
}

// burstProgram has one handler schedule a burst of 40-300 events of one class (so the
// queue's backing storage grows and later shrinks), most at a few shared instants, some of
// which schedule follow-ups: the heap must keep (time, schedule order) through growth,
// drain and refill.
func burstProgram(rng *rand.Rand, boundaries bool) (program, []int) {
	p := program{kids: map[int][]child{}}
	p.roots = []child{{1, 0, false}, {2, 1, rng.Intn(2) == 0}}
	next := 3
	n := 40 + rng.Intn(260)
	sec := rng.Intn(3) == 0
	for i := 0; i < n; i++ {
		p.kids[1] = append(p.kids[1], child{next, 1 + rng.Intn(4), sec != (rng.Intn(10) == 0)})
		next++
	}
	// a tail of follow-ups scheduled while the burst drains
	for i := 0; i < 30; i++ {
		parent := 3 + rng.Intn(n)
		p.kids[parent] = append(p.kids[parent], child{next, rng.Intn(3), rng.Intn(2) == 0})
		next++
	}
	calls := []int{}
	if boundaries {
		b := 0
		for c := rng.Intn(4); c > 0; c-- {
			b += rng.Intn(4)
			calls = append(calls, b)
		}
	}
	return p, append(calls, infBound)
}

// randomProgram builds a tie-heavy random handler program: children at dt in a small
// range so many events share an instant, chains of same-instant primaries/secondaries.
func randomProgram(rng *rand.Rand, maxEvents int, boundaries bool) (program, []int) {
	if rng.Intn(4) == 0 {
		return burstProgram(rng, boundaries)
	}
	p := program{kids: map[int][]child{}}
	n := 20 + rng.Intn(maxEvents-19)
	next := 1
	nroots := 1 + rng.Intn(6)
	maxT := 0
	times := map[int]int{}
	for ; next <= nroots; next++ {
		t := rng.Intn(4)
		p.roots = append(p.roots, child{next, t, rng.Intn(3) == 0})
		times[next] = t
	}
	// assign children to earlier events round-robin-ish so that depth grows
	parent := 1
	dtMax := 1 + rng.Intn(3)
	for next <= n {
		k := rng.Intn(4)
		for j := 0; j < k && next <= n; j++ {
			dt := rng.Intn(dtMax + 1)
			if rng.Intn(3) == 0 {
				dt = 0
			}
			p.kids[parent] = append(p.kids[parent], child{next, dt, rng.Intn(3) == 0})
			times[next] = times[parent] + dt
			if times[next] > maxT {
				maxT = times[next]
			}
			next++
		}
		parent++
		if parent >= next { // nobody left to parent: stop
			break
		}
	}
	var calls []int
	if boundaries {
		b := 0
		for c := rng.Intn(6); c > 0; c-- {
			b += rng.Intn(maxT/2 + 2)
			calls = append(calls, b)
			if rng.Intn(4) == 0 {
				calls = append(calls, b) // repeated boundary
			}
		}
	}
	calls = append(calls, infBound)
	_ = replay.Num
	return p, calls
}
