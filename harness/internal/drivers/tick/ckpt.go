package tick

import (
	"archive/tar"
	"bytes"
	"compress/gzip"
	"crypto/sha256"
	"encoding/hex"
	"encoding/json"
	"fmt"
	"io"
	"math/rand"
	"os"
	"os/exec"
	"path/filepath"
	"reflect"
	"regexp"
	"sort"

	"github.com/sarchlab/akita/v5/simulation"
	"github.com/sarchlab/akita/v5/timing"

	"verif/harness/internal/reg"
)

const buildID = "verif-build"

// newSim creates a checkpointable simulation whose recorder file lives in dir.
func newSim(dir string, n *int) *simulation.Simulation {
	*n++
	return simulation.MakeBuilder().WithoutMonitoring().WithOutputFileName(filepath.Join(dir, fmt.Sprintf("rec%d", *n))).Build()
}

func resetIDs(start uint64) {
	timing.ResetIDGenerator()
	timing.UseSequentialIDGenerator()
	if start > 0 {
		timing.SetIDGeneratorNextID(start)
	}
}

// readArchive returns the entries of a checkpoint archive (tar.gz) by name.
func readArchive(path string) (map[string][]byte, error) {
	f, err := os.Open(path)
	if err != nil {
		return nil, err
	}
	defer f.Close()
	gz, err := gzip.NewReader(f)
	if err != nil {
		return nil, err
	}
	tr := tar.NewReader(gz)
	out := map[string][]byte{}
	for {
		h, err := tr.Next()
		if err == io.EOF {
			break
		}
		if err != nil {
			return nil, err
		}
		b, err := io.ReadAll(tr)
		if err != nil {
			return nil, err
		}
		out[h.Name] = b
	}
	return out, nil
}

type tarEntry struct {
	Name string
	Data []byte
	Type byte
}

// writeArchive packs entries (in the given order) the way the repository does.
func writeArchive(path string, entries []tarEntry) error {
	var buf bytes.Buffer
	gz := gzip.NewWriter(&buf)
	tw := tar.NewWriter(gz)
	for _, e := range entries {
		typ := e.Type
		if typ == 0 {
			typ = tar.TypeReg
		}
		h := &tar.Header{Name: e.Name, Mode: 0o600, Size: int64(len(e.Data)), Typeflag: typ}
		if typ != tar.TypeReg {
			h.Size = 0
			h.Linkname = "x"
		}
		if err := tw.WriteHeader(h); err != nil {
			return err
		}
		if typ == tar.TypeReg {
			if _, err := tw.Write(e.Data); err != nil {
				return err
			}
		}
	}
	_ = tw.Close()
	_ = gz.Close()
	return os.WriteFile(path, buf.Bytes(), 0o644)
}

func sortedEntries(m map[string][]byte) []tarEntry {
	var names []string
	for n := range m {
		if n != "build_id" {
			names = append(names, n)
		}
	}
	sort.Strings(names)
	out := []tarEntry{{Name: "build_id", Data: m["build_id"]}}
	for _, n := range names {
		out = append(out, tarEntry{Name: n, Data: m[n]})
	}
	return out
}

// safely runs f, converting a panic into an error string.
func safely(f func() error) (err error, panicked string) {
	defer func() {
		if r := recover(); r != nil {
			panicked = fmt.Sprint(r)
		}
	}()
	return f(), ""
}

type ckMismatch struct {
	System int    `json:"system"`
	Cut    int    `json:"cut"`
	Kind   string `json:"kind"` // suffix | final | load_error | panic | canonical | save_error
	Class  string `json:"class"` // ids_only: equal once generated IDs are erased; real: differs beyond IDs
	InBuf  bool   `json:"msg_in_buffer_at_cut"`
	Entity string `json:"entity,omitempty"`
	Detail string `json:"detail"`
	Config SysCfg `json:"config"`
}

// every key that holds a generated ID in the tick-family entities: message / event / task IDs
// (id, ID, req_id, recv_task_id, current_cmd_id, next_id …) and response references
var idMask = regexp.MustCompile(`"([A-Za-z_]*(?:id|ID|Id)|RspTo|rsp_to)":\s*\d+`)

var payloadMask = regexp.MustCompile(`payload-\d+`)

// maskIDs erases generated IDs from an entity payload (the harness's own message payload text
// is derived from the message ID, so it is erased with it).
func maskIDs(b []byte) []byte {
	return payloadMask.ReplaceAll(idMask.ReplaceAll(b, []byte(`"$1":0`)), []byte("payload-0"))
}

// canonIDs renames event and message IDs by order of first appearance.
func canonIDs(recs []map[string]any) []map[string]any {
	ev, ms := map[any]int{}, map[any]int{}
	out := make([]map[string]any, len(recs))
	for i, r := range recs {
		c := map[string]any{}
		for k, v := range r {
			c[k] = v
		}
		if v, ok := c["id"]; ok {
			if _, seen := ev[v]; !seen {
				ev[v] = len(ev) + 1
			}
			c["id"] = ev[v]
		}
		if v, ok := c["m"]; ok {
			if _, seen := ms[v]; !seen {
				ms[v] = len(ms) + 1
			}
			c["m"] = ms[v]
		}
		out[i] = c
	}
	return out
}

func firstDiff(want, got []map[string]any) string {
	if len(want) != len(got) {
		return fmt.Sprintf("uninterrupted run has %d records after the cut, resumed run %d", len(want), len(got))
	}
	for i := range want {
		if !recsEqual(want[i], got[i]) {
			a, _ := json.Marshal(want[i])
			b, _ := json.Marshal(got[i])
			return fmt.Sprintf("record %d after the cut: uninterrupted %s, resumed %s", i, a, b)
		}
	}
	return ""
}

func recsEqual(a, b map[string]any) bool {
	ja, _ := json.Marshal(a)
	jb, _ := json.Marshal(b)
	return bytes.Equal(ja, jb)
}

func actTimes(recs []map[string]any) []int {
	seen := map[int]bool{}
	var out []int
	for _, r := range recs {
		if r["e"] == "act" {
			t := r["t"].(int)
			if !seen[t] {
				seen[t] = true
				out = append(out, t)
			}
		}
	}
	return out
}

// suffixAfter returns the records of events with time > t (from the first such act on).
func suffixAfter(recs []map[string]any, t int) []map[string]any {
	for i, r := range recs {
		if r["e"] == "act" && r["t"].(int) > t {
			return recs[i:]
		}
		if r["e"] == "quiesce" {
			return recs[i:]
		}
	}
	return nil
}

type ckRunner struct {
	dir  string
	nsim int
}

// Every simulation runs in its own OS process (as a real restore does): the repository
// keeps process-wide tracing side tables keyed by component name and message ID, which
// would otherwise leak from one simulation into the next inside this harness.
type procIn struct {
	Mode  string `json:"mode"` // ref | a | b | canon
	Cfg   SysCfg `json:"cfg"`
	T     int    `json:"t"`
	Ck    string `json:"ck"`
	Final string `json:"final"`
	Dir   string `json:"dir"`
}

type procOut struct {
	Recs     []map[string]any `json:"recs"`
	Err      string           `json:"err"`
	Panicked string           `json:"panicked"`
}

func runProc(in procIn) procOut {
	n := 0
	var out procOut
	switch in.Mode {
	case "ref":
		resetIDs(0)
		sim := newSim(in.Dir, &n)
		s := buildWith(in.Cfg, sim, "")
		s.withIDs = true
		s.run()
		if err := sim.SaveCheckpoint(in.Final, buildID); err != nil {
			out.Err = err.Error()
		}
		sim.Terminate()
		out.Recs = s.tr.recs
	case "a":
		resetIDs(0)
		sim := newSim(in.Dir, &n)
		a := buildWith(in.Cfg, sim, "")
		a.withIDs = true
		a.kick()
		_ = a.eng.RunUntil(timing.VTimeInPicoSec(in.T))
		if err := sim.SaveCheckpoint(in.Ck, buildID); err != nil {
			out.Err = "save: " + err.Error()
		}
		sim.Terminate()
		out.Recs = a.tr.recs
	case "b":
		// a different process starts with its own counter: the restore must set it
		resetIDs(777777)
		sim := newSim(in.Dir, &n)
		b := buildWith(in.Cfg, sim, "")
		b.withIDs = true
		err, panicked := safely(func() error { return sim.LoadCheckpoint(in.Ck, buildID) })
		if err != nil || panicked != "" {
			if err != nil {
				out.Err = err.Error()
			}
			out.Panicked = panicked
			return out
		}
		_ = b.eng.Run()
		b.quiesce()
		if err := sim.SaveCheckpoint(in.Final, buildID); err != nil {
			out.Err = "save after resume: " + err.Error()
		}
		sim.Terminate()
		out.Recs = b.tr.recs[1:] // drop the config record
	case "canon":
		resetIDs(424242)
		sim := newSim(in.Dir, &n)
		buildWith(in.Cfg, sim, "")
		if err := sim.LoadCheckpoint(in.Ck, buildID); err != nil {
			out.Err = err.Error()
			return out
		}
		if err := sim.SaveCheckpoint(in.Final, buildID); err != nil {
			out.Err = err.Error()
		}
		sim.Terminate()
	}
	return out
}

func (k *ckRunner) exec(in procIn) (procOut, error) {
	in.Dir = k.dir
	k.nsim++
	inF := filepath.Join(k.dir, fmt.Sprintf("p%d.in", k.nsim))
	outF := filepath.Join(k.dir, fmt.Sprintf("p%d.out", k.nsim))
	b, _ := json.Marshal(in)
	if err := os.WriteFile(inF, b, 0o644); err != nil {
		return procOut{}, err
	}
	cmd := exec.Command(os.Args[0], "ckpt_proc", "-in", inF, "-out", outF)
	cmd.Dir = k.dir
	if o, err := cmd.CombinedOutput(); err != nil {
		return procOut{}, fmt.Errorf("child process failed: %v: %s", err, o)
	}
	var out procOut
	ob, err := os.ReadFile(outF)
	if err != nil {
		return out, err
	}
	dec := json.NewDecoder(bytes.NewReader(ob))
	dec.UseNumber()
	if err := dec.Decode(&out); err != nil {
		return out, err
	}
	for _, r := range out.Recs {
		normNumbers(r)
	}
	_ = os.Remove(inF)
	_ = os.Remove(outF)
	return out, nil
}

// normNumbers turns json.Number into int so that records compare like in-process ones.
func normNumbers(r map[string]any) {
	for k, v := range r {
		if n, ok := v.(json.Number); ok {
			i, _ := n.Int64()
			r[k] = int(i)
		}
	}
}

// reference runs the system uninterrupted; returns trace and final archive.
func (k *ckRunner) reference(cfg SysCfg) ([]map[string]any, map[string][]byte, error) {
	final := filepath.Join(k.dir, "final.ckpt")
	out, err := k.exec(procIn{Mode: "ref", Cfg: cfg, Final: final})
	if err != nil {
		return nil, nil, err
	}
	if out.Err != "" {
		return nil, nil, fmt.Errorf("%s", out.Err)
	}
	arch, err := readArchive(final)
	return out.Recs, arch, err
}

// cutAt runs to t, checkpoints, rebuilds in a new process, loads, finishes.
func (k *ckRunner) cutAt(cfg SysCfg, t int) (ck string, prefix, suffix []map[string]any, final map[string][]byte, err error, panicked string) {
	ck = filepath.Join(k.dir, fmt.Sprintf("cut%d.ckpt", t))
	a, err := k.exec(procIn{Mode: "a", Cfg: cfg, T: t, Ck: ck})
	if err != nil {
		return ck, nil, nil, nil, err, ""
	}
	if a.Err != "" {
		return ck, nil, nil, nil, fmt.Errorf("%s", a.Err), ""
	}
	fp := filepath.Join(k.dir, "finalB.ckpt")
	b, err := k.exec(procIn{Mode: "b", Cfg: cfg, Ck: ck, Final: fp})
	if err != nil {
		return ck, a.Recs, nil, nil, err, ""
	}
	if b.Panicked != "" || b.Err != "" {
		var e error
		if b.Err != "" {
			e = fmt.Errorf("%s", b.Err)
		}
		return ck, a.Recs, nil, nil, e, b.Panicked
	}
	final, err = readArchive(fp)
	return ck, a.Recs, b.Recs, final, err, ""
}

// canonical: load ck into a rebuilt simulation and save again: bytes must be identical.
func (k *ckRunner) canonical(cfg SysCfg, ck string) (string, error) {
	again := ck + ".again"
	out, err := k.exec(procIn{Mode: "canon", Cfg: cfg, Ck: ck, Final: again})
	if err != nil {
		return "", err
	}
	if out.Err != "" {
		return "", fmt.Errorf("%s", out.Err)
	}
	x, _ := os.ReadFile(ck)
	y, _ := os.ReadFile(again)
	defer os.Remove(again)
	if !bytes.Equal(x, y) {
		ax, _ := readArchive(ck)
		ay, _ := readArchive(again)
		for n := range ax {
			if !bytes.Equal(ax[n], ay[n]) {
				return "entry " + n + " differs", nil
			}
		}
		return "archive bytes differ", nil
	}
	return "", nil
}

func hashOf(m map[string][]byte) string {
	var names []string
	for n := range m {
		names = append(names, n)
	}
	sort.Strings(names)
	h := sha256.New()
	for _, n := range names {
		h.Write([]byte(n))
		h.Write(m[n])
	}
	return hex.EncodeToString(h.Sum(nil))
}

// memSystem draws a system with an ideal memory controller, requesters reading/writing it,
// and ordinary scripted traffic (exercises storage, component State with buffers, ports).
func memSystem(rng *rand.Rand) SysCfg {
	cfg := randomSystem(rng, 3, 6)
	k := cfg.Conns[0].Name
	memPort := "M0.Top"
	cfg.Comps = append(cfg.Comps, CompCfg{Name: "M0", Kind: "mem", Period: 1000, Cap: 4096, Latency: 1 + rng.Intn(5),
		Ports: []PortCfg{{Name: memPort, In: 1 + rng.Intn(3), Out: 1 + rng.Intn(3), Conn: k}, {Name: "M0.Control", In: 1, Out: 1, Conn: k}}})
	// every component with a port on connection k issues some reads / writes
	for i := range cfg.Comps {
		cc := &cfg.Comps[i]
		if cc.Kind == "mem" {
			continue
		}
		for _, pc := range cc.Ports {
			if pc.Conn != k {
				continue
			}
			for a := range cc.Script {
				for n := rng.Intn(3); n > 0; n-- {
					op := []string{"read", "write"}[rng.Intn(2)]
					cc.Script[a] = append(cc.Script[a], Action{Op: op, Port: pc.Name, Dst: memPort, Addr: 4 * rng.Intn(60)})
				}
			}
			if len(cc.Script) == 0 {
				cc.Script = [][]Action{{{Op: "write", Port: pc.Name, Dst: memPort, Addr: 8}}, {{Op: "read", Port: pc.Name, Dst: memPort, Addr: 8}}}
			}
		}
	}
	return cfg
}

// expectedEntities lists the names every registered entity of a system must be saved under.
func expectedEntities(cfg SysCfg) map[string]bool {
	want := map[string]bool{"build_id": true, "entities/Engine": true, "entities/IDGenerator": true}
	for _, k := range cfg.Conns {
		want["entities/"+k.Name] = true
	}
	for _, c := range cfg.Comps {
		want["entities/"+c.Name] = true
		if c.Kind == "mem" {
			want["entities/"+c.Name+".Storage"] = true
		}
		for _, p := range c.Ports {
			want["entities/"+p.Name] = true
		}
	}
	return want
}

func inventoryDiff(cfg SysCfg, arch map[string][]byte) (missing, extra []string) {
	want := expectedEntities(cfg)
	for n := range want {
		if _, ok := arch[n]; !ok {
			missing = append(missing, n)
		}
	}
	for n := range arch {
		if !want[n] {
			extra = append(extra, n)
		}
	}
	sort.Strings(missing)
	sort.Strings(extra)
	return
}

func registerCkpt() {
	reg.Register("ckpt_proc", func(raw json.RawMessage) (any, error) {
		var in procIn
		if err := json.Unmarshal(raw, &in); err != nil {
			return nil, err
		}
		return runProc(in), nil
	})

	// ckpt_cuts: C06 (every cut of every run) and the canonical-archive half of C07
	reg.Register("ckpt_cuts", func(raw json.RawMessage) (any, error) {
		var in struct {
			Seed     int64    `json:"seed"`
			Systems  []SysCfg `json:"systems"`
			Random   int      `json:"random"`
			Mem      int      `json:"mem"`
			Collide  int      `json:"collide"`
			MaxCuts  int      `json:"max_cuts"`
			TraceOut string   `json:"trace_out"` // prefix+suffix traces for TickTrace.tla
		}
		if err := json.Unmarshal(raw, &in); err != nil {
			return nil, err
		}
		rng := rand.New(rand.NewSource(in.Seed))
		all := in.Systems
		for i := 0; i < in.Random; i++ {
			all = append(all, randomSystem(rng, 4, 8))
		}
		for i := 0; i < in.Mem; i++ {
			all = append(all, memSystem(rng))
		}
		for i := 0; i < in.Collide; i++ {
			all = append(all, collisionSystem(rng))
		}
		dir, _ := os.MkdirTemp("", "ckpt-")
		defer os.RemoveAll(dir)
		k := &ckRunner{dir: dir}
		var mm []ckMismatch
		var enc *json.Encoder
		if in.TraceOut != "" {
			f, err := os.Create(in.TraceOut)
			if err != nil {
				return nil, err
			}
			defer f.Close()
			enc = json.NewEncoder(f)
		}
		cuts, events, entities := 0, 0, 0
		var starts []int
		line := 1
		var sample map[string]any
		for si, cfg := range all {
			ref, refFinal, err := k.reference(cfg)
			if err != nil {
				mm = append(mm, ckMismatch{System: si, Cut: -1, Kind: "save_error", Detail: err.Error(), Config: cfg})
				continue
			}
			entities += len(refFinal)
			// inventory: the archive holds exactly one payload per registered entity
			// (engine, ID generator, every component, port, connection, resource) and nothing else
			if miss, extra := inventoryDiff(cfg, refFinal); len(miss)+len(extra) > 0 {
				mm = append(mm, ckMismatch{System: si, Cut: -1, Kind: "inventory", Class: "real",
					Detail: fmt.Sprintf("archive entries differ from the registered entities: missing %v, unexpected %v", miss, extra), Config: cfg})
			}
			times := actTimes(ref)
			if in.MaxCuts > 0 && len(times) > in.MaxCuts {
				rng.Shuffle(len(times), func(i, j int) { times[i], times[j] = times[j], times[i] })
				times = times[:in.MaxCuts]
			}
			for _, t := range times {
				cuts++
				ck, prefix, suffix, final, err, panicked := k.cutAt(cfg, t)
				if panicked != "" {
					mm = append(mm, ckMismatch{System: si, Cut: t, Kind: "panic", Detail: panicked, Config: cfg})
					continue
				}
				if err != nil {
					mm = append(mm, ckMismatch{System: si, Cut: t, Kind: "load_error", Detail: err.Error(), Config: cfg})
					continue
				}
				want := suffixAfter(ref, t)
				events += len(suffix)
				inBuf := false
				if arch, err := readArchive(ck); err == nil {
					for n, d := range arch {
						if bytes.Contains(d, []byte(`"capacity"`)) && bytes.Contains(d, []byte(`"elements":[{`)) {
							_ = n
							inBuf = true
						}
					}
				}
				if d := firstDiff(want, suffix); d != "" {
					class := "real"
					if firstDiff(canonIDs(want), canonIDs(suffix)) == "" {
						class = "ids_only"
					}
					mm = append(mm, ckMismatch{System: si, Cut: t, Kind: "suffix", Class: class, InBuf: inBuf, Detail: d, Config: cfg})
				}
				for name, data := range refFinal {
					if !bytes.Equal(data, final[name]) {
						class := "real"
						if bytes.Equal(maskIDs(data), maskIDs(final[name])) {
							class = "ids_only"
						}
						mm = append(mm, ckMismatch{System: si, Cut: t, Kind: "final", Class: class, InBuf: inBuf, Entity: name, Detail: fmt.Sprintf("uninterrupted %s, resumed %s", clip(data), clip(final[name])), Config: cfg})
						if class == "real" {
							break
						}
					}
				}
				if len(final) != len(refFinal) {
					mm = append(mm, ckMismatch{System: si, Cut: t, Kind: "final", Class: "real", Entity: "<entity set>", Detail: "different entity sets", Config: cfg})
				}
				if d, err := k.canonical(cfg, ck); err != nil {
					mm = append(mm, ckMismatch{System: si, Cut: t, Kind: "load_error", Detail: "canonical reload: " + err.Error(), Config: cfg})
				} else if d != "" {
					mm = append(mm, ckMismatch{System: si, Cut: t, Kind: "canonical", Detail: d, Config: cfg})
				}
				_ = os.Remove(ck)
				if enc != nil {
					// the run as a requester sees it: before the cut from A, after it from B
					starts = append(starts, line)
					for _, r := range prefix {
						_ = enc.Encode(stripID(r))
					}
					for _, r := range suffix {
						_ = enc.Encode(stripID(r))
					}
					_ = enc.Encode(map[string]any{"e": "reset"})
					line += len(prefix) + len(suffix) + 1
				}
				if sample == nil && len(suffix) > 3 {
					sample = map[string]any{"cut": t, "entities": len(refFinal), "first_resumed_records": suffix[:3]}
				}
			}
			if len(mm) > 400 {
				break
			}
		}
		return map[string]any{"systems": len(all), "cuts": cuts, "events": events, "entities": entities, "mismatches": mm, "starts": starts, "sample": sample}, nil
	})

	// det_run: one system, full observation; run in several processes and compared (C03)
	reg.Register("det_run", func(raw json.RawMessage) (any, error) {
		var in struct {
			Seed   int64  `json:"seed"`
			Random int    `json:"random"`
			Mem    int    `json:"mem"`
			Out    string `json:"out"`
		}
		if err := json.Unmarshal(raw, &in); err != nil {
			return nil, err
		}
		rng := rand.New(rand.NewSource(in.Seed))
		var all []SysCfg
		for i := 0; i < in.Random; i++ {
			all = append(all, randomSystem(rng, 4, 8))
		}
		for i := 0; i < in.Mem; i++ {
			all = append(all, memSystem(rng))
		}
		dir, _ := os.MkdirTemp("", "det-")
		defer os.RemoveAll(dir)
		k := &ckRunner{dir: dir}
		f, err := os.Create(in.Out)
		if err != nil {
			return nil, err
		}
		defer f.Close()
		enc := json.NewEncoder(f)
		n := 0
		for i, cfg := range all {
			ref, final, err := k.reference(cfg)
			if err != nil {
				return nil, err
			}
			for _, r := range ref[1:] {
				r["sys"] = i
				_ = enc.Encode(r)
				n++
			}
			var names []string
			for nme := range final {
				names = append(names, nme)
			}
			sort.Strings(names)
			for _, nme := range names {
				sum := sha256.Sum256(final[nme])
				_ = enc.Encode(map[string]any{"e": "final", "sys": i, "entity": nme, "sha": hex.EncodeToString(sum[:8]), "data": clip(final[nme])})
				n++
			}
		}
		return map[string]any{"systems": len(all), "records": n}, nil
	})
}

func stripID(r map[string]any) map[string]any {
	if _, ok := r["id"]; !ok {
		return r
	}
	out := map[string]any{}
	for k, v := range r {
		if k != "id" {
			out[k] = v
		}
	}
	return out
}

func clip(b []byte) string {
	s := string(bytes.TrimSpace(b))
	if len(s) > 300 {
		return s[:300] + "…"
	}
	return s
}

var _ = reflect.DeepEqual
