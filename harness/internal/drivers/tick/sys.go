// Package tick builds small systems of scripted components (ticking and
// event-driven) over real messaging ports and real direct connections on the
// real serial engine, runs them, and records one trace record per observable
// step for TickTrace.tla.
package tick

import (
	"encoding/json"
	"fmt"
	"math/rand"
	"os"

	"github.com/sarchlab/akita/v5/hooking"
	"github.com/sarchlab/akita/v5/mem"
	"github.com/sarchlab/akita/v5/mem/idealmemcontroller"
	"github.com/sarchlab/akita/v5/mem/memprotocol"
	"github.com/sarchlab/akita/v5/messaging"
	"github.com/sarchlab/akita/v5/modeling"
	"github.com/sarchlab/akita/v5/noc/directconnection"
	"github.com/sarchlab/akita/v5/simulation"
	"github.com/sarchlab/akita/v5/timing"

	"verif/harness/internal/reg"
)

// Action is one scripted step of a component activation.
type Action struct {
	Op   string `json:"op"` // send | wake | read | write
	Port string `json:"port,omitempty"`
	Dst  string `json:"dst,omitempty"`
	D    int    `json:"d,omitempty"`    // wake: delay in ps
	Addr int    `json:"addr,omitempty"` // read / write: address (4-byte accesses)
}

// PortCfg describes one port.
type PortCfg struct {
	Name string `json:"name"`
	In   int    `json:"in"`
	Out  int    `json:"out"`
	Conn string `json:"conn"`
}

// CompCfg describes one scripted component.
type CompCfg struct {
	Name   string     `json:"name"`
	Kind   string     `json:"kind"`   // tick | ed | mem (ideal memory controller, ports Top/Control)
	Cap    int        `json:"cap,omitempty"`     // mem: storage capacity in bytes
	Latency int       `json:"latency,omitempty"` // mem: latency in cycles
	Period int        `json:"period"` // ps (ticking components)
	Drain  bool       `json:"drain"`  // retrieves everything on every activation
	Stall  int        `json:"stall"`  // number of initial activations during which it does not retrieve
	Ports  []PortCfg  `json:"ports"`
	Script [][]Action `json:"script"` // per activation
}

// ConnCfg describes one direct connection.
type ConnCfg struct {
	Name   string `json:"name"`
	Period int    `json:"period"`
}

// SysCfg is a complete system.
type SysCfg struct {
	Comps []CompCfg `json:"comps"`
	Conns []ConnCfg `json:"conns"`
	Init  []struct {
		Comp string `json:"comp"`
		At   int    `json:"at"`
	} `json:"init"`
}

type testMsg struct {
	messaging.MsgMeta
	Payload string `json:"payload"`
}

type tracer struct {
	recs []map[string]any
}

func (t *tracer) add(m map[string]any) { t.recs = append(t.recs, m) }

type sys struct {
	cfg   SysCfg
	eng   *timing.SerialEngine
	sim   *simulation.Simulation
	tr    *tracer
	ports map[string]messaging.Port
	comps map[string]*scomp
	bad   []string

	withIDs bool // include event IDs in act records (determinism / checkpoint comparisons)
}

func payloadOf(id uint64) string { return fmt.Sprintf("payload-%d", id) }

type scomp struct {
	s      *sys
	cfg    CompCfg
	ed    *modeling.EventDrivenComponent[edSpec, edState, modeling.None]
	tc    *modeling.Component[edSpec, edState, modeling.None]
	ports []messaging.Port
	owner messaging.Component
}

func (c *scomp) state() *edState {
	if c.ed != nil {
		return &c.ed.State
	}
	return &c.tc.State
}

type edSpec struct {
	Kind   string `json:"kind"`
	Period int    `json:"period"`
	Script int    `json:"script"` // length of the script (part of the configuration)
}
type edState struct {
	Activations int    `json:"activations"`
	Received    uint64 `json:"received"` // running checksum of everything retrieved
	// Table is seeded by the assembly code (like a simulator's setup fills a routing or
	// page table) and shrinks/grows while the component runs.
	Table map[string]int `json:"table"`
}

// inexact maps periods that are not a divisor of 10^12 to a real-world frequency whose
// Period() (the integer the code reports) equals that period.
var inexact = map[int]timing.Freq{333: 3 * timing.GHz, 1428: 700 * timing.MHz, 833: 1200 * timing.MHz, 416: 2400 * timing.MHz, 571: 1750 * timing.MHz}

func freqOf(periodPs int) timing.Freq {
	if f, ok := inexact[periodPs]; ok && int(f.Period()) == periodPs {
		return f
	}
	f := timing.Freq(1000000000000 / uint64(periodPs))
	for uint64(f.Period()) > uint64(periodPs) {
		f++
	}
	if int(f.Period()) != periodPs {
		panic(fmt.Sprintf("no exact frequency for period %d ps (got %d)", periodPs, f.Period()))
	}
	return f
}

// activation runs one scripted activation; returns progress.
func (c *scomp) activation(now timing.VTimeInPicoSec) bool {
	s := c.s
	st := c.state()
	k := st.Activations
	st.Activations++
	if k == 0 {
		delete(st.Table, "boot")
	}
	if k%3 == 2 {
		st.Table[fmt.Sprintf("k%d", k)] = k
	}
	progress := false
	if c.cfg.Drain && k >= c.cfg.Stall {
		for _, p := range c.ports {
			for p.PeekIncoming() != nil {
				msg := p.RetrieveIncoming()
				meta := msg.Meta()
				st.Received = st.Received*1000003 + uint64(len(meta.Src)) + uint64(meta.TrafficBytes%7)
				_ = meta
				if m, ok := msg.(testMsg); ok {
					if m.Payload != payloadOf(m.ID) || m.TrafficBytes != 8 || m.TrafficClass != "t" || string(m.Dst) != p.Name() {
						s.bad = append(s.bad, fmt.Sprintf("message %d arrived modified at %s: %+v", m.ID, p.Name(), m))
					}
				} else if d, ok := msg.(memprotocol.DataReadyRsp); ok {
					for _, b := range d.Data {
						st.Received = st.Received*31 + uint64(b)
					}
				}
				progress = true
			}
		}
	}
	if k < len(c.cfg.Script) {
		for _, a := range c.cfg.Script[k] {
			switch a.Op {
			case "send":
				p := s.ports[a.Port]
				if p.CanSend() {
					id := timing.GetIDGenerator().Generate()
					m := testMsg{MsgMeta: messaging.MsgMeta{ID: id, Src: p.AsRemote(), Dst: messaging.RemotePort(a.Dst),
						TrafficClass: "t", TrafficBytes: 8}, Payload: payloadOf(id)}
					p.Send(m)
					progress = true
				}
			case "read", "write":
				p := s.ports[a.Port]
				if p.CanSend() {
					id := timing.GetIDGenerator().Generate()
					meta := messaging.MsgMeta{ID: id, Src: p.AsRemote(), Dst: messaging.RemotePort(a.Dst), TrafficClass: "mem", TrafficBytes: 4}
					if a.Op == "read" {
						p.Send(memprotocol.ReadReq{MsgMeta: meta, Address: uint64(a.Addr), AccessByteSize: 4})
					} else {
						data := []byte{byte(k), byte(k >> 8), byte(a.Addr), 0x5a, 1, 2, 3, 4}
						if a.Addr%3 == 0 {
							data = make([]byte, 8) // scrub a whole allocation unit to zero
						}
						p.Send(memprotocol.WriteReq{MsgMeta: meta, Address: uint64(a.Addr &^ 7), Data: data})
					}
					progress = true
				}
			case "wake":
				if c.ed != nil {
					c.ed.ScheduleWakeAt(now + timing.VTimeInPicoSec(a.D))
				}
			}
		}
	}
	s.tr.add(map[string]any{"e": "end", "c": c.cfg.Name, "prog": progress})
	return progress
}

// Process implements modeling.EventProcessor.
func (c *scomp) Process(_ *modeling.EventDrivenComponent[edSpec, edState, modeling.None], now timing.VTimeInPicoSec) bool {
	return c.activation(now)
}

// Tick implements modeling.Middleware.
func (c *scomp) Tick() bool {
	return c.activation(c.s.eng.CurrentTime())
}

// Func observes the engine and the ports.
func (s *sys) Func(ctx hooking.HookCtx) {
	switch ctx.Pos {
	case timing.HookPosBeforeEvent:
		evt := ctx.Item.(timing.Event)
		kind := "tick"
		if _, ok := evt.(modeling.TimerFiredEvent); ok {
			kind = "wake"
		}
		rec := map[string]any{"e": "act", "c": evt.HandlerID(), "t": int(evt.Time()), "k": kind}
		if s.withIDs {
			if te, ok := evt.(modeling.TickEvent); ok {
				rec["id"] = int(te.ID)
			} else if we, ok := evt.(modeling.TimerFiredEvent); ok {
				rec["id"] = int(we.ID)
			}
		}
		s.tr.add(rec)
	case timing.HookPosAfterEvent:
		evt := ctx.Item.(timing.Event)
		if _, scripted := s.comps[evt.HandlerID()]; !scripted {
			s.tr.add(map[string]any{"e": "end", "c": evt.HandlerID(), "prog": false, "conn": true})
		}
	case messaging.HookPosPortMsgSend:
		m := ctx.Item.(messaging.Msg).Meta()
		s.tr.add(map[string]any{"e": "send", "p": ctx.Domain.(messaging.Port).Name(), "m": int(m.ID), "dst": string(m.Dst)})
	case messaging.HookPosPortMsgRecvd:
		msg := ctx.Item.(messaging.Msg)
		if m, ok := msg.(testMsg); ok && m.Payload != payloadOf(m.ID) {
			s.bad = append(s.bad, fmt.Sprintf("message %d modified in flight: %+v", m.ID, m))
		}
		s.tr.add(map[string]any{"e": "deliver", "p": ctx.Domain.(messaging.Port).Name(), "m": int(msg.Meta().ID)})
	case messaging.HookPosPortMsgRetrieveIncoming:
		s.tr.add(map[string]any{"e": "retr", "p": ctx.Domain.(messaging.Port).Name(), "m": int(ctx.Item.(messaging.Msg).Meta().ID)})
	case messaging.HookPosPortMsgRetrieveOutgoing:
		s.tr.add(map[string]any{"e": "out", "p": ctx.Domain.(messaging.Port).Name(), "m": int(ctx.Item.(messaging.Msg).Meta().ID)})
	}
}

// Mut describes a deliberate difference of a rebuilt configuration (C07).
type Mut struct {
	Kind string `json:"kind"` // port_cap | spec | drop_entity | add_entity | storage_cap | conn_freq
	Name string `json:"name"`
}

func build(cfg SysCfg) *sys { return buildWith(cfg, nil, "") }

// buildWith builds the system either standalone (sim == nil) or registered with a
// simulation (checkpointable). mut, when set, perturbs the configuration.
func buildWith(cfg SysCfg, sim *simulation.Simulation, _ string, muts ...Mut) *sys {
	s := &sys{cfg: cfg, tr: &tracer{}, ports: map[string]messaging.Port{}, comps: map[string]*scomp{}, sim: sim}
	var regr modeling.Registrar
	if sim != nil {
		s.eng = sim.GetEngine().(*timing.SerialEngine)
		regr = sim
	} else {
		s.eng = timing.NewSerialEngine()
		regr = modeling.NewStandaloneRegistrar(s.eng)
	}
	is := func(kind, name string) bool {
		for _, m := range muts {
			if m.Kind == kind && (m.Name == name || m.Name == "") {
				return true
			}
		}
		return false
	}
	conns := map[string]*directconnection.Comp{}
	cfgRec := map[string]any{"e": "config"}
	compsRec, portsRec := map[string]any{}, map[string]any{}
	for _, k := range cfg.Conns {
		per := k.Period
		if is("conn_freq", k.Name) {
			per *= 2
		}
		conns[k.Name] = directconnection.MakeBuilder().WithRegistrar(regr).
			WithSpec(directconnection.Spec{Freq: freqOf(per)}).Build(k.Name)
		compsRec[k.Name] = map[string]any{"kind": "conn", "period": k.Period, "drain": false}
	}
	mkPort := func(owner messaging.Component, pc PortCfg) messaging.Port {
		in, out := pc.In, pc.Out
		if is("port_cap", pc.Name) {
			in++
		}
		p := messaging.NewPort(owner, in, out, pc.Name)
		regr.RegisterPort(p)
		p.AcceptHook(s)
		conns[pc.Conn].PlugIn(p)
		s.ports[pc.Name] = p
		return p
	}
	for _, cc := range cfg.Comps {
		if is("drop_entity", cc.Name) {
			continue
		}
		if cc.Kind == "mem" {
			capacity := uint64(cc.Cap)
			if is("storage_cap", cc.Name) {
				capacity *= 2
			}
			spec := idealmemcontroller.DefaultSpec()
			spec.Capacity = capacity
			spec.Latency = cc.Latency
			spec.Freq = freqOf(cc.Period)
			if is("spec", cc.Name) {
				spec.Latency++
			}
			storage := mem.MakeStorageBuilder().WithCapacity(capacity).WithUnitSize(8).WithSimulation(regr).Build(cc.Name + ".Storage")
			// the assembly pre-loads an image (as setup code of a simulator does); a rebuilt
			// simulation pre-loads it again before the checkpoint is loaded over it
			img := make([]byte, 512)
			for i := range img {
				img[i] = byte(0xA0 + i%7)
			}
			if capacity >= 512 {
				_ = storage.Write(0, img)
			}
			mc := idealmemcontroller.MakeBuilder().WithRegistrar(regr).WithSpec(spec).
				WithResources(idealmemcontroller.Resources{Storage: storage}).Build(cc.Name)
			for _, pc := range cc.Ports {
				p := mkPort(mc, pc)
				short := pc.Name[len(cc.Name)+1:]
				mc.AssignPort(short, p)
				portsRec[pc.Name] = map[string]any{"owner": cc.Name, "conn": pc.Conn, "icap": pc.In, "ocap": pc.Out}
			}
			compsRec[cc.Name] = map[string]any{"kind": "tick", "period": cc.Period, "drain": false}
			continue
		}
		c := &scomp{s: s, cfg: cc}
		spec := edSpec{Kind: cc.Kind, Period: cc.Period, Script: len(cc.Script)}
		if is("spec", cc.Name) {
			spec.Script += 100
		}
		if cc.Kind == "ed" {
			c.ed = modeling.NewEventDrivenBuilder[edSpec, edState, modeling.None]().WithEngine(s.eng).
				WithSpec(spec).WithProcessor(c).Build(cc.Name)
			c.owner = c.ed
			c.ed.State.Table = map[string]int{"setup": 1, "boot": 2}
			regr.RegisterComponent(c.ed)
		} else {
			c.tc = modeling.NewBuilder[edSpec, edState, modeling.None]().WithEngine(s.eng).WithFreq(freqOf(cc.Period)).
				WithSpec(spec).Build(cc.Name)
			c.tc.AddMiddleware(c)
			c.owner = c.tc
			c.tc.State.Table = map[string]int{"setup": 1, "boot": 2}
			regr.RegisterComponent(c.tc)
		}
		for _, pc := range cc.Ports {
			c.ports = append(c.ports, mkPort(c.owner, pc))
			portsRec[pc.Name] = map[string]any{"owner": cc.Name, "conn": pc.Conn, "icap": pc.In, "ocap": pc.Out}
		}
		s.comps[cc.Name] = c
		compsRec[cc.Name] = map[string]any{"kind": cc.Kind, "period": cc.Period, "drain": cc.Drain && cc.Stall == 0}
	}
	if is("add_entity", "ExtraEntity") {
		x := modeling.NewEventDrivenBuilder[edSpec, edState, modeling.None]().WithEngine(s.eng).
			WithSpec(edSpec{Kind: "ed"}).WithProcessor(&scomp{s: s}).Build("ExtraEntity")
		regr.RegisterComponent(x)
	}
	cfgRec["comps"], cfgRec["ports"] = compsRec, portsRec
	s.tr.add(cfgRec)
	s.eng.AcceptHook(s)
	return s
}

func (s *sys) kick() {
	for _, in := range s.cfg.Init {
		c, ok := s.comps[in.Comp]
		if !ok {
			continue
		}
		if c.ed != nil {
			c.ed.ScheduleWakeAt(timing.VTimeInPicoSec(in.At))
		} else {
			// a ticking component is started the way library components are: TickLater/TickNow
			c.tc.TickNow()
		}
	}
}

func (s *sys) run() {
	s.kick()
	_ = s.eng.Run()
	s.quiesce()
}

func (s *sys) quiesce() {
	var ports []map[string]any
	for _, cc := range s.cfg.Comps {
		for _, pc := range cc.Ports {
			p, ok := s.ports[pc.Name]
			if !ok {
				continue
			}
			rec := map[string]any{"p": pc.Name, "nout": p.NumOutgoing(), "nin": p.NumIncoming(), "headdst": "", "candeliver": false}
			if h := p.PeekOutgoing(); h != nil {
				dst := string(h.Meta().Dst)
				rec["headdst"] = dst
				rec["candeliver"] = s.ports[dst].CanDeliver()
			}
			ports = append(ports, rec)
		}
	}
	s.tr.add(map[string]any{"e": "quiesce", "t": int(s.eng.CurrentTime()), "ports": ports})
}

// RunSystem builds and runs one system, returning its trace records and direct problems.
func RunSystem(cfg SysCfg) (recs []map[string]any, bad []string) {
	s := build(cfg)
	s.run()
	return s.tr.recs, s.bad
}

var periods = []int{1000, 2000, 3000, 5000, 500, 333, 1428, 833}

// randomSystem draws a topology, capacities, frequencies and scripts.
func randomSystem(rng *rand.Rand, maxComps, maxMsgs int) SysCfg {
	var cfg SysCfg
	nconn := 1 + rng.Intn(3)
	for i := 0; i < nconn; i++ {
		cfg.Conns = append(cfg.Conns, ConnCfg{Name: fmt.Sprintf("K%d", i), Period: periods[rng.Intn(3)]})
	}
	ncomp := 2 + rng.Intn(maxComps-1)
	portsOn := map[string][]string{}
	for i := 0; i < ncomp; i++ {
		cc := CompCfg{Name: fmt.Sprintf("C%d", i), Kind: []string{"ed", "tick"}[rng.Intn(2)], Period: periods[rng.Intn(len(periods))], Drain: rng.Intn(8) != 0}
		if rng.Intn(4) == 0 {
			cc.Stall = rng.Intn(6)
		}
		np := 1 + rng.Intn(2)
		used := map[int]bool{}
		for j := 0; j < np; j++ {
			k := rng.Intn(nconn)
			if i < nconn && j == 0 {
				k = i // every connection gets at least one port
			}
			if used[k] {
				continue
			}
			used[k] = true
			pn := fmt.Sprintf("C%d.P%d", i, j)
			cc.Ports = append(cc.Ports, PortCfg{Name: pn, In: 1 + rng.Intn(3), Out: 1 + rng.Intn(3), Conn: cfg.Conns[k].Name})
			portsOn[cfg.Conns[k].Name] = append(portsOn[cfg.Conns[k].Name], pn)
		}
		cfg.Comps = append(cfg.Comps, cc)
	}
	budget := 1 + rng.Intn(maxMsgs)
	for i := range cfg.Comps {
		cc := &cfg.Comps[i]
		nact := 1 + rng.Intn(8)
		for a := 0; a < nact; a++ {
			var acts []Action
			for _, pc := range cc.Ports {
				peers := portsOn[pc.Conn]
				for n := rng.Intn(3); n > 0 && budget > 0 && len(peers) > 1; n-- {
					dst := peers[rng.Intn(len(peers))]
					if dst == pc.Name {
						continue
					}
					acts = append(acts, Action{Op: "send", Port: pc.Name, Dst: dst})
					budget--
				}
			}
			if cc.Kind == "ed" && rng.Intn(3) == 0 {
				acts = append(acts, Action{Op: "wake", D: []int{0, 500, 1000, 1500, 3000}[rng.Intn(5)]})
			}
			cc.Script = append(cc.Script, acts)
		}
		if rng.Intn(3) != 0 || i == 0 {
			cfg.Init = append(cfg.Init, struct {
				Comp string `json:"comp"`
				At   int    `json:"at"`
			}{cc.Name, []int{0, 0, 1000, 700}[rng.Intn(4)]})
		}
	}
	return cfg
}

// collisionSystem draws event-driven components that all act on one coarse time grid
// (wake-ups in whole cycles, one connection per pair on the same period), so that many
// same-time, same-class events are queued together and new ones are scheduled for
// instants at which older ones are still pending — the situation in which sequence
// numbers (schedule order) decide the handling order.
func collisionSystem(rng *rand.Rand) SysCfg {
	var cfg SysCfg
	cfg.Conns = []ConnCfg{{Name: "K0", Period: 1000}, {Name: "K1", Period: 1000}}
	n := 3 + rng.Intn(3)
	var names [2][]string
	for i := 0; i < n; i++ {
		cc := CompCfg{Name: fmt.Sprintf("C%d", i), Kind: "ed", Period: 1000, Drain: true}
		for k := 0; k < 2; k++ {
			pn := fmt.Sprintf("C%d.P%d", i, k)
			cc.Ports = append(cc.Ports, PortCfg{Name: pn, In: 2, Out: 2, Conn: cfg.Conns[k].Name})
			names[k] = append(names[k], pn)
		}
		cfg.Comps = append(cfg.Comps, cc)
	}
	for i := range cfg.Comps {
		cc := &cfg.Comps[i]
		for a := 0; a < 6+rng.Intn(6); a++ {
			var acts []Action
			for k := 0; k < 2; k++ {
				if rng.Intn(2) == 0 {
					dst := names[k][rng.Intn(n)]
					if dst != cc.Ports[k].Name {
						acts = append(acts, Action{Op: "send", Port: cc.Ports[k].Name, Dst: dst})
					}
				}
			}
			acts = append(acts, Action{Op: "wake", D: 1000 * (1 + rng.Intn(3))})
			if rng.Intn(2) == 0 {
				acts = append(acts, Action{Op: "wake", D: 0})
			}
			cc.Script = append(cc.Script, acts)
		}
		cfg.Init = append(cfg.Init, struct {
			Comp string `json:"comp"`
			At   int    `json:"at"`
		}{cc.Name, 1000 * rng.Intn(2)})
	}
	return cfg
}

// twoStall: two senders, each back-pressured by its own receiver; the receivers stall for
// different lengths and later drain on their own wake-ups, so the connection sleeps on two
// different full destinations and must be woken by whichever drains first.
func twoStall(rng *rand.Rand) SysCfg {
	var cfg SysCfg
	cfg.Conns = []ConnCfg{{Name: "K0", Period: 1000}}
	mk := func(name string, stall int, script [][]Action, in, out int) CompCfg {
		return CompCfg{Name: name, Kind: "ed", Period: 1000, Drain: true, Stall: stall, Script: script,
			Ports: []PortCfg{{Name: name + ".P", In: in, Out: out, Conn: "K0"}}}
	}
	burst := func(port, dst string, n int) [][]Action {
		var sc [][]Action
		for i := 0; i < n; i++ {
			sc = append(sc, []Action{{Op: "send", Port: port, Dst: dst}, {Op: "wake", D: 1000}})
		}
		return sc
	}
	wakes := func(n int, d int) [][]Action {
		var sc [][]Action
		for i := 0; i < n; i++ {
			sc = append(sc, []Action{{Op: "wake", D: d}})
		}
		return sc
	}
	in := 1 + rng.Intn(2)
	cfg.Comps = []CompCfg{
		mk("A", 0, burst("A.P", "X.P", 3+rng.Intn(3)), 1, 1+rng.Intn(2)),
		mk("B", 0, burst("B.P", "Y.P", 3+rng.Intn(3)), 1, 1+rng.Intn(2)),
		mk("X", 2+rng.Intn(6), wakes(12, 1000*(1+rng.Intn(3))), in, 1),
		mk("Y", []int{2 + rng.Intn(6), 1000}[rng.Intn(2)], wakes(12, 1000*(1+rng.Intn(3))), in, 1),
	}
	for _, c := range cfg.Comps {
		cfg.Init = append(cfg.Init, struct {
			Comp string `json:"comp"`
			At   int    `json:"at"`
		}{c.Name, 0})
	}
	return cfg
}

// connStress draws one connection with many ports, deep scripts that keep refilling the
// outgoing buffers, and receivers that stall for long periods (C10).
func connStress(rng *rand.Rand, maxMsgs int) SysCfg {
	var cfg SysCfg
	cfg.Conns = []ConnCfg{{Name: "K0", Period: periods[rng.Intn(3)]}}
	n := 2 + rng.Intn(7)
	var names []string
	for i := 0; i < n; i++ {
		names = append(names, fmt.Sprintf("C%d.P", i))
	}
	budget := 20 + rng.Intn(maxMsgs)
	for i := 0; i < n; i++ {
		cc := CompCfg{Name: fmt.Sprintf("C%d", i), Kind: []string{"ed", "tick"}[rng.Intn(2)], Period: periods[rng.Intn(len(periods))], Drain: true}
		if rng.Intn(3) == 0 {
			cc.Stall = rng.Intn(50)
		}
		cc.Ports = []PortCfg{{Name: names[i], In: 1 + rng.Intn(4), Out: 1 + rng.Intn(4), Conn: "K0"}}
		nact := 20 + rng.Intn(200)
		for a := 0; a < nact; a++ {
			var acts []Action
			for k := rng.Intn(4); k > 0 && budget > 0; k-- {
				dst := names[rng.Intn(n)]
				if dst == names[i] {
					continue
				}
				acts = append(acts, Action{Op: "send", Port: names[i], Dst: dst})
				budget--
			}
			if cc.Kind == "ed" && rng.Intn(2) == 0 {
				acts = append(acts, Action{Op: "wake", D: []int{500, 1000, 2000, 7000}[rng.Intn(4)]})
			}
			cc.Script = append(cc.Script, acts)
		}
		cfg.Comps = append(cfg.Comps, cc)
		cfg.Init = append(cfg.Init, struct {
			Comp string `json:"comp"`
			At   int    `json:"at"`
		}{cc.Name, 0})
	}
	return cfg
}

func init() {
	messaging.RegisterMsg(testMsg{})
	registerCkpt()
	registerCkptMut()
	// tick_trace: given and/or random systems run on the real code, traced for TickTrace.tla
	reg.Register("tick_trace", func(raw json.RawMessage) (any, error) {
		var in struct {
			Seed     int64    `json:"seed"`
			Systems  []SysCfg `json:"systems"`
			Random   int      `json:"random"`
			Stress   int      `json:"stress"`
			MaxComps int      `json:"max_comps"`
			MaxMsgs  int      `json:"max_msgs"`
			Out      string   `json:"out"`
		}
		if err := json.Unmarshal(raw, &in); err != nil {
			return nil, err
		}
		rng := rand.New(rand.NewSource(in.Seed))
		all := in.Systems
		for i := 0; i < in.Random; i++ {
			all = append(all, randomSystem(rng, in.MaxComps, in.MaxMsgs))
		}
		for i := 0; i < in.Stress; i++ {
			all = append(all, connStress(rng, in.MaxMsgs))
			all = append(all, twoStall(rng))
		}
		f, err := os.Create(in.Out)
		if err != nil {
			return nil, err
		}
		defer f.Close()
		enc := json.NewEncoder(f)
		events := 0
		var bad []map[string]any
		var starts []int
		line := 1
		var sample []map[string]any
		for i, cfg := range all {
			recs, b := RunSystem(cfg)
			starts = append(starts, line)
			for _, r := range recs {
				_ = enc.Encode(r)
			}
			_ = enc.Encode(map[string]any{"e": "reset"})
			line += len(recs) + 1
			events += len(recs) + 1
			for _, x := range b {
				bad = append(bad, map[string]any{"system": i, "problem": x})
			}
			if i == len(all)-1 {
				sample = recs[:min(len(recs), 30)]
			}
		}
		return map[string]any{"systems": len(all), "events": events, "bad": bad, "starts": starts, "sample": sample, "configs": all}, nil
	})
}
