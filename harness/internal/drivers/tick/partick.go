package tick

// Ticking components and direct connections under timing.ParallelEngine (C10, C12): several
// senders of one instant wake one idle connection, several connections of one instant wake one
// idle receiver. The log (engine events, sends, retrievals; one mutex) is judged by
// spec/tick/ParTick.tla.

import (
	"encoding/json"
	"fmt"
	"math/rand"
	"os"
	"runtime"
	"sync"
	"sync/atomic"
	"time"

	"github.com/sarchlab/akita/v5/hooking"
	"github.com/sarchlab/akita/v5/messaging"
	"github.com/sarchlab/akita/v5/modeling"
	"github.com/sarchlab/akita/v5/noc/directconnection"
	"github.com/sarchlab/akita/v5/timing"

	"verif/harness/internal/reg"
)

type ptLog struct {
	mu   sync.Mutex
	recs []map[string]any
}

func (l *ptLog) add(m map[string]any) {
	l.mu.Lock()
	l.recs = append(l.recs, m)
	l.mu.Unlock()
}

func (l *ptLog) Func(ctx hooking.HookCtx) {
	if ctx.Pos == timing.HookPosBeforeEvent {
		evt := ctx.Item.(timing.Event)
		l.add(map[string]any{"e": "tick", "c": evt.HandlerID(), "t": int(evt.Time())})
	}
}

// ptBarrier lines up the handlers of one round just before the call that is meant to race (a spin barrier with a
// deadline: handlers that do not all arrive simply go on).
type ptBarrier struct {
	n       int64
	arrived atomic.Int64
}

func (b *ptBarrier) wait() {
	if b == nil || b.n <= 1 {
		return
	}
	k := b.arrived.Add(1)
	target := (k + b.n - 1) / b.n * b.n
	deadline := time.Now().Add(30 * time.Microsecond)
	for i := 0; b.arrived.Load() < target; i++ {
		if i%64 == 63 && time.Now().After(deadline) {
			return
		}
	}
}

type ptSpec struct {
	Role string `json:"role"`
}
type ptState struct {
	K    int `json:"k"`
	Sent int `json:"sent"`
}

type ptComp struct {
	log   *ptLog
	tc    *modeling.Component[ptSpec, ptState, modeling.None]
	ports []messaging.Port
	// sender
	dst       []messaging.RemotePort
	msgs, gap int
	burst     int
	spin      int
	// receiver
	recv bool
	idle bool
	bar  *ptBarrier
}

func (c *ptComp) Tick() bool {
	st := &c.tc.State
	k := st.K
	st.K++
	for i := 0; i < c.spin; i++ {
		runtime.Gosched()
	}
	if c.idle {
		return false
	}
	if c.recv {
		progress := false
		for _, p := range c.ports {
			for p.PeekIncoming() != nil {
				c.bar.wait()
				msg := p.RetrieveIncoming()
				if msg == nil {
					// only possible when two handlers of this component run at once (peek saw a message another retrieval took)
					c.log.add(map[string]any{"e": "recv", "id": 0, "src": "", "dst": p.Name(), "ok": false})
					break
				}
				m, ok := msg.(testMsg)
				good := ok && m.Payload == payloadOf(m.ID) && string(m.Dst) == p.Name() && m.TrafficBytes == 8 && m.TrafficClass == "t"
				c.log.add(map[string]any{"e": "recv", "id": int(msg.Meta().ID), "src": string(msg.Meta().Src), "dst": p.Name(), "ok": good})
				progress = true
			}
		}
		return progress
	}
	if st.Sent >= c.msgs {
		return false
	}
	if k%c.gap != 0 {
		return true
	}
	for b := 0; b < c.burst && st.Sent < c.msgs; b++ {
		p := c.ports[0]
		if !p.CanSend() {
			break
		}
		id := timing.GetIDGenerator().Generate()
		dst := c.dst[st.Sent%len(c.dst)]
		m := testMsg{MsgMeta: messaging.MsgMeta{ID: id, Src: p.AsRemote(), Dst: dst, TrafficClass: "t", TrafficBytes: 8}, Payload: payloadOf(id)}
		c.log.add(map[string]any{"e": "send", "id": int(id), "src": string(p.AsRemote()), "dst": string(dst)})
		if b == 0 {
			c.bar.wait()
		}
		p.Send(m)
		st.Sent++
	}
	return true
}

type ptOpts struct {
	Senders int `json:"senders"`
	Conns   int `json:"conns"`
	Msgs    int `json:"msgs"`
	Gap     int `json:"gap"`
	Burst   int `json:"burst"`
	Spin    int `json:"spin"`
	Procs   int `json:"procs"`
	// Mesh: one connection; every sender has its own receiver with a one-slot incoming buffer, and an idle component
	// is plugged into the same connection. All senders send in the same round (lined up: the idle connection is woken
	// from S goroutines at once) and all receivers retrieve in the same round (lined up: every retrieval frees a full
	// buffer, the connection tells every plugged component, the idle one is woken from S goroutines at once).
	Mesh bool `json:"mesh"`
}

// runParTicks builds S senders spread over K connections and one receiver with one port per
// connection, runs the system on the parallel engine and returns the log.
func runParTicks(o ptOpts) ([]map[string]any, error) {
	if o.Procs > 0 {
		defer runtime.GOMAXPROCS(runtime.GOMAXPROCS(o.Procs))
	}
	eng := timing.NewParallelEngine()
	regr := modeling.NewStandaloneRegistrar(eng)
	log := &ptLog{}
	eng.AcceptHook(log)
	conns := make([]*directconnection.Comp, o.Conns)
	for k := range conns {
		conns[k] = directconnection.MakeBuilder().WithRegistrar(regr).WithSpec(directconnection.Spec{Freq: 1 * timing.GHz}).Build(fmt.Sprintf("Conn%d", k))
	}
	mk := func(name string, role string) *ptComp {
		c := &ptComp{log: log}
		c.tc = modeling.NewBuilder[ptSpec, ptState, modeling.None]().WithEngine(eng).WithFreq(1 * timing.GHz).WithSpec(ptSpec{Role: role}).Build(name)
		c.tc.AddMiddleware(c)
		regr.RegisterComponent(c.tc)
		return c
	}
	if o.Mesh {
		conn := conns[0]
		plug := func(c *ptComp, name string, in, out int) messaging.Port {
			p := messaging.NewPort(c.tc, in, out, name)
			regr.RegisterPort(p)
			conn.PlugIn(p)
			c.ports = append(c.ports, p)
			return p
		}
		sbar, rbar := &ptBarrier{n: int64(o.Senders)}, &ptBarrier{n: int64(o.Senders)}
		idle := mk("Idle", "idle")
		idle.idle = true
		plug(idle, "Idle.P", 4, 4)
		var senders []*ptComp
		for i := 0; i < o.Senders; i++ {
			v := mk(fmt.Sprintf("V%d", i), "recv")
			v.recv, v.bar = true, rbar
			vp := plug(v, fmt.Sprintf("V%d.In", i), 1, 4)
			s := mk(fmt.Sprintf("S%d", i), "send")
			s.msgs, s.gap, s.burst, s.bar = o.Msgs, o.Gap, o.Burst, sbar
			plug(s, fmt.Sprintf("S%d.Out", i), 4, 8)
			s.dst = []messaging.RemotePort{vp.AsRemote()}
			senders = append(senders, s)
		}
		for _, s := range senders {
			s.tc.TickNow()
		}
		return ptRun(eng, log)
	}
	r := mk("R", "recv")
	r.recv = true
	rports := make([]messaging.RemotePort, o.Conns)
	for k := range conns {
		p := messaging.NewPort(r.tc, 64, 4, fmt.Sprintf("R.In%d", k))
		regr.RegisterPort(p)
		conns[k].PlugIn(p)
		r.ports = append(r.ports, p)
		rports[k] = p.AsRemote()
	}
	var senders []*ptComp
	starBar := &ptBarrier{n: int64(o.Senders)}
	for i := 0; i < o.Senders; i++ {
		s := mk(fmt.Sprintf("S%d", i), "send")
		s.msgs, s.gap, s.burst, s.spin = o.Msgs, o.Gap, o.Burst, o.Spin
		s.bar = starBar
		k := i % o.Conns
		p := messaging.NewPort(s.tc, 4, 8, fmt.Sprintf("S%d.Out", i))
		regr.RegisterPort(p)
		conns[k].PlugIn(p)
		s.ports = []messaging.Port{p}
		s.dst = []messaging.RemotePort{rports[k]}
		senders = append(senders, s)
	}
	for _, s := range senders {
		s.tc.TickNow()
	}
	return ptRun(eng, log)
}

func ptRun(eng *timing.ParallelEngine, log *ptLog) ([]map[string]any, error) {
	done := make(chan error, 1)
	go func() {
		defer func() {
			if x := recover(); x != nil {
				done <- fmt.Errorf("panic: %v", x)
			}
		}()
		done <- eng.Run()
	}()
	select {
	case err := <-done:
		if err != nil {
			return nil, err
		}
	case <-time.After(120 * time.Second):
		log.add(map[string]any{"e": "hang"})
		return log.recs, nil
	}
	log.add(map[string]any{"e": "ret"})
	return log.recs, nil
}

func init() {
	reg.Register("par_ticks", func(raw json.RawMessage) (any, error) {
		var in struct {
			Seed     int64  `json:"seed"`
			Wide     int    `json:"wide"` // that many additional systems with one sender per connection (12 connections wake the idle receiver at once)
			WideMsgs int    `json:"wide_msgs"`
			Systems  int    `json:"systems"`
			Msgs     int    `json:"msgs"`
			Out      string `json:"out"`
		}
		if err := json.Unmarshal(raw, &in); err != nil {
			return nil, err
		}
		rng := rand.New(rand.NewSource(in.Seed))
		f, err := os.Create(in.Out)
		if err != nil {
			return nil, err
		}
		defer f.Close()
		enc := json.NewEncoder(f)
		total, ticks, sends := 0, 0, 0
		var shapes []ptOpts
		for i := 0; i < in.Systems+in.Wide; i++ {
			o := ptOpts{Senders: 2 + rng.Intn(11), Conns: 1 + rng.Intn(3), Msgs: in.Msgs, Gap: 1 + rng.Intn(4), Burst: 1 + rng.Intn(6),
				Spin: rng.Intn(3), Procs: []int{2, 4, 16, 8}[i%4]}
			if i%2 == 0 {
				o.Gap += 2 // the connection goes idle between the bursts: every burst wakes it again, from several senders at once
			}
			if i >= in.Systems {
				// the receiver goes idle between the bursts and is woken by every connection in the same round
				o = ptOpts{Senders: 12, Conns: 1, Msgs: in.WideMsgs, Gap: 3 + (i-in.Systems)%2, Burst: 1 + 5*((i-in.Systems)%2), Procs: 16, Mesh: true}
			}
			recs, err := runParTicks(o)
			if err != nil {
				return nil, err
			}
			for _, m := range recs {
				_ = enc.Encode(m)
				switch m["e"] {
				case "tick":
					ticks++
				case "send":
					sends++
				}
			}
			_ = enc.Encode(map[string]any{"e": "reset"})
			total += len(recs) + 1
			shapes = append(shapes, o)
		}
		return map[string]any{"systems": in.Systems, "records": total, "ticks": ticks, "sends": sends, "shapes": shapes}, nil
	})
}
