package tick

import (
	"archive/tar"
	"bytes"
	"compress/gzip"
	"encoding/binary"
	"encoding/json"
	"fmt"
	"io"
	"math/rand"
	"os"
	"path/filepath"
	"regexp"
	"sort"
	"strings"

	"github.com/sarchlab/akita/v5/timing"

	"verif/harness/internal/reg"
)

type mutCase struct {
	Mutations []string `json:"mutations"`
	Expect    string   `json:"expect"`
}

type mutResult struct {
	System    int      `json:"system"`
	Mutations []string `json:"mutations"`
	Outcome   string   `json:"outcome"` // error | panic | accepted | identical | not_identical | skipped
	Detail    string   `json:"detail"`
}

var (
	reHandler = regexp.MustCompile(`"handler_id":"[^"]*"`)
	reType    = regexp.MustCompile(`"type":"[^"]*"`)
)

// firstEntity returns the (sorted) first entity entry name satisfying pred.
func firstEntity(arch map[string][]byte, pred func(name string, data []byte) bool) string {
	var names []string
	for n := range arch {
		names = append(names, n)
	}
	sort.Strings(names)
	for _, n := range names {
		if strings.HasPrefix(n, "entities/") && pred(n, arch[n]) {
			return n
		}
	}
	return ""
}

func isJSON(_ string, d []byte) bool { return len(d) > 0 && d[0] == '{' }

// applyArchiveMutation edits the entry list; returns false when it cannot be applied.
func applyArchiveMutation(m string, entries []tarEntry, cfg SysCfg) ([]tarEntry, bool) {
	arch := map[string][]byte{}
	for _, e := range entries {
		arch[e.Name] = e.Data
	}
	set := func(name string, data []byte) []tarEntry {
		out := append([]tarEntry(nil), entries...)
		for i := range out {
			if out[i].Name == name {
				out[i].Data = data
			}
		}
		return out
	}
	withMsgs := func(n string, d []byte) bool { return bytes.Contains(d, []byte(`"capacity"`)) && bytes.Contains(d, []byte(`"elements":[{`)) }
	switch m {
	case "drop_entry":
		n := firstEntity(arch, func(n string, _ []byte) bool { return n != "entities/Engine" })
		var out []tarEntry
		for _, e := range entries {
			if e.Name != n {
				out = append(out, e)
			}
		}
		return out, n != ""
	case "add_entry":
		return append(append([]tarEntry(nil), entries...), tarEntry{Name: "entities/Ghost", Data: []byte("{}")}), true
	case "dup_entry":
		n := firstEntity(arch, isJSON)
		return append(append([]tarEntry(nil), entries...), tarEntry{Name: n, Data: arch[n]}), n != ""
	case "nonregular_entry":
		return append(append([]tarEntry(nil), entries...), tarEntry{Name: "entities/Link", Type: tar.TypeSymlink}), true
	case "empty_build_id":
		return set("build_id", nil), true
	case "missing_build_id":
		var out []tarEntry
		for _, e := range entries {
			if e.Name != "build_id" {
				out = append(out, e)
			}
		}
		return out, true
	case "unexpected_path":
		return append(append([]tarEntry(nil), entries...), tarEntry{Name: "other/x", Data: []byte("{}")}), true
	case "truncate_payload":
		n := firstEntity(arch, func(n string, d []byte) bool { return isJSON(n, d) && len(d) > 20 })
		if n == "" {
			return nil, false
		}
		return set(n, arch[n][:len(arch[n])/2]), true
	case "retype_payload":
		return set("entities/Engine", []byte("[]")), true
	case "unknown_handler":
		d := arch["entities/Engine"]
		if !reHandler.Match(d) {
			return nil, false
		}
		return set("entities/Engine", reHandler.ReplaceAll(d, []byte(`"handler_id":"NoSuchHandler"`))), true
	case "unknown_event_type":
		d := arch["entities/Engine"]
		if !reType.Match(d) {
			return nil, false
		}
		return set("entities/Engine", reType.ReplaceAll(d, []byte(`"type":"no.such/pkg.Event"`))), true
	case "unknown_msg_type":
		n := firstEntity(arch, withMsgs)
		if n == "" {
			return nil, false
		}
		return set(n, reType.ReplaceAll(arch[n], []byte(`"type":"no.such/pkg.Msg"`))), true
	case "overfill_buffer":
		n := firstEntity(arch, withMsgs)
		if n == "" {
			return nil, false
		}
		var pc map[string]struct {
			Capacity int               `json:"capacity"`
			Elements []json.RawMessage `json:"elements"`
		}
		if json.Unmarshal(arch[n], &pc) != nil {
			return nil, false
		}
		for side, b := range pc {
			if len(b.Elements) > 0 {
				for len(b.Elements) <= b.Capacity {
					b.Elements = append(b.Elements, b.Elements[0])
				}
				pc[side] = b
			}
		}
		d, _ := json.Marshal(pc)
		return set(n, append(d, '\n')), true
	case "huge_count", "storage_short":
		n := firstEntity(arch, func(n string, d []byte) bool { return strings.HasSuffix(n, ".Storage") && len(d) >= 24 })
		if n == "" {
			return nil, false
		}
		d := append([]byte(nil), arch[n]...)
		if m == "huge_count" {
			binary.LittleEndian.PutUint64(d[16:24], 1<<62)
		} else {
			if len(d) < 40 {
				return nil, false
			}
			d = d[:len(d)-13]
		}
		return set(n, d), true
	}
	return nil, false
}

var configMutations = map[string]bool{"port_cap": true, "spec": true, "drop_entity": true, "add_entity": true, "storage_cap": true, "conn_freq": true}

func mutFor(kind string, cfg SysCfg) Mut {
	switch kind {
	case "port_cap":
		return Mut{Kind: kind, Name: cfg.Comps[0].Ports[0].Name}
	case "spec":
		return Mut{Kind: kind, Name: cfg.Comps[0].Name}
	case "drop_entity":
		return Mut{Kind: kind, Name: cfg.Comps[1].Name}
	case "add_entity":
		return Mut{Kind: kind, Name: "ExtraEntity"}
	case "storage_cap":
		return Mut{Kind: kind, Name: "M0"}
	case "conn_freq":
		return Mut{Kind: kind, Name: cfg.Conns[0].Name}
	}
	return Mut{}
}

// tryLoad rebuilds (with config mutations) and loads the archive; classifies the outcome.
func (k *ckRunner) tryLoad(cfg SysCfg, path, bid string, muts []Mut) (string, string) {
	resetIDs(31337)
	sim := newSim(k.dir, &k.nsim)
	var berr string
	func() {
		defer func() {
			if r := recover(); r != nil {
				berr = fmt.Sprint(r)
			}
		}()
		buildWith(cfg, sim, "", muts...)
	}()
	if berr != "" {
		return "skipped", "rebuild with mutation refused by builder: " + berr
	}
	err, panicked := safely(func() error { return sim.LoadCheckpoint(path, bid) })
	defer func() { _, _ = safely(func() error { sim.Terminate(); return nil }) }()
	if panicked != "" {
		return "panic", panicked
	}
	if err != nil {
		return "error", err.Error()
	}
	return "accepted", ""
}

// appendLyingEntry rewrites the archive so that its LAST entity entry's header declares
// `size` bytes although only a few follow.
func appendLyingEntry(path string, entries []tarEntry, size int64) error {
	var buf bytes.Buffer
	gz := gzip.NewWriter(&buf)
	tw := tar.NewWriter(gz)
	for i, e := range entries {
		last := i == len(entries)-1
		h := &tar.Header{Name: e.Name, Mode: 0o600, Size: int64(len(e.Data)), Typeflag: tar.TypeReg, Format: tar.FormatPAX}
		if last {
			h.Size = size
		}
		if err := tw.WriteHeader(h); err != nil {
			return err
		}
		_, _ = tw.Write(e.Data)
	}
	_ = tw.Flush() // no Close: the writer would complain about the missing bytes
	_ = gz.Close()
	return os.WriteFile(path, buf.Bytes(), 0o644)
}

func registerCkptMut() {
	reg.Register("ckpt_mut", func(raw json.RawMessage) (any, error) {
		var in struct {
			Seed    int64     `json:"seed"`
			Systems int       `json:"systems"`
			Cases   []mutCase `json:"cases"`
			Flips   int       `json:"flips"`
		}
		if err := json.Unmarshal(raw, &in); err != nil {
			return nil, err
		}
		rng := rand.New(rand.NewSource(in.Seed))
		dir, _ := os.MkdirTemp("", "ckmut-")
		defer os.RemoveAll(dir)
		k := &ckRunner{dir: dir}
		var results []mutResult
		flips, flipPanics := 0, 0
		var sample any
		for si := 0; si < in.Systems; si++ {
			var cfg SysCfg
			var ck string
			var arch map[string][]byte
			// find a system and a cut with a message sitting in a port buffer and a non-empty queue
			for try := 0; try < 60 && ck == ""; try++ {
				cfg = memSystem(rng)
				ref, _, err := k.reference(cfg)
				if err != nil {
					continue
				}
				times := actTimes(ref)
				rng.Shuffle(len(times), func(i, j int) { times[i], times[j] = times[j], times[i] })
				for _, t := range times {
					resetIDs(0)
					sim := newSim(k.dir, &k.nsim)
					a := buildWith(cfg, sim, "")
					a.kick()
					_ = a.eng.RunUntil(timing.VTimeInPicoSec(t))
					p := filepath.Join(dir, fmt.Sprintf("m%d.ckpt", si))
					if sim.SaveCheckpoint(p, buildID) != nil {
						continue
					}
					sim.Terminate()
					ar, _ := readArchive(p)
					hasMsg, hasEvt := false, bytes.Contains(ar["entities/Engine"], []byte("handler_id"))
					for n, d := range ar {
						if strings.HasPrefix(n, "entities/") && bytes.Contains(d, []byte(`"elements":[{`)) {
							hasMsg = true
						}
					}
					if hasMsg && hasEvt {
						ck, arch = p, ar
						break
					}
				}
			}
			if ck == "" {
				continue
			}
			if sample == nil {
				var names []string
				for n := range arch {
					names = append(names, n)
				}
				sort.Strings(names)
				sample = map[string]any{"archive_entries": names, "engine_payload": clip(arch["entities/Engine"])}
			}
			entries := sortedEntries(arch)
			for _, c := range in.Cases {
				res := mutResult{System: si, Mutations: c.Mutations}
				if len(c.Mutations) == 0 {
					// unmutated: load must succeed and a second save must be byte-identical
					d, err := k.canonical(cfg, ck)
					switch {
					case err != nil:
						res.Outcome, res.Detail = "error", err.Error()
					case d != "":
						res.Outcome, res.Detail = "not_identical", d
					default:
						res.Outcome = "identical"
					}
					results = append(results, res)
					continue
				}
				es := entries
				var muts []Mut
				bid := buildID
				path := ck
				truncate := false
				hugeEntry, shortEntry := false, false
				ok := true
				for _, m := range c.Mutations {
					switch {
					case m == "build_id":
						bid = "another-build"
					case m == "gz_truncated":
						truncate = true
					case m == "huge_entry_size":
						hugeEntry = true
					case m == "entry_size_beyond_data":
						shortEntry = true
					case configMutations[m]:
						muts = append(muts, mutFor(m, cfg))
					default:
						var applied bool
						es, applied = applyArchiveMutation(m, es, cfg)
						ok = ok && applied
					}
				}
				if !ok {
					res.Outcome, res.Detail = "skipped", "mutation not applicable to this archive"
					results = append(results, res)
					continue
				}
				path = filepath.Join(dir, "mut.ckpt")
				if err := writeArchive(path, es); err != nil {
					return nil, err
				}
				if hugeEntry || shortEntry {
					// a tar header that declares more bytes than the stream holds (raw stream: the
					// tar writer itself refuses to produce this)
					size := int64(1) << 62
					if shortEntry {
						size = 1 << 20
					}
					if err := appendLyingEntry(path, es, size); err != nil {
						return nil, err
					}
				}
				if truncate {
					b, _ := os.ReadFile(path)
					_ = os.WriteFile(path, b[:len(b)*6/10], 0o644)
				}
				res.Outcome, res.Detail = k.tryLoad(cfg, path, bid, muts)
				results = append(results, res)
			}
			// seeded corruption of the compressed bytes and of the tar stream: never a panic
			orig, _ := os.ReadFile(ck)
			var tarBytes []byte
			if gz, err := gzip.NewReader(bytes.NewReader(orig)); err == nil {
				tarBytes, _ = io.ReadAll(gz)
			}
			for f := 0; f < in.Flips; f++ {
				var data []byte
				what := ""
				switch f % 3 {
				case 0:
					data = append([]byte(nil), orig...)
					for n := 1 + rng.Intn(3); n > 0; n-- {
						data[rng.Intn(len(data))] ^= byte(1 << uint(rng.Intn(8)))
					}
					what = "bit flips in the compressed archive"
				case 1:
					tb := append([]byte(nil), tarBytes...)
					for n := 1 + rng.Intn(4); n > 0; n-- {
						tb[rng.Intn(len(tb))] = byte(rng.Intn(256))
					}
					var buf bytes.Buffer
					gz := gzip.NewWriter(&buf)
					_, _ = gz.Write(tb)
					_ = gz.Close()
					data = buf.Bytes()
					what = "byte changes in the tar stream"
				default:
					data = append([]byte(nil), orig[:rng.Intn(len(orig))]...)
					what = "truncation"
				}
				path := filepath.Join(dir, "flip.ckpt")
				_ = os.WriteFile(path, data, 0o644)
				out, detail := k.tryLoad(cfg, path, buildID, nil)
				flips++
				if out == "panic" {
					flipPanics++
					results = append(results, mutResult{System: si, Mutations: []string{"corrupt_bytes"}, Outcome: "panic", Detail: what + ": " + detail})
				}
			}
		}
		return map[string]any{"results": results, "flips": flips, "flip_panics": flipPanics, "sample": sample}, nil
	})
}
