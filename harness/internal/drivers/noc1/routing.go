// Package noc1 holds the drivers of the routing (C30) and endpoint (C31) checks.
package noc1

import (
	"encoding/json"
	"fmt"
	"regexp"
	"strconv"
	"strings"

	"github.com/sarchlab/akita/v5/messaging"
	"github.com/sarchlab/akita/v5/naming"
	"github.com/sarchlab/akita/v5/noc/networking/mesh"
	"github.com/sarchlab/akita/v5/noc/networking/networkconnector"
	"github.com/sarchlab/akita/v5/noc/networking/switching/endpoint"
	"github.com/sarchlab/akita/v5/noc/networking/switching/switches"
	"github.com/sarchlab/akita/v5/timing"

	"verif/harness/internal/reg"
)

// ---------------------------------------------------------------- input / output

// netSpec is one network of Routing.tla (CASE line) plus build-order choices made by
// the check (edge order/orientation, devices before/after links, tile order).
type netSpec struct {
	Kind     string  `json:"kind"` // graph | mesh
	N        int     `json:"n"`
	Edges    [][]int `json:"edges"` // 1-based switch pairs, in the order/orientation to connect
	Place    []int   `json:"place"` // device d sits on switch Place[d]
	Dims     []int   `json:"dims"`
	Coords   [][]int `json:"coords"` // mesh: coordinates of tile i
	Dist     [][]int `json:"dist"`   // specified number of switch-to-switch links
	DevFirst bool    `json:"devfirst"`
	Order    []int   `json:"order"` // mesh: 1-based tile indices in AddTile order
	NamedEP  bool    `json:"namedep"`
}

type routingCase struct {
	ID   int       `json:"id"`
	Nets []netSpec `json:"nets"` // one network, or two built with the same connector
}

type routingIn struct {
	Cases []routingCase `json:"cases"`
}

type routingFailure struct {
	Case    int    `json:"case"`
	Net     int    `json:"net"`     // 1 or 2 (position in the sequence)
	Reused  bool   `json:"reused"`  // built with a connector that already built a network
	NetKind string `json:"netkind"` // graph | mesh
	Kind    string `json:"kind"`
	From    int    `json:"from,omitempty"` // 1-based start switch
	Dev     int    `json:"dev,omitempty"`  // 1-based device
	Port    string `json:"port,omitempty"`
	Want    int    `json:"want"`
	Got     int    `json:"got"`
	Detail  string `json:"detail,omitempty"`
	Path    []int  `json:"path,omitempty"`
	Panic   string `json:"panic"`           // none | nil_deref | index_range | other
	FirstID int    `json:"first_switch_id"` // what AddSwitch returned for the first switch of this network
}

type routingOut struct {
	Cases     int              `json:"cases"`
	Networks  int              `json:"networks"`
	Walks     int              `json:"walks"`
	Hops      int              `json:"hops"`
	Compared  int              `json:"tables_compared"`
	Failures  []routingFailure `json:"failures"`
	NFailures int              `json:"nfailures"`
	Samples   []any            `json:"samples"`
}

// ---------------------------------------------------------------- recording registrar

// recReg is a modeling.Registrar that remembers everything the connectors build, so the
// driver discovers the real wiring (who owns which port, what a port is linked to) from
// the objects themselves.
type recReg struct {
	eng   timing.Engine
	comps []naming.Named
	ports []messaging.Port
}

func (r *recReg) GetEngine() timing.Engine          { return r.eng }
func (r *recReg) RegisterComponent(c naming.Named)  { r.comps = append(r.comps, c) }
func (r *recReg) RegisterConnection(_ naming.Named) {}
func (r *recReg) RegisterResource(_ naming.Named)   {}
func (r *recReg) RegisterPort(p naming.Named) {
	if mp, ok := p.(messaging.Port); ok {
		r.ports = append(r.ports, mp)
	}
}

type connHaver interface {
	Connection() messaging.Connection
}

func connOf(p messaging.Port) messaging.Connection {
	if ch, ok := p.(connHaver); ok {
		return ch.Connection()
	}
	return nil
}

// ---------------------------------------------------------------- a built network

type devPort struct {
	dev  int // 0-based device
	port messaging.Port
}

type builtNet struct {
	spec     netSpec
	name     string
	switches []*switches.Comp // index = spec switch - 1
	swIndex  map[string]int   // component name -> index
	epNames  map[string]bool
	devPorts []devPort
	byName   map[string]messaging.Port // every registered port of this network
	peers    map[string]messaging.Port // port name -> port at the other end of its link
	firstID  int                       // id AddSwitch returned for the first switch
	panicMsg string                    // establishing the routes panicked
	missing  string                    // structural problem found while collecting
	conns    map[messaging.Connection][]messaging.Port
}

var swParam = networkconnector.LinkEndSwitchParameter{
	IncomingBufSize: 1, OutgoingBufSize: 1, NumInputChannel: 1, NumOutputChannel: 1, Latency: 1,
}
var devParam = networkconnector.DeviceToSwitchLinkParameter{
	DeviceEndParam: networkconnector.LinkEndDeviceParameter{IncomingBufSize: 1, OutgoingBufSize: 1,
		NumInputChannel: 1, NumOutputChannel: 1},
	SwitchEndParam: swParam,
	LinkParam:      networkconnector.LinkParameter{IsIdeal: true, Frequency: 1 * timing.GHz},
}
var linkParam = networkconnector.SwitchToSwitchLinkParameter{
	LeftEndParam: swParam, RightEndParam: swParam,
	LinkParam: networkconnector.LinkParameter{IsIdeal: true, Frequency: 1 * timing.GHz},
}

func safely(f func()) (msg string) {
	defer func() {
		if r := recover(); r != nil {
			msg = fmt.Sprintf("%v", r)
			if msg == "" {
				msg = "panic"
			}
		}
	}()
	f()
	return ""
}

func panicClass(msg string) string {
	switch {
	case strings.Contains(msg, "nil pointer dereference"):
		return "nil_deref"
	case strings.Contains(msg, "index out of range"):
		return "index_range"
	}
	return "other"
}

func numPorts(dev int) int { return 1 + dev%2 } // device 0: one port, device 1: two ports, …

func makeDevPorts(name string, dev int) []messaging.Port {
	ps := make([]messaging.Port, numPorts(dev))
	for j := range ps {
		ps[j] = messaging.NewPort(nil, 1, 1, fmt.Sprintf("%s.Dev[%d].Port[%d]", name, dev, j))
	}
	return ps
}

// collect gathers what the registrar saw since the marks into b.
func (b *builtNet) collect(rec *recReg, compMark, portMark int) {
	b.swIndex = map[string]int{}
	b.epNames = map[string]bool{}
	b.byName = map[string]messaging.Port{}
	b.peers = map[string]messaging.Port{}
	b.conns = map[messaging.Connection][]messaging.Port{}
	for _, c := range rec.comps[compMark:] {
		switch t := c.(type) {
		case *switches.Comp:
			b.swIndex[t.Name()] = len(b.switches)
			b.switches = append(b.switches, t)
		case *endpoint.Comp:
			b.epNames[t.Name()] = true
		}
	}
	// ports: those the registrar was told about and those the components own
	add := func(p messaging.Port) {
		if p == nil || b.byName[p.Name()] != nil {
			return
		}
		b.byName[p.Name()] = p
		if c := connOf(p); c != nil {
			b.conns[c] = append(b.conns[c], p)
		}
	}
	for _, p := range rec.ports[portMark:] {
		add(p)
	}
	for _, c := range rec.comps[compMark:] {
		if po, ok := c.(messaging.PortOwner); ok {
			for _, p := range po.Ports() {
				add(p)
			}
		}
	}
	for _, ps := range b.conns {
		if len(ps) == 2 {
			b.peers[ps[0].Name()] = ps[1]
			b.peers[ps[1].Name()] = ps[0]
		}
	}
}

func buildGraph(c *networkconnector.Connector, rec *recReg, name string, ns netSpec) *builtNet {
	b := &builtNet{spec: ns, name: name}
	cm, pm := len(rec.comps), len(rec.ports)
	c.NewNetwork(name)
	ids := make([]int, ns.N) // the connector's own switch ids, as a client would use them
	for i := 0; i < ns.N; i++ {
		ids[i] = c.AddSwitch()
	}
	b.firstID = ids[0]
	devices := func() {
		for d, sw := range ns.Place {
			ps := makeDevPorts(name, d)
			for _, p := range ps {
				b.devPorts = append(b.devPorts, devPort{d, p})
			}
			if ns.NamedEP {
				c.ConnectDeviceWithEPName(fmt.Sprintf("EP[%d]", d), ids[sw-1], ps, devParam)
			} else {
				c.ConnectDevice(ids[sw-1], ps, devParam)
			}
		}
	}
	links := func() {
		for _, e := range ns.Edges {
			c.ConnectSwitches(ids[e[0]-1], ids[e[1]-1], linkParam)
		}
	}
	if ns.DevFirst {
		devices()
		links()
	} else {
		links()
		devices()
	}
	b.panicMsg = safely(func() { c.EstablishRoute() })
	b.collect(rec, cm, pm)
	if len(b.switches) != ns.N {
		b.missing = fmt.Sprintf("%d switch components registered, %d requested", len(b.switches), ns.N)
	}
	return b
}

var swNameRe = regexp.MustCompile(`SW\[(\d+)\]\[(\d+)\]\[(\d+)\]$`)

func buildMesh(c *mesh.Connector, rec *recReg, name string, ns netSpec) *builtNet {
	b := &builtNet{spec: ns, name: name}
	cm, pm := len(rec.comps), len(rec.ports)
	order := ns.Order
	if len(order) == 0 {
		for i := 1; i <= ns.N; i++ {
			order = append(order, i)
		}
	}
	byTile := map[int][]messaging.Port{}
	b.panicMsg = safely(func() {
		c.CreateNetwork(name)
		for _, t := range order {
			ps := makeDevPorts(name, t-1)
			byTile[t] = ps
			co := ns.Coords[t-1]
			c.AddTile([3]int{co[0], co[1], co[2]}, ps)
		}
		c.EstablishNetwork()
	})
	for t := 1; t <= ns.N; t++ {
		for _, p := range byTile[t] {
			b.devPorts = append(b.devPorts, devPort{t - 1, p})
		}
	}
	b.collect(rec, cm, pm)
	// order the switch components by the tile index of the specification
	idx := map[[3]int]int{}
	for i, co := range ns.Coords {
		idx[[3]int{co[0], co[1], co[2]}] = i
	}
	sws := make([]*switches.Comp, ns.N)
	for _, sw := range b.switches {
		m := swNameRe.FindStringSubmatch(sw.Name())
		if m == nil {
			b.missing = "switch name without coordinates: " + sw.Name()
			continue
		}
		x, _ := strconv.Atoi(m[1])
		y, _ := strconv.Atoi(m[2])
		z, _ := strconv.Atoi(m[3])
		i, ok := idx[[3]int{x, y, z}]
		if !ok {
			b.missing = "switch outside the mesh: " + sw.Name()
			continue
		}
		sws[i] = sw
	}
	for i, sw := range sws {
		if sw == nil && b.missing == "" {
			b.missing = fmt.Sprintf("no switch for tile %v", ns.Coords[i])
		}
	}
	b.switches = sws
	b.swIndex = map[string]int{}
	for i, sw := range sws {
		if sw != nil {
			b.swIndex[sw.Name()] = i
		}
	}
	return b
}

// ---------------------------------------------------------------- walking the tables

type walkResult struct {
	kind   string // "" ok
	hops   int    // switch-to-switch links traversed
	path   []int  // 1-based switches visited
	detail string
}

// walk follows the routing tables from switch `from` towards the device port.
func (b *builtNet) walk(from int, dp devPort) (res walkResult) {
	defer func() {
		if r := recover(); r != nil {
			res.kind = "walk_panic"
			res.detail = fmt.Sprintf("%v", r)
		}
	}()
	dst := dp.port.AsRemote()
	wantEP := ""
	if c := connOf(dp.port); c != nil {
		wantEP = c.Name()
	}
	cur := from
	visited := map[int]bool{cur: true}
	res.path = []int{cur + 1}
	for {
		sw := b.switches[cur]
		out := switches.GetRoutingTable(sw).FindPort(dst)
		if out == "" {
			res.kind, res.detail = "no_route", fmt.Sprintf("%s has no route to %s", sw.Name(), dst)
			return
		}
		p := b.byName[string(out)]
		if p == nil || p.Component() == nil || p.Component().Name() != sw.Name() {
			res.kind, res.detail = "foreign_port", fmt.Sprintf("%s routes %s through %s, which is not one of its ports", sw.Name(), dst, out)
			return
		}
		peer := b.peers[p.Name()]
		if peer == nil || peer.Component() == nil {
			res.kind, res.detail = "dangling_port", fmt.Sprintf("%s is not linked to anything", out)
			return
		}
		nextName := peer.Component().Name()
		if b.epNames[nextName] {
			if nextName != wantEP {
				res.kind, res.detail = "wrong_endpoint", fmt.Sprintf("route to %s ends at %s, the port is plugged into %s", dst, nextName, wantEP)
			}
			return
		}
		next, ok := b.swIndex[nextName]
		if !ok {
			res.kind, res.detail = "foreign_port", fmt.Sprintf("%s leads to %s, which is not in this network", out, nextName)
			return
		}
		res.hops++
		res.path = append(res.path, next+1)
		if visited[next] {
			res.kind, res.detail = "loop", fmt.Sprintf("switch %d visited twice on the way to %s", next+1, dst)
			return
		}
		visited[next] = true
		cur = next
	}
}

// dump returns the table contents: switch index -> destination -> output port.
func (b *builtNet) dump(extraDsts []string) map[string]map[string]string {
	out := map[string]map[string]string{}
	for i, sw := range b.switches {
		row := map[string]string{}
		if sw != nil {
			msg := safely(func() {
				t := switches.GetRoutingTable(sw)
				for _, dp := range b.devPorts {
					row[dp.port.Name()] = string(t.FindPort(dp.port.AsRemote()))
				}
				if b.spec.Kind == "graph" { // mesh tables panic on unknown destinations
					for _, d := range extraDsts {
						row[d] = string(t.FindPort(messaging.RemotePort(d)))
					}
				}
			})
			if msg != "" {
				row["<<panic>>"] = msg
			}
		}
		out[strconv.Itoa(i+1)] = row
	}
	return out
}

// ---------------------------------------------------------------- the driver

func routingDriver(raw json.RawMessage) (any, error) {
	var in routingIn
	if err := json.Unmarshal(raw, &in); err != nil {
		return nil, err
	}
	out := &routingOut{Cases: len(in.Cases)}
	perKey := map[string]int{}
	fail := func(f routingFailure) {
		out.NFailures++
		// itemise a bounded number per class of failure, so that one frequent class
		// can never hide another
		k := fmt.Sprintf("%s/%d/%v/%s/%s/%d", f.Kind, f.Net, f.Reused, f.NetKind, f.Panic, f.FirstID)
		perKey[k]++
		if perKey[k] <= 25 {
			out.Failures = append(out.Failures, f)
		}
	}
	checkNet := func(cs routingCase, b *builtNet, pos int, reused bool) bool {
		out.Networks++
		base := routingFailure{Case: cs.ID, Net: pos, Reused: reused, NetKind: b.spec.Kind, Panic: "none", FirstID: b.firstID}
		if b.panicMsg != "" {
			f := base
			f.Kind, f.Detail = "establish_panic", b.panicMsg
			f.Panic = panicClass(b.panicMsg)
			fail(f)
			return false
		}
		if b.missing != "" {
			f := base
			f.Kind, f.Detail = "build", b.missing
			fail(f)
			return false
		}
		for from := 0; from < b.spec.N; from++ {
			for _, dp := range b.devPorts {
				want := b.spec.Dist[from][b.spec.Place[dp.dev]-1]
				r := b.walk(from, dp)
				out.Walks++
				out.Hops += r.hops
				f := base
				f.From, f.Dev, f.Port, f.Want, f.Got, f.Path = from+1, dp.dev+1, dp.port.Name(), want, r.hops, r.path
				if r.kind != "" {
					f.Kind, f.Detail = r.kind, r.detail
					if r.kind == "walk_panic" {
						f.Panic = panicClass(r.detail)
					}
					fail(f)
				} else if r.hops != want {
					f.Kind = "hops"
					f.Detail = fmt.Sprintf("reached the device after %d links, the shortest route has %d", r.hops, want)
					fail(f)
				} else if len(out.Samples) < 6 && r.hops >= 2 {
					out.Samples = append(out.Samples, map[string]any{"kind": b.spec.Kind, "n": b.spec.N, "edges": b.spec.Edges,
						"dims": b.spec.Dims, "from": from + 1, "device_on": b.spec.Place[dp.dev], "path": r.path, "links": r.hops})
				}
			}
		}
		return true
	}
	for _, cs := range in.Cases {
		if len(cs.Nets) == 0 {
			continue
		}
		kind := cs.Nets[0].Kind
		names := []string{"NetA", "NetB"}
		build := func(fresh bool, from int) []*builtNet {
			rec := &recReg{eng: timing.NewSerialEngine()}
			var bs []*builtNet
			if kind == "mesh" {
				c := mesh.NewConnector().WithRegistrar(rec).WithFreq(1 * timing.GHz)
				for i := from; i < len(cs.Nets); i++ {
					bs = append(bs, buildMesh(c, rec, names[i], cs.Nets[i]))
				}
			} else {
				c := networkconnector.MakeConnector().WithRegistrar(rec).WithDefaultFreq(1 * timing.GHz)
				for i := from; i < len(cs.Nets); i++ {
					bs = append(bs, buildGraph(&c, rec, names[i], cs.Nets[i]))
				}
			}
			return bs
		}
		bs := build(false, 0)
		ok := true
		for i, b := range bs {
			ok = checkNet(cs, b, i+1, i > 0) && ok
		}
		if len(cs.Nets) == 2 && ok {
			// the same second network from a connector that has built nothing before
			fresh := build(true, 1)[0]
			if fresh.panicMsg != "" || fresh.missing != "" {
				// a first network that cannot be built is reported by the single-network cases
				continue
			}
			var stale []string
			for _, dp := range bs[0].devPorts {
				stale = append(stale, dp.port.Name())
			}
			got, want := bs[1].dump(stale), fresh.dump(stale)
			out.Compared++
			gj, _ := json.Marshal(got)
			wj, _ := json.Marshal(want)
			if string(gj) != string(wj) {
				detail := ""
				for sw, row := range want {
					for d, o := range row {
						if got[sw][d] != o && detail == "" {
							detail = fmt.Sprintf("switch %s, destination %s: reused connector says %q, fresh connector says %q", sw, d, got[sw][d], o)
						}
					}
				}
				fail(routingFailure{Case: cs.ID, Net: 2, Reused: true, NetKind: kind, Kind: "reuse_table_diff", Detail: detail,
					Panic: "none", FirstID: bs[1].firstID})
			}
		}
	}
	return out, nil
}

func init() {
	reg.Register("routing", routingDriver)
}
