package noc1

import (
	"encoding/json"
	"fmt"
	"sort"

	"github.com/sarchlab/akita/v5/hooking"
	"github.com/sarchlab/akita/v5/messaging"
	"github.com/sarchlab/akita/v5/modeling"
	"github.com/sarchlab/akita/v5/noc/networking/switching/endpoint"
	"github.com/sarchlab/akita/v5/noc/packetization"
	"github.com/sarchlab/akita/v5/timing"

	"verif/harness/internal/reg"
)

// C31: real endpoints. A sending endpoint packetizes messages handed to its device ports;
// the driver takes the flits from its network port. A receiving endpoint gets flits put
// straight into its network port, in the order the specification enumerates, and the
// driver observes what it delivers to its device ports (port hook, i.e. at the moment of
// delivery).

// ---------------------------------------------------------------- scaffolding

// agent owns the device ports (ports call back into their component).
type agent struct {
	*hooking.HookableBase
	*messaging.PortOwnerBase
	name string
}

func newAgent(name string) *agent {
	return &agent{HookableBase: hooking.NewHookableBase(), PortOwnerBase: messaging.NewPortOwnerBase(), name: name}
}
func (a *agent) Name() string                    { return a.name }
func (a *agent) NotifyRecv(_ messaging.Port)     {}
func (a *agent) NotifyPortFree(_ messaging.Port) {}

// wire stands for the link behind a network port; the driver moves the flits itself.
type wire struct {
	*hooking.HookableBase
	name string
}

func (w *wire) Name() string                     { return w.name }
func (w *wire) PlugIn(p messaging.Port)          { p.SetConnection(w) }
func (w *wire) Unplug(_ messaging.Port)          {}
func (w *wire) NotifyAvailable(_ messaging.Port) {}
func (w *wire) NotifySend()                      {}

type delivery struct {
	port string
	meta messaging.MsgMeta
	typ  string
}

// devHook records deliveries into a device port at the moment they happen.
type devHook struct {
	sink func(d delivery)
}

func (h *devHook) Func(ctx hooking.HookCtx) {
	if ctx.Pos != messaging.HookPosPortMsgRecvd {
		return
	}
	p, _ := ctx.Domain.(messaging.Port)
	name := ""
	if p != nil {
		name = p.Name()
	}
	if m, ok := ctx.Item.(messaging.Msg); ok {
		h.sink(delivery{port: name, meta: m.Meta(), typ: fmt.Sprintf("%T", ctx.Item)})
	}
}

type side struct {
	ep   *endpoint.Comp
	net  messaging.Port
	devs []messaging.Port
}

type epConfig struct {
	Flit   int     `json:"flit"`
	O4     int     `json:"o4"`
	InCh   int     `json:"inch"`
	OutCh  int     `json:"outch"`
	NetBuf int     `json:"netbuf"`
	DevBuf int     `json:"devbuf"`
	NDev   int     `json:"ndev"`
	over   float64 // overhead as the spec field wants it
}

func (c *epConfig) norm() {
	if c.Flit <= 0 {
		c.Flit = 4
	}
	if c.InCh <= 0 {
		c.InCh = 1
	}
	if c.OutCh <= 0 {
		c.OutCh = 1
	}
	if c.NetBuf <= 0 {
		c.NetBuf = 1
	}
	if c.DevBuf <= 0 {
		c.DevBuf = 1
	}
	if c.NDev <= 0 {
		c.NDev = 1
	}
	c.over = float64(c.O4) / 4
}

func buildSide(eng timing.Engine, name string, cfg epConfig, onDeliver func(d delivery)) *side {
	ag := newAgent(name + "Dev")
	s := &side{}
	for i := 0; i < cfg.NDev; i++ {
		p := messaging.NewPort(ag, cfg.DevBuf, 4, fmt.Sprintf("%sDev.Port[%d]", name, i))
		if onDeliver != nil {
			p.AcceptHook(&devHook{sink: onDeliver})
		}
		s.devs = append(s.devs, p)
	}
	spec := endpoint.DefaultSpec()
	spec.Freq = 1 * timing.GHz
	spec.FlitByteSize = cfg.Flit
	spec.EncodingOverhead = cfg.over
	spec.NumInputChannels = cfg.InCh
	spec.NumOutputChannels = cfg.OutCh
	s.ep = endpoint.MakeBuilder().
		WithRegistrar(modeling.NewStandaloneRegistrar(eng)).
		WithSpec(spec).
		WithResources(endpoint.Resources{DevicePorts: s.devs}).
		Build(name + "EP")
	s.net = messaging.NewPort(s.ep, cfg.NetBuf, cfg.NetBuf, name+"EP.NetworkPort")
	s.ep.SetNetworkPort(s.net)
	s.ep.SetDefaultSwitchDst(messaging.RemotePort(name + "Switch.Port[0]"))
	(&wire{HookableBase: hooking.NewHookableBase(), name: name + "Wire"}).PlugIn(s.net)
	return s
}

// packetize hands the messages to the sender's device ports (each through the port that is
// its source) and ticks the sender until it is idle; it returns the flits taken from
// the network port, in emission order.
func packetize(s *side, metas []messaging.MsgMeta, maxTicks int) ([]packetization.Flit, string) {
	var flits []packetization.Flit
	next := 0
	idle := 0
	for tick := 0; tick < maxTicks; tick++ {
		for next < len(metas) {
			p := s.devs[0]
			for _, q := range s.devs {
				if q.AsRemote() == metas[next].Src {
					p = q
				}
			}
			if !p.CanSend() {
				break
			}
			p.Send(metas[next])
			next++
		}
		progress := s.ep.Tick()
		got := 0
		for {
			m := s.net.RetrieveOutgoing()
			if m == nil {
				break
			}
			f, ok := m.(packetization.Flit)
			if !ok {
				return flits, fmt.Sprintf("network port sent a %T, not a flit", m)
			}
			flits = append(flits, f)
			got++
		}
		if !progress && got == 0 && next == len(metas) {
			idle++
			if idle >= 3 {
				return flits, ""
			}
		} else {
			idle = 0
		}
	}
	return flits, fmt.Sprintf("sender still busy after %d ticks", maxTicks)
}

func sameMeta(a, b messaging.MsgMeta) bool { return a == b }

// ---------------------------------------------------------------- flit counts (+ round trip)

type countCase struct {
	Bytes int `json:"bytes"`
	O4    int `json:"o4"`
	Flit  int `json:"flit"`
	Flits int `json:"flits"` // specified
	ID    int `json:"id"`
}

type countIn struct {
	Cases []countCase `json:"cases"`
	OutCh int         `json:"outch"`
	InCh  int         `json:"inch"`
	Burst int         `json:"burst"` // messages handed over before the sender ticks
}

type countFailure struct {
	Case   int    `json:"case"`
	Kind   string `json:"kind"`
	Bytes  int    `json:"bytes"`
	O4     int    `json:"o4"`
	Flit   int    `json:"flit"`
	Want   int    `json:"want"`
	Got    int    `json:"got"`
	Detail string `json:"detail,omitempty"`
}

type countOut struct {
	Cases     int            `json:"cases"`
	Flits     int            `json:"flits"`
	RoundTrip int            `json:"roundtrips"`
	Failures  []countFailure `json:"failures"`
	NFailures int            `json:"nfailures"`
	Samples   []any          `json:"samples"`
}

func countDriver(raw json.RawMessage) (any, error) {
	var in countIn
	if err := json.Unmarshal(raw, &in); err != nil {
		return nil, err
	}
	if in.Burst <= 0 {
		in.Burst = 1
	}
	out := &countOut{Cases: len(in.Cases)}
	perKind := map[string]int{}
	fail := func(c countCase, kind string, got int, detail string) {
		out.NFailures++
		perKind[kind]++
		if perKind[kind] <= 25 {
			out.Failures = append(out.Failures, countFailure{Case: c.ID, Kind: kind, Bytes: c.Bytes, O4: c.O4, Flit: c.Flit,
				Want: c.Flits, Got: got, Detail: detail})
		}
	}
	groups := map[[2]int][]countCase{}
	var keys [][2]int
	for _, c := range in.Cases {
		k := [2]int{c.O4, c.Flit}
		if _, ok := groups[k]; !ok {
			keys = append(keys, k)
		}
		groups[k] = append(groups[k], c)
	}
	sort.Slice(keys, func(i, j int) bool {
		return keys[i][0] < keys[j][0] || (keys[i][0] == keys[j][0] && keys[i][1] < keys[j][1])
	})
	nextID := uint64(1 << 40)
	for _, k := range keys {
		cfg := epConfig{Flit: k[1], O4: k[0], InCh: in.InCh, OutCh: in.OutCh, NetBuf: 8, DevBuf: 4, NDev: 2}
		cfg.norm()
		eng := timing.NewSerialEngine()
		var delivered []delivery
		snd := buildSide(eng, "S", cfg, nil)
		rcv := buildSide(eng, "R", cfg, func(d delivery) { delivered = append(delivered, d) })
		cs := groups[k]
		for i := 0; i < len(cs); i += in.Burst {
			chunk := cs[i:min(i+in.Burst, len(cs))]
			metas := make([]messaging.MsgMeta, len(chunk))
			budget := 64
			for j, c := range chunk {
				nextID++
				metas[j] = messaging.MsgMeta{ID: nextID, Src: snd.devs[j%len(snd.devs)].AsRemote(), Dst: rcv.devs[(i+j)%len(rcv.devs)].AsRemote(),
					TrafficBytes: c.Bytes, TrafficClass: fmt.Sprintf("class%d", (i+j)%3), RspTo: uint64(c.ID % 2 * 77)}
				budget += 2*c.Bytes/c.Flit + 8
			}
			var flits []packetization.Flit
			var perr string
			if msg := safely(func() { flits, perr = packetize(snd, metas, budget) }); msg != "" {
				fail(chunk[0], "panic", 0, "sending: "+msg)
				break
			}
			if perr != "" {
				fail(chunk[0], "sender_stuck", len(flits), perr)
				break
			}
			out.Flits += len(flits)
			byMsg := map[uint64][]packetization.Flit{}
			for _, f := range flits {
				byMsg[f.Msg.ID] = append(byMsg[f.Msg.ID], f)
			}
			known := map[uint64]bool{}
			for j, c := range chunk {
				known[metas[j].ID] = true
				fs := byMsg[metas[j].ID]
				if len(fs) != c.Flits {
					fail(c, "flit_count", len(fs), fmt.Sprintf("%d traffic bytes, overhead %d/4, flit size %d: %d flits emitted, the encoded size requires %d",
						c.Bytes, c.O4, c.Flit, len(fs), c.Flits))
				} else if len(out.Samples) < 4 && c.Flits > 1 && c.O4 > 0 {
					out.Samples = append(out.Samples, map[string]any{"bytes": c.Bytes, "overhead_quarters": c.O4, "flit_size": c.Flit, "flits": len(fs)})
				}
				for _, f := range fs {
					if !sameMeta(f.Msg, metas[j]) {
						fail(c, "flit_wrong_msg", len(fs), fmt.Sprintf("flit carries %+v, message is %+v", f.Msg, metas[j]))
						break
					}
				}
			}
			for id, fs := range byMsg {
				if !known[id] {
					fail(chunk[0], "flit_unknown_msg", len(fs), fmt.Sprintf("%d flits carry unknown message id %d", len(fs), id))
				}
			}
			// round trip: the flits, as emitted, into the receiving endpoint
			delivered = delivered[:0]
			early := ""
			rtErr := safely(func() {
				pos, idle := 0, 0
				for tick := 0; tick < 2*len(flits)+64 && idle < 4; tick++ {
					for pos < len(flits) && rcv.net.CanDeliver() {
						rcv.net.Deliver(flits[pos])
						pos++
					}
					before := len(delivered)
					progress := rcv.ep.Tick()
					for _, d := range delivered[before:] {
						// complete only if all flits of that message have been handed over
						rem := 0
						for _, f := range flits[pos:] {
							if f.Msg.ID == d.meta.ID {
								rem++
							}
						}
						if rem > 0 && early == "" {
							early = fmt.Sprintf("message %d delivered while %d of its flits had not arrived", d.meta.ID, rem)
						}
					}
					for _, p := range rcv.devs {
						for p.RetrieveIncoming() != nil {
						}
					}
					if !progress && pos == len(flits) {
						idle++
					} else {
						idle = 0
					}
				}
			})
			out.RoundTrip += len(chunk)
			if rtErr != "" {
				fail(chunk[0], "panic", 0, "receiving: "+rtErr)
				break
			}
			if early != "" {
				fail(chunk[0], "rt_early", 0, early)
			}
			for j, c := range chunk {
				n := 0
				for _, d := range delivered {
					if d.meta.ID == metas[j].ID {
						n++
						if !sameMeta(d.meta, metas[j]) || d.port != string(metas[j].Dst) {
							fail(c, "rt_corrupt", n, fmt.Sprintf("delivered %+v on %s, sent %+v", d.meta, d.port, metas[j]))
						}
					}
				}
				if n == 0 {
					fail(c, "rt_missing", 0, "the message never came out of the receiving endpoint")
				} else if n > 1 {
					fail(c, "rt_duplicate", n, "the message was delivered more than once")
				}
			}
			for _, d := range delivered {
				if !known[d.meta.ID] {
					fail(chunk[0], "rt_unknown", 0, fmt.Sprintf("delivered an unknown message %+v", d.meta))
				}
			}
		}
	}
	return out, nil
}

// ---------------------------------------------------------------- reassembly

type asmRun struct {
	ID     int     `json:"id"`
	Shape  []int   `json:"shape"`
	Order  [][]int `json:"order"` // [m, i] 1-based: i-th flit of message m
	InCh   int     `json:"inch"`
	NetBuf int     `json:"netbuf"`
	DevBuf int     `json:"devbuf"`
	NDev   int     `json:"ndev"`
	Gaps   []int   `json:"gaps"`  // ticks to wait before handing over flit k (0: same tick if room)
	Drain  int     `json:"drain"` // device ports are emptied every Drain ticks
	Mode   string  `json:"mode"`  // tick | engine
	Twin   bool    `json:"twin"`  // messages 1 and 2 identical except for their ID
}

type asmResult struct {
	ID     int     `json:"id"`
	Events [][]any `json:"events"` // ["a", m, i] | ["d", m] | ["x", m, detail]
	Error  string  `json:"error,omitempty"`
	Ticks  int     `json:"ticks"`
}

type asmIn struct {
	Runs []asmRun `json:"runs"`
}

type asmOut struct {
	Runs    []asmResult `json:"runs"`
	Flits   int         `json:"flits"`
	Samples []any       `json:"samples"`
}

func asmOne(run asmRun) (res asmResult) {
	res.ID = run.ID
	defer func() {
		if r := recover(); r != nil {
			res.Error = fmt.Sprintf("panic: %v", r)
		}
	}()
	cfg := epConfig{Flit: 4, O4: 0, InCh: run.InCh, OutCh: 2, NetBuf: run.NetBuf, DevBuf: run.DevBuf, NDev: run.NDev}
	cfg.norm()
	eng := timing.NewSerialEngine()
	scfg := cfg
	scfg.NetBuf, scfg.NDev = 4, 2
	snd := buildSide(timing.NewSerialEngine(), "S", scfg, nil)
	metas := make([]messaging.MsgMeta, len(run.Shape))
	idOf := map[uint64]int{}
	var rcv *side
	rcv = buildSide(eng, "R", cfg, func(d delivery) {
		m, ok := idOf[d.meta.ID]
		switch {
		case !ok:
			res.Events = append(res.Events, []any{"x", 0, fmt.Sprintf("unknown message %+v delivered on %s", d.meta, d.port)})
		case !sameMeta(d.meta, metas[m-1]) || d.port != string(metas[m-1].Dst):
			res.Events = append(res.Events, []any{"x", m, fmt.Sprintf("delivered %+v on %s, the message was %+v", d.meta, d.port, metas[m-1])})
		default:
			res.Events = append(res.Events, []any{"d", m})
		}
	})
	base := uint64(run.ID)*16 + 1<<32
	for m := range run.Shape {
		k := m
		if run.Twin && m == 1 {
			k = 0 // same source, destination, size, class as message 1; only the ID differs
		}
		bytes := 4*run.Shape[m] - k%2 // shape[m] flits of 4 bytes, last one possibly not full
		metas[m] = messaging.MsgMeta{ID: base + uint64(m), Src: snd.devs[k%2].AsRemote(), Dst: rcv.devs[k%len(rcv.devs)].AsRemote(),
			TrafficBytes: bytes, TrafficClass: fmt.Sprintf("class%d", k), RspTo: uint64(k * 5)}
		idOf[metas[m].ID] = m + 1
	}
	flits, perr := packetize(snd, metas, 200)
	if perr != "" {
		res.Error = "sender: " + perr
		return
	}
	byMsg := map[int][]packetization.Flit{}
	for _, f := range flits {
		byMsg[idOf[f.Msg.ID]] = append(byMsg[idOf[f.Msg.ID]], f)
	}
	for m, n := range run.Shape {
		if len(byMsg[m+1]) != n {
			res.Error = fmt.Sprintf("sender: message %d (%d bytes, flit size 4, no overhead) became %d flits, not %d", m+1, metas[m].TrafficBytes, len(byMsg[m+1]), n)
			return
		}
	}
	pick := func(k int) packetization.Flit { return byMsg[run.Order[k][0]][run.Order[k][1]-1] }
	gap := func(k int) int {
		if k < len(run.Gaps) {
			return run.Gaps[k]
		}
		return 0
	}
	drainAll := func() {
		for _, p := range rcv.devs {
			for p.RetrieveIncoming() != nil {
			}
		}
	}
	if run.Drain <= 0 {
		run.Drain = 1
	}
	pos := 0
	if run.Mode == "engine" {
		// the real serial engine runs the endpoint to quiescence after every group of arrivals
		for round := 0; round < 400; round++ {
			if pos < len(run.Order) {
				first := true
				for pos < len(run.Order) && rcv.net.CanDeliver() && (first || gap(pos) == 0) {
					rcv.net.Deliver(pick(pos))
					res.Events = append(res.Events, []any{"a", run.Order[pos][0], run.Order[pos][1]})
					pos++
					first = false
				}
			}
			before := len(res.Events)
			if err := eng.Run(); err != nil {
				res.Error = "engine: " + err.Error()
				return
			}
			drainAll()
			if err := eng.Run(); err != nil {
				res.Error = "engine: " + err.Error()
				return
			}
			res.Ticks++
			if pos == len(run.Order) && len(res.Events) == before {
				drainAll()
				return
			}
		}
		res.Error = "receiver did not become idle"
		return
	}
	wait := gap(0)
	idle := 0
	for tick := 0; tick < 400; tick++ {
		res.Ticks = tick + 1
		if wait > 0 {
			wait--
		} else {
			for pos < len(run.Order) && wait == 0 && rcv.net.CanDeliver() {
				rcv.net.Deliver(pick(pos))
				res.Events = append(res.Events, []any{"a", run.Order[pos][0], run.Order[pos][1]})
				pos++
				wait = gap(pos)
			}
		}
		progress := rcv.ep.Tick()
		if tick%run.Drain == 0 {
			drainAll()
		}
		if !progress && pos == len(run.Order) {
			idle++
			if idle > run.Drain+3 {
				return
			}
		} else {
			idle = 0
		}
	}
	res.Error = "receiver did not become idle"
	return
}

func asmDriver(raw json.RawMessage) (any, error) {
	var in asmIn
	if err := json.Unmarshal(raw, &in); err != nil {
		return nil, err
	}
	out := &asmOut{}
	for _, run := range in.Runs {
		r := asmOne(run)
		out.Flits += len(run.Order)
		out.Runs = append(out.Runs, r)
	}
	return out, nil
}

func init() {
	reg.Register("epcount", countDriver)
	reg.Register("epasm", asmDriver)
}
