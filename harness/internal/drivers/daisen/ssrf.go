package daisen

import (
	"bytes"
	"context"
	"encoding/binary"
	"encoding/json"
	"errors"
	"fmt"
	"net"
	"net/http"
	"net/http/httptest"
	"net/url"
	"os"
	"path/filepath"
	"regexp"
	"strings"
	"sync"
	"time"

	"github.com/sarchlab/akita/v5/daisen2"

	"verif/harness/internal/reg"
)

// ---------------------------------------------------------------- C38
//
// A case of SSRF.tla: a chain of hops (URLs whose host is an address literal or
// a name with a scripted sequence of DNS answers), the AllowPrivate flag and
// the mode (direct | through the configured proxy). The driver provides the
// world around the real server code: a DNS server the process-wide resolver is
// pointed at, a listener on every local address, and (proxy mode) a proxy.

type ssrfHop struct {
	URL     string     `json:"url"`     // with the port already filled in
	Name    string     `json:"name"`    // host name to script in the DNS ("" for literals)
	Answers [][]string `json:"answers"` // one set per lookup; the last one repeats
}

type ssrfCase struct {
	ID    int       `json:"id"`
	Allow bool      `json:"allow"`
	Hops  []ssrfHop `json:"hops"`
}

type ssrfInput struct {
	Mode      string     `json:"mode"` // direct | proxy
	ProxyPort int        `json:"proxy_port"`
	Port      int        `json:"port"` // 0: discovery run (report addresses and a free port pair)
	TimeoutMS int        `json:"timeout_ms"`
	Cases     []ssrfCase `json:"cases"`
}

type ssrfContact struct {
	Flow string `json:"flow"`
	IP   string `json:"ip"`   // destination address the peer connected to (normalised)
	Path string `json:"path"` // request path, "" for a bare connection
}

type ssrfDial struct {
	Flow    string `json:"flow"`
	Addr    string `json:"addr"`    // address the dialer tried
	IP      string `json:"ip"`      // normalised
	Outcome string `json:"outcome"` // connected | attempted
}

type ssrfHanded struct {
	Flow    string `json:"flow"`
	Target  string `json:"target"`  // request URI the proxy received
	Host    string `json:"host"`    // its host, lower case, without port and brackets
	Lookups int    `json:"lookups"` // lookups of that host name seen by the DNS so far
}

type ssrfLayer struct {
	Hop      int    `json:"hop"`
	Guard    string `json:"guard"`     // "" = accepted, else the refusal
	DialErr  string `json:"dial_err"`  // "" = connected
	DialKind string `json:"dial_kind"` // connected | attempted | refused | unparsable
	DialIP   string `json:"dial_ip"`
}

type ssrfResult struct {
	ID       int           `json:"id"`
	Layers   []ssrfLayer   `json:"layers"`
	Contacts []ssrfContact `json:"contacts"`
	Dials    []ssrfDial    `json:"dials"`
	Handed   []ssrfHanded  `json:"handed"`
	Models   int           `json:"models_status"`
	Chat     int           `json:"chat_status"`
	ChatBody string        `json:"chat_body,omitempty"`
}

type ssrfOutput struct {
	Port    int          `json:"port"`
	Pub     string       `json:"pub"`
	ULA     string       `json:"ula"`
	LL6     string       `json:"ll6"`
	LLZone  string       `json:"ll_zone"`
	V6      bool         `json:"v6"`
	Results []ssrfResult `json:"results"`
	DNSSeen int          `json:"dns_queries"`
}

func normIP(ip net.IP) string {
	if v4 := ip.To4(); v4 != nil {
		return v4.String()
	}
	return ip.String()
}

// ---- the world

type world struct {
	mu      sync.Mutex
	flow    string
	cur     *ssrfCase
	res     *ssrfResult
	names   map[string][][]string
	countA  map[string]int
	count6  map[string]int
	queries int
}

func (w *world) setFlow(f string) {
	w.mu.Lock()
	w.flow = f
	for k := range w.countA {
		w.countA[k] = 0
		w.count6[k] = 0
	}
	w.mu.Unlock()
}

// answer returns the addresses of the given family for the n-th lookup of name.
func (w *world) answer(name string, v6 bool) (ips []net.IP, known bool) {
	w.mu.Lock()
	defer w.mu.Unlock()
	w.queries++
	sets, ok := w.names[name]
	if !ok || len(sets) == 0 {
		return nil, false
	}
	cnt := w.countA
	if v6 {
		cnt = w.count6
	}
	k := cnt[name]
	cnt[name] = k + 1
	if k >= len(sets) {
		k = len(sets) - 1
	}
	for _, s := range sets[k] {
		ip := net.ParseIP(s)
		if ip == nil {
			continue
		}
		mapped := strings.HasPrefix(strings.ToLower(s), "::ffff:")
		is4 := ip.To4() != nil && !mapped
		if v6 && !is4 {
			ips = append(ips, ip.To16())
		}
		if !v6 && is4 {
			ips = append(ips, ip.To4())
		}
	}
	return ips, true
}

func (w *world) lookups(name string) int {
	w.mu.Lock()
	defer w.mu.Unlock()
	if w.countA[name] > w.count6[name] {
		return w.countA[name]
	}
	return w.count6[name]
}

func serveDNS(pc net.PacketConn, w *world) {
	buf := make([]byte, 1500)
	for {
		n, from, err := pc.ReadFrom(buf)
		if err != nil {
			return
		}
		q := buf[:n]
		if n < 12 {
			continue
		}
		// question name
		i := 12
		var labels []string
		for i < n && q[i] != 0 {
			l := int(q[i])
			if l > 63 || i+1+l > n {
				break
			}
			labels = append(labels, string(q[i+1:i+1+l]))
			i += 1 + l
		}
		if i+5 > n {
			continue
		}
		qend := i + 5
		qtype := binary.BigEndian.Uint16(q[i+1 : i+3])
		name := strings.ToLower(strings.Join(labels, "."))
		var ips []net.IP
		known := false
		switch qtype {
		case 1:
			ips, known = w.answer(name, false)
		case 28:
			ips, known = w.answer(name, true)
		default:
			w.mu.Lock()
			_, known = w.names[name]
			w.mu.Unlock()
		}
		resp := make([]byte, 0, 512)
		resp = append(resp, q[0], q[1], 0x84, 0x00) // response, authoritative
		if !known {
			resp[3] = 0x03 // NXDOMAIN
		}
		resp = append(resp, 0, 1)
		resp = binary.BigEndian.AppendUint16(resp, uint16(len(ips)))
		resp = append(resp, 0, 0, 0, 0)
		resp = append(resp, q[12:qend]...)
		for _, ip := range ips {
			resp = append(resp, 0xc0, 0x0c)
			resp = binary.BigEndian.AppendUint16(resp, qtype)
			resp = append(resp, 0, 1, 0, 0, 0, 0) // class IN, TTL 0
			resp = binary.BigEndian.AppendUint16(resp, uint16(len(ip)))
			resp = append(resp, ip...)
		}
		_, _ = pc.WriteTo(resp, from)
	}
}

// recListener records the destination address of every accepted connection.
type recListener struct {
	net.Listener
	w *world
}

func (l recListener) Accept() (net.Conn, error) {
	c, err := l.Listener.Accept()
	if err == nil {
		if ta, ok := c.LocalAddr().(*net.TCPAddr); ok {
			l.w.mu.Lock()
			if l.w.res != nil {
				l.w.res.Contacts = append(l.w.res.Contacts, ssrfContact{Flow: l.w.flow, IP: normIP(ta.IP)})
			}
			l.w.mu.Unlock()
		}
	}
	return c, err
}

const okBody = `{"data":[{"id":"model-a"}],"choices":[{"message":{"role":"assistant","content":"ok"}}]}`

// origin plays every HTTP endpoint: /hopK/... redirects to hop K+1 when the case has one.
func (w *world) origin(rw http.ResponseWriter, r *http.Request) {
	w.mu.Lock()
	cur := w.cur
	if w.res != nil {
		ip := ""
		if la, ok := r.Context().Value(http.LocalAddrContextKey).(*net.TCPAddr); ok {
			ip = normIP(la.IP)
		}
		w.res.Contacts = append(w.res.Contacts, ssrfContact{Flow: w.flow, IP: ip, Path: r.URL.Path + "?" + r.URL.RawQuery})
	}
	w.mu.Unlock()
	w.reply(rw, r.URL.Path, cur)
}

func (w *world) reply(rw http.ResponseWriter, path string, cur *ssrfCase) {
	if cur != nil {
		for k := 0; k+1 < len(cur.Hops); k++ {
			if strings.HasPrefix(path, fmt.Sprintf("/hop%d/", k+1)) {
				rw.Header().Set("Location", cur.Hops[k+1].URL)
				rw.WriteHeader(http.StatusTemporaryRedirect)
				return
			}
		}
	}
	rw.Header().Set("Content-Type", "application/json")
	_, _ = rw.Write([]byte(okBody))
}

// proxy records what it is asked to fetch and answers as the origin would.
func (w *world) proxy(rw http.ResponseWriter, r *http.Request) {
	host := strings.ToLower(r.URL.Hostname())
	w.mu.Lock()
	cur := w.cur
	flow := w.flow
	w.mu.Unlock()
	h := ssrfHanded{Flow: flow, Target: r.RequestURI, Host: host, Lookups: w.lookups(host)}
	w.mu.Lock()
	if w.res != nil {
		w.res.Handed = append(w.res.Handed, h)
	}
	w.mu.Unlock()
	if r.Method == http.MethodConnect {
		http.Error(rw, "no tunnels", http.StatusBadGateway)
		return
	}
	w.reply(rw, r.URL.Path, cur)
}

func localAddresses() (pub, ula, ll6, zone string) {
	ifs, _ := net.Interfaces()
	for _, ifc := range ifs {
		addrs, _ := ifc.Addrs()
		for _, a := range addrs {
			ipn, ok := a.(*net.IPNet)
			if !ok {
				continue
			}
			ip := ipn.IP
			if v4 := ip.To4(); v4 != nil {
				// public class by the statement's own ranges (not the implementation's predicate)
				if v4[0] == 127 || v4[0] == 10 || v4[0] == 0 || (v4[0] == 172 && v4[1]&0xf0 == 16) ||
					(v4[0] == 192 && v4[1] == 168) || (v4[0] == 169 && v4[1] == 254) || v4[0] >= 224 ||
					(v4[0] == 100 && v4[1]&0xc0 == 64) {
					continue
				}
				if pub == "" {
					pub = v4.String()
				}
				continue
			}
			switch {
			case ip[0]&0xfe == 0xfc && ula == "":
				ula = ip.String()
			case ip[0] == 0xfe && ip[1]&0xc0 == 0x80 && ll6 == "":
				ll6, zone = ip.String(), ifc.Name
			}
		}
	}
	return
}

func dialKind(err error) (kind, addr string) {
	if err == nil {
		return "connected", ""
	}
	var op *net.OpError
	if errors.As(err, &op) && op.Op == "dial" && op.Addr != nil {
		return "attempted", op.Addr.String()
	}
	return "refused", ""
}

func ipOfAddr(addr string) string {
	h, _, err := net.SplitHostPort(addr)
	if err != nil {
		h = addr
	}
	if i := strings.IndexByte(h, '%'); i >= 0 {
		h = h[:i]
	}
	if ip := net.ParseIP(h); ip != nil {
		return normIP(ip)
	}
	return h
}

// transportAddr is the host:port net/http dials for u (http only).
func transportAddr(u *url.URL) string {
	port := u.Port()
	if port == "" {
		port = map[string]string{"http": "80", "https": "443"}[u.Scheme]
	}
	return net.JoinHostPort(u.Hostname(), port)
}

var dialTextRe = regexp.MustCompile(`dial tcp[46]? ((?:\[[^\]]+\]|[0-9.]+):\d+)`)

func runSSRF(raw json.RawMessage) (any, error) {
	var in ssrfInput
	if err := json.Unmarshal(raw, &in); err != nil {
		return nil, err
	}
	out := ssrfOutput{}
	out.Pub, out.ULA, out.LL6, out.LLZone = localAddresses()
	if in.Port == 0 {
		// discovery: a port that is free on every local address, v4 and v6
		l4, err := net.Listen("tcp4", "0.0.0.0:0")
		if err != nil {
			return nil, err
		}
		out.Port = l4.Addr().(*net.TCPAddr).Port
		l4.Close()
		if l6, err := net.Listen("tcp6", fmt.Sprintf("[::]:%d", out.Port)); err == nil {
			out.V6 = true
			l6.Close()
		}
		return out, nil
	}
	if in.TimeoutMS == 0 {
		in.TimeoutMS = 120
	}
	timeout := time.Duration(in.TimeoutMS) * time.Millisecond
	if in.Mode != "proxy" {
		for _, k := range []string{"HTTP_PROXY", "http_proxy", "HTTPS_PROXY", "https_proxy", "ALL_PROXY", "all_proxy", "NO_PROXY", "no_proxy"} {
			os.Unsetenv(k)
		}
	}
	w := &world{names: map[string][][]string{}, countA: map[string]int{}, count6: map[string]int{}}

	// DNS
	pc, err := net.ListenPacket("udp4", "127.0.0.1:0")
	if err != nil {
		return nil, err
	}
	defer pc.Close()
	go serveDNS(pc, w)
	dnsAddr := pc.LocalAddr().String()
	net.DefaultResolver = &net.Resolver{PreferGo: true, Dial: func(ctx context.Context, network, _ string) (net.Conn, error) {
		return (&net.Dialer{}).DialContext(ctx, "udp4", dnsAddr)
	}}

	// listeners on every local address
	out.Port = in.Port
	srv := &http.Server{Handler: http.HandlerFunc(w.origin)}
	l4, err := net.Listen("tcp4", fmt.Sprintf("0.0.0.0:%d", in.Port))
	if err != nil {
		return nil, fmt.Errorf("listener: %w", err)
	}
	go srv.Serve(recListener{l4, w})
	if l6, err := net.Listen("tcp6", fmt.Sprintf("[::]:%d", in.Port)); err == nil {
		out.V6 = true
		go srv.Serve(recListener{l6, w})
	}
	defer srv.Close()
	if in.Mode == "proxy" {
		lp, err := net.Listen("tcp4", fmt.Sprintf("127.0.0.1:%d", in.ProxyPort))
		if err != nil {
			return nil, fmt.Errorf("proxy listener: %w", err)
		}
		psrv := &http.Server{Handler: http.HandlerFunc(w.proxy)}
		go psrv.Serve(lp)
		defer psrv.Close()
	}

	// the real replay server, reached through its own handlers
	wd, _ := os.Getwd()
	work := filepath.Join(wd, "ssrf")
	if err := os.MkdirAll(work, 0o755); err != nil {
		return nil, err
	}
	defer os.RemoveAll(work)
	traceFile, err := buildTrace(filepath.Join(work, "trace"), 20, nil, false)
	if err != nil {
		return nil, err
	}
	server := daisen2.NewReplayServer(traceFile, "")
	mux := http.NewServeMux()
	server.RegisterTraceAPIRoutes(mux)
	client := daisen2.VerifGuardedLLMClient()

	post := func(path string, body any) (int, string) {
		b, _ := json.Marshal(body)
		ctx, cancel := context.WithTimeout(context.Background(), 3*timeout)
		defer cancel()
		req := httptest.NewRequest("POST", path, bytes.NewReader(b)).WithContext(ctx)
		rec := httptest.NewRecorder()
		func() {
			defer func() {
				if p := recover(); p != nil {
					rec.Code = 599
					rec.Body.WriteString(fmt.Sprint("panic: ", p))
				}
			}()
			mux.ServeHTTP(rec, req)
		}()
		return rec.Code, clipStr(rec.Body.String(), 300)
	}

	for ci := range in.Cases {
		c := &in.Cases[ci]
		res := ssrfResult{ID: c.ID}
		if c.Allow {
			os.Setenv("DAISEN_ALLOW_PRIVATE_LLM_URL", "1")
		} else {
			os.Unsetenv("DAISEN_ALLOW_PRIVATE_LLM_URL")
		}
		w.mu.Lock()
		w.cur, w.res = c, &res
		w.names = map[string][][]string{}
		w.countA, w.count6 = map[string]int{}, map[string]int{}
		for _, h := range c.Hops {
			if h.Name != "" {
				w.names[strings.ToLower(h.Name)] = h.Answers
			}
		}
		w.mu.Unlock()

		if in.Mode != "proxy" {
			// the layers one by one, in the order the server uses them
			w.setFlow("layers")
			var via []*http.Request
			for hi, h := range c.Hops {
				ly := ssrfLayer{Hop: hi + 1}
				var gerr error
				u, perr := url.Parse(h.URL)
				if hi == 0 {
					gerr = daisen2.VerifGuardLLMURL(h.URL)
				} else if perr == nil {
					req, _ := http.NewRequest("GET", h.URL, nil)
					if req != nil {
						gerr = client.CheckRedirect(req, via)
					}
				}
				if gerr != nil {
					ly.Guard = clipStr(gerr.Error(), 160)
				}
				if perr != nil || u.Host == "" {
					ly.DialKind = "unparsable"
				} else {
					if req, _ := http.NewRequest("GET", h.URL, nil); req != nil {
						via = append(via, req)
					}
					ctx, cancel := context.WithTimeout(context.Background(), timeout)
					conn, derr := daisen2.VerifGuardedDialContext(ctx, "tcp", transportAddr(u))
					cancel()
					kind, addr := dialKind(derr)
					ly.DialKind = kind
					if derr != nil {
						ly.DialErr = clipStr(derr.Error(), 160)
					}
					if conn != nil {
						addr = conn.RemoteAddr().String()
						conn.Close()
					}
					if addr != "" {
						ly.DialIP = ipOfAddr(addr)
						res.Dials = append(res.Dials, ssrfDial{Flow: "layers", Addr: addr, IP: ly.DialIP, Outcome: kind})
					}
				}
				res.Layers = append(res.Layers, ly)
				if gerr != nil || ly.DialKind != "connected" {
					break // the chain stops at the first refusal
				}
			}
			time.Sleep(2 * time.Millisecond) // let the accept loop record the bare connections
		}

		// end to end through the server's own handlers
		client.CloseIdleConnections()
		w.setFlow("models")
		var mbody string
		res.Models, mbody = post("/api/models", map[string]any{"baseURL": c.Hops[0].URL})
		for _, m := range dialTextRe.FindAllStringSubmatch(mbody, -1) {
			res.Dials = append(res.Dials, ssrfDial{Flow: "models", Addr: m[1], IP: ipOfAddr(m[1]), Outcome: "attempted"})
		}
		client.CloseIdleConnections()
		w.setFlow("chat")
		var body string
		res.Chat, body = post("/api/gpt", map[string]any{"baseURL": c.Hops[0].URL, "model": "m",
			"messages": []map[string]any{{"role": "user", "content": "hello"}}})
		res.ChatBody = clipStr(body, 200)
		client.CloseIdleConnections()
		time.Sleep(2 * time.Millisecond)
		// dial attempts surface in the handlers' error texts: "dial tcp <addr>: ..."
		for _, m := range dialTextRe.FindAllStringSubmatch(body, -1) {
			res.Dials = append(res.Dials, ssrfDial{Flow: "chat", Addr: m[1], IP: ipOfAddr(m[1]), Outcome: "attempted"})
		}

		w.mu.Lock()
		w.cur, w.res = nil, nil
		w.mu.Unlock()
		out.Results = append(out.Results, res)
	}
	out.DNSSeen = w.queries
	return out, nil
}

func init() {
	reg.Register("ssrf", runSSRF)
}
